#!/usr/bin/env python3
"""Driver of the runtime-monitoring checks (see DESIGN.md).

  python3 check.py --setup                      build all configurations + harness
  python3 check.py <ID> --tier quick|thorough   run one property's check, write evidence/<ID>.json
  python3 check.py <ID> --replay replays/x.json re-run one recorded violating case

exit 0: held on everything explored (KNOWN-FINDING lines possible); exit 1: a line
"VIOLATION property=<id> replay=<path>" was printed; exit 2: inconclusive / harness failure.
Only the Python standard library is used.
"""
import fcntl
import glob
import json
import os
import re
import shutil
import subprocess
import sys
import time

ROOT = os.path.dirname(os.path.abspath(__file__))
REPO = os.environ.get("VERIF_REPO", "/repo")
BUILD = os.environ.get("VERIF_BUILD", os.path.join(ROOT, "build"))
OUTDIR = os.environ.get("VERIF_OUT", ROOT)  # evidence/ and replays/ go here (scratch runs against mutants use another place)
NCPU = min(16, os.cpu_count() or 4)
GUARD = "SPQLIOS_VERIF"

SAN_ASAN = ("-fsanitize=address,undefined,float-cast-overflow,float-divide-by-zero -fno-sanitize=shift-base -fno-sanitize-recover=all "
            "-fno-omit-frame-pointer")
CFGS = {
    # name: (library/harness C flags, link flags)
    "asan": (SAN_ASAN, SAN_ASAN),
    "tsan": ("-fsanitize=thread -fno-omit-frame-pointer", "-fsanitize=thread"),
    "plain": ("-fno-omit-frame-pointer", ""),
}

sys.path.insert(0, ROOT)
from props import PROPS  # noqa: E402  (per-property run plans and evidence texts)


def log(*a):
    print(*a, flush=True)


# ------------------------------------------------------------------------------------------ build
def sh(cmd, **kw):
    return subprocess.run(cmd, shell=isinstance(cmd, str), stdout=subprocess.PIPE, stderr=subprocess.STDOUT,
                          text=True, **kw)


def build(cfg, extra_defs="", tag=None):
    """Configure+build libspqlios.a (through the repository's own CMake) and the harness for `cfg`.
    Always rebuilds from REPO's current working tree (ninja decides what is stale)."""
    tag = tag or cfg
    d = os.path.join(BUILD, tag)
    os.makedirs(d, exist_ok=True)
    cflags, ldflags = CFGS[cfg]
    with open(os.path.join(BUILD, tag + ".lock"), "w") as lk:
        fcntl.flock(lk, fcntl.LOCK_EX)
        libdir = os.path.join(d, "lib")
        stamp = os.path.join(libdir, ".flags")
        want = f"{REPO}|{cflags}|{extra_defs}"
        if not os.path.exists(os.path.join(libdir, "build.ninja")) or not os.path.exists(stamp) \
                or open(stamp).read() != want:
            shutil.rmtree(libdir, ignore_errors=True)
            r = sh(["cmake", "-S", REPO, "-B", libdir, "-G", "Ninja", "-DENABLE_TESTING=OFF",
                    "-DWARNING_PARANOID=OFF", "-DCMAKE_BUILD_TYPE=RelWithDebInfo",
                    f"-DCMAKE_C_FLAGS={cflags} -D{GUARD} {extra_defs}"])
            if r.returncode != 0:
                raise RuntimeError("cmake configure failed:\n" + r.stdout)
            open(stamp, "w").write(want)
        r = sh(["ninja", "-C", libdir, "libspqlios-static"])
        if r.returncode != 0:
            raise RuntimeError("library build failed:\n" + r.stdout[-4000:])
        lib = os.path.join(libdir, "spqlios", "libspqlios.a")
        # harness
        hdir = os.path.join(d, "h")
        os.makedirs(hdir, exist_ok=True)
        srcs = sorted(glob.glob(os.path.join(ROOT, "harness", "*.c")))
        nin = [f"cflags = -std=gnu11 -O1 -g -DNDEBUG -Wall -Wno-unused-function {cflags} -D{GUARD} {extra_defs} "
               f"-I{REPO} -I{ROOT}/harness",
               f"ldflags = {ldflags}",
               "rule cc", "  command = gcc $cflags -MMD -MF $out.d -c $in -o $out", "  depfile = $out.d",
               "  deps = gcc",
               "rule link", "  command = gcc $ldflags -rdynamic $in -o $out -lquadmath -lm -lpthread -ldl"]
        objs = []
        for s in srcs:
            o = os.path.join(hdir, os.path.basename(s)[:-2] + ".o")
            objs.append(o)
            nin.append(f"build {o}: cc {s}")
        exe = os.path.join(d, "vp_harness")
        nin.append(f"build {exe}: link {' '.join(objs)} {lib}")
        nin.append(f"default {exe}")
        text = "\n".join(nin) + "\n"
        npath = os.path.join(hdir, "build.ninja")
        if not os.path.exists(npath) or open(npath).read() != text:
            open(npath, "w").write(text)
        r = sh(["ninja", "-C", hdir])
        if r.returncode != 0:
            raise RuntimeError("harness build failed:\n" + r.stdout[-6000:])
        return exe


# ------------------------------------------------------------------------------------------ known findings
def load_known():
    open_f, fixed = [], []
    p = os.path.join(ROOT, "known_findings.txt")
    if os.path.exists(p):
        for line in open(p):
            line = line.strip()
            if not line or line.startswith("#"):
                continue
            m = re.match(r"finding:\s+property=(\S+)\s+key=(\S+)\s+--\s+(.*)", line)
            if m:
                open_f.append((m.group(1), m.group(2), m.group(3)))
            elif line.startswith("fixed:"):
                fixed.append(line)
    return open_f, fixed


# ------------------------------------------------------------------------------------------ running
RUNTIME_ENV = {
    "ASAN_OPTIONS": "abort_on_error=1:detect_leaks=0:allocator_may_return_null=1:handle_abort=0:"
                    "detect_stack_use_after_return=0:print_summary=1:malloc_context_size=8",
    "UBSAN_OPTIONS": "print_stacktrace=1:halt_on_error=1:abort_on_error=1",
    "TSAN_OPTIONS": "halt_on_error=0:second_deadlock_stack=1:report_signal_unsafe=0:exitcode=0",
}

HARNESS_FUNC_RE = re.compile(r"^(run_C\d+|main|case_|viol|gb_|zvec_|snap_|oracle_|vp_|call_|do_|chk_|t_|w_)")


def parse_sanitizer(stderr_text):
    """Returns (kind, innermost library function) from an ASan / UBSan report."""
    kind, func = None, "?"
    m = re.search(r"ERROR: AddressSanitizer: ([A-Za-z0-9_\-]+)", stderr_text)
    if m:
        kind = "asan:" + m.group(1)
    else:
        m = re.search(r"runtime error: ([^\n]*)", stderr_text)
        if m:
            msg = m.group(1)
            short = re.sub(r"0x[0-9a-f]+", "", msg)
            short = re.sub(r"-?\d+", "", short)
            short = re.sub(r"[^A-Za-z]+", "-", short).strip("-")[:48]
            kind = "ubsan:" + short
        elif "LeakSanitizer" in stderr_text:
            kind = "leak"
    frames = re.findall(r"#\d+ 0x[0-9a-f]+ in (\S+)", stderr_text)
    for f in frames:
        if f.startswith("__") or f.startswith("_mm") or "interceptor" in f or f in ("memcpy", "memset", "memmove"):
            continue
        if HARNESS_FUNC_RE.match(f):
            break
        func = f
        break
    return kind, func


def parse_valgrind(errtxt):
    """memcheck errors attributed to the VPCASE marker that precedes them. Returns [(idx,key,desc,detail)]."""
    out = []
    cur = None
    lines = errtxt.splitlines()
    i = 0
    while i < len(lines):
        ln = re.sub(r"^(==|\*\*)\d+(==|\*\*) ?", "", lines[i])
        if ln.startswith("VPCASE\t"):
            f = ln.split("\t")
            if len(f) >= 4:
                cur = (int(f[1]), f[2], f[3])
        else:
            m = re.match(r"(Invalid (read|write) of size \d+|Conditional jump or move depends on uninitialised value|"
                         r"Use of uninitialised value of size \d+|Syscall param .* uninitialised|"
                         r"Uninitialised byte\(s\) found during client check request|Invalid free|Mismatched free|"
                         r"Possible data race during (read|write) of size \d+|"
                         r"Source and destination overlap in \w+\((?P<dst>0x[0-9A-Fa-f]+), (?P<src>0x[0-9A-Fa-f]+))", ln)
            if m and cur:
                if m.group(0).startswith("Source and destination") and m.group("dst") == m.group("src"):
                    i += 1
                    continue  # memcpy(dst == src): identical pointers, see DESIGN 2.5
                kind = re.sub(r" of size \d+", "", m.group(1) if not m.group(0).startswith("Source") else "Overlap")
                kind = re.sub(r"[^A-Za-z]+", "-", kind).strip("-")
                func = "?"
                in_harness = False
                j = i + 1
                while j < len(lines) and j < i + 14:
                    fm = re.search(r"(?:at|by) 0x[0-9A-F]+: (\S+)", lines[j])
                    if fm:
                        fn = fm.group(1)
                        if not (fn.startswith("mem") or fn.startswith("__") or fn.startswith("_mm")):
                            if HARNESS_FUNC_RE.match(fn) or fn in ("op_exec", "hash_bytes", "fill_buf", "mix64") or \
                                    re.search(r"\((p_C\d+|common|ops|oracle|lib|q120h|roalloc|main)\.c:\d+\)", lines[j]):
                                in_harness = True
                                break
                            func = fn
                            break
                    j += 1
                if in_harness and "client check request" not in ln:
                    # the harness itself touched undefined bytes (e.g. hashing): the explicit definedness
                    # check (client request) is the monitor for that; not attributed to the library
                    i += 1
                    continue
                out.append((cur[0], f"{cur[1]}|memcheck:{kind}@{func}", cur[2], "\n".join(lines[i:i + 12])))
        i += 1
    return out


class PartResult:
    def __init__(self):
        self.viol = []      # (idx, key, desc, detail)
        self.samples = []   # (idx, key, desc, note)
        self.sums = []      # summary dicts
        self.crashes = []   # (idx, key, desc, kind)
        self.inconclusive = []
        self.tsan_reports = []


def run_part(exe, prop, tier, seed, part, nparts, mode, workdir, timeout, wrapper=None, extra_env=None,
             max_restarts=25):
    """Runs one partition to completion, restarting after sanitizer deaths. Returns PartResult."""
    res = PartResult()
    skip = -1
    attempt = 0
    hung_once = False
    while True:
        logp = os.path.join(workdir, f"{prop}.{mode or 'x'}.{part}.{attempt}.log")
        errp = logp[:-4] + ".err"
        for p in (logp, errp):
            if os.path.exists(p):
                os.remove(p)
        statp = logp[:-4] + ".status"
        cmd = [exe, prop, "--tier", tier, "--seed", str(seed), "--part", f"{part}/{nparts}", "--log", logp,
               "--skip", str(skip), "--status", statp]
        if mode:
            cmd += ["--mode", mode]
        if wrapper:
            cmd = wrapper + cmd + ["--valgrind"]
        env = dict(os.environ)
        env.update(RUNTIME_ENV)
        if extra_env:
            env.update(extra_env)
        t0 = time.time()
        with open(errp, "w") as ef:
            try:
                p = subprocess.run(cmd, stdout=ef, stderr=subprocess.STDOUT, env=env, timeout=timeout)
                rc = p.returncode
            except subprocess.TimeoutExpired:
                rc = "timeout"
        last_done = False
        crash = None
        if os.path.exists(logp):
            for line in open(logp, errors="replace"):
                f = line.rstrip("\n").split("\t")
                if f[0] == "V" and len(f) >= 5:
                    res.viol.append((int(f[1]), f[2], f[3], f[4]))
                elif f[0] == "S" and len(f) >= 4:
                    res.samples.append((int(f[1]), f[2], f[3], f[4] if len(f) > 4 else ""))
                elif f[0] == "SUM":
                    res.sums.append(json.loads(f[1]))
                elif f[0] == "CRASH" and len(f) >= 5:
                    crash = (int(f[1]), f[2], f[3], f[4])
                elif f[0] == "DONE":
                    last_done = True
                elif f[0] == "HFAIL":
                    res.inconclusive.append(f"harness failure in part {part}: {f[1:]}")
        errtxt = open(errp, errors="replace").read() if os.path.exists(errp) else ""
        if crash is None and not last_done and os.path.exists(statp):
            # no CRASH record (death without a signal handler running): fall back to the status mapping
            st = open(statp, "rb").read().split(b"\0")[0].decode(errors="replace").strip().split("\t")
            if len(st) >= 3 and st[0].lstrip("-").isdigit():
                crash = (int(st[0]), st[1], st[2], f"exit:{rc}")
        if "ThreadSanitizer" in errtxt:
            res.tsan_reports.append(errtxt)
        if wrapper and "valgrind" in wrapper[0]:
            res.viol += parse_valgrind(errtxt)
            if rc == 97 and last_done:
                return res
        if rc == 0 and last_done:
            return res
        if rc == "timeout":
            if not hung_once:
                hung_once = True
                attempt += 1
                continue  # re-run once before reporting a hang
            res.inconclusive.append(f"part {part} exceeded the {timeout}s watchdog twice (log {logp})")
            return res
        if rc == 2 or (crash is None and not last_done and "HARNESS-FAIL" in errtxt):
            res.inconclusive.append(f"harness failure in part {part} (rc={rc}): {errtxt[-400:]}")
            return res
        # sanitizer / signal death
        kind, func = parse_sanitizer(errtxt)
        if crash is None or crash[0] < 0:
            res.inconclusive.append(f"part {part} died outside a case (rc={rc}): {errtxt[-600:]}")
            return res
        idx, key, desc, what = crash
        if kind is None:
            kind = what  # e.g. signal:11
        res.crashes.append((idx, f"{key}|{kind}@{func}", desc, errtxt[-3000:]))
        skip = idx
        attempt += 1
        if attempt > max_restarts:
            res.inconclusive.append(f"part {part}: more than {max_restarts} sanitizer deaths")
            return res


def merge_sums(sums):
    out = {"evaluations": 0, "distinct": 0, "distinct_nontrivial": 0, "duplicates": 0, "violations": 0,
           "counters": {}, "gauges": {}, "sets": {}}
    for s in sums:
        for k in ("evaluations", "distinct", "distinct_nontrivial", "duplicates", "violations"):
            out[k] += s.get(k, 0)
        for k, v in s.get("counters", {}).items():
            out["counters"][k] = out["counters"].get(k, 0) + v
        for k, v in s.get("gauges", {}).items():
            out["gauges"][k] = max(out["gauges"].get(k, float("-inf")), v)
        for k, v in s.get("sets", {}).items():
            out["sets"][k] = out["sets"].get(k, 0) + v
    return out


def run_plan(prop, tier, seed, workdir):
    """Executes every run of the property's plan; returns (list of (run, PartResult merged), notes)."""
    from concurrent.futures import ThreadPoolExecutor
    plan = PROPS[prop]["runs"][tier]
    results = []
    for run in plan:
        cfg, mode, nparts = run["cfg"], run.get("mode", ""), run.get("parts", NCPU)
        tag = run.get("tag")
        exe = build(cfg, run.get("defs", ""), tag)
        timeout = run.get("timeout", 900 if tier == "quick" else 7200)
        wrapper = run.get("wrapper")
        rtier = run.get("tier", tier)
        with ThreadPoolExecutor(max_workers=min(NCPU, nparts)) as ex:
            futs = [ex.submit(run_part, exe, prop, rtier, seed, i, nparts, mode, workdir, timeout, wrapper,
                              run.get("env")) for i in range(nparts)]
            parts = [f.result() for f in futs]
        merged = PartResult()
        for p in parts:
            merged.viol += p.viol
            merged.samples += p.samples
            merged.sums += p.sums
            merged.crashes += p.crashes
            merged.inconclusive += p.inconclusive
            merged.tsan_reports += p.tsan_reports
        results.append((run, merged))
    return results


def tsan_dedupe(reports):
    """Deduplicate ThreadSanitizer reports by the pair of innermost library functions."""
    out = {}
    for txt in reports:
        for block in txt.split("WARNING: ThreadSanitizer:")[1:]:
            kind = block.split("(")[0].strip().replace(" ", "-")
            stacks = re.split(r"\n\s*\n", block)
            fn = []
            for st in stacks[:2]:
                frames = re.findall(r"#\d+ (\S+) ", st)
                inner = "?"
                for f in frames:
                    if f.startswith("__tsan") or f.startswith("__interceptor") or f in ("memcpy", "memset"):
                        continue
                    inner = f
                    break
                fn.append(inner)
            key = f"tsan:{kind}@" + "~".join(sorted(fn))
            out.setdefault(key, block[:2500])
    return out


def main():
    args = sys.argv[1:]
    if not args:
        log(__doc__)
        return 2
    if args[0] == "--setup":
        for cfg in CFGS:
            build(cfg)
            log(f"built {cfg}")
        return 0
    prop = args[0]
    if prop not in PROPS:
        log(f"unknown property {prop}")
        return 2
    tier = os.environ.get("VERIF_TIER", "quick")
    replay = None
    i = 1
    while i < len(args):
        if args[i] == "--tier":
            tier = args[i + 1]
            i += 2
        elif args[i] == "--replay":
            replay = args[i + 1]
            i += 2
        else:
            log(f"unknown option {args[i]}")
            return 2
    seed = int(os.environ.get("VERIF_SEED", "1"))
    t0 = time.time()
    workdir = os.path.join(BUILD, "runs", f"{prop}.{tier}.{os.getpid()}")
    os.makedirs(workdir, exist_ok=True)

    if replay:
        rp = json.load(open(replay))
        exe = build(rp["cfg"], rp.get("defs", ""), rp.get("tag"))
        cmd = [exe, prop, "--tier", rp["tier"], "--seed", str(rp["seed"]), "--only", str(rp["idx"])]
        if rp.get("mode"):
            cmd += ["--mode", rp["mode"]]
        env = dict(os.environ)
        env.update(RUNTIME_ENV)
        log("replaying:", " ".join(cmd))
        p = subprocess.run(cmd, env=env, stdout=subprocess.PIPE, stderr=subprocess.STDOUT, text=True)
        log(p.stdout[-6000:])
        reproduced = p.returncode != 0 or any(l.startswith("V\t") for l in p.stdout.splitlines())
        if reproduced:
            log(f"VIOLATION property={prop} replay={replay}")
            return 1
        log(f"OK property={prop} replay did not reproduce a violation on the current tree")
        return 0

    try:
        results = run_plan(prop, tier, seed, workdir)
    except RuntimeError as e:
        log("INCONCLUSIVE build failure:", str(e)[-3000:])
        return 2

    known_open, _fixed = load_known()
    known = {(p, k): what for (p, k, what) in known_open}
    os.makedirs(os.path.join(OUTDIR, "replays"), exist_ok=True)
    violations = {}   # key -> first witness
    inconclusive = []
    all_sums = []
    samples = []
    per_run = []
    informational = []
    for run, r in results:
        if run.get("info"):
            # informational configuration (e.g. another prime set): reported in the evidence, never part of the verdict
            keys = sorted(set([k for (_, k, _, _) in r.viol] + [k for (_, k, _, _) in r.crashes]))
            m = merge_sums(r.sums)
            informational.append(dict(configuration=run.get("defs", "") or run.get("tag", ""), evaluations=m["evaluations"],
                                      violation_keys=keys[:40], violation_classes=len(keys), notes=r.inconclusive[:3]))
            continue
        tsan = tsan_dedupe(r.tsan_reports)
        # tsan reports are attributed by key only (the workload records the entry points in the report stacks)
        for key, block in tsan.items():
            violations.setdefault(f"{run.get('mode','') or run['cfg']}|{key}",
                                  dict(run=run, idx=-1, desc="tsan report", detail=block))
        for (idx, key, desc, detail) in r.viol:
            violations.setdefault(key, dict(run=run, idx=idx, desc=desc, detail=detail))
        for (idx, key, desc, detail) in r.crashes:
            violations.setdefault(key, dict(run=run, idx=idx, desc=desc, detail=detail))
        inconclusive += r.inconclusive
        m = merge_sums(r.sums)
        all_sums.append(m)
        per_run.append(dict(cfg=run["cfg"], mode=run.get("mode", ""), parts=run.get("parts", NCPU),
                            evaluations=m["evaluations"], distinct_nontrivial=m["distinct_nontrivial"],
                            sanitizer_deaths=len(r.crashes), tsan_reports=len(tsan)))
        for (idx, key, desc, note) in r.samples[:12]:
            samples.append(dict(run=f"{run['cfg']}/{run.get('mode','')}", idx=idx, key=key, case=desc, observed=note))
    total = merge_sums(all_sums)

    # required observations (a monitor that observed nothing makes the run inconclusive)
    for name in PROPS[prop].get("require", {}).get(tier, PROPS[prop].get("require", {}).get("all", [])):
        if total["counters"].get(name, 0) == 0 and total["sets"].get(name, 0) == 0:
            inconclusive.append(f"required observation '{name}' was never made")

    n_new = 0
    known_seen = []
    for key, w in sorted(violations.items()):
        if (prop, key) in known:
            log(f"KNOWN-FINDING: property={prop} {known[(prop, key)]} [key={key}]")
            known_seen.append(key)
            continue
        n_new += 1
        safe = re.sub(r"[^A-Za-z0-9_.=-]+", "_", key)[:100]
        rpath = os.path.join(OUTDIR, "replays", f"{prop}-{safe}.json")
        run = w["run"]
        json.dump(dict(property=prop, key=key, cfg=run["cfg"], mode=run.get("mode", ""), tag=run.get("tag"),
                       defs=run.get("defs", ""), tier=run.get("tier", tier), seed=seed, idx=w["idx"],
                       case=w["desc"], detail=w["detail"],
                       replay_cmd=f"python3 check.py {prop} --replay {rpath}"), open(rpath, "w"), indent=1)
        log(f"VIOLATION property={prop} replay={rpath}")
        log(f"  key={key}\n  case={w['desc']}\n  detail={w['detail'][:1500]}")

    P = PROPS[prop]
    cov = dict(
        evaluations=total["evaluations"],
        distinct_nontrivial=total["distinct_nontrivial"],
        distinct=total["distinct"],
        rule=P["rule"],
        samples=samples[:40] if samples else [dict(note="no sample recorded")],
        runs=per_run,
        by_case_class={k[4:]: v for k, v in sorted(total["counters"].items()) if k.startswith("key:")},
        monitors={k: v for k, v in sorted(total["counters"].items()) if not k.startswith("key:")},
        gauges=total["gauges"],
        distinct_sets=total["sets"],
        known_findings_seen=known_seen,
        not_observed=inconclusive,
        informational_configurations=informational,
        exhaustive_subspaces=P.get("exhaustive_subspaces", {}).get(tier, []),
        exhaustive=False,
    )
    if prop == "C07":
        # cross-check the pair table against the symbol table of the freshly built library: an accelerated
        # kernel that is not in the catalogue is reported (information, not a violation)
        try:
            lib = os.path.join(BUILD, "asan", "lib", "spqlios", "libspqlios.a")
            syms = set(l.split()[-1] for l in sh(["nm", "-g", "--defined-only", lib]).stdout.splitlines() if " T " in l)
            acc = sorted(x for x in syms if re.search(r"(_avx|_avx2|_fma|_sse|_avx512)$", x))
            cat = set(l.split("\t")[0] for l in sh([os.path.join(BUILD, "asan", "vp_harness"), "--list-ops"]).stdout.splitlines())
            cov["accelerated_symbols_in_library"] = len(acc)
            cov["uncovered_accelerated_symbols"] = [x for x in acc if x not in cat]
            if cov["uncovered_accelerated_symbols"]:
                log("INFO accelerated symbols without a pair in the catalogue:", " ".join(cov["uncovered_accelerated_symbols"]))
        except Exception as e:  # noqa: BLE001
            cov["uncovered_accelerated_symbols"] = [f"cross-check failed: {e}"]
    ev = dict(property_id=prop, tier=tier, seed=seed, level="exploration", coverage=cov,
              assumptions=P.get("assumptions", []), wall_s=round(time.time() - t0, 2),
              violations=n_new)
    os.makedirs(os.path.join(OUTDIR, "evidence"), exist_ok=True)
    json.dump(ev, open(os.path.join(OUTDIR, "evidence", f"{prop}.json"), "w"), indent=1)

    if n_new:
        return 1
    if inconclusive:
        for s in inconclusive:
            log("INCONCLUSIVE:", s[:1500])
        return 2
    if total["evaluations"] == 0:
        log("INCONCLUSIVE: no case was executed")
        return 2
    shutil.rmtree(workdir, ignore_errors=True)
    log(f"OK property={prop} tier={tier} seed={seed} evaluations={total['evaluations']} "
        f"distinct_nontrivial={total['distinct_nontrivial']} wall={time.time()-t0:.1f}s")
    return 0


if __name__ == "__main__":
    sys.exit(main())
