#include "common.h"
#include <xmmintrin.h>

#include <fcntl.h>
#include <pthread.h>
#include <signal.h>
#include <sys/mman.h>
#include <unistd.h>
#include <valgrind/valgrind.h>

ctx_t G;
int g_dispatch_native = 1;
const char* const disp_name[N_DISP] = {"generic", "native", "avx2-only", "fma-only"};

// hook H1 (guard SPQLIOS_VERIF in /repo/spqlios/commons_private.c)
extern void spqlios_verif_set_cpu_features(int allow_avx2, int allow_fma);
static int dispatch_set_once;
void set_dispatch(int native) {
  // no write when nothing changes: worker threads of the concurrency cases call this with the current value and
  // must not race on the hook's own global (that would be a harness artefact, not a library race)
  if (dispatch_set_once && g_dispatch_native == native) return;
  dispatch_set_once = 1;
  g_dispatch_native = native;
  // 0 generic C, 1 everything the CPU has, 2 avx2 without fma, 3 fma without avx2 (the library gates its
  // conversions / vec_znx / vmp / ntt120 kernels on "avx2" and its FFT / fftvec / reim4 kernels on "fma")
  spqlios_verif_set_cpu_features(native == DISP_NATIVE || native == DISP_AVX2_ONLY, native == DISP_NATIVE || native == DISP_FMA_ONLY);
}

// ---------------------------------------------------------------- PRNG
uint64_t mix64(uint64_t x) {
  x += 0x9E3779B97F4A7C15ull;
  x = (x ^ (x >> 30)) * 0xBF58476D1CE4E5B9ull;
  x = (x ^ (x >> 27)) * 0x94D049BB133111EBull;
  return x ^ (x >> 31);
}
void rng_seed(rng_t* r, uint64_t a, uint64_t b) {
  uint64_t x = mix64(a) ^ mix64(b * 0xD6E8FEB86659FD93ull + 1);
  for (int i = 0; i < 4; i++) {
    x = mix64(x + i);
    r->s[i] = x;
  }
  if (!(r->s[0] | r->s[1] | r->s[2] | r->s[3])) r->s[0] = 1;
}
static inline uint64_t rotl(uint64_t x, int k) { return (x << k) | (x >> (64 - k)); }
uint64_t rng_u64(rng_t* r) {
  uint64_t* s = r->s;
  const uint64_t result = rotl(s[1] * 5, 7) * 9;
  const uint64_t t = s[1] << 17;
  s[2] ^= s[0];
  s[3] ^= s[1];
  s[1] ^= s[2];
  s[0] ^= s[3];
  s[2] ^= t;
  s[3] = rotl(s[3], 45);
  return result;
}
int64_t rng_range(rng_t* r, int64_t lo, int64_t hi) {
  if (hi <= lo) return lo;
  uint64_t span = (uint64_t)hi - (uint64_t)lo + 1;
  if (span == 0) return (int64_t)rng_u64(r);
  return (int64_t)((uint64_t)lo + rng_u64(r) % span);
}
int64_t rng_sbits(rng_t* r, unsigned bits) {
  if (bits == 0) return 0;
  if (bits > 63) bits = 63;
  uint64_t m = (bits == 64) ? ~0ull : ((1ull << bits) - 1);
  uint64_t v = rng_u64(r);
  int64_t x = (int64_t)(v & m);
  return (v >> 63) ? -x : x;
}
double rng_unit(rng_t* r) { return (double)(rng_u64(r) >> 11) * 0x1p-53; }

uint64_t hash_bytes(const void* p, size_t n, uint64_t h) {
  const uint8_t* b = (const uint8_t*)p;
  h ^= 0xcbf29ce484222325ull;
  size_t i = 0;
  for (; i + 8 <= n; i += 8) {
    uint64_t w;
    memcpy(&w, b + i, 8);
    h = mix64(h ^ w);
  }
  uint64_t w = 0;
  if (i < n) memcpy(&w, b + i, n - i);
  h = mix64(h ^ w ^ ((uint64_t)n << 56));
  return h;
}

// ---------------------------------------------------------------- hash sets / counters
typedef struct {
  uint64_t* t;
  size_t cap, n;
} hset_t;
static int hset_add(hset_t* s, uint64_t h) {  // returns 1 if newly inserted
  if (h == 0) h = 1;
  if (s->cap == 0) {
    s->cap = 1024;
    s->t = calloc(s->cap, 8);
  }
  if ((s->n + 1) * 10 > s->cap * 7) {
    size_t oc = s->cap;
    uint64_t* ot = s->t;
    s->cap *= 2;
    s->t = calloc(s->cap, 8);
    s->n = 0;
    for (size_t i = 0; i < oc; i++)
      if (ot[i]) hset_add(s, ot[i]);
    free(ot);
  }
  size_t i = mix64(h) & (s->cap - 1);
  while (s->t[i]) {
    if (s->t[i] == h) return 0;
    i = (i + 1) & (s->cap - 1);
  }
  s->t[i] = h;
  s->n++;
  return 1;
}

#define MAXC 8192
typedef struct {
  char* name;
  uint64_t v;
  double g;
  int kind;  // 0 counter, 1 gauge
} centry_t;
static centry_t ctab[MAXC];
static centry_t* cfind(const char* name, int kind) {
  uint64_t h = hash_bytes(name, strlen(name), kind);
  size_t i = h % MAXC;
  for (size_t probe = 0; probe < MAXC; probe++) {
    centry_t* e = &ctab[i];
    if (!e->name) {
      e->name = strdup(name);
      e->kind = kind;
      e->g = -INFINITY;
      return e;
    }
    if (e->kind == kind && strcmp(e->name, name) == 0) return e;
    i = (i + 1) % MAXC;
  }
  harness_fail("counter table full");
}
void cnt(const char* name, uint64_t add) { cfind(name, 0)->v += add; }
void cntf(const char* fmt_name, uint64_t add, ...) {
  char buf[256];
  va_list ap;
  va_start(ap, add);
  vsnprintf(buf, sizeof buf, fmt_name, ap);
  va_end(ap);
  cnt(buf, add);
}
void gauge_max(const char* name, double v) {
  centry_t* e = cfind(name, 1);
  if (v > e->g) e->g = v;
}
#define MAXSETS 16
static struct {
  char* name;
  hset_t set;
} dsets[MAXSETS];
void distinct_add(const char* setname, uint64_t h) {
  for (int i = 0; i < MAXSETS; i++) {
    if (!dsets[i].name) dsets[i].name = strdup(setname);
    if (strcmp(dsets[i].name, setname) == 0) {
      hset_add(&dsets[i].set, h);
      return;
    }
  }
  harness_fail("too many distinct sets");
}

// ---------------------------------------------------------------- cases
static char cur_key[256];
static char cur_desc[1024];
static char* status_map = 0;  // shared mapping holding the current case (survives any kind of death)
void vp_set_status_file(const char* path) {
  int fd = open(path, O_RDWR | O_CREAT | O_TRUNC, 0644);
  if (fd < 0) return;
  if (ftruncate(fd, 2048) == 0) {
    void* m = mmap(0, 2048, PROT_READ | PROT_WRITE, MAP_SHARED, fd, 0);
    if (m != MAP_FAILED) status_map = (char*)m;
  }
  close(fd);
}
static char cur_note[1024];
static volatile int in_case = 0;
static int64_t cur_idx = -1;
static uint64_t cur_hash;
static rng_t cur_rng;
static hset_t seen_cases, nontrivial_cases, sampled_keys;
static uint64_t n_eval, n_dup, n_viol, n_samples;
static int cur_viols;
static volatile int crash_reported = 0;

int64_t case_index(void) { return cur_idx; }
rng_t* crng(void) { return &cur_rng; }

static void json_escape(FILE* f, const char* s) {
  for (; *s; s++) {
    unsigned char c = (unsigned char)*s;
    if (c == '"' || c == '\\')
      fprintf(f, "\\%c", c);
    else if (c < 0x20)
      fprintf(f, " ");
    else
      fputc(c, f);
  }
}

// a quarter of the cases (chosen by the descriptor hash, hence replayable) place EVERY guarded buffer on a 64-byte
// boundary: the per-buffer misalignments rotate independently, so without this no case would ever see all of its
// buffers aligned at once - the most common situation in real use, and the one an aligned fast path keys on
int g_case_aligned;
// one case in eight places all its guarded buffers next to each other in one arena at ascending addresses (first
// allocated = lowest), one in eight at descending addresses: which of two operands lies lower in memory, and how far
// apart they are, must not matter (code that compares or subtracts pointers of different operands sees both orders)
int g_case_place;
static uint8_t* arena_base;
static const size_t ARENA_SIZE = (size_t)1 << 31;
static size_t arena_lo, arena_hi;
static long arena_live;
static pthread_mutex_t arena_mu = PTHREAD_MUTEX_INITIALIZER;
static uint8_t* arena_take(size_t total) {
  uint8_t* r = 0;
  pthread_mutex_lock(&arena_mu);
  if (!arena_base) {
    void* m = mmap(0, ARENA_SIZE, PROT_READ | PROT_WRITE, MAP_PRIVATE | MAP_ANONYMOUS | MAP_NORESERVE, -1, 0);
    if (m != MAP_FAILED) {
      arena_base = m;
      arena_lo = 0;
      arena_hi = ARENA_SIZE;
    }
  }
  if (arena_base) {
    if (arena_live == 0) {  // nothing of an earlier case is alive: start again from the ends
      arena_lo = 0;
      arena_hi = ARENA_SIZE;
    }
    total = (total + 63) & ~(size_t)63;
    if (arena_hi - arena_lo >= total + 4096) {
      if (g_case_place == 1) {
        r = arena_base + arena_lo;
        arena_lo += total;
      } else {
        arena_hi -= total;
        r = arena_base + arena_hi;
      }
      arena_live++;
    }
  }
  pthread_mutex_unlock(&arena_mu);
  return r;
}
static uint8_t* arena_take_packed(size_t n, size_t al) {
  uint8_t* r = 0;
  pthread_mutex_lock(&arena_mu);
  if (!arena_base) {
    void* m = mmap(0, ARENA_SIZE, PROT_READ | PROT_WRITE, MAP_PRIVATE | MAP_ANONYMOUS | MAP_NORESERVE, -1, 0);
    if (m != MAP_FAILED) arena_base = m;
  }
  if (arena_base) {
    if (arena_live == 0) {
      arena_lo = 4096;  // keep clear of the very first page
      arena_hi = ARENA_SIZE;
    }
    uintptr_t u = ((uintptr_t)(arena_base + arena_lo) + al - 1) & ~(uintptr_t)(al - 1);
    if (u + n + 4096 <= (uintptr_t)(arena_base + arena_hi)) {
      r = (uint8_t*)u;
      arena_lo = (size_t)(u + n - (uintptr_t)arena_base);
      arena_live++;
    }
  }
  pthread_mutex_unlock(&arena_mu);
  return r;
}
static unsigned case_csr;
static unsigned short case_cw;
int case_begin(const char* key, const char* fmt, ...) {
  if (in_case) harness_fail("case_begin inside a case (%s)", cur_key);
  cur_idx++;
  va_list ap;
  va_start(ap, fmt);
  vsnprintf(cur_desc, sizeof cur_desc, fmt, ap);
  va_end(ap);
  snprintf(cur_key, sizeof cur_key, "%s", key);
  // mode "conc" (the ThreadSanitizer pass of a property): only the cases that run several threads
  if (!strcmp(G.mode, "conc") && !strstr(key, "thread") && !strstr(key, "concurren")) return 0;
  // mode "oom" (the allocation-failure build of a property): only the fault-injection cases
  if (!strcmp(G.mode, "oom") && !strstr(key, "allocation failure")) return 0;
  uint64_t h = hash_bytes(cur_desc, strlen(cur_desc), hash_bytes(key, strlen(key), 7));
  if (G.only >= 0) {
    if (cur_idx != G.only) return 0;
  } else {
    if ((int)(h % (uint64_t)G.nparts) != G.part) return 0;
    if (cur_idx <= G.skip_upto) return 0;
  }
  if (!hset_add(&seen_cases, h)) {
    n_dup++;
    return 0;
  }
  cur_hash = h;
  g_case_aligned = ((h >> 9) & 3) == 0;
  // 1/16 of the cases each: adjacent ascending, adjacent descending, page-end, page-start, far apart
  g_case_place = g_case_aligned ? 0 : (((h >> 11) & 15) < 8 ? 1 + (int)((h >> 11) & 15) : 0);
  rng_seed(&cur_rng, G.seed ^ hash_bytes(G.prop, strlen(G.prop), 3), h);
  case_csr = _mm_getcsr() & ~0x3Fu;
  __asm__ volatile("fnstcw %0" : "=m"(case_cw));
  cur_note[0] = 0;
  cur_viols = 0;
  in_case = 1;
  if (status_map) snprintf(status_map, 2048, "%" PRId64 "\t%s\t%s\n", cur_idx, cur_key, cur_desc);
  if (G.valgrind) VALGRIND_PRINTF("VPCASE\t%" PRId64 "\t%s\t%s\n", cur_idx, cur_key, cur_desc);
  return 1;
}

void sample(const char* fmt, ...) {
  va_list ap;
  va_start(ap, fmt);
  vsnprintf(cur_note, sizeof cur_note, fmt, ap);
  va_end(ap);
}

void case_end(int nontrivial) {
  if (!in_case) harness_fail("case_end outside a case");
  {
    // whatever the case called in this thread - constructors and destructors included - must hand the floating-point
    // environment back as it found it (rounding mode, flush-to-zero / denormals-are-zero, exception masks, x87 precision)
    unsigned short cw;
    __asm__ volatile("fnstcw %0" : "=m"(cw));
    const unsigned csr = _mm_getcsr() & ~0x3Fu;
    if (csr != case_csr || cw != case_cw) {
      viol("fpenv", "floating-point environment of the calling thread changed during the case: MXCSR %#x -> %#x, x87 CW %#x -> %#x", case_csr, csr, case_cw, cw);
      _mm_setcsr(case_csr | (_mm_getcsr() & 0x3Fu));
      __asm__ volatile("fldcw %0" : : "m"(case_cw));
    }
  }
  n_eval++;
  if (g_case_aligned) cnt("cases_with_every_buffer_64B_aligned", 1);
  {
    static const char* const pn[] = {0, "cases_with_buffers_adjacent_ascending", "cases_with_buffers_adjacent_descending", "cases_with_buffers_ending_at_a_guard_page", "cases_with_buffers_starting_after_a_guard_page", "cases_with_buffers_64GiB_apart", "cases_with_buffers_packed_back_to_back",
                                      "cases_with_buffers_exact_multiples_of_64GiB_apart", "cases_with_buffers_at_nearby_page_offsets"};
    if (g_case_place) cnt(pn[g_case_place], 1);
  }
  if (nontrivial) hset_add(&nontrivial_cases, cur_hash);
  cntf("key:%s", 1, cur_key);
  // write a sample record for the first case of each key (bounded)
  if (n_samples < 60) {
    uint64_t kh = hash_bytes(cur_key, strlen(cur_key), 11);
    if (hset_add(&sampled_keys, kh)) {
      n_samples++;
      fprintf(G.log, "S\t%" PRId64 "\t%s\t%s\t%s\n", cur_idx, cur_key, cur_desc, cur_note);
    }
  }
  in_case = 0;
  if (status_map) status_map[0] = 0;
}

void viol(const char* kind, const char* fmt, ...) {
  char detail[1024];
  va_list ap;
  va_start(ap, fmt);
  vsnprintf(detail, sizeof detail, fmt, ap);
  va_end(ap);
  n_viol++;
  cur_viols++;
  if (cur_viols <= 3) {  // bounded per case
    fprintf(G.log, "V\t%" PRId64 "\t%s|%s\t%s\t%s\n", cur_idx, cur_key, kind, cur_desc, detail);
    fflush(G.log);
  }
}

void harness_fail(const char* fmt, ...) {
  va_list ap;
  va_start(ap, fmt);
  fprintf(stderr, "HARNESS-FAIL: ");
  vfprintf(stderr, fmt, ap);
  fprintf(stderr, "\n");
  va_end(ap);
  if (G.log) {
    fprintf(G.log, "HFAIL\t%s\n", fmt);
    fflush(G.log);
  }
  _exit(2);
}

void finish_summary(void) {
  FILE* f = G.log;
  fprintf(f, "SUM\t{\"evaluations\":%" PRIu64 ",\"distinct\":%zu,\"distinct_nontrivial\":%zu,\"duplicates\":%" PRIu64
             ",\"violations\":%" PRIu64 ",\"last_idx\":%" PRId64 ",\"counters\":{",
          n_eval, seen_cases.n, nontrivial_cases.n, n_dup, n_viol, cur_idx);
  int first = 1;
  for (size_t i = 0; i < MAXC; i++) {
    if (ctab[i].name && ctab[i].kind == 0) {
      fprintf(f, "%s\"", first ? "" : ",");
      json_escape(f, ctab[i].name);
      fprintf(f, "\":%" PRIu64, ctab[i].v);
      first = 0;
    }
  }
  fprintf(f, "},\"gauges\":{");
  first = 1;
  for (size_t i = 0; i < MAXC; i++) {
    if (ctab[i].name && ctab[i].kind == 1 && isfinite(ctab[i].g)) {
      fprintf(f, "%s\"", first ? "" : ",");
      json_escape(f, ctab[i].name);
      fprintf(f, "\":%.6g", ctab[i].g);
      first = 0;
    }
  }
  fprintf(f, "},\"sets\":{");
  first = 1;
  for (int i = 0; i < MAXSETS && dsets[i].name; i++) {
    fprintf(f, "%s\"", first ? "" : ",");
    json_escape(f, dsets[i].name);
    fprintf(f, "\":%zu", dsets[i].set.n);
    first = 0;
  }
  fprintf(f, "}}\n");
  fflush(f);
}

// crash attribution: async-signal-safe write of the current case to the log
static void write_crash(const char* what) {
  if (crash_reported) return;
  crash_reported = 1;
  if (!G.log) return;
  char buf[1600];
  int n = snprintf(buf, sizeof buf, "CRASH\t%" PRId64 "\t%s\t%s\t%s\n", in_case ? cur_idx : (int64_t)-1,
                   in_case ? cur_key : "-", in_case ? cur_desc : "-", what);
  fflush(G.log);
  if (n > 0) {
    ssize_t w = write(fileno(G.log), buf, (size_t)n);
    (void)w;
  }
}
static void on_signal(int sig) {
  char what[32];
  snprintf(what, sizeof what, "signal:%d", sig);
  write_crash(what);
  signal(sig, SIG_DFL);
  raise(sig);
}
#if VP_ASAN
void __asan_on_error(void) { write_crash("asan"); }
#endif
void vp_install_handlers(void) {
  int sigs[] = {SIGABRT, SIGBUS, SIGFPE, SIGILL, SIGSEGV};
  for (size_t i = 0; i < ARRAY_LEN(sigs); i++) {
#if VP_ASAN
    if (sigs[i] == SIGSEGV || sigs[i] == SIGBUS || sigs[i] == SIGFPE) continue;  // ASan reports these itself
#endif
    signal(sigs[i], on_signal);
  }
}

// ---------------------------------------------------------------- guarded buffers
static inline uint64_t canary_word(uint64_t cseed, size_t widx) { return (cseed ^ (uint64_t)widx) * 0x9E3779B97F4A7C15ull + 0x7F4A7C15u; }
static inline uint8_t canary_byte(uint64_t cseed, size_t off) { return (uint8_t)(canary_word(cseed, off >> 3) >> (8 * (off & 7))); }
// fills / checks base[from,to) (base is 8-byte aligned); returns first bad offset or (size_t)-1
static void canary_fill(uint8_t* base, uint64_t cseed, size_t from, size_t to) {
  size_t i = from;
  for (; i < to && (i & 7); i++) base[i] = canary_byte(cseed, i);
  for (; i + 8 <= to; i += 8) {
    uint64_t w = canary_word(cseed, i >> 3);
    memcpy(base + i, &w, 8);
  }
  for (; i < to; i++) base[i] = canary_byte(cseed, i);
}
static size_t canary_find_bad(const uint8_t* base, uint64_t cseed, size_t from, size_t to, int backwards) {
  size_t bad = (size_t)-1;
  size_t i = from;
  for (; i < to && (i & 7); i++)
    if (base[i] != canary_byte(cseed, i)) {
      if (!backwards) return i;
      bad = i;
    }
  for (; i + 8 <= to; i += 8) {
    uint64_t w;
    memcpy(&w, base + i, 8);
    if (w != canary_word(cseed, i >> 3)) {
      for (size_t j = i; j < i + 8; j++)
        if (base[j] != canary_byte(cseed, j)) {
          if (!backwards) return j;
          bad = j;
        }
    }
  }
  for (; i < to; i++)
    if (base[i] != canary_byte(cseed, i)) {
      if (!backwards) return i;
      bad = i;
    }
  return bad;
}

static __thread long gb_forced[8];
static __thread int gb_forced_n, gb_forced_i;
void gb_force_page_offsets(const long* offs, int n) {
  if (n > 8) n = 8;
  for (int i = 0; i < n; i++) gb_forced[i] = ((offs[i] % 4096) + 4096) % 4096;
  gb_forced_n = n;
  gb_forced_i = 0;
}
void* gb_alloc(gbuf_t* g, size_t n, size_t align, size_t mis, size_t guard) {
  if (guard < 4096) guard = 4096;
  if (guard > (1u << 20)) guard = 1u << 20;
  if (align < 8) align = 8;
  if (g_case_aligned) {
    mis = 0;
    if (align < 64) align = 64;
  }
  g->arena = 0;
  g->map_base = 0;
  if (g_case_place == 6) {
    // packed: consecutive buffers touch (the next one starts where the previous one ends, rounded up to its alignment),
    // like consecutive limbs or rows of one array; no canaries in between (results are still compared by every oracle)
    uint8_t* m = arena_take_packed(n, align > 8 ? align : 8);
    if (m) {
      g->arena = 1;
      g->base = m;
      g->p = m;
      g->n = n;
      g->total = n;
      g->guard = 0;
      g->cseed = 0;
      return g->p;
    }
  }
  if (gb_forced_n > 0 || g_case_place == 8) {
    // the buffer's offset inside its page is chosen: either forced by the case (one-shot list, consumed in allocation
    // order: sweeps of the distance between two operands modulo the page size) or, mode 8, within +-16 alignment units
    // of the middle of the page, so that the operands of a case sit at nearby page offsets (4K-aliasing neighbourhood)
    const size_t pg = 4096;
    size_t off;
    if (gb_forced_n > 0) {
      off = (size_t)gb_forced[gb_forced_i % gb_forced_n] % pg;
      gb_forced_i++;
      if (gb_forced_i >= gb_forced_n) gb_forced_n = 0;
    } else {
      static uint64_t near_ctr;
      const uint64_t k = mix64(__atomic_add_fetch(&near_ctr, 1, __ATOMIC_RELAXED) * 0x9E3779B97F4A7C15ull + n) % 33;
      off = (size_t)(2048 + ((long)k - 16) * (long)(align > 8 ? align : 8));
    }
    off &= ~(size_t)(align - 1);
    g->guard = 0;
    g->n = n;
    g->total = n + 3 * pg;
    if (posix_memalign((void**)&g->base, pg, g->total)) harness_fail("out of memory (%zu bytes)", g->total);
    g->p = g->base + pg + off;
    static uint64_t gbn_counter;
    g->cseed = mix64((uint64_t)n * 137 + 5 + __atomic_add_fetch(&gbn_counter, 1, __ATOMIC_RELAXED) * 0x9E3779B97F4A7C15ull);
    const size_t pre = (size_t)(g->p - g->base);
    canary_fill(g->base, g->cseed, 0, pre);
    canary_fill(g->base, g->cseed, pre + n, g->total);
    VP_POISON(g->base, pre);
    VP_POISON(g->p + n, g->total - pre - n);
    return g->p;
  }
  if (g_case_place == 7 || (g_case_place >= 3 && g_case_place <= 5)) {
    // own mapping: [inaccessible page][data pages][inaccessible page]; the user bytes are flush with the end (3) or the
    // start (4) of the data pages, so that an over-read / under-read of even one byte faults in every build, also inside
    // the assembly kernels no sanitizer instruments. Mode 5: ordinary layout, but mappings 64 GiB apart.
    const size_t pg = 4096;
    static uint64_t far_slot;
    const int far = g_case_place == 5 || g_case_place == 7;
    if (g_case_place == 7) mis = 0;  // mode 7: the same offset in every mapping, so that two buffers are EXACT multiples of 64 GiB apart
    const size_t slack = far ? 2 * pg : align;  // canary bytes around the data where no guard page touches it
    const size_t data = (n + slack + pg - 1) / pg * pg;
    const size_t len = data + 2 * pg;
    void* hint = 0;
    if (far) hint = (void*)(uintptr_t)(0x100000000000ull + (__atomic_add_fetch(&far_slot, 1, __ATOMIC_RELAXED) % 448) * 0x1000000000ull);
    uint8_t* m = mmap(hint, len, PROT_READ | PROT_WRITE, MAP_PRIVATE | MAP_ANONYMOUS | MAP_NORESERVE | (g_case_place == 7 && !VP_TSAN ? MAP_FIXED_NOREPLACE : 0), -1, 0);  // (TSan's mmap interceptor drops hints outside its application ranges)
    if (m == MAP_FAILED && g_case_place == 7) m = mmap(0, len, PROT_READ | PROT_WRITE, MAP_PRIVATE | MAP_ANONYMOUS | MAP_NORESERVE, -1, 0);  // slot taken: anywhere
    if (m != MAP_FAILED) {
      mprotect(m, pg, PROT_NONE);
      mprotect(m + pg + data, pg, PROT_NONE);
      g->map_base = m;
      g->map_len = len;
      g->base = m + pg;
      g->total = data;
      g->guard = 0;
      g->n = n;
      uintptr_t u;
      if (g_case_place == 3) u = ((uintptr_t)(g->base + data - n)) & ~(uintptr_t)(align - 1);
      else if (g_case_place == 4) u = (uintptr_t)g->base;
      else if (g_case_place == 7) u = (uintptr_t)g->base + pg;
      else u = ((uintptr_t)g->base + pg + mis) & ~(uintptr_t)7;
      g->p = (uint8_t*)u;
      static uint64_t gbm_counter;
      g->cseed = mix64((uint64_t)n * 131 + 7 + __atomic_add_fetch(&gbm_counter, 1, __ATOMIC_RELAXED) * 0x9E3779B97F4A7C15ull);
      const size_t pre = (size_t)(g->p - g->base);
      canary_fill(g->base, g->cseed, 0, pre);
      canary_fill(g->base, g->cseed, pre + n, g->total);
      VP_POISON(g->base, pre);
      VP_POISON(g->p + n, g->total - pre - n);
      return g->p;
    }
  }
  if (g_case_place) guard = 256;
  g->guard = guard;
  g->n = n;
  g->total = guard + align + mis + n + guard + 64;
  if (g_case_place && (g->base = arena_take(g->total)) != 0) g->arena = 1;
  else if (posix_memalign((void**)&g->base, 64, g->total)) harness_fail("out of memory (%zu bytes)", g->total);
  uintptr_t u = (uintptr_t)g->base + guard;
  u = (u + align - 1) & ~(uintptr_t)(align - 1);
  g->p = (uint8_t*)u + mis;
  static uint64_t gb_counter;
  g->cseed = mix64((uint64_t)n * 31 + mis + guard + __atomic_add_fetch(&gb_counter, 1, __ATOMIC_RELAXED) * 0x9E3779B97F4A7C15ull);  // unique per buffer
  size_t pre = (size_t)(g->p - g->base);
  canary_fill(g->base, g->cseed, 0, pre);
  canary_fill(g->base, g->cseed, pre + n, g->total);
  VP_POISON(g->base, pre);
  VP_POISON(g->p + n, g->total - pre - n);
  return g->p;
}
int gb_check(gbuf_t* g, long* where) {
  size_t pre = (size_t)(g->p - g->base);
  int bad = 0;
  VP_UNPOISON(g->base, pre);
  VP_UNPOISON(g->p + g->n, g->total - pre - g->n);
  size_t b = canary_find_bad(g->base, g->cseed, 0, pre, 1);
  if (b != (size_t)-1) {
    bad = 1;
    if (where) *where = (long)b - (long)pre;
  } else {
    b = canary_find_bad(g->base, g->cseed, pre + g->n, g->total, 0);
    if (b != (size_t)-1) {
      bad = 1;
      if (where) *where = (long)(b - pre);
    }
  }
  VP_POISON(g->base, pre);
  VP_POISON(g->p + g->n, g->total - pre - g->n);
  return bad;
}
// buffers that live in a mapping of their own (placement modes 3, 4, 5, 7): the data pages can be made read-only for the duration
// of a call in which the buffer is a const input - a write to it, even one that is undone before the call returns, faults.
// Returns 1 when the protection was applied.
int gb_readonly(gbuf_t* g, int on) {
  if (!g->map_base || !g->total) return 0;
  return mprotect(g->base, g->total, on ? PROT_READ : (PROT_READ | PROT_WRITE)) == 0;
}
void gb_free(gbuf_t* g) {
  if (!g->base) return;
  VP_UNPOISON(g->base, g->total);
  if (g->map_base) {
    munmap(g->map_base, g->map_len);
    g->map_base = 0;
  } else if (g->arena) {
    pthread_mutex_lock(&arena_mu);
    arena_live--;
    pthread_mutex_unlock(&arena_mu);
  } else
    free(g->base);
  g->base = 0;
  g->p = 0;
}
void fill_pattern(uint8_t* p, size_t n, int pattern, uint64_t seed) {
  switch (pattern & 3) {
    case 0:
      // all-zero bytes, or (odd seeds) words 0x8000000000000000: -0.0 as a double, INT64_MIN as an integer - "zero" to a
      // comparison, not to memset; code that skips a store because the destination already "equals" the value keeps it
      memset(p, 0, n);
      if (seed & 1)
        for (size_t i = 7; i < n; i += 8) p[i] = 0x80;
      break;
    case 1:
      memset(p, 0xFF, n);
      break;
    default: {
      // 2: signalling-NaN pattern 0x7FF4DEADBEEF0001; 3: seeded noise
      const uint64_t nanw = 0x7FF4DEADBEEF0001ull;
      uint64_t x = seed;
      size_t i = 0;
      for (; i + 8 <= n; i += 8) {
        uint64_t w = nanw;
        if ((pattern & 3) == 3) w = x = mix64(x + i);
        memcpy(p + i, &w, 8);
      }
      for (; i < n; i++) p[i] = (uint8_t)(nanw >> (8 * (i & 7)));
    }
  }
}
void gb_prefill(gbuf_t* g, int pattern, uint64_t seed) { fill_pattern(g->p, g->n, pattern, seed); }

static inline int64_t pad_canary(uint64_t cseed, uint64_t idx) { return (int64_t)mix64(cseed ^ (idx * 0x9E3779B97F4A7C15ull)); }
static void zvec_poison(zvec_t* v, int poison) {
  if (v->size < 2 || v->sl == v->n) return;
  for (uint64_t i = 0; i + 1 < v->size; i++) {
    int64_t* pad = v->p + i * v->sl + v->n;
    size_t nb = (v->sl - v->n) * 8;
    if (poison)
      VP_POISON(pad, nb);
    else
      VP_UNPOISON(pad, nb);
  }
}
void zvec_alloc(zvec_t* v, uint64_t n, uint64_t size, uint64_t sl, size_t mis) {
  if (sl < n) harness_fail("zvec stride < n");
  v->n = n;
  v->size = size;
  v->sl = sl;
  uint64_t words = size ? (size - 1) * sl + n : 0;
  size_t guard = 2 * sl * 8;
  v->p = (int64_t*)gb_alloc(&v->g, words * 8, 8, mis, guard);
  for (uint64_t i = 0; i + 1 < size; i++)
    for (uint64_t j = n; j < sl; j++) v->p[i * sl + j] = pad_canary(v->g.cseed, i * sl + j);
  zvec_poison(v, 1);
}
void zvec_free(zvec_t* v) { gb_free(&v->g); }
void zvec_prefill(zvec_t* v, int pattern, uint64_t seed) {
  for (uint64_t i = 0; i < v->size; i++) fill_pattern((uint8_t*)(v->p + i * v->sl), v->n * 8, pattern, seed + i);
}
int zvec_check(zvec_t* v, char* msg, size_t msglen) {
  long where = 0;
  if (gb_check(&v->g, &where)) {
    if (msg) snprintf(msg, msglen, "guard band modified at byte offset %ld relative to the buffer", where);
    return 1;
  }
  int bad = 0;
  zvec_poison(v, 0);
  for (uint64_t i = 0; i + 1 < v->size && !bad; i++)
    for (uint64_t j = v->n; j < v->sl; j++)
      if (v->p[i * v->sl + j] != pad_canary(v->g.cseed, i * v->sl + j)) {
        if (msg) snprintf(msg, msglen, "stride padding modified after limb %" PRIu64 " at word %" PRIu64, i, j);
        bad = 1;
        break;
      }
  zvec_poison(v, 1);
  return bad;
}

void snap_take(snap_t* s, const void* p, size_t n) {
  s->p = p;
  s->n = n;
  s->copy = (uint8_t*)malloc(n ? n : 1);
  if (n) memcpy(s->copy, p, n);
}
long snap_cmp_free(snap_t* s) {
  long r = -1;
  if (s->n && memcmp(s->copy, s->p, s->n) != 0) {
    const uint8_t* q = (const uint8_t*)s->p;
    for (size_t i = 0; i < s->n; i++)
      if (q[i] != s->copy[i]) {
        r = (long)i;
        break;
      }
  }
  free(s->copy);
  s->copy = 0;
  return r;
}
void zvec_snap(snap_t* s, zvec_t* v) {
  zvec_poison(v, 0);
  snap_take(s, v->p, v->g.n);
  zvec_poison(v, 1);
}
long zvec_snap_cmp_free(snap_t* s, zvec_t* v) {
  zvec_poison(v, 0);
  long r = snap_cmp_free(s);
  zvec_poison(v, 1);
  return r;
}

// structure on top of a freshly drawn vector of n 64-bit words (one limb / one operand): 1/8 "scaled" (low 32 bits of
// every word cleared: 32-bit data lifted to 64 bits), 1/8 a run of one value, 1/8 periodic (period 2, 3, 4 or 8), 1/16 all
// zero, 3/16 sparse (zero run at the front / at the back / a single monomial); otherwise untouched. `bits`: the words are signed
// integers below 2^bits in magnitude (64: any word). Every such domain used by the checks (|x| < 2^b) is closed under these.
int structure_words(rng_t* r, uint64_t* w, uint64_t n, unsigned bits) {
  const uint64_t t = rng_u64(r);
  if (!n) return 0;
  switch (t & 15) {
    case 0: case 1:
      // towards zero, so that no magnitude grows; pointless (everything would become 0) for domains below 2^34
      if (bits < 34) return 0;
      for (uint64_t i = 0; i < n; i++) {
        const int64_t x = (int64_t)w[i];
        w[i] = (uint64_t)(x - x % ((int64_t)1 << 32));
      }
      return 1;
    case 2: case 3:
      for (uint64_t i = 1; i < n; i++) w[i] = w[0];
      return 2;
    case 4: case 5: {
      static const uint64_t PER[] = {2, 3, 4, 8};
      const uint64_t per = PER[(t >> 8) & 3];
      for (uint64_t i = per; i < n; i++) w[i] = w[i - per];
      return 3;
    }
    case 6:
      memset(w, 0, n * 8);
      return 4;
    case 7: {  // a run of zeros at the front (random length), data behind it
      const uint64_t z = 1 + (t >> 12) % n;
      memset(w, 0, (z < n ? z : n - 1) * 8);
      return 5;
    }
    case 8: {  // a monomial: one non-zero coefficient
      const uint64_t at = (t >> 12) % n;
      const uint64_t v = w[at] ? w[at] : 1;
      memset(w, 0, n * 8);
      w[at] = v;
      return 6;
    }
    case 10: case 11: {  // neighbourhoods of powers of two: +-(2^j + {-1, 0, 1}) for every j of the domain (thresholds of
                         // data-dependent fast paths sit there); case 11 keeps every other word random
      const unsigned top = bits >= 64 ? 63 : (bits ? bits - 1 : 0);
      for (uint64_t i = 0; i < n; i++) {
        if ((t & 15) == 11 && (i & 1)) continue;
        const uint64_t u = mix64(t + i * 0x9E3779B97F4A7C15ull);
        const unsigned j = (unsigned)(u % (top + 1));
        int64_t v = (int64_t)((uint64_t)1 << j);
        const unsigned dl = (unsigned)((u >> 8) % 3);
        if (dl == 0 && j > 0) v -= 1;
        else if (dl == 2 && j < top) v += 1;
        if (bits < 64 && ((u >> 16) & 1)) v = -v;  // signed domains only
        w[i] = (uint64_t)v;
      }
      return 8;
    }
    case 12: {  // the extremes of the domain: a few elements at +-(2^bits - 1) and +-(2^bits - 2)
      if (bits >= 64 || bits < 2) return 0;
      const int64_t mx = (int64_t)(((uint64_t)1 << bits) - 1);
      for (uint64_t i = 0; i < n; i++) {
        const uint64_t u = mix64(t + i * 0x9E3779B97F4A7C15ull);
        if ((u & 7) == 0) w[i] = (uint64_t)(((u >> 8) & 1 ? -1 : 1) * (mx - (int64_t)((u >> 9) & 1)));
      }
      return 9;
    }
    case 13: {  // pairs (v, low 32 bits of v sign-extended): a value followed by what it looks like through a 32-bit key
      for (uint64_t i = 0; i + 1 < n; i += 2) w[i + 1] = (uint64_t)(int64_t)(int32_t)(uint32_t)w[i];
      return 10;
    }
    case 9: {  // zeros at the back
      const uint64_t z = 1 + (t >> 12) % n;
      memset(w + (n - (z < n ? z : n - 1)), 0, (z < n ? z : n - 1) * 8);
      return 7;
    }
    case 14: {
      // relations BETWEEN the words of a vector, which independent draws never produce: (a) a small alphabet {-v, 0, +v} (ternary
      // secrets, gadget digits: equal and opposite values all over the place); (b) every word in one narrow signed or unsigned
      // range (int32, uint32, int16: differences and sums that need one bit more than the operands)
      const unsigned sub = (unsigned)((t >> 8) % 5);
      const unsigned vb = bits > 2 ? (unsigned)((t >> 16) % (bits - 1)) : 0;
      const uint64_t v = ((uint64_t)1 << vb) | (mix64(t) & (((uint64_t)1 << vb) - 1));
      for (uint64_t i = 0; i < n; i++) {
        const uint64_t u = mix64(t + i * 0x9E3779B97F4A7C15ull);
        switch (sub) {
          case 0: w[i] = (u % 3 == 0) ? 0 : ((u % 3 == 1 || bits >= 64) ? v : (uint64_t)(-(int64_t)v)); break;
          case 1: w[i] = ((u & 1) || bits >= 64) ? v : (uint64_t)(-(int64_t)v); break;
          case 2: if (bits >= 32) w[i] = bits >= 64 ? (u >> 32) : (uint64_t)(int64_t)(int32_t)(uint32_t)u; break;   // all int32 (uint32 for unsigned domains)
          case 3: if (bits >= 33) w[i] = u >> 32; break;                                                           // all in [0, 2^32)
          default: if (bits >= 16) w[i] = bits >= 64 ? (u >> 48) : (uint64_t)(int64_t)(int16_t)(uint16_t)u; break; // all int16
        }
      }
      return 11;
    }
    case 15: {
      // the second half mirrors the first: w[n-i] = +-w[i], exactly or up to a small difference (self-adjoint / anti-symmetric
      // polynomials and nearly cancelling pairs at mirrored positions; the maps X -> X^p pair exactly these positions)
      if (n < 4) return 0;
      const unsigned sub = (unsigned)((t >> 8) & 3);
      for (uint64_t i = 1; i < n - i; i++) {
        const int64_t x = (int64_t)w[i];
        int64_t y = (sub & 1) && bits < 64 ? -x : x;
        if (sub & 2) y += (int64_t)(mix64(t + i) % 3) - 1;   // +-1 off
        if (bits < 64) {
          const int64_t mx = (int64_t)(((uint64_t)1 << bits) - 1);
          if (y > mx) y = mx;
          if (y < -mx) y = -mx;
        }
        w[n - i] = (uint64_t)y;
      }
      if (sub == 1) w[n / 2] = 0;  // exactly anti-symmetric: the middle coefficient is its own mirror image
      return 12;
    }
    default:
      return 0;
  }
}


// ---------------------------------------------------------------- allocation failure injection (build tag "oom": -DVP_OOM)
// The harness' own malloc family: while the calling thread is armed every request fails with ENOMEM (and is counted); otherwise
// it goes to glibc. A separate build, so that ASan / valgrind keep their own allocators everywhere else.
#ifdef VP_OOM
#include <errno.h>
extern void* __libc_malloc(size_t);
extern void* __libc_calloc(size_t, size_t);
extern void* __libc_realloc(void*, size_t);
extern void* __libc_memalign(size_t, size_t);
static __thread int oom_armed;
static __thread uint64_t oom_failed;
int vp_oom_available(void) { return 1; }
void vp_oom_arm(int on) { oom_armed = on; }
uint64_t vp_oom_failed(void) { return oom_failed; }
#define OOM_FAIL()      \
  do {                  \
    if (oom_armed) {    \
      oom_failed++;     \
      errno = ENOMEM;   \
      return 0;         \
    }                   \
  } while (0)
void* malloc(size_t n) { OOM_FAIL(); return __libc_malloc(n); }
void* calloc(size_t a, size_t b) { OOM_FAIL(); return __libc_calloc(a, b); }
void* realloc(void* p, size_t n) { OOM_FAIL(); return __libc_realloc(p, n); }
void* memalign(size_t al, size_t n) { OOM_FAIL(); return __libc_memalign(al, n); }
void* aligned_alloc(size_t al, size_t n) { OOM_FAIL(); return __libc_memalign(al, n); }
int posix_memalign(void** out, size_t al, size_t n) {
  if (oom_armed) {
    oom_failed++;
    return ENOMEM;
  }
  void* p = __libc_memalign(al, n);
  if (!p) return ENOMEM;
  *out = p;
  return 0;
}
#else
int vp_oom_available(void) { return 0; }
void vp_oom_arm(int on) { (void)on; }
uint64_t vp_oom_failed(void) { return 0; }
#endif
