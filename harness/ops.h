// Catalogue of library entry points with a uniform "plan + call" description, shared by the memory
// contract (C11), concurrency (C12), determinism (C15) and read-only-operand (C18) monitors.
#ifndef VP_OPS_H
#define VP_OPS_H
#include "lib.h"

enum { R_IN, R_OUT, R_INOUT, R_SCRATCH, R_INTMP };  // R_INTMP: an input the call may destroy (content unspecified afterwards)
enum { F_NONE, F_I64, F_DBL, F_DBLINT, F_U64, F_U32A, F_C120, F_I32, F_RATIO };

typedef struct {
  int role, fill;
  unsigned fillarg;  // bits (F_I64 / F_DBLINT / F_RATIO: |ratio| < 2^fillarg), ignored otherwise
  double fscale;     // F_RATIO: values are ratio * fscale (fscale a power of two)
  int dynrange;          // F_DBL: a quarter of the fills scale every value by its own power of two in 2^-60 .. 2^60 (operands of pointwise products)
  int any_finite;        // F_DBL: every finite double (all exponents, subnormals included) instead of a bounded range
  uint64_t zero_block;  // if non-zero: each block of zero_block elements is entirely zero with probability 1/4
  uint64_t live_limbs;  // INOUT limb vectors of in-place calls with res_size > a_size: limbs >= live_limbs+... are output-only;
                        // 0 = every limb is input. Stored as (number of input limbs + 1)
  size_t bytes, align;
  size_t live_bytes1;   // raw INOUT buffers of in-place calls: (number of input bytes + 1); the rest is output-only. 0 = all input
  int word4;         // array of 32-bit words: 4-byte alignment is all the C types promise (half of the calls add 4 to the misalignment)
  int is_zvec;       // int64 limb vector with stride padding
  uint64_t n, size, sl;
} bufspec_t;

#define OP_MAXB 8
typedef struct {
  int nb;
  bufspec_t b[OP_MAXB];
  uint64_t u[8];
  int64_t s[4];
  double d[2];
  char shape[64];
  int skip;
} opplan_t;

typedef struct env {
  uint64_t N, m;
  int native;
  const MODULE* fft64;
  const MODULE* ntt120;
  REIM_FFT_PRECOMP* reim_fft;
  REIM_IFFT_PRECOMP* reim_ifft;
  REIM_FFTVEC_MUL_PRECOMP* reim_mul;
  REIM_FFTVEC_ADDMUL_PRECOMP* reim_addmul;
  REIM_FROM_ZNX64_PRECOMP* from_znx64;
  REIM_TO_ZNX64_PRECOMP* to_znx64;
  REIM_TO_TNX_PRECOMP* to_tnx;
  CPLX_FFT_PRECOMP* cplx_fft;
  CPLX_IFFT_PRECOMP* cplx_ifft;
  CPLX_FFTVEC_MUL_PRECOMP* cplx_mul;
  CPLX_FFTVEC_ADDMUL_PRECOMP* cplx_addmul;
  CPLX_FROM_ZNX32_PRECOMP* cplx_from_znx32;
  CPLX_FROM_TNX32_PRECOMP* cplx_from_tnx32;
  CPLX_TO_TNX32_PRECOMP* cplx_to_tnx32;
  REIM4_FFTVEC_MUL_PRECOMP* r4_mul;
  REIM4_FFTVEC_ADDMUL_PRECOMP* r4_addmul;
  REIM4_FROM_CPLX_PRECOMP* r4_from;
  REIM4_TO_CPLX_PRECOMP* r4_to;
  q120_ntt_precomp* ntt;
  q120_ntt_precomp* intt;
  q120_mat1col_product_baa_precomp* baa;
  q120_mat1col_product_bbb_precomp* bbb;
  q120_mat1col_product_bbc_precomp* bbc;
} env_t;
env_t* env_create(uint64_t N, int native);
void env_destroy(env_t* e);

#define OPF_FFT64 1u    // module-level, FFT64 module
#define OPF_NTT120 2u   // module-level, NTT120 module (second registration of the generic entry points)
#define OPF_TABLE 4u    // table-based kernels (explicit *_PRECOMP)
#define OPF_SIMPLE 8u   // *_simple convenience API (function-local static / thread-local caches)
#define OPF_KERNEL 16u  // table-free exported kernels
#define OPF_AVX 32u     // accelerated variant called directly (needs the CPU feature)

typedef struct {
  const char* name;
  unsigned flags;
  void (*plan)(opplan_t* pl, rng_t* r, const env_t* e);
  void (*call)(const opplan_t* pl, void* const p[OP_MAXB], const env_t* e);
  const char* twin;  // optional: name whose plan/data stream this entry shares (a *_simple function and its table-based
                     // twin get identical arguments from the same seed, so their outputs must be bit-identical)
} opdef_t;
int op_find(const char* name);
// catalogue entry or harness-side definition ("definition:..." twins); 0 when unknown
const opdef_t* op_lookup(const char* name);
// hash of every byte of the shared objects of an environment whose layout is known (module structs, twiddle
// and omega tables, NTT metadata, conversion tables): must never change after creation
uint64_t env_hash(const env_t* e, uint64_t* bytes);
extern const opdef_t OPS[];
extern const int N_CAT_OPS;

typedef struct {
  uint64_t out_hash;   // hash of all OUT / INOUT bytes after the call (limb content only for strided vectors)
  int canary_bad;      // a guard band / stride padding changed
  int src_modified;    // an IN buffer (including its padding) changed
  int skipped;
  uint64_t src_bytes, out_bytes, scratch_bytes;
  char shape[64];
  char msg[200];
  // MON_CAPTURE: concatenated IN buffers / OUT+INOUT buffers (limb contents for strided vectors), malloc'ed
  uint8_t* cap_in;
  uint8_t* cap_out;
  size_t cap_in_bytes, cap_out_bytes;
  int fpenv_changed;  // MXCSR or the x87 control word differ after the call (hidden state left in the CPU)
  int rerun_differs;  // MON_RERUN: a second call on the very same buffers (outputs already holding the result) gave other bits
  uint64_t u[8];  // the plan's scalar parameters (e.g. divisor exponent, ell)
  double d[2];
} opres_t;

#define MON_CANARY 1u
#define MON_SNAPSHOT 2u
#define MON_VALGRIND 4u  // mark OUT/SCRATCH undefined before, check OUT defined after (memcheck client requests)
#define MON_RERUN 16u    // calls without INOUT / overwritten-source buffers are made a second time on the same buffers: the outputs (now
                         // pre-filled with the correct result, scratch pre-filled with what the first call left) must not change
#define MON_RECONTENT 32u  // after the call, other data is written into the SAME input buffers and the call repeated: the result must be what a
                           // fresh call on that data returns (memos keyed on addresses, stale copies of an operand)
#define MON_CAPTURE 8u   // keep copies of the inputs (before the call) and of the outputs (after); caller frees res->cap_*
// Executes catalogue entry `o` once. All parameters (shape, strides, operand values) derive from `seed` only,
// never from `prefill` (pattern written to OUT and SCRATCH buffers before the call) or `mis` (byte
// misalignment selector of every buffer) — so results must not depend on the latter two. Thread-safe.
extern uint64_t ops_readonly_input_calls;
extern int op_exec_no_relate;
extern __thread int op_exec_repeat;  // > 0: op_exec repeats its call that many times on the same buffers; res->rerun_differs when a repetition differs
void op_exec(const opdef_t* o, const env_t* env, uint64_t seed, int prefill, unsigned mis, unsigned monitors, opres_t* res);
// runs the named catalogue entries from T threads at once on private data (shared environment) and compares every
// result with the same call executed alone; returns the number of differing calls (message of the first in msg)
// fresh-process reference: pristine_start() must be called before the process has called anything of the library;
// pristine_query returns 0 (hash filled), 1 (the plan skips this call), 2 (the fresh call died) or -1 (no server)
void pristine_start(void);
int pristine_query(int op, uint64_t N, int native, uint64_t seed, int prefill, unsigned mis, uint64_t* hash);
void pristine_stop(void);
void ops_concurrent_case(const char* key, const char* const* names, int nnames, uint64_t N, int cfg, int T, unsigned rep, const char* counter);
uint64_t ops_concurrent_check(const char* const* names, int nnames, const env_t* env, int T, int iters, uint64_t seed, char* msg, size_t msglen, uint64_t* calls);
// long single-thread history (A, B x255, A, B x65535, A) of one entry: returns 1 on a violation (msg), 0 when clean, -1 when the entry skips these dimensions
int ops_history_check(const opdef_t* o, const env_t* big, const env_t* small, uint64_t seedA, uint64_t seedB, char* msg, size_t msglen, uint64_t* calls);
void ops_history_case(const char* key, const char* opname, uint64_t Nbig, uint64_t Nsmall, int cfg, unsigned rep, const char* counter);
// jobs with constant arguments: alone first (ephemeral: in a thread that exits), then all at once; tight: repetitions per op_exec in the concurrent phase
uint64_t ops_steady_check(const char* const* names, int nj, const env_t* env, int solo_iters, int conc_iters, int tight, uint64_t seed, int ephemeral, char* msg, size_t msglen, uint64_t* calls);
void ops_steady_case(const char* key, const char* const* names, int nj, uint64_t N, int cfg, int solo_iters, int conc_iters, int tight, int ephemeral, unsigned rep, const char* counter);
// random create / use / destroy of modules and tables (kindmask: bits LKM_*); mass > 0: that many objects of one kind alive at once
#define LKM_MOD_FFT64 1u
#define LKM_MOD_NTT120 2u
#define LKM_REIM_FFT 4u
#define LKM_REIM_IFFT 8u
#define LKM_CPLX_FFT 16u
#define LKM_CPLX_IFFT 32u
#define LKM_NTT 64u
#define LKM_INTT 128u
#define LKM_BBC 256u
#define LKM_BAA 512u
#define LKM_BBB 1024u
#define LKM_REIM_MUL 2048u
#define LKM_ALL 4095u
void ops_lifecycle_case(const char* key, unsigned kindmask, int cfg, int steps, int mass, unsigned rep, const char* counter);
// in-place rotation (which 0 / 2 big) or automorphism (1 / 3 big) on ring N with exponent pA, exactly 256 and 65536 in-place calls after the previous
// such call, only calls (N2, pB) in between; compared with the out-of-place call and the definition
void ops_ring_history_case(int which, uint64_t N, int64_t pA, uint64_t N2, int64_t pB, int native, unsigned rep, const char* counter);
// the named entries, reps argument sets each, with MON_RECONTENT
void ops_recontent_case(const char* key, const char* const* names, int n, uint64_t N, int cfg, int reps, unsigned rep, const char* counter);
// T threads run the lifecycle fuzz at once on private pools (constructors / destructors overlapping unrelated calls)
void ops_concurrent_lifecycle_case(const char* key, unsigned kindmask, int cfg, int T, int steps, unsigned rep, const char* counter);
// the named entries (reps argument sets each) at dimension N from a thread whose stack has stack_kib KiB, compared with the main thread's results
void ops_small_stack_case(const char* key, const char* const* names, int n, uint64_t N, int cfg, unsigned stack_kib, int reps, unsigned rep, const char* counter);
// build tag "oom" only (no-op elsewhere): the named entries repeated in a forked child with every allocation request inside the call refused
void ops_oom_case(const char* key, const char* const* names, int n, uint64_t N, int cfg, int reps, unsigned rep, const char* counter);
// counts of memcheck definedness failures observed by MON_VALGRIND (process-wide)
extern uint64_t ops_valgrind_undefined_outputs;

#endif
