#include "ops.h"

#include <malloc.h>
#include <pthread.h>
#include <valgrind/memcheck.h>
#include <xmmintrin.h>

#include "oracle.h"

uint64_t ops_valgrind_undefined_outputs = 0;

// ---------------------------------------------------------------- environments (shared objects)
env_t* env_create(uint64_t N, int native) {
  env_t* e = calloc(1, sizeof *e);
  e->N = N;
  e->m = N / 2;
  e->native = native;
  int saved = g_dispatch_native;
  set_dispatch(native);
  const uint32_t m = (uint32_t)e->m;
  e->fft64 = new_module_info(N, FFT64);
  if (native == DISP_NATIVE || native == DISP_AVX2_ONLY) e->ntt120 = new_module_info(N, NTT120);  // NTT120 exists only behind the avx2 gate
  e->reim_fft = new_reim_fft_precomp(m, 0);
  e->reim_ifft = new_reim_ifft_precomp(m, 0);
  e->reim_mul = new_reim_fftvec_mul_precomp(m);
  e->reim_addmul = new_reim_fftvec_addmul_precomp(m);
  e->from_znx64 = new_reim_from_znx64_precomp(m, 50);
  e->to_znx64 = new_reim_to_znx64_precomp(m, (double)(m ? m : 1), 63);
  e->to_tnx = new_reim_to_tnx_precomp(m, (double)(m ? m : 1), 18);
  e->cplx_fft = new_cplx_fft_precomp(m, 0);
  e->cplx_ifft = new_cplx_ifft_precomp(m, 0);
  e->cplx_mul = new_cplx_fftvec_mul_precomp(m);
  e->cplx_addmul = new_cplx_fftvec_addmul_precomp(m);
  e->cplx_from_znx32 = new_cplx_from_znx32_precomp(m);
  e->cplx_from_tnx32 = new_cplx_from_tnx32_precomp(m);
  e->cplx_to_tnx32 = new_cplx_to_tnx32_precomp(m, (double)(m ? m : 1), 18);
  if (m >= 4) {
    e->r4_mul = new_reim4_fftvec_mul_precomp(m);
    e->r4_addmul = new_reim4_fftvec_addmul_precomp(m);
    e->r4_from = new_reim4_from_cplx_precomp(m);
    e->r4_to = new_reim4_to_cplx_precomp(m);
  }
  e->ntt = q120_new_ntt_bb_precomp(N);
  e->intt = q120_new_intt_bb_precomp(N);
  e->baa = q120_new_vec_mat1col_product_baa_precomp();
  e->bbb = q120_new_vec_mat1col_product_bbb_precomp();
  e->bbc = q120_new_vec_mat1col_product_bbc_precomp();
  set_dispatch(saved);
  return e;
}
void env_destroy(env_t* e) {
  int saved = g_dispatch_native;
  set_dispatch(e->native);
  delete_module_info((MODULE*)e->fft64);
  if (e->ntt120) delete_module_info((MODULE*)e->ntt120);
  free(e->reim_fft); free(e->reim_ifft); free(e->reim_mul); free(e->reim_addmul);
  free(e->from_znx64); free(e->to_znx64); free(e->to_tnx);
  free(e->cplx_fft); free(e->cplx_ifft); free(e->cplx_mul); free(e->cplx_addmul);
  free(e->cplx_from_znx32); free(e->cplx_from_tnx32); free(e->cplx_to_tnx32);
  free(e->r4_mul); free(e->r4_addmul); free(e->r4_from); free(e->r4_to);
  q120_del_ntt_bb_precomp(e->ntt);
  q120_del_intt_bb_precomp(e->intt);
  q120_delete_vec_mat1col_product_baa_precomp(e->baa);
  q120_delete_vec_mat1col_product_bbb_precomp(e->bbb);
  q120_delete_vec_mat1col_product_bbc_precomp(e->bbc);
  set_dispatch(saved);
  free(e);
}

// ---------------------------------------------------------------- plan helpers
static int B_ZV(opplan_t* pl, int role, int fill, unsigned bits, uint64_t n, uint64_t size, uint64_t sl) {
  bufspec_t* b = &pl->b[pl->nb];
  memset(b, 0, sizeof *b);
  b->role = role;
  b->fill = fill;
  b->fillarg = bits;
  b->is_zvec = 1;
  b->n = n;
  b->size = size;
  b->sl = sl;
  b->align = 8;
  if (fill == F_I64) b->zero_block = n;  // a quarter of the input limbs are the zero polynomial
  return pl->nb++;
}
static int B_RAW(opplan_t* pl, int role, int fill, unsigned arg, size_t bytes, size_t align) {
  bufspec_t* b = &pl->b[pl->nb];
  memset(b, 0, sizeof *b);
  b->role = role;
  b->fill = fill;
  b->fillarg = arg;
  b->bytes = bytes;
  b->align = align;
  return pl->nb++;
}
static uint64_t rsl(rng_t* r, uint64_t n) { return stride_choice(n, (unsigned)(rng_u64(r) & 3)); }
// limb counts: usually 0..max; one plan in eight on rings up to N = 1024 draws a larger count (up to 4*max + 5, i.e. 17
// for max = 3): loops over limbs that are unrolled or blocked change regime there
// rotation / automorphism exponent: three quarters from the whole int64 range (all magnitudes), a quarter special: 0, +-1, the
// multiples and neighbours of N and 2N (identity, conjugation, -1 as a rotation), the ends of the documented range (-2^63, 2^63):
// INT64_MIN itself is outside it (C09) and the unchanged tree negates p
static int64_t plan_p(rng_t* r, uint64_t N) {
  if ((rng_u64(r) & 3) == 0) {
    const int64_t n = (int64_t)N;
    const int64_t SP[] = {0, 1, -1, 2 * n, 2 * n + 1, 2 * n - 1, -(2 * n - 1), -(2 * n + 1), -2 * n, n, n + 1, n - 1, -n, INT64_MIN + 1, INT64_MIN + 2, INT64_MAX, INT64_MAX - 1, 4 * n + 1, 3, -3};
    return SP[rng_u64(r) % ARRAY_LEN(SP)];
  }
  int64_t p = rng_sbits(r, 1 + (unsigned)(rng_u64(r) % 62));
  const uint64_t q = rng_u64(r) % 5;
  if (q == 0) p = (int64_t)(2 * N) * rng_sbits(r, 1 + (unsigned)(rng_u64(r) % 40));
  else if (q == 1) p = (int64_t)N * (2 * rng_sbits(r, 20) + 1);
  return p;
}
static __thread uint64_t plan_N;
static uint64_t rsz(rng_t* r, uint64_t max) {
  const uint64_t t = rng_u64(r);
  if (plan_N && plan_N <= 1024 && ((t >> 32) & 7) == 0) return max + 1 + (t >> 40) % (3 * max + 5);
  return t % (max + 1);
}

// ---------------------------------------------------------------- engine
static void fill_buf(rng_t* r, const bufspec_t* b, void* p, size_t bytes) {
  switch (b->fill) {
    case F_I64: {
      int64_t* x = p;
      for (size_t i = 0; i < bytes / 8; i++) x[i] = rng_sbits(r, b->fillarg);
      break;
    }
    case F_DBL: {
      double* x = p;
      if (b->any_finite) {
        // any finite double: exponent field uniform over its whole range (so tiny, huge and subnormal values are common)
        for (size_t i = 0; i < bytes / 8; i++) {
          uint64_t w = rng_u64(r);
          if (((w >> 52) & 0x7FF) == 0x7FF) w &= ~(1ull << 62);
          memcpy(&x[i], &w, 8);
        }
        break;
      }
      for (size_t i = 0; i < bytes / 8; i++) x[i] = (rng_unit(r) * 2 - 1) * (double)(1u << (b->fillarg & 31));
      if (b->dynrange && (rng_u64(r) & 3) == 0)
        for (size_t i = 0; i < bytes / 8; i++) x[i] = ldexp(x[i], (int)rng_range(r, -60, 60));  // real and imaginary parts of very different magnitude
      break;
    }
    case F_DBLINT: {
      double* x = p;
      for (size_t i = 0; i < bytes / 8; i++) x[i] = (double)rng_sbits(r, b->fillarg);
      break;
    }
    case F_U64: {
      uint64_t* x = p;
      for (size_t i = 0; i < bytes / 8; i++) x[i] = rng_u64(r);
      break;
    }
    case F_U32A: {
      uint64_t* x = p;
      for (size_t i = 0; i < bytes / 8; i++) x[i] = rng_u64(r) & 0xFFFFFFFFu;
      break;
    }
    case F_C120: {
      uint32_t* y = p;
      for (size_t i = 0; i + 8 <= bytes / 4; i += 8)
        for (int k = 0; k < 4; k++) {
          uint64_t v = rng_u64(r) % Q120[k];
          y[i + 2 * k] = (uint32_t)v;
          y[i + 2 * k + 1] = (uint32_t)(((u128)v << 32) % Q120[k]);
        }
      break;
    }
    case F_RATIO: {
      // rounding-sensitive ratios (near ties incl. 0.5 -+ ulps, quarter points, integers, random), scaled by fscale
      double* x = p;
      const double top = ldexp(1.0, (int)b->fillarg);
      for (size_t i = 0; i < bytes / 8; i++) {
        double v;
        const uint64_t t = rng_u64(r);
        double k = (t & 0x300) ? (double)((t >> 12) & 0xFFFFF) : 0.0;  // integer part 0 for a quarter of the near-ties
        switch (t % 6) {
          case 0:
          case 1: {
            v = k + 0.5;
            int steps = 1 + (int)((t >> 40) & 1);
            for (int q = 0; q < steps; q++) v = (t & 0x80) ? nextafter(v, 0) : nextafter(v, INFINITY);
            break;
          }
          case 2: v = k + ((t & 0x80) ? 0.25 : 0.75); break;
          case 3: v = k; break;
          case 4: v = nextafter(top, 0); break;
          default: v = rng_unit(r) * top; break;
        }
        while (v >= top) v *= 0.5;
        x[i] = ((t >> 50) & 1 ? -v : v) * (b->fscale != 0 ? b->fscale : 1.0);
      }
      break;
    }
    case F_I32: {
      int32_t* x = p;
      for (size_t i = 0; i < bytes / 4; i++) x[i] = (int32_t)rng_u64(r);
      break;
    }
    default:
      break;
  }
  // structure on top of the random words (8-byte element types only; the domains of the fills are closed under it)
  if (b->fill == F_I64) structure_words(r, p, bytes / 8, b->fillarg);
  else if (b->fill == F_U64) structure_words(r, p, bytes / 8, 33);  // unsigned lanes: everything but the signed scaling
  else if (b->fill == F_DBL || b->fill == F_DBLINT || b->fill == F_U32A) {
    uint64_t* w = p;
    const size_t nw = bytes / 8;
    const uint64_t t = rng_u64(r);
    if (nw >= 2 && (t & 7) == 0)
      for (size_t i = 1; i < nw; i++) w[i] = w[0];
    else if (nw >= 4 && (t & 7) == 1) {
      static const size_t PER[] = {2, 3, 4, 8};
      const size_t per = PER[(t >> 8) & 3];
      for (size_t i = per; i < nw; i++) w[i] = w[i - per];
    } else if (nw >= 2 && (t & 7) == 3 && b->fill != F_U32A) {
      // signed zeros: a third of the elements +0.0 or -0.0
      const uint64_t nz = 0x8000000000000000ull;
      for (size_t i = 0; i < nw; i++) {
        const uint64_t u = mix64(t + i);
        if (u % 3 == 0) w[i] = (u & 8) ? nz : 0;
      }
    } else if (nw >= 2 && (t & 7) == 2 && b->fill != F_U32A) {
      // complex data lying on one axis (purely real / purely imaginary numbers, exact +0.0 on the other), in each of the
      // three layouts: split halves (reim), blocks of 4+4 (reim4), interleaved (cplx)
      const unsigned which = (unsigned)((t >> 8) % 6);
      for (size_t i = 0; i < nw; i++) {
        int z;
        switch (which) {
          case 0: z = i < nw / 2; break;
          case 1: z = i >= nw / 2; break;
          case 2: z = (i & 7) < 4; break;
          case 3: z = (i & 7) >= 4; break;
          case 4: z = !(i & 1); break;
          default: z = (int)(i & 1); break;
        }
        if (z) w[i] = 0;
      }
    }
  }
  if (b->zero_block) {
    uint64_t* w = p;
    const size_t nw = bytes / 8;
    for (size_t blk = 0; (blk + 1) * b->zero_block <= nw; blk++)
      if ((rng_u64(r) & 3) == 0) memset(w + blk * b->zero_block, 0, b->zero_block * 8);
  }
}

// Two inputs of one call are normally independent draws. One call in eight makes the LAST input a function of the FIRST one
// (same fill type and element count): a copy, the negation, the negacyclic adjoint (b[0] = a[0], b[N-i] = -a[i]), the complex
// conjugate in the split / interleaved / 4-block layouts, the bitwise complement - exactly, or (odd kinds) with the lowest
// mantissa / integer bits of a few elements changed. Relations such as b = conj(a) or carry = -digit are what norms, squarings
// and cancelling carries produce in real use, and what no pair of independent generators ever does.
int op_exec_no_relate;  // set by a caller whose comparison assumes independent operands (C07's norm-wise budgets)
static void relate_inputs(const opplan_t* pl, void* const p[], zvec_t* z, uint64_t seed, uint64_t N) {
  const uint64_t t = mix64(seed ^ 0x5eed5eedull);
  if ((t & 7) != 0 || op_exec_no_relate) return;
  int ia = -1, ib = -1;
  for (int i = 0; i < pl->nb; i++)
    if (pl->b[i].role == R_IN || pl->b[i].role == R_INOUT) {
      if (ia < 0) ia = i;
      else ib = i;
    }
  if (ia < 0 || ib < 0 || ia == ib) return;
  // the derived operand must stay inside ITS documented domain: it is derived from the operand with the narrower one
  if ((pl->b[ia].fill == F_I64 || pl->b[ia].fill == F_DBLINT) && pl->b[ia].fill == pl->b[ib].fill && pl->b[ia].fillarg > pl->b[ib].fillarg) {
    const int tmp = ia;
    ia = ib;
    ib = tmp;
  }
  const bufspec_t *A = &pl->b[ia], *B = &pl->b[ib];
  if (A->fill != B->fill || (A->fillarg != B->fillarg && A->fill != F_I64 && A->fill != F_DBLINT) || A->any_finite != B->any_finite || A->fill == F_C120 || A->fill == F_NONE || A->fill == F_RATIO) return;
  if (A->live_limbs || A->live_bytes1 || B->live_limbs || B->live_bytes1) return;  // (buffers whose tail is output-only hold pre-fill there, not data)
  const unsigned kind = (unsigned)((t >> 8) % 12);
  const int dbl = A->fill == F_DBL || A->fill == F_DBLINT;
  uint64_t nl = 1;
  if (A->is_zvec != B->is_zvec) return;
  if (A->is_zvec) {
    if (A->n != B->n) return;
    nl = A->size < B->size ? A->size : B->size;
  } else if (A->bytes != B->bytes || A->bytes < 16)
    return;
  for (uint64_t l = 0; l < nl; l++) {
    uint64_t* a = A->is_zvec ? (uint64_t*)zvec_limb(&z[ia], l) : p[ia];
    uint64_t* b = B->is_zvec ? (uint64_t*)zvec_limb(&z[ib], l) : p[ib];
    const uint64_t n = A->is_zvec ? A->n : A->bytes / 8;
    const uint64_t blk = (!A->is_zvec && N && n >= N && n % N == 0) ? N : n;  // raw buffers of several polynomials: per polynomial
    for (uint64_t i = 0; i < n; i++) {
      const uint64_t j = i % blk, base = i - j;
      uint64_t v;
      switch (kind / 2) {
        case 0: v = a[i]; break;                                                                   // b = a
        case 1: v = dbl ? a[i] ^ (1ull << 63) : 0 - a[i]; break;                                   // b = -a
        case 2: {                                                                                  // adjoint
          const uint64_t src = a[base + (j ? blk - j : 0)];
          v = j ? (dbl ? src ^ (1ull << 63) : 0 - src) : src;
          break;
        }
        case 3: v = (dbl && (j >= blk / 2)) ? a[i] ^ (1ull << 63) : a[i]; break;                   // conj, split layout (re | im)
        case 4: v = (j & 1) ? (dbl ? a[i] ^ (1ull << 63) : 0 - a[i]) : a[i]; break;                 // conj, interleaved layout / alternating signs
        default: v = dbl ? (((j >> 2) & 1) ? a[i] ^ (1ull << 63) : a[i]) : a[base + blk - 1 - j];  // conj, 4-block layout / reversed
      }
      if ((kind & 1) && (mix64(t + i) & 3) == 0) {  // nearly, not exactly (integers stay inside their domain)
        const uint64_t w = v ^ (1 + (mix64(t + i) >> 60));
        if (dbl || A->fill != F_I64 || A->fillarg >= 63) v = w;
        else {
          const int64_t mx = (int64_t)(((uint64_t)1 << A->fillarg) - 1);
          if ((int64_t)w <= mx && (int64_t)w >= -mx) v = w;
        }
      }
      if (A->fill == F_U32A) v &= 0xFFFFFFFFu;
      b[i] = v;
    }
  }
}
__thread int op_exec_repeat;
uint64_t ops_readonly_input_calls;  // input buffers that were write-protected during a call (process-wide)
static __thread int op_exec_oom;  // every allocation request made inside the call fails (build tag "oom")
// data variant (shapes and scalar parameters still derive from the seed alone): 0 the seed's data; 1 other random data; 2 the seed's
// data with the first two limbs (blocks of N words, or the two halves of the buffer) exchanged; 3 the seed's data with one word
// exchanged between the first two limbs - the same multiset of values, the same sums, the same first words: what a checksum or a
// few probed positions cannot tell apart
static __thread uint64_t op_exec_data_salt;
static void data_variant(const bufspec_t* b, void* base, zvec_t* zv, uint64_t N, uint64_t variant, uint64_t seed) {
  if (variant < 2) return;
  if (!(b->fill == F_I64 || b->fill == F_DBL || b->fill == F_DBLINT || b->fill == F_U64 || b->fill == F_U32A || b->fill == F_I32 || b->fill == F_RATIO)) return;
  uint8_t *l0, *l1;  // (byte pointers: arrays of 32-bit words may be only 4-byte aligned)
  uint64_t nw;
  if (b->is_zvec) {
    if (b->size < 2 || !b->n) return;
    l0 = (uint8_t*)zvec_limb(zv, 0);
    l1 = (uint8_t*)zvec_limb(zv, 1);
    nw = b->n;
  } else {
    const uint64_t words = b->bytes / 8;
    if (words < 2) return;
    nw = (N && words >= 2 * N) ? N : words / 2;
    l0 = base;
    l1 = (uint8_t*)base + 8 * nw;
  }
  const uint64_t from = variant == 2 ? 0 : mix64(seed + 3) % nw, to = variant == 2 ? nw : from + 1;
  for (uint64_t i = from; i < to; i++) {
    uint64_t t0, t1;
    memcpy(&t0, l0 + 8 * i, 8);
    memcpy(&t1, l1 + 8 * i, 8);
    memcpy(l0 + 8 * i, &t1, 8);
    memcpy(l1 + 8 * i, &t0, 8);
  }
}
void op_exec(const opdef_t* o, const env_t* env, uint64_t seed, int prefill, unsigned mis, unsigned monitors, opres_t* res) {
  memset(res, 0, sizeof *res);
  rng_t r;
  const char* sname = o->twin ? o->twin : o->name;
  rng_seed(&r, seed, hash_bytes(sname, strlen(sname), 5));
  opplan_t pl;
  memset(&pl, 0, sizeof pl);
  plan_N = env->N;
  o->plan(&pl, &r, env);
  snprintf(res->shape, sizeof res->shape, "%s", pl.shape[0] ? pl.shape : "-");
  if (pl.skip) {
    res->skipped = 1;
    return;
  }
  gbuf_t g[OP_MAXB];
  zvec_t z[OP_MAXB];
  void* p[OP_MAXB] = {0};
  snap_t sn[OP_MAXB];
  // data rng independent of buffer placement: one stream per buffer
  for (int i = 0; i < pl.nb; i++) {
    bufspec_t* b = &pl.b[i];
    const unsigned m8 = 8 * ((mis + 3u * (unsigned)i) % 8);
    rng_t rb;
    rng_seed(&rb, (seed ^ 0xA5A5) + (op_exec_data_salt == 1) * 0x9E3779B97F4A7C15ull, (uint64_t)i + 17);
    if (b->is_zvec) {
      zvec_alloc(&z[i], b->n, b->size, b->sl, m8);
      p[i] = z[i].p;
      if (b->role == R_IN || b->role == R_INOUT || b->role == R_INTMP) {
        for (uint64_t l = 0; l < b->size; l++) fill_buf(&rb, b, zvec_limb(&z[i], l), b->n * 8);
        data_variant(b, 0, &z[i], env->N, op_exec_data_salt, seed);
        // limbs of an in-place buffer beyond the input's size are output-only: what they held before the call must not matter
        if (b->live_limbs)
          for (uint64_t l = b->live_limbs - 1; l < b->size; l++) fill_pattern((uint8_t*)zvec_limb(&z[i], l), b->n * 8, prefill, 55 + l);
      } else
        zvec_prefill(&z[i], prefill, 77 + (uint64_t)i);
    } else {
      size_t al = b->align ? b->align : 8;
      size_t mm = al >= 16 ? (m8 / al) * al % 64 : m8;  // the contract promises 8-byte alignment, never less
      if (b->word4 && (((mis >> 1) + (unsigned)i) & 1)) mm += 4;  // (except for arrays of 32-bit words)
      p[i] = gb_alloc(&g[i], b->bytes, al, mm, 4096);
      if (b->role == R_IN || b->role == R_INOUT || b->role == R_INTMP) {
        fill_buf(&rb, b, p[i], b->bytes);
        data_variant(b, p[i], 0, env->N, op_exec_data_salt, seed);
        if (b->live_bytes1 && b->live_bytes1 - 1 < b->bytes) fill_pattern((uint8_t*)p[i] + (b->live_bytes1 - 1), b->bytes - (b->live_bytes1 - 1), prefill, 66);
      } else gb_prefill(&g[i], prefill, 99 + (uint64_t)i);
    }
    size_t nb = b->is_zvec ? z[i].g.n : b->bytes;
    if (b->role == R_IN) res->src_bytes += nb;
    else if (b->role == R_SCRATCH || b->role == R_INTMP) res->scratch_bytes += nb;
    else res->out_bytes += nb;
    if ((monitors & MON_VALGRIND) && (b->role == R_OUT || b->role == R_SCRATCH) && nb) {
      if (b->is_zvec) {  // limbs only: the padding keeps its (defined) canaries
        for (uint64_t l = 0; l < b->size; l++) VALGRIND_MAKE_MEM_UNDEFINED(zvec_limb(&z[i], l), b->n * 8);
      } else
        VALGRIND_MAKE_MEM_UNDEFINED(p[i], nb);
    }
  }
  if (!op_exec_data_salt) relate_inputs(&pl, p, z, seed, env->N);
  if (monitors & MON_SNAPSHOT)
    for (int i = 0; i < pl.nb; i++)
      if (pl.b[i].role == R_IN) {
        if (pl.b[i].is_zvec) zvec_snap(&sn[i], &z[i]);
        else snap_take(&sn[i], p[i], pl.b[i].bytes);
      }
  memcpy(res->u, pl.u, sizeof res->u);
  memcpy(res->d, pl.d, sizeof res->d);
  if (monitors & MON_CAPTURE) {
    for (int pass = 0; pass < 2; pass++) {
      size_t off = 0;
      for (int i = 0; i < pl.nb; i++) {
        bufspec_t* b = &pl.b[i];
        if (b->role != R_IN && b->role != R_INOUT && b->role != R_INTMP) continue;
        if (b->is_zvec) {
          for (uint64_t l = 0; l < b->size; l++) {
            if (pass) memcpy(res->cap_in + off, zvec_limb(&z[i], l), b->n * 8);
            off += b->n * 8;
          }
        } else {
          if (pass) memcpy(res->cap_in + off, p[i], b->bytes);
          off += b->bytes;
        }
      }
      if (!pass) {
        res->cap_in = malloc(off ? off : 1);
        res->cap_in_bytes = off;
      }
    }
  }
  // op_exec_repeat > 0: the call is repeated that many times on the same buffers (inputs the call overwrites are restored
  // from a copy before each repetition); every repetition must return the bits of the first call
  const int rep_n = op_exec_repeat;
  uint8_t* rep_save[OP_MAXB] = {0};
  if (rep_n > 0)
    for (int i = 0; i < pl.nb; i++) {
      bufspec_t* b = &pl.b[i];
      if (b->role != R_INOUT && b->role != R_INTMP) continue;
      if (b->is_zvec) {
        rep_save[i] = malloc(b->size * b->n * 8 + 1);
        for (uint64_t l = 0; l < b->size; l++) memcpy(rep_save[i] + l * b->n * 8, zvec_limb(&z[i], l), b->n * 8);
      } else {
        rep_save[i] = malloc(b->bytes + 1);
        memcpy(rep_save[i], p[i], b->bytes);
      }
    }
  // sticky exception flags are legal thread state: one call in four starts with all of them pending (as after an unrelated 0/0 or overflow)
  if (((seed >> 5) + (uint64_t)prefill) % 4 == 0) _mm_setcsr(_mm_getcsr() | 0x3Fu);
  const unsigned csr0 = _mm_getcsr();
  unsigned short cw0, cw1;
  __asm__ volatile("fnstcw %0" : "=m"(cw0));
  // const inputs that live in a mapping of their own are read-only while the call runs (a transient write faults)
  int ro_applied[OP_MAXB] = {0};
  for (int i = 0; i < pl.nb; i++)
    if (pl.b[i].role == R_IN) ro_applied[i] = gb_readonly(pl.b[i].is_zvec ? &z[i].g : &g[i], 1);
  if (op_exec_oom) vp_oom_arm(1);
  o->call(&pl, p, env);
  if (op_exec_oom) vp_oom_arm(0);
  for (int i = 0; i < pl.nb; i++)
    if (ro_applied[i]) {
      gb_readonly(pl.b[i].is_zvec ? &z[i].g : &g[i], 0);
      __atomic_add_fetch(&ops_readonly_input_calls, 1, __ATOMIC_RELAXED);
    }
  __asm__ volatile("fnstcw %0" : "=m"(cw1));
  {
    // the rest of the CPU state a C caller relies on (System V ABI): direction flag clear, x87 register stack empty (a kernel
    // using MMX registers without EMMS leaves it "full": the caller's next long double operation returns NaN)
    unsigned long fl;
    __asm__ volatile("pushfq\n\tpopq %0" : "=r"(fl));
    struct { unsigned short cw, r0, sw, r1, tw, r2; unsigned int rest[4]; } fenv;
    __asm__ volatile("fnstenv %0\n\tfldenv %0" : "+m"(fenv));
    if ((fl & 0x400) || fenv.tw != 0xFFFF) {
      res->fpenv_changed = 1;
      if (!res->msg[0]) snprintf(res->msg, sizeof res->msg, "CPU state left by the call: direction flag %d, x87 tag word %#x (0xffff = empty)", (int)((fl >> 10) & 1), fenv.tw);
      __asm__ volatile("cld\n\temms");
    }
  }
  if ((_mm_getcsr() & ~0x3Fu) != (csr0 & ~0x3Fu) || cw0 != cw1) {  // (the sticky exception flags are not state the results depend on)
    res->fpenv_changed = 1;
    if (!res->msg[0]) snprintf(res->msg, sizeof res->msg, "floating-point environment changed by the call: MXCSR %#x -> %#x, x87 CW %#x -> %#x", csr0, _mm_getcsr(), cw0, cw1);
    _mm_setcsr(csr0);
  }
  if (monitors & MON_CAPTURE) {
    for (int pass = 0; pass < 2; pass++) {
      size_t off = 0;
      for (int i = 0; i < pl.nb; i++) {
        bufspec_t* b = &pl.b[i];
        if (b->role != R_OUT && b->role != R_INOUT) continue;
        if (b->is_zvec) {
          for (uint64_t l = 0; l < b->size; l++) {
            if (pass) memcpy(res->cap_out + off, zvec_limb(&z[i], l), b->n * 8);
            off += b->n * 8;
          }
        } else {
          if (pass) memcpy(res->cap_out + off, p[i], b->bytes);
          off += b->bytes;
        }
      }
      if (!pass) {
        res->cap_out = malloc(off ? off : 1);
        res->cap_out_bytes = off;
      }
    }
  }
  uint64_t h = 0x1234;
  for (int i = 0; i < pl.nb; i++) {
    bufspec_t* b = &pl.b[i];
    if (b->role == R_OUT || b->role == R_INOUT) {
      if (b->is_zvec) {
        for (uint64_t l = 0; l < b->size; l++) {
          if ((monitors & MON_VALGRIND) && b->n && VALGRIND_CHECK_MEM_IS_DEFINED(zvec_limb(&z[i], l), b->n * 8)) {
            __atomic_add_fetch(&ops_valgrind_undefined_outputs, 1, __ATOMIC_RELAXED);
            if (!res->msg[0]) snprintf(res->msg, sizeof res->msg, "output buffer %d limb %" PRIu64 " has undefined bytes (memcheck)", i, l);
          }
          h = hash_bytes(zvec_limb(&z[i], l), b->n * 8, h);
        }
      } else {
        if ((monitors & MON_VALGRIND) && b->bytes && VALGRIND_CHECK_MEM_IS_DEFINED(p[i], b->bytes)) {
          __atomic_add_fetch(&ops_valgrind_undefined_outputs, 1, __ATOMIC_RELAXED);
          if (!res->msg[0]) snprintf(res->msg, sizeof res->msg, "output buffer %d has undefined bytes (memcheck)", i);
        }
        h = hash_bytes(p[i], b->bytes, h);
      }
    }
  }
  res->out_hash = h;
  if (rep_n > 0) {
    for (int k = 0; k < rep_n; k++) {
      for (int i = 0; i < pl.nb; i++) {
        bufspec_t* b = &pl.b[i];
        if (!rep_save[i]) continue;
        if (b->is_zvec)
          for (uint64_t l = 0; l < b->size; l++) memcpy(zvec_limb(&z[i], l), rep_save[i] + l * b->n * 8, b->n * 8);
        else
          memcpy(p[i], rep_save[i], b->bytes);
      }
      o->call(&pl, p, env);
      uint64_t h2 = 0x1234;
      for (int i = 0; i < pl.nb; i++) {
        bufspec_t* b = &pl.b[i];
        if (b->role != R_OUT && b->role != R_INOUT) continue;
        if (b->is_zvec)
          for (uint64_t l = 0; l < b->size; l++) h2 = hash_bytes(zvec_limb(&z[i], l), b->n * 8, h2);
        else
          h2 = hash_bytes(p[i], b->bytes, h2);
      }
      if (h2 != h) {
        res->rerun_differs = 1;
        if (!res->msg[0]) snprintf(res->msg, sizeof res->msg, "call number %d of %d consecutive calls with identical arguments (same buffers, inputs restored) gave other output bits than the first", k + 2, rep_n + 1);
        break;
      }
    }
    for (int i = 0; i < pl.nb; i++) free(rep_save[i]);
  }
  if (monitors & MON_RERUN) {
    int pure = 1;
    for (int i = 0; i < pl.nb; i++)
      if (pl.b[i].role == R_INOUT || pl.b[i].role == R_INTMP) pure = 0;
    if (pure) {
      o->call(&pl, p, env);
      uint64_t h2 = 0x1234;
      for (int i = 0; i < pl.nb; i++) {
        bufspec_t* b = &pl.b[i];
        if (b->role != R_OUT) continue;
        if (b->is_zvec)
          for (uint64_t l = 0; l < b->size; l++) h2 = hash_bytes(zvec_limb(&z[i], l), b->n * 8, h2);
        else
          h2 = hash_bytes(p[i], b->bytes, h2);
      }
      if (h2 != h) {
        res->rerun_differs = 1;
        if (!res->msg[0]) snprintf(res->msg, sizeof res->msg, "a second call on the same buffers (outputs already holding the result, scratch as the first call left it) gave other output bits");
      }
    }
  }
  if ((monitors & MON_RECONTENT) && !op_exec_data_salt && !(monitors & MON_SNAPSHOT)) {
    // other data in the same buffers at the same addresses
    const uint64_t variant = 1 + (mix64(seed + 11) + (uint64_t)prefill) % 3;
    for (int i = 0; i < pl.nb; i++) {
      bufspec_t* b = &pl.b[i];
      if (b->role != R_IN && b->role != R_INOUT && b->role != R_INTMP) continue;
      rng_t rb;
      rng_seed(&rb, (seed ^ 0xA5A5) + (variant == 1) * 0x9E3779B97F4A7C15ull, (uint64_t)i + 17);
      if (b->is_zvec) {
        for (uint64_t l = 0; l < b->size; l++) fill_buf(&rb, b, zvec_limb(&z[i], l), b->n * 8);
        data_variant(b, 0, &z[i], env->N, variant, seed);
        if (b->live_limbs)
          for (uint64_t l = b->live_limbs - 1; l < b->size; l++) fill_pattern((uint8_t*)zvec_limb(&z[i], l), b->n * 8, prefill, 55 + l);
      } else {
        fill_buf(&rb, b, p[i], b->bytes);
        data_variant(b, p[i], 0, env->N, variant, seed);
        if (b->live_bytes1 && b->live_bytes1 - 1 < b->bytes) fill_pattern((uint8_t*)p[i] + (b->live_bytes1 - 1), b->bytes - (b->live_bytes1 - 1), prefill, 66);
      }
    }
    o->call(&pl, p, env);
    uint64_t h2 = 0x1234;
    for (int i = 0; i < pl.nb; i++) {
      bufspec_t* b = &pl.b[i];
      if (b->role != R_OUT && b->role != R_INOUT) continue;
      if (b->is_zvec)
        for (uint64_t l = 0; l < b->size; l++) h2 = hash_bytes(zvec_limb(&z[i], l), b->n * 8, h2);
      else
        h2 = hash_bytes(p[i], b->bytes, h2);
    }
    opres_t fr;
    op_exec_data_salt = variant;
    const int sr = op_exec_repeat;
    op_exec_repeat = 0;
    op_exec(o, env, seed, (prefill + 1) & 3, mis + 1, 0, &fr);
    op_exec_repeat = sr;
    op_exec_data_salt = 0;
    if (!fr.skipped && fr.out_hash != h2) {
      res->rerun_differs = 1;
      if (!res->msg[0]) snprintf(res->msg, sizeof res->msg, "a second call with OTHER data in the same input buffers (%s) returns other bits than a fresh call on that data: the first call's data or result is remembered by address", variant == 1 ? "new random values" : (variant == 2 ? "the first two limbs exchanged" : "one word exchanged between two limbs"));
    }
  }
  for (int i = 0; i < pl.nb; i++) {
    bufspec_t* b = &pl.b[i];
    if ((monitors & MON_SNAPSHOT) && b->role == R_IN) {
      long d = b->is_zvec ? zvec_snap_cmp_free(&sn[i], &z[i]) : snap_cmp_free(&sn[i]);
      if (d >= 0) {
        res->src_modified = 1;
        if (!res->msg[0]) snprintf(res->msg, sizeof res->msg, "source buffer %d modified at byte %ld", i, d);
      }
    }
    if (monitors & MON_CANARY) {
      char m2[160];
      long wh = 0;
      int bad = b->is_zvec ? zvec_check(&z[i], m2, sizeof m2) : gb_check(&g[i], &wh);
      if (bad) {
        res->canary_bad = 1;
        if (!res->msg[0]) {
          if (b->is_zvec) snprintf(res->msg, sizeof res->msg, "buffer %d: %s", i, m2);
          else snprintf(res->msg, sizeof res->msg, "buffer %d (%zu bytes, role %d): guard band modified at offset %ld", i, b->bytes, b->role, wh);
        }
      }
    }
    if (b->is_zvec) zvec_free(&z[i]);
    else gb_free(&g[i]);
  }
}

// ================================================================= catalogue
#define MOD(e, pl) ((pl)->u[7] ? (e)->ntt120 : (e)->fft64)
#define SHAPE(pl, ...) snprintf((pl)->shape, sizeof (pl)->shape, __VA_ARGS__)
static const char* szc(uint64_t rs, uint64_t as) { return rs == 0 ? "res=0" : (as == 0 ? "a=0" : (rs < as ? "res<a" : (rs == as ? "res=a" : "res>a"))); }

// --- generic vec_znx ops (registered twice: FFT64 and NTT120 module)
#define GEN2(NAME)                                                                     \
  static void plan_##NAME##_ntt(opplan_t* pl, rng_t* r, const env_t* e) {             \
    if (!e->ntt120) { pl->skip = 1; return; }                                         \
    plan_##NAME(pl, r, e);                                                             \
    pl->u[7] = 1;                                                                      \
  }
static void plan_zero(opplan_t* pl, rng_t* r, const env_t* e) {
  uint64_t rs = rsz(r, 3);
  B_ZV(pl, R_OUT, F_NONE, 0, e->N, rs, rsl(r, e->N));
  SHAPE(pl, "%s", rs ? "res>0" : "res=0");
}
static void call_zero(const opplan_t* pl, void* const p[], const env_t* e) { vec_znx_zero(MOD(e, pl), p[0], pl->b[0].size, pl->b[0].sl); }
GEN2(zero)
static void plan_unary(opplan_t* pl, rng_t* r, const env_t* e) {
  uint64_t rs = rsz(r, 3), as = rsz(r, 3);
  B_ZV(pl, R_OUT, F_NONE, 0, e->N, rs, rsl(r, e->N));
  B_ZV(pl, R_IN, F_I64, 61, e->N, as, rsl(r, e->N));
  pl->s[0] = plan_p(r, e->N);
  pl->u[0] = 1 + rng_u64(r) % 62;
  SHAPE(pl, "%s", szc(rs, as));
}
GEN2(unary)
#define UN(NAME, EXPR)                                                                                     \
  static void call_##NAME(const opplan_t* pl, void* const p[], const env_t* e) {                         \
    const MODULE* M = MOD(e, pl);                                                                          \
    int64_t* res = p[0]; const int64_t* a = p[1];                                                          \
    uint64_t rs = pl->b[0].size, rl = pl->b[0].sl, as = pl->b[1].size, al = pl->b[1].sl;                   \
    (void)M; (void)res; (void)a; (void)rs; (void)rl; (void)as; (void)al;                                   \
    EXPR;                                                                                                  \
  }
UN(copy, vec_znx_copy(M, res, rs, rl, a, as, al))
UN(negate, vec_znx_negate(M, res, rs, rl, a, as, al))
UN(rotate, vec_znx_rotate(M, pl->s[0], res, rs, rl, a, as, al))
UN(automorphism, vec_znx_automorphism(M, pl->s[0] | 1, res, rs, rl, a, as, al))
static void plan_normalize(opplan_t* pl, rng_t* r, const env_t* e) {
  plan_unary(pl, r, e);
  pl->b[1].fillarg = 62;
  B_RAW(pl, R_SCRATCH, F_NONE, 0, vec_znx_normalize_base2k_tmp_bytes(e->fft64), 8);
}
GEN2(normalize)
static void call_normalize(const opplan_t* pl, void* const p[], const env_t* e) {
  vec_znx_normalize_base2k(MOD(e, pl), pl->u[0], p[0], pl->b[0].size, pl->b[0].sl, p[1], pl->b[1].size, pl->b[1].sl, p[2]);
}
static void plan_binary(opplan_t* pl, rng_t* r, const env_t* e) {
  uint64_t rs = rsz(r, 3), as = rsz(r, 3), bs = rsz(r, 3);
  B_ZV(pl, R_OUT, F_NONE, 0, e->N, rs, rsl(r, e->N));
  B_ZV(pl, R_IN, F_I64, 61, e->N, as, rsl(r, e->N));
  B_ZV(pl, R_IN, F_I64, 61, e->N, bs, rsl(r, e->N));
  SHAPE(pl, "%s,%s", szc(rs, as), as < bs ? "a<b" : (as == bs ? "a=b" : "a>b"));
}
GEN2(binary)
static void call_add(const opplan_t* pl, void* const p[], const env_t* e) { vec_znx_add(MOD(e, pl), p[0], pl->b[0].size, pl->b[0].sl, p[1], pl->b[1].size, pl->b[1].sl, p[2], pl->b[2].size, pl->b[2].sl); }
static void call_sub(const opplan_t* pl, void* const p[], const env_t* e) { vec_znx_sub(MOD(e, pl), p[0], pl->b[0].size, pl->b[0].sl, p[1], pl->b[1].size, pl->b[1].sl, p[2], pl->b[2].size, pl->b[2].sl); }

// --- in-place forms (res is the very same buffer as a): one INOUT vector with max(res, a) limbs
static void plan_inplace_vec(opplan_t* pl, rng_t* r, const env_t* e) {
  uint64_t rs = rsz(r, 3), as = rsz(r, 3), bs = rsz(r, 3);
  pl->u[0] = rs; pl->u[1] = as;
  { int xi = B_ZV(pl, R_INOUT, F_I64, 61, e->N, rs > as ? rs : as, rsl(r, e->N)); if (rs > as) pl->b[xi].live_limbs = as + 1; }
  B_ZV(pl, R_IN, F_I64, 61, e->N, bs, rsl(r, e->N));
  pl->s[0] = plan_p(r, e->N);
  pl->u[2] = 1 + rng_u64(r) % 62;
  B_RAW(pl, R_SCRATCH, F_NONE, 0, vec_znx_normalize_base2k_tmp_bytes(e->fft64), 8);
  SHAPE(pl, "%s", szc(rs, as));
}
GEN2(inplace_vec)
// the in-place normalisation is called with res_size = min(res, a): it writes no limb beyond the input's, so the whole buffer is input
static void plan_inplace_norm(opplan_t* pl, rng_t* r, const env_t* e) { plan_inplace_vec(pl, r, e); pl->b[0].live_limbs = 0; }
#define IPV(NAME, EXPR)                                                                              \
  static void call_##NAME(const opplan_t* pl, void* const p[], const env_t* e) {                   \
    const MODULE* M = MOD(e, pl); int64_t* x = p[0]; const uint64_t sl = pl->b[0].sl, rs = pl->u[0], as = pl->u[1]; \
    (void)M; (void)x; (void)sl; (void)rs; (void)as; EXPR;                                            \
  }
IPV(ip_copy, vec_znx_copy(M, x, rs, sl, x, as, sl))
IPV(ip_negate, vec_znx_negate(M, x, rs, sl, x, as, sl))
IPV(ip_rotate, vec_znx_rotate(M, pl->s[0], x, rs, sl, x, as, sl))
IPV(ip_auto, vec_znx_automorphism(M, pl->s[0] | 1, x, rs, sl, x, as, sl))
IPV(ip_normalize, vec_znx_normalize_base2k(M, pl->u[2], x, rs < as ? rs : as, sl, x, as, sl, p[2]))
IPV(ip_add, vec_znx_add(M, x, rs, sl, x, as, sl, p[1], pl->b[1].size, pl->b[1].sl))
IPV(ip_sub_b, vec_znx_sub(M, x, rs, sl, p[1], pl->b[1].size, pl->b[1].sl, x, as, sl))
IPV(ip_add_b, vec_znx_add(M, x, rs, sl, p[1], pl->b[1].size, pl->b[1].sl, x, as, sl))
IPV(ip_sub_a, vec_znx_sub(M, x, rs, sl, x, as, sl, p[1], pl->b[1].size, pl->b[1].sl))
static void plan_inplace_big(opplan_t* pl, rng_t* r, const env_t* e) {
  uint64_t rs = rsz(r, 3), as = rsz(r, 3), bs = rsz(r, 3);
  pl->u[0] = rs; pl->u[1] = as; pl->u[2] = bs;
  { int xi = B_RAW(pl, R_INOUT, F_I64, 61, bytes_of_vec_znx_big(e->fft64, rs > as ? rs : as), 8); if (rs > as) pl->b[xi].live_bytes1 = as * e->N * 8 + 1; }
  B_RAW(pl, R_IN, F_I64, 61, bytes_of_vec_znx_big(e->fft64, bs), 8);
  pl->s[0] = plan_p(r, e->N);
  SHAPE(pl, "%s", szc(rs, as));
}
#define IPB(NAME, EXPR) static void call_##NAME(const opplan_t* pl, void* const p[], const env_t* e) { const MODULE* M = e->fft64; uint64_t rs = pl->u[0], as = pl->u[1], bs = pl->u[2]; (void)bs; EXPR; }
IPB(ipb_add, vec_znx_big_add(M, p[0], rs, p[0], as, p[1], bs))
IPB(ipb_sub, vec_znx_big_sub(M, p[0], rs, p[1], bs, p[0], as))
IPB(ipb_add_b, vec_znx_big_add(M, p[0], rs, p[1], bs, p[0], as))
IPB(ipb_sub_a, vec_znx_big_sub(M, p[0], rs, p[0], as, p[1], bs))
IPB(ipb_rotate, vec_znx_big_rotate(M, pl->s[0], p[0], rs, p[0], as))
IPB(ipb_auto, vec_znx_big_automorphism(M, pl->s[0] | 1, p[0], rs, p[0], as))
static void plan_inplace_idft(opplan_t* pl, rng_t* r, const env_t* e) {
  uint64_t rs = rsz(r, 3), as = rsz(r, 3);
  pl->u[0] = rs; pl->u[1] = as;
  { int xi = B_RAW(pl, R_INOUT, F_DBLINT, (rng_u64(r) & 3) == 0 ? 58 : 40, bytes_of_vec_znx_dft(e->fft64, rs > as ? rs : as), 8); if (rs > as) pl->b[xi].live_bytes1 = as * e->N * 8 + 1; }
  B_RAW(pl, R_SCRATCH, F_NONE, 0, vec_znx_idft_tmp_bytes(e->fft64), 8);
  SHAPE(pl, "%s", szc(rs, as));
}
static void call_ip_idft(const opplan_t* pl, void* const p[], const env_t* e) { vec_znx_idft(e->fft64, p[0], pl->u[0], p[0], pl->u[1], p[1]); }
static void plan_inplace_mul(opplan_t* pl, rng_t* r, const env_t* e) {
  (void)r;
  B_RAW(pl, R_INOUT, F_DBL, 4, 2 * e->m * 8, 8);
  B_RAW(pl, R_IN, F_DBL, 4, 2 * e->m * 8, 8);
}
static void call_ip_reim_mul(const opplan_t* pl, void* const p[], const env_t* e) { (void)pl; reim_fftvec_mul(e->reim_mul, p[0], p[0], p[1]); }
static void call_ip_reim_addmul(const opplan_t* pl, void* const p[], const env_t* e) { (void)pl; reim_fftvec_addmul(e->reim_addmul, p[0], p[1], p[0]); }
static void call_ip_cplx_mul(const opplan_t* pl, void* const p[], const env_t* e) { (void)pl; cplx_fftvec_mul(e->cplx_mul, p[0], p[1], p[0]); }
// the remaining aliasing patterns of the pointwise products, on the three layouts
static void plan_inplace_mul4(opplan_t* pl, rng_t* r, const env_t* e) { if (e->m < 4) { pl->skip = 1; return; } plan_inplace_mul(pl, r, e); }
static void plan_square(opplan_t* pl, rng_t* r, const env_t* e) { (void)r; B_RAW(pl, R_INOUT, F_DBL, 4, 2 * e->m * 8, 8); }
static void plan_square4(opplan_t* pl, rng_t* r, const env_t* e) { if (e->m < 4) { pl->skip = 1; return; } plan_square(pl, r, e); }
static void call_ip_reim_mul_b(const opplan_t* pl, void* const p[], const env_t* e) { (void)pl; reim_fftvec_mul(e->reim_mul, p[0], p[1], p[0]); }
static void call_ip_reim_mul_ab(const opplan_t* pl, void* const p[], const env_t* e) { (void)pl; reim_fftvec_mul(e->reim_mul, p[0], p[0], p[0]); }
static void call_ip_cplx_mul_a(const opplan_t* pl, void* const p[], const env_t* e) { (void)pl; cplx_fftvec_mul(e->cplx_mul, p[0], p[0], p[1]); }
static void call_ip_cplx_mul_ab(const opplan_t* pl, void* const p[], const env_t* e) { (void)pl; cplx_fftvec_mul(e->cplx_mul, p[0], p[0], p[0]); }
static void call_ip_r4_mul_a(const opplan_t* pl, void* const p[], const env_t* e) { (void)pl; reim4_fftvec_mul(e->r4_mul, p[0], p[0], p[1]); }
static void call_ip_r4_mul_b(const opplan_t* pl, void* const p[], const env_t* e) { (void)pl; reim4_fftvec_mul(e->r4_mul, p[0], p[1], p[0]); }
static void call_ip_r4_mul_ab(const opplan_t* pl, void* const p[], const env_t* e) { (void)pl; reim4_fftvec_mul(e->r4_mul, p[0], p[0], p[0]); }
// both (read-only) inputs are the same vector, the output is another one: r = a*a, r += a*a
static void plan_sq_out(opplan_t* pl, rng_t* r, const env_t* e) { (void)r; B_RAW(pl, R_OUT, F_NONE, 0, 2 * e->m * 8, 8); pl->b[B_RAW(pl, R_IN, F_DBL, 4, 2 * e->m * 8, 8)].dynrange = 1; }
static void plan_sq_acc(opplan_t* pl, rng_t* r, const env_t* e) { (void)r; B_RAW(pl, R_INOUT, F_DBL, 4, 2 * e->m * 8, 8); pl->b[B_RAW(pl, R_IN, F_DBL, 4, 2 * e->m * 8, 8)].dynrange = 1; }
static void plan_sq_out4(opplan_t* pl, rng_t* r, const env_t* e) { if (e->m < 4) { pl->skip = 1; return; } plan_sq_out(pl, r, e); }
static void plan_sq_acc4(opplan_t* pl, rng_t* r, const env_t* e) { if (e->m < 4) { pl->skip = 1; return; } plan_sq_acc(pl, r, e); }
static void plan_sq_acc8(opplan_t* pl, rng_t* r, const env_t* e) { if (e->m < 8) { pl->skip = 1; return; } plan_sq_acc(pl, r, e); }
static void plan_sq_out8(opplan_t* pl, rng_t* r, const env_t* e) { if (e->m < 8) { pl->skip = 1; return; } plan_sq_out(pl, r, e); }
static void call_sq_reim_mul(const opplan_t* pl, void* const p[], const env_t* e) { (void)pl; reim_fftvec_mul(e->reim_mul, p[0], p[1], p[1]); }
static void call_sq_reim_addmul(const opplan_t* pl, void* const p[], const env_t* e) { (void)pl; reim_fftvec_addmul(e->reim_addmul, p[0], p[1], p[1]); }
static void call_sq_cplx_mul(const opplan_t* pl, void* const p[], const env_t* e) { (void)pl; cplx_fftvec_mul(e->cplx_mul, p[0], p[1], p[1]); }
static void call_sq_cplx_addmul(const opplan_t* pl, void* const p[], const env_t* e) { (void)pl; cplx_fftvec_addmul(e->cplx_addmul, p[0], p[1], p[1]); }
static void call_sq_r4_mul(const opplan_t* pl, void* const p[], const env_t* e) { (void)pl; reim4_fftvec_mul(e->r4_mul, p[0], p[1], p[1]); }
static void call_sq_r4_addmul(const opplan_t* pl, void* const p[], const env_t* e) { (void)pl; reim4_fftvec_addmul(e->r4_addmul, p[0], p[1], p[1]); }
static void call_sq_reim_mul_ref(const opplan_t* pl, void* const p[], const env_t* e) { (void)pl; reim_fftvec_mul_ref(e->reim_mul, p[0], p[1], p[1]); }
static void call_sq_reim_mul_fma(const opplan_t* pl, void* const p[], const env_t* e) { (void)pl; reim_fftvec_mul_fma(e->reim_mul, p[0], p[1], p[1]); }
static void call_sq_reim_addmul_ref(const opplan_t* pl, void* const p[], const env_t* e) { (void)pl; reim_fftvec_addmul_ref(e->reim_addmul, p[0], p[1], p[1]); }
static void call_sq_reim_addmul_fma(const opplan_t* pl, void* const p[], const env_t* e) { (void)pl; reim_fftvec_addmul_fma(e->reim_addmul, p[0], p[1], p[1]); }
static void call_sq_cplx_mul_ref(const opplan_t* pl, void* const p[], const env_t* e) { (void)pl; cplx_fftvec_mul_ref(e->cplx_mul, p[0], p[1], p[1]); }
static void call_sq_cplx_mul_fma(const opplan_t* pl, void* const p[], const env_t* e) { (void)pl; cplx_fftvec_mul_fma(e->cplx_mul, p[0], p[1], p[1]); }
static void call_sq_cplx_addmul_ref(const opplan_t* pl, void* const p[], const env_t* e) { (void)pl; cplx_fftvec_addmul_ref(e->cplx_addmul, p[0], p[1], p[1]); }
static void call_sq_cplx_addmul_fma(const opplan_t* pl, void* const p[], const env_t* e) { (void)pl; cplx_fftvec_addmul_fma(e->cplx_addmul, p[0], p[1], p[1]); }
static void call_sq_r4_mul_ref(const opplan_t* pl, void* const p[], const env_t* e) { (void)pl; reim4_fftvec_mul_ref(e->r4_mul, p[0], p[1], p[1]); }
static void call_sq_r4_mul_fma(const opplan_t* pl, void* const p[], const env_t* e) { (void)pl; reim4_fftvec_mul_fma(e->r4_mul, p[0], p[1], p[1]); }
static void call_sq_r4_addmul_ref(const opplan_t* pl, void* const p[], const env_t* e) { (void)pl; reim4_fftvec_addmul_ref(e->r4_addmul, p[0], p[1], p[1]); }
static void call_sq_r4_addmul_fma(const opplan_t* pl, void* const p[], const env_t* e) { (void)pl; reim4_fftvec_addmul_fma(e->r4_addmul, p[0], p[1], p[1]); }

// --- dft / idft (both module types)
static uint64_t dft_bytes(const env_t* e, int ntt, uint64_t size) { return ntt ? e->N * 32 * size : bytes_of_vec_znx_dft(e->fft64, size); }
static uint64_t big_bytes(const env_t* e, int ntt, uint64_t size) { return ntt ? e->N * 16 * size : bytes_of_vec_znx_big(e->fft64, size); }
static void plan_dft_x(opplan_t* pl, rng_t* r, const env_t* e, int ntt) {
  uint64_t rs = rsz(r, 3), as = rsz(r, 3);
  pl->u[7] = (uint64_t)ntt;
  B_RAW(pl, R_OUT, F_NONE, 0, dft_bytes(e, ntt, rs), ntt ? 32 : 8);
  B_ZV(pl, R_IN, F_I64, ntt ? 63 : 50, e->N, as, rsl(r, e->N));  // FFT64: the documented bound |x| < 2^50
  pl->u[0] = rs;
  SHAPE(pl, "%s", szc(rs, as));
}
static void plan_dft(opplan_t* pl, rng_t* r, const env_t* e) { plan_dft_x(pl, r, e, 0); }
static void plan_dft_ntt(opplan_t* pl, rng_t* r, const env_t* e) {
  if (!e->ntt120) { pl->skip = 1; return; }
  plan_dft_x(pl, r, e, 1);
}
static void call_dft(const opplan_t* pl, void* const p[], const env_t* e) { vec_znx_dft(MOD(e, pl), p[0], pl->u[0], p[1], pl->b[1].size, pl->b[1].sl); }
static void plan_idft_x(opplan_t* pl, rng_t* r, const env_t* e, int ntt, int tmp_a) {
  uint64_t rs = rsz(r, 3), as = rsz(r, 3);
  pl->u[7] = (uint64_t)ntt;
  pl->u[0] = rs;
  pl->u[1] = as;
  B_RAW(pl, R_OUT, F_NONE, 0, big_bytes(e, ntt, rs), ntt ? 16 : 8);
  // (FFT64 spectra: mostly 40-bit integers, one plan in four each 52 and 58 bits - inverse transforms whose coefficients exceed 2^53,
  // as after a product near the budget)
  const unsigned sbits = (rng_u64(r) & 3) == 0 ? 58 : ((rng_u64(r) & 3) == 1 ? 52 : 40);
  B_RAW(pl, tmp_a ? R_INTMP : R_IN, ntt ? F_U64 : F_DBLINT, ntt ? 0 : sbits, dft_bytes(e, ntt, as), ntt ? 32 : 8);  // tmp_a: the source is used as scratch
  if (!tmp_a) B_RAW(pl, R_SCRATCH, F_NONE, 0, vec_znx_idft_tmp_bytes(ntt ? e->ntt120 : e->fft64), 8);
  SHAPE(pl, "%s", szc(rs, as));
}
static void plan_idft(opplan_t* pl, rng_t* r, const env_t* e) { plan_idft_x(pl, r, e, 0, 0); }
static void plan_idft_ntt(opplan_t* pl, rng_t* r, const env_t* e) { if (!e->ntt120) { pl->skip = 1; return; } plan_idft_x(pl, r, e, 1, 0); }
static void plan_idft_tmp_a(opplan_t* pl, rng_t* r, const env_t* e) { plan_idft_x(pl, r, e, 0, 1); }
static void plan_idft_tmp_a_ntt(opplan_t* pl, rng_t* r, const env_t* e) { if (!e->ntt120) { pl->skip = 1; return; } plan_idft_x(pl, r, e, 1, 1); }
static void call_idft(const opplan_t* pl, void* const p[], const env_t* e) { vec_znx_idft(MOD(e, pl), p[0], pl->u[0], p[1], pl->u[1], p[2]); }
static void call_idft_tmp_a(const opplan_t* pl, void* const p[], const env_t* e) { vec_znx_idft_tmp_a(MOD(e, pl), p[0], pl->u[0], p[1], pl->u[1]); }

// --- big-coefficient ops (FFT64)
// operand kinds per variant: 'B' big (stride N, bytes_of_vec_znx_big), 'S' small strided
static void plan_big2(opplan_t* pl, rng_t* r, const env_t* e, char ka, char kb) {
  uint64_t rs = rsz(r, 3), as = rsz(r, 3), bs = rsz(r, 3);
  pl->u[0] = rs; pl->u[1] = as; pl->u[2] = bs;
  B_RAW(pl, R_OUT, F_NONE, 0, bytes_of_vec_znx_big(e->fft64, rs), 8);
  if (ka == 'B') B_RAW(pl, R_IN, F_I64, 61, bytes_of_vec_znx_big(e->fft64, as), 8);
  else B_ZV(pl, R_IN, F_I64, 61, e->N, as, rsl(r, e->N));
  if (kb == 'B') B_RAW(pl, R_IN, F_I64, 61, bytes_of_vec_znx_big(e->fft64, bs), 8);
  else if (kb == 'S') B_ZV(pl, R_IN, F_I64, 61, e->N, bs, rsl(r, e->N));
  pl->s[0] = plan_p(r, e->N);
  SHAPE(pl, "%s", szc(rs, as));
}
#define BIGPLAN(NAME, KA, KB) static void plan_##NAME(opplan_t* pl, rng_t* r, const env_t* e) { plan_big2(pl, r, e, KA, KB); }
BIGPLAN(big_bb, 'B', 'B') BIGPLAN(big_bs, 'B', 'S') BIGPLAN(big_ss, 'S', 'S') BIGPLAN(big_sb, 'S', 'B') BIGPLAN(big_b, 'B', 0)
#define BIGCALL(NAME, EXPR)                                                                  \
  static void call_##NAME(const opplan_t* pl, void* const p[], const env_t* e) {           \
    const MODULE* M = e->fft64; uint64_t rs = pl->u[0], as = pl->u[1], bs = pl->u[2];        \
    (void)bs; EXPR;                                                                          \
  }
BIGCALL(big_add, vec_znx_big_add(M, p[0], rs, p[1], as, p[2], bs))
BIGCALL(big_add_small, vec_znx_big_add_small(M, p[0], rs, p[1], as, p[2], bs, pl->b[2].sl))
BIGCALL(big_add_small2, vec_znx_big_add_small2(M, p[0], rs, p[1], as, pl->b[1].sl, p[2], bs, pl->b[2].sl))
BIGCALL(big_sub, vec_znx_big_sub(M, p[0], rs, p[1], as, p[2], bs))
BIGCALL(big_sub_small_a, vec_znx_big_sub_small_a(M, p[0], rs, p[1], as, pl->b[1].sl, p[2], bs))
BIGCALL(big_sub_small_b, vec_znx_big_sub_small_b(M, p[0], rs, p[1], as, p[2], bs, pl->b[2].sl))
BIGCALL(big_sub_small2, vec_znx_big_sub_small2(M, p[0], rs, p[1], as, pl->b[1].sl, p[2], bs, pl->b[2].sl))
BIGCALL(big_rotate, vec_znx_big_rotate(M, pl->s[0], p[0], rs, p[1], as))
BIGCALL(big_automorphism, vec_znx_big_automorphism(M, pl->s[0] | 1, p[0], rs, p[1], as))
static void plan_big_normalize(opplan_t* pl, rng_t* r, const env_t* e) {
  uint64_t rs = rsz(r, 3), as = rsz(r, 3);
  pl->u[0] = 1 + rng_u64(r) % 62;
  pl->u[1] = as;
  B_ZV(pl, R_OUT, F_NONE, 0, e->N, rs, rsl(r, e->N));
  B_RAW(pl, R_IN, F_I64, 62, bytes_of_vec_znx_big(e->fft64, as), 8);
  B_RAW(pl, R_SCRATCH, F_NONE, 0, vec_znx_big_normalize_base2k_tmp_bytes(e->fft64), 8);
  SHAPE(pl, "%s", szc(rs, as));
}
static void call_big_normalize(const opplan_t* pl, void* const p[], const env_t* e) { vec_znx_big_normalize_base2k(e->fft64, pl->u[0], p[0], pl->b[0].size, pl->b[0].sl, p[1], pl->u[1], p[2]); }
static void plan_big_range_normalize(opplan_t* pl, rng_t* r, const env_t* e) {
  uint64_t rs = rsz(r, 3), b = rsz(r, 3), en = b + rsz(r, 4), st = 1 + rsz(r, 2);
  pl->u[0] = 1 + rng_u64(r) % 62;
  pl->u[1] = b; pl->u[2] = en; pl->u[3] = st;
  B_ZV(pl, R_OUT, F_NONE, 0, e->N, rs, rsl(r, e->N));
  B_RAW(pl, R_IN, F_I64, 62, bytes_of_vec_znx_big(e->fft64, en), 8);
  B_RAW(pl, R_SCRATCH, F_NONE, 0, vec_znx_big_range_normalize_base2k_tmp_bytes(e->fft64), 8);
  SHAPE(pl, "%s", b == en ? "empty-range" : (rs ? "range" : "res=0"));
}
static void call_big_range_normalize(const opplan_t* pl, void* const p[], const env_t* e) { vec_znx_big_range_normalize_base2k(e->fft64, pl->u[0], p[0], pl->b[0].size, pl->b[0].sl, p[1], pl->u[1], pl->u[2], pl->u[3], p[2]); }

// --- svp / small product / vmp (FFT64)
static void plan_svp_prepare(opplan_t* pl, rng_t* r, const env_t* e) {
  (void)r;
  B_RAW(pl, R_OUT, F_NONE, 0, bytes_of_svp_ppol(e->fft64), 8);
  B_RAW(pl, R_IN, F_I64, 30, e->N * 8, 8);
}
static void call_svp_prepare(const opplan_t* pl, void* const p[], const env_t* e) { (void)pl; svp_prepare(e->fft64, p[0], p[1]); }
static void plan_svp_apply(opplan_t* pl, rng_t* r, const env_t* e) {
  uint64_t rs = rsz(r, 3), as = rsz(r, 3);
  pl->u[0] = rs;
  B_RAW(pl, R_OUT, F_NONE, 0, bytes_of_vec_znx_dft(e->fft64, rs), 8);
  B_RAW(pl, R_OUT, F_NONE, 0, bytes_of_svp_ppol(e->fft64), 8);
  B_RAW(pl, R_IN, F_I64, 20, e->N * 8, 8);
  B_ZV(pl, R_IN, F_I64, 20, e->N, as, rsl(r, e->N));
  SHAPE(pl, "%s", szc(rs, as));
}
static void call_svp_apply(const opplan_t* pl, void* const p[], const env_t* e) {
  svp_prepare(e->fft64, p[1], p[2]);
  svp_apply_dft(e->fft64, p[0], pl->u[0], p[1], p[3], pl->b[3].size, pl->b[3].sl);
}
static void plan_small_product(opplan_t* pl, rng_t* r, const env_t* e) {
  (void)r;
  B_RAW(pl, R_OUT, F_NONE, 0, e->N * 8, 8);
  B_RAW(pl, R_IN, F_I64, 20, e->N * 8, 8);
  B_RAW(pl, R_IN, F_I64, 12, e->N * 8, 8);
  B_RAW(pl, R_SCRATCH, F_NONE, 0, znx_small_single_product_tmp_bytes(e->fft64), 8);
}
static void call_small_product(const opplan_t* pl, void* const p[], const env_t* e) { (void)pl; znx_small_single_product(e->fft64, p[0], p[1], p[2], p[3]); }
static void vmp_shape(opplan_t* pl, rng_t* r) {
  pl->u[0] = 1 + rsz(r, 3);  // nrows
  pl->u[1] = 1 + rsz(r, 3);  // ncols
  pl->u[2] = rsz(r, 5);      // a_size
  pl->u[3] = rsz(r, 5);      // res_size
  uint64_t rm = pl->u[0] < pl->u[2] ? pl->u[0] : pl->u[2];
  SHAPE(pl, "%s,%s", pl->u[3] == 0 ? "res_size=0" : (pl->u[3] < pl->u[1] ? "res<ncols" : "res>=ncols"), rm == 0 ? "rows=0" : "rows>0");
}
static void plan_vmp_prepare(opplan_t* pl, rng_t* r, const env_t* e) {
  vmp_shape(pl, r);
  B_RAW(pl, R_OUT, F_NONE, 0, bytes_of_vmp_pmat(e->fft64, pl->u[0], pl->u[1]), 8);
  { int mi = B_RAW(pl, R_IN, F_I64, 16, pl->u[0] * pl->u[1] * e->N * 8, 8); pl->b[mi].zero_block = e->N; }  // some matrix entries are the zero polynomial
  B_RAW(pl, R_SCRATCH, F_NONE, 0, vmp_prepare_contiguous_tmp_bytes(e->fft64, pl->u[0], pl->u[1]), 8);
  SHAPE(pl, "-");
}
static void call_vmp_prepare(const opplan_t* pl, void* const p[], const env_t* e) { vmp_prepare_contiguous(e->fft64, p[0], p[1], pl->u[0], pl->u[1], p[2]); }
static void plan_vmp_apply(opplan_t* pl, rng_t* r, const env_t* e) {
  vmp_shape(pl, r);
  B_RAW(pl, R_OUT, F_NONE, 0, bytes_of_vec_znx_dft(e->fft64, pl->u[3]), 8);
  B_RAW(pl, R_OUT, F_NONE, 0, bytes_of_vmp_pmat(e->fft64, pl->u[0], pl->u[1]), 8);
  { int mi = B_RAW(pl, R_IN, F_I64, 16, pl->u[0] * pl->u[1] * e->N * 8, 8); pl->b[mi].zero_block = e->N; }  // some matrix entries are the zero polynomial
  B_RAW(pl, R_SCRATCH, F_NONE, 0, vmp_prepare_contiguous_tmp_bytes(e->fft64, pl->u[0], pl->u[1]), 8);
  B_ZV(pl, R_IN, F_I64, 16, e->N, pl->u[2], e->N + (rng_u64(r) & 3));
  B_RAW(pl, R_SCRATCH, F_NONE, 0, vmp_apply_dft_tmp_bytes(e->fft64, pl->u[3], pl->u[2], pl->u[0], pl->u[1]), 8);
}
static void call_vmp_apply(const opplan_t* pl, void* const p[], const env_t* e) {
  vmp_prepare_contiguous(e->fft64, p[1], p[2], pl->u[0], pl->u[1], p[3]);
  vmp_apply_dft(e->fft64, p[0], pl->u[3], p[4], pl->u[2], pl->b[4].sl, p[1], pl->u[0], pl->u[1], p[5]);
}
static void plan_vmp_apply_dft_to_dft(opplan_t* pl, rng_t* r, const env_t* e) {
  vmp_shape(pl, r);
  B_RAW(pl, R_OUT, F_NONE, 0, bytes_of_vec_znx_dft(e->fft64, pl->u[3]), 8);
  B_RAW(pl, R_OUT, F_NONE, 0, bytes_of_vmp_pmat(e->fft64, pl->u[0], pl->u[1]), 8);
  { int mi = B_RAW(pl, R_IN, F_I64, 16, pl->u[0] * pl->u[1] * e->N * 8, 8); pl->b[mi].zero_block = e->N; }  // some matrix entries are the zero polynomial
  B_RAW(pl, R_SCRATCH, F_NONE, 0, vmp_prepare_contiguous_tmp_bytes(e->fft64, pl->u[0], pl->u[1]), 8);
  B_RAW(pl, R_IN, F_DBLINT, 30, bytes_of_vec_znx_dft(e->fft64, pl->u[2]), 8);
  B_RAW(pl, R_SCRATCH, F_NONE, 0, vmp_apply_dft_to_dft_tmp_bytes(e->fft64, pl->u[3], pl->u[2], pl->u[0], pl->u[1]), 8);
}
static void call_vmp_apply_dft_to_dft(const opplan_t* pl, void* const p[], const env_t* e) {
  vmp_prepare_contiguous(e->fft64, p[1], p[2], pl->u[0], pl->u[1], p[3]);
  vmp_apply_dft_to_dft(e->fft64, p[0], pl->u[3], p[4], pl->u[2], p[1], pl->u[0], pl->u[1], p[5]);
}

// --- table-based kernels on 2m doubles
static void plan_inplace_d(opplan_t* pl, rng_t* r, const env_t* e) { (void)r; B_RAW(pl, R_INOUT, F_DBLINT, 30, 2 * e->m * 8, 8); }
#define TCALL(NAME, EXPR) static void call_##NAME(const opplan_t* pl, void* const p[], const env_t* e) { (void)pl; EXPR; }
TCALL(reim_fft, reim_fft(e->reim_fft, p[0]))
TCALL(reim_ifft, reim_ifft(e->reim_ifft, p[0]))
TCALL(cplx_fft, cplx_fft(e->cplx_fft, p[0]))
TCALL(cplx_ifft, cplx_ifft(e->cplx_ifft, p[0]))
static void plan_mul_d(opplan_t* pl, rng_t* r, const env_t* e) {
  (void)r;
  B_RAW(pl, R_OUT, F_NONE, 0, 2 * e->m * 8, 8);
  pl->b[B_RAW(pl, R_IN, F_DBL, 4, 2 * e->m * 8, 8)].dynrange = 1;
  pl->b[B_RAW(pl, R_IN, F_DBL, 4, 2 * e->m * 8, 8)].dynrange = 1;
}
static void plan_addmul_d(opplan_t* pl, rng_t* r, const env_t* e) {
  plan_mul_d(pl, r, e);
  pl->b[0].role = R_INOUT;
  pl->b[0].fill = F_DBL;
  pl->b[0].fillarg = 4;
}
static void plan_mul_r4(opplan_t* pl, rng_t* r, const env_t* e) { if (e->m < 4) { pl->skip = 1; return; } plan_mul_d(pl, r, e); }
static void plan_addmul_r4(opplan_t* pl, rng_t* r, const env_t* e) { if (e->m < 4) { pl->skip = 1; return; } plan_addmul_d(pl, r, e); }
TCALL(reim_mul, reim_fftvec_mul(e->reim_mul, p[0], p[1], p[2]))
TCALL(reim_addmul, reim_fftvec_addmul(e->reim_addmul, p[0], p[1], p[2]))
TCALL(cplx_mul, cplx_fftvec_mul(e->cplx_mul, p[0], p[1], p[2]))
TCALL(cplx_addmul, cplx_fftvec_addmul(e->cplx_addmul, p[0], p[1], p[2]))
TCALL(r4_mul, reim4_fftvec_mul(e->r4_mul, p[0], p[1], p[2]))
TCALL(r4_addmul, reim4_fftvec_addmul(e->r4_addmul, p[0], p[1], p[2]))
static void plan_conv_r4(opplan_t* pl, rng_t* r, const env_t* e) {
  (void)r;
  if (e->m < 4) { pl->skip = 1; return; }
  B_RAW(pl, R_OUT, F_NONE, 0, 2 * e->m * 8, 8);
  B_RAW(pl, R_IN, F_DBL, 4, 2 * e->m * 8, 8);
}
TCALL(r4_from, reim4_from_cplx(e->r4_from, p[0], p[1]))
TCALL(r4_to, reim4_to_cplx(e->r4_to, p[0], p[1]))
static void plan_from_znx64(opplan_t* pl, rng_t* r, const env_t* e) { (void)r; B_RAW(pl, R_OUT, F_NONE, 0, 2 * e->m * 8, 8); B_RAW(pl, R_IN, F_I64, 49, 2 * e->m * 8, 8); }
TCALL(from_znx64, reim_from_znx64(e->from_znx64, p[0], p[1]))
// (the environment's table is declared for |x/d| < 2^63 with d = m: one plan in four uses magnitudes up to 2^61, beyond what the fast 2^50 kernel covers)
static void plan_to_znx64(opplan_t* pl, rng_t* r, const env_t* e) { B_RAW(pl, R_OUT, F_NONE, 0, 2 * e->m * 8, 8); B_RAW(pl, R_IN, F_DBLINT, (rng_u64(r) & 3) ? 45 : 61, 2 * e->m * 8, 8); }
TCALL(to_znx64, reim_to_znx64(e->to_znx64, p[0], p[1]))
static void plan_to_tnx(opplan_t* pl, rng_t* r, const env_t* e) { (void)r; B_RAW(pl, R_OUT, F_NONE, 0, 2 * e->m * 8, 8); B_RAW(pl, R_IN, F_DBL, 10, 2 * e->m * 8, 8); }
TCALL(to_tnx, reim_to_tnx(e->to_tnx, p[0], p[1]))
static void plan_cplx_from32(opplan_t* pl, rng_t* r, const env_t* e) { (void)r; B_RAW(pl, R_OUT, F_NONE, 0, 2 * e->m * 8, 8); pl->b[B_RAW(pl, R_IN, F_I32, 0, 2 * e->m * 4, 8)].word4 = 1; }
TCALL(cplx_from_znx32, cplx_from_znx32(e->cplx_from_znx32, p[0], p[1]))
TCALL(cplx_from_tnx32, cplx_from_tnx32(e->cplx_from_tnx32, p[0], p[1]))
static void plan_cplx_to_tnx32(opplan_t* pl, rng_t* r, const env_t* e) { (void)r; pl->b[B_RAW(pl, R_OUT, F_NONE, 0, 2 * e->m * 4, 8)].word4 = 1; B_RAW(pl, R_IN, F_DBL, 10, 2 * e->m * 8, 8); }
TCALL(cplx_to_tnx32, cplx_to_tnx32(e->cplx_to_tnx32, p[0], p[1]))

// --- q120
static void plan_ntt(opplan_t* pl, rng_t* r, const env_t* e) { (void)r; B_RAW(pl, R_INOUT, F_U64, 0, e->N * 32, 8); }
TCALL(q120_ntt, q120_ntt_bb_avx2(e->ntt, p[0]))
TCALL(q120_intt, q120_intt_bb_avx2(e->intt, p[0]))
static void plan_prod(opplan_t* pl, rng_t* r, int fx, size_t xs, int fy, size_t ys, size_t nres) {
  uint64_t ell = rng_u64(r) % 40;
  if ((rng_u64(r) & 7) == 0) ell = 1000 + rng_u64(r) % 9001;
  pl->u[0] = ell;
  B_RAW(pl, R_OUT, F_NONE, 0, nres * 32, 8);
  B_RAW(pl, R_IN, fx, 0, ell * xs, 8);
  B_RAW(pl, R_IN, fy, 0, ell * ys, 8);
  SHAPE(pl, "%s", ell == 0 ? "ell=0" : (ell & 1 ? "ell odd" : "ell even"));
}
static void plan_baa(opplan_t* pl, rng_t* r, const env_t* e) { (void)e; plan_prod(pl, r, F_U32A, 32, F_U32A, 32, 1); }
static void plan_bbb(opplan_t* pl, rng_t* r, const env_t* e) { (void)e; plan_prod(pl, r, F_U64, 32, F_U64, 32, 1); }
static void plan_bbc(opplan_t* pl, rng_t* r, const env_t* e) { (void)e; plan_prod(pl, r, F_U64, 32, F_C120, 32, 1); }
static void plan_x2_1(opplan_t* pl, rng_t* r, const env_t* e) { (void)e; plan_prod(pl, r, F_U64, 64, F_C120, 64, 2); }
static void plan_x2_2(opplan_t* pl, rng_t* r, const env_t* e) { (void)e; plan_prod(pl, r, F_U64, 64, F_C120, 128, 4); }
#define PCALL(NAME, FN, PRE) static void call_##NAME(const opplan_t* pl, void* const p[], const env_t* e) { FN(e->PRE, pl->u[0], p[0], p[1], p[2]); }
PCALL(baa_ref, q120_vec_mat1col_product_baa_ref, baa) PCALL(baa_avx2, q120_vec_mat1col_product_baa_avx2, baa)
PCALL(bbb_ref, q120_vec_mat1col_product_bbb_ref, bbb) PCALL(bbb_avx2, q120_vec_mat1col_product_bbb_avx2, bbb)
PCALL(bbc_ref, q120_vec_mat1col_product_bbc_ref, bbc) PCALL(bbc_avx2, q120_vec_mat1col_product_bbc_avx2, bbc)
PCALL(x2_1_ref, q120x2_vec_mat1col_product_bbc_ref, bbc) PCALL(x2_1_avx2, q120x2_vec_mat1col_product_bbc_avx2, bbc)
PCALL(x2_2_ref, q120x2_vec_mat2cols_product_bbc_ref, bbc) PCALL(x2_2_avx2, q120x2_vec_mat2cols_product_bbc_avx2, bbc)
static void plan_qconv(opplan_t* pl, rng_t* r, int fin, size_t in_b, size_t out_b, size_t out_al) {
  uint64_t nn = rng_u64(r) % 40;
  pl->u[0] = nn;
  B_RAW(pl, R_OUT, F_NONE, 0, nn * out_b, out_al);
  B_RAW(pl, R_IN, fin, 63, nn * in_b, 8);
  SHAPE(pl, "%s", nn ? "nn>0" : "nn=0");
}
static void plan_b_from_znx64(opplan_t* pl, rng_t* r, const env_t* e) { (void)e; plan_qconv(pl, r, F_I64, 8, 32, 8); }
static void plan_c_from_b(opplan_t* pl, rng_t* r, const env_t* e) { (void)e; plan_qconv(pl, r, F_U64, 32, 32, 8); }
static void plan_b_to_znx128(opplan_t* pl, rng_t* r, const env_t* e) { (void)e; plan_qconv(pl, r, F_U64, 32, 16, 16); }
static void call_b_from_znx64(const opplan_t* pl, void* const p[], const env_t* e) { (void)e; q120_b_from_znx64_simple(pl->u[0], p[0], p[1]); }
static void call_c_from_znx64(const opplan_t* pl, void* const p[], const env_t* e) { (void)e; q120_c_from_znx64_simple(pl->u[0], p[0], p[1]); }
static void call_c_from_b(const opplan_t* pl, void* const p[], const env_t* e) { (void)e; q120_c_from_b_simple(pl->u[0], p[0], p[1]); }
static void call_b_to_znx128(const opplan_t* pl, void* const p[], const env_t* e) { (void)e; q120_b_to_znx128_simple(pl->u[0], p[0], p[1]); }
static void plan_qadd(opplan_t* pl, rng_t* r, int f) {
  uint64_t nn = rng_u64(r) % 40;
  pl->u[0] = nn;
  B_RAW(pl, R_OUT, F_NONE, 0, nn * 32, 8);
  B_RAW(pl, R_IN, f, 0, nn * 32, 8);
  B_RAW(pl, R_IN, f, 0, nn * 32, 8);
}
static void plan_add_bbb(opplan_t* pl, rng_t* r, const env_t* e) { (void)e; plan_qadd(pl, r, F_U64); }
static void plan_add_ccc(opplan_t* pl, rng_t* r, const env_t* e) { (void)e; plan_qadd(pl, r, F_C120); }
static void call_add_bbb(const opplan_t* pl, void* const p[], const env_t* e) { (void)e; q120_add_bbb_simple(pl->u[0], p[0], p[1], p[2]); }
static void call_add_ccc(const opplan_t* pl, void* const p[], const env_t* e) { (void)e; q120_add_ccc_simple(pl->u[0], p[0], p[1], p[2]); }
static void plan_q_extract(opplan_t* pl, rng_t* r, const env_t* e) {
  if (e->N < 2) { pl->skip = 1; return; }
  uint64_t nrows = rsz(r, 4);
  pl->u[0] = nrows;
  pl->u[1] = rng_u64(r) % (e->N / 2);
  B_RAW(pl, R_OUT, F_NONE, 0, nrows * 64, 8);
  B_RAW(pl, R_IN, F_U64, 0, nrows * e->N * 32, 8);
  SHAPE(pl, "%s", nrows ? "nrows>0" : "nrows=0");
}
static void call_q_extract_contig(const opplan_t* pl, void* const p[], const env_t* e) { q120x2_extract_1blk_from_contiguous_q120b_ref(e->N, pl->u[0], pl->u[1], p[0], p[1]); }
static void plan_q_extract1(opplan_t* pl, rng_t* r, const env_t* e) {
  if (e->N < 2) { pl->skip = 1; return; }
  pl->u[1] = rng_u64(r) % (e->N / 2);
  B_RAW(pl, R_OUT, F_NONE, 0, 64, 8);
  B_RAW(pl, R_IN, F_U64, 0, e->N * 32, 8);
}
static void call_q_extract1b(const opplan_t* pl, void* const p[], const env_t* e) { q120x2_extract_1blk_from_q120b_ref(e->N, pl->u[1], p[0], p[1]); }
static void call_q_extract1c(const opplan_t* pl, void* const p[], const env_t* e) { q120x2_extract_1blk_from_q120c_ref(e->N, pl->u[1], p[0], p[1]); }
static void plan_q_save(opplan_t* pl, rng_t* r, const env_t* e) {
  if (e->N < 2) { pl->skip = 1; return; }
  pl->u[1] = rng_u64(r) % (e->N / 2);
  B_RAW(pl, R_INOUT, F_U64, 0, e->N * 32, 8);
  B_RAW(pl, R_IN, F_U64, 0, 64, 8);
}
static void call_q_save(const opplan_t* pl, void* const p[], const env_t* e) { q120x2b_save_1blk_to_q120b_ref(e->N, pl->u[1], p[0], p[1]); }

// --- coefficient kernels (nn = N)
static void plan_k3(opplan_t* pl, rng_t* r, const env_t* e) { (void)r; B_RAW(pl, R_OUT, F_NONE, 0, e->N * 8, 8); B_RAW(pl, R_IN, F_I64, 61, e->N * 8, 8); B_RAW(pl, R_IN, F_I64, 61, e->N * 8, 8); }
static void plan_k2(opplan_t* pl, rng_t* r, const env_t* e) { B_RAW(pl, R_OUT, F_NONE, 0, e->N * 8, 8); B_RAW(pl, R_IN, F_I64, 61, e->N * 8, 8); pl->s[0] = plan_p(r, e->N); }
static void plan_k2d(opplan_t* pl, rng_t* r, const env_t* e) { B_RAW(pl, R_OUT, F_NONE, 0, e->N * 8, 8); B_RAW(pl, R_IN, F_DBLINT, 50, e->N * 8, 8); pl->s[0] = plan_p(r, e->N); }
static void plan_k1(opplan_t* pl, rng_t* r, const env_t* e) { B_RAW(pl, R_INOUT, F_I64, 61, e->N * 8, 8); pl->s[0] = plan_p(r, e->N); }
static void plan_k1d(opplan_t* pl, rng_t* r, const env_t* e) { B_RAW(pl, R_INOUT, F_DBLINT, 50, e->N * 8, 8); pl->s[0] = plan_p(r, e->N); }
#define KCALL(NAME, EXPR) static void call_##NAME(const opplan_t* pl, void* const p[], const env_t* e) { (void)pl; EXPR; }
KCALL(znx_add_ref, znx_add_i64_ref(e->N, p[0], p[1], p[2])) KCALL(znx_add_avx, znx_add_i64_avx(e->N, p[0], p[1], p[2]))
KCALL(znx_sub_ref, znx_sub_i64_ref(e->N, p[0], p[1], p[2])) KCALL(znx_sub_avx, znx_sub_i64_avx(e->N, p[0], p[1], p[2]))
KCALL(znx_neg_ref, znx_negate_i64_ref(e->N, p[0], p[1])) KCALL(znx_neg_avx, znx_negate_i64_avx(e->N, p[0], p[1]))
KCALL(znx_copy_ref, znx_copy_i64_ref(e->N, p[0], p[1])) KCALL(znx_zero_ref, znx_zero_i64_ref(e->N, p[0]))
// division by a power of two (m = 2^1..2^16 from the plan) on every finite double: exact up to gradual underflow in both kernels
static void plan_k2d_div(opplan_t* pl, rng_t* r, const env_t* e) { B_RAW(pl, R_OUT, F_NONE, 0, e->N * 8, 8); int xi = B_RAW(pl, R_IN, F_DBL, 0, e->N * 8, 8); pl->b[xi].any_finite = (int)(rng_u64(r) & 1); pl->b[xi].fillarg = 20; pl->d[0] = ldexp(1.0, 1 + (int)(rng_u64(r) % 16)); }
KCALL(rnx_div_ref, rnx_divide_by_m_ref(e->N, pl->d[0], p[0], p[1])) KCALL(rnx_div_avx, rnx_divide_by_m_avx(e->N, pl->d[0], p[0], p[1]))
KCALL(znx_rotate, znx_rotate_i64(e->N, pl->s[0], p[0], p[1])) KCALL(rnx_rotate, rnx_rotate_f64(e->N, pl->s[0], p[0], p[1]))
KCALL(znx_rotate_ip, znx_rotate_inplace_i64(e->N, pl->s[0], p[0])) KCALL(rnx_rotate_ip, rnx_rotate_inplace_f64(e->N, pl->s[0], p[0]))
KCALL(znx_auto, znx_automorphism_i64(e->N, pl->s[0] | 1, p[0], p[1])) KCALL(rnx_auto, rnx_automorphism_f64(e->N, pl->s[0] | 1, p[0], p[1]))
KCALL(znx_auto_ip, znx_automorphism_inplace_i64(e->N, pl->s[0] | 1, p[0])) KCALL(rnx_auto_ip, rnx_automorphism_inplace_f64(e->N, pl->s[0] | 1, p[0]))
KCALL(znx_mulxp, znx_mul_xp_minus_one(e->N, pl->s[0], p[0], p[1])) KCALL(rnx_mulxp, rnx_mul_xp_minus_one(e->N, pl->s[0], p[0], p[1]))
KCALL(rnx_mulxp_ip, rnx_mul_xp_minus_one_inplace(e->N, pl->s[0], p[0]))
static void plan_znx_normalize(opplan_t* pl, rng_t* r, const env_t* e) {
  // shape: out present?, carry_in present?, carry_out present? (out absent requires carry_out)
  unsigned sh = (unsigned)(rng_u64(r) % 6);
  static const unsigned SH[] = {1, 3, 5, 7, 4, 6};
  pl->u[0] = SH[sh];
  pl->u[1] = 1 + rng_u64(r) % 62;
  B_RAW(pl, R_IN, F_I64, 62, e->N * 8, 8);
  B_RAW(pl, R_IN, F_I64, (unsigned)(62 - pl->u[1] > 0 ? 62 - pl->u[1] : 1), e->N * 8, 8);
  B_RAW(pl, R_OUT, F_NONE, 0, (pl->u[0] & 1) ? e->N * 8 : 0, 8);
  B_RAW(pl, R_OUT, F_NONE, 0, (pl->u[0] & 4) ? e->N * 8 : 0, 8);
  SHAPE(pl, "shape%u", (unsigned)pl->u[0]);
}
static void call_znx_normalize(const opplan_t* pl, void* const p[], const env_t* e) {
  znx_normalize(e->N, pl->u[1], (pl->u[0] & 1) ? p[2] : 0, (pl->u[0] & 4) ? p[3] : 0, p[0], (pl->u[0] & 2) ? p[1] : 0);
}
// --- reim4 arithmetic kernels (m >= 4)
static void plan_r4_extract(opplan_t* pl, rng_t* r, const env_t* e) {
  if (e->m < 4) { pl->skip = 1; return; }
  uint64_t nrows = rsz(r, 5), sl = 2 * e->m + (rng_u64(r) % 3) * 4 + (rng_u64(r) & 1);
  pl->u[0] = nrows; pl->u[1] = rng_u64(r) % (e->m / 4); pl->u[2] = sl;
  B_RAW(pl, R_OUT, F_NONE, 0, nrows * 64, 8);
  B_RAW(pl, R_IN, F_DBL, 4, (nrows ? (nrows - 1) * sl + 2 * e->m : 0) * 8, 8);
  SHAPE(pl, "%s", nrows ? "nrows>0" : "nrows=0");
}
static void plan_r4_extract_c(opplan_t* pl, rng_t* r, const env_t* e) {
  if (e->m < 4) { pl->skip = 1; return; }
  uint64_t nrows = rsz(r, 5);
  pl->u[0] = nrows; pl->u[1] = rng_u64(r) % (e->m / 4);
  B_RAW(pl, R_OUT, F_NONE, 0, nrows * 64, 8);
  B_RAW(pl, R_IN, F_DBL, 4, nrows * 2 * e->m * 8, 8);
  SHAPE(pl, "%s", nrows ? "nrows>0" : "nrows=0");
}
static void plan_r4_extract1(opplan_t* pl, rng_t* r, const env_t* e) {
  if (e->m < 4) { pl->skip = 1; return; }
  pl->u[1] = rng_u64(r) % (e->m / 4);
  B_RAW(pl, R_OUT, F_NONE, 0, 64, 8);
  B_RAW(pl, R_IN, F_DBL, 4, 2 * e->m * 8, 8);
}
static void plan_r4_save(opplan_t* pl, rng_t* r, const env_t* e) {
  if (e->m < 4) { pl->skip = 1; return; }
  pl->u[1] = rng_u64(r) % (e->m / 4);
  B_RAW(pl, R_INOUT, F_DBL, 4, 2 * e->m * 8, 8);
  B_RAW(pl, R_IN, F_DBL, 4, 64, 8);
}
KCALL(r4_ext_sl_ref, reim4_extract_1blk_from_contiguous_reim_sl_ref(e->m, pl->u[2], pl->u[0], pl->u[1], p[0], p[1]))
KCALL(r4_ext_sl_avx, reim4_extract_1blk_from_contiguous_reim_sl_avx(e->m, pl->u[2], pl->u[0], pl->u[1], p[0], p[1]))
KCALL(r4_ext_c_ref, reim4_extract_1blk_from_contiguous_reim_ref(e->m, pl->u[0], pl->u[1], p[0], p[1]))
KCALL(r4_ext_c_avx, reim4_extract_1blk_from_contiguous_reim_avx(e->m, pl->u[0], pl->u[1], p[0], p[1]))
KCALL(r4_ext1_ref, reim4_extract_1blk_from_reim_ref(e->m, pl->u[1], p[0], p[1]))
KCALL(r4_ext1_avx, reim4_extract_1blk_from_reim_avx(e->m, pl->u[1], p[0], p[1]))
KCALL(r4_save_ref, reim4_save_1blk_to_reim_ref(e->m, pl->u[1], p[0], p[1]))
KCALL(r4_save_avx, reim4_save_1blk_to_reim_avx(e->m, pl->u[1], p[0], p[1]))
static void plan_r4_dot(opplan_t* pl, rng_t* r, size_t vw) {
  uint64_t nrows = rng_u64(r) % 20;
  pl->u[0] = nrows;
  B_RAW(pl, R_OUT, F_NONE, 0, vw * 8, 8);
  B_RAW(pl, R_IN, F_DBL, 4, nrows * 64, 8);
  B_RAW(pl, R_IN, F_DBL, 4, nrows * vw * 8, 8);
  SHAPE(pl, "%s", nrows ? "nrows>0" : "nrows=0");
}
static void plan_r4_dot1(opplan_t* pl, rng_t* r, const env_t* e) { (void)e; plan_r4_dot(pl, r, 8); }
static void plan_r4_dot2(opplan_t* pl, rng_t* r, const env_t* e) { (void)e; plan_r4_dot(pl, r, 16); }
KCALL(r4_dot1_ref, reim4_vec_mat1col_product_ref(pl->u[0], p[0], p[1], p[2])) KCALL(r4_dot1_avx, reim4_vec_mat1col_product_avx2(pl->u[0], p[0], p[1], p[2]))
KCALL(r4_dot2_ref, reim4_vec_mat2cols_product_ref(pl->u[0], p[0], p[1], p[2])) KCALL(r4_dot2_avx, reim4_vec_mat2cols_product_avx2(pl->u[0], p[0], p[1], p[2]))
static void plan_r4_conv(opplan_t* pl, rng_t* r, const env_t* e) {
  (void)e;
  uint64_t sa = rsz(r, 6), sb = rsz(r, 6), off = rsz(r, 8), sz = rsz(r, 8);
  pl->u[0] = sa; pl->u[1] = sb; pl->u[2] = off; pl->u[3] = sz;
  B_RAW(pl, R_OUT, F_NONE, 0, sz * 64, 8);
  B_RAW(pl, R_IN, F_DBL, 4, sa * 64, 8);
  B_RAW(pl, R_IN, F_DBL, 4, sb * 64, 8);
  SHAPE(pl, "%s", (sa && sb) ? "both>0" : "empty-operand");
}
KCALL(r4_conv, reim4_convolution_ref(p[0], pl->u[3], pl->u[2], p[1], pl->u[0], p[2], pl->u[1]))

// --- *_simple convenience API (dimension = env m; conversion parameters drawn from the seed)
TCALL(s_reim_fft, reim_fft_simple((uint32_t)e->m, p[0])) TCALL(s_reim_ifft, reim_ifft_simple((uint32_t)e->m, p[0]))
TCALL(s_reim_mul, reim_fftvec_mul_simple((uint32_t)e->m, p[0], p[1], p[2])) TCALL(s_reim_addmul, reim_fftvec_addmul_simple((uint32_t)e->m, p[0], p[1], p[2]))
TCALL(s_from_znx64, reim_from_znx64_simple((uint32_t)e->m, 50, p[0], p[1]))
static void plan_s_to_znx64(opplan_t* pl, rng_t* r, const env_t* e) {
  static const unsigned BND[] = {40, 50, 52, 63};
  static const int DE[] = {0, 3, 10};
  pl->u[0] = BND[rng_u64(r) % 4];
  pl->d[0] = ldexp(1.0, DE[rng_u64(r) % 3]);
  B_RAW(pl, R_OUT, F_NONE, 0, 2 * e->m * 8, 8);
  B_RAW(pl, R_IN, F_DBLINT, 38, 2 * e->m * 8, 8);
  SHAPE(pl, "bound%u", (unsigned)pl->u[0]);
}
static void call_s_to_znx64(const opplan_t* pl, void* const p[], const env_t* e) { reim_to_znx64_simple((uint32_t)e->m, pl->d[0], (uint32_t)pl->u[0], p[0], p[1]); }
TCALL(s_cplx_fft, cplx_fft_simple((uint32_t)e->m, p[0])) TCALL(s_cplx_ifft, cplx_ifft_simple((uint32_t)e->m, p[0]))
TCALL(s_cplx_mul, cplx_fftvec_mul_simple((uint32_t)e->m, p[0], p[1], p[2])) TCALL(s_cplx_addmul, cplx_fftvec_addmul_simple((uint32_t)e->m, p[0], p[1], p[2]))
TCALL(s_cplx_from_znx32, cplx_from_znx32_simple((uint32_t)e->m, p[0], p[1])) TCALL(s_cplx_from_tnx32, cplx_from_tnx32_simple((uint32_t)e->m, p[0], p[1]))
static void plan_s_cplx_to_tnx32(opplan_t* pl, rng_t* r, const env_t* e) {
  static const int DE[] = {0, 4, 12};
  pl->u[0] = (rng_u64(r) & 1) ? 18 : 30;
  pl->d[0] = ldexp(1.0, DE[rng_u64(r) % 3]);
  pl->b[B_RAW(pl, R_OUT, F_NONE, 0, 2 * e->m * 4, 8)].word4 = 1;
  B_RAW(pl, R_IN, F_DBL, 10, 2 * e->m * 8, 8);
  SHAPE(pl, "ovh%u", (unsigned)pl->u[0]);
}
static void call_s_cplx_to_tnx32(const opplan_t* pl, void* const p[], const env_t* e) { cplx_to_tnx32_simple((uint32_t)e->m, pl->d[0], (uint32_t)pl->u[0], p[0], p[1]); }
TCALL(s_r4_mul, reim4_fftvec_mul_simple((uint32_t)e->m, p[0], p[1], p[2])) TCALL(s_r4_addmul, reim4_fftvec_addmul_simple((uint32_t)e->m, p[0], p[1], p[2]))
TCALL(s_r4_from, reim4_from_cplx_simple((uint32_t)e->m, p[0], p[1])) TCALL(s_r4_to, reim4_to_cplx_simple((uint32_t)e->m, p[0], p[1]))

// table-based twins of the two conversions whose *_simple form keeps a thread-local last-parameter cache:
// same plan (divisor / bound / overhead drawn from the seed), but a freshly built table on every call
static void call_fresh_to_znx64(const opplan_t* pl, void* const p[], const env_t* e) {
  int saved = g_dispatch_native;
  (void)saved;
  REIM_TO_ZNX64_PRECOMP* t = new_reim_to_znx64_precomp((uint32_t)e->m, pl->d[0], (uint32_t)pl->u[0]);
  reim_to_znx64(t, p[0], p[1]);
  free(t);
}
static void call_fresh_cplx_to_tnx32(const opplan_t* pl, void* const p[], const env_t* e) {
  CPLX_TO_TNX32_PRECOMP* t = new_cplx_to_tnx32_precomp((uint32_t)e->m, pl->d[0], (uint32_t)pl->u[0]);
  cplx_to_tnx32(t, p[0], p[1]);
  free(t);
}

// ================================================================= direct kernel variants (pairs for C07)
#define M_AT_LEAST(pl, e, k) if ((e)->m < (k)) { (pl)->skip = 1; return; }
static void plan_inplace_d8(opplan_t* pl, rng_t* r, const env_t* e) { M_AT_LEAST(pl, e, 8) plan_inplace_d(pl, r, e); }
TCALL(k_reim_fft_ref, reim_fft_ref(e->reim_fft, p[0])) TCALL(k_reim_fft_avx, reim_fft_avx2_fma(e->reim_fft, p[0]))
TCALL(k_reim_ifft_ref, reim_ifft_ref(e->reim_ifft, p[0])) TCALL(k_reim_ifft_avx, reim_ifft_avx2_fma(e->reim_ifft, p[0]))
TCALL(k_cplx_fft_ref, cplx_fft_ref(e->cplx_fft, p[0])) TCALL(k_cplx_fft_avx, cplx_fft_avx2_fma(e->cplx_fft, p[0]))
TCALL(k_cplx_ifft_ref, cplx_ifft_ref(e->cplx_ifft, p[0])) TCALL(k_cplx_ifft_avx, cplx_ifft_avx2_fma(e->cplx_ifft, p[0]))
static void plan_mul_d2(opplan_t* pl, rng_t* r, const env_t* e) { M_AT_LEAST(pl, e, 2) plan_mul_d(pl, r, e); }
static void plan_mul_d4(opplan_t* pl, rng_t* r, const env_t* e) { M_AT_LEAST(pl, e, 4) plan_mul_d(pl, r, e); }
static void plan_mul_d8(opplan_t* pl, rng_t* r, const env_t* e) { M_AT_LEAST(pl, e, 8) plan_mul_d(pl, r, e); }
static void plan_addmul_d2(opplan_t* pl, rng_t* r, const env_t* e) { M_AT_LEAST(pl, e, 2) plan_addmul_d(pl, r, e); }
static void plan_addmul_d4(opplan_t* pl, rng_t* r, const env_t* e) { M_AT_LEAST(pl, e, 4) plan_addmul_d(pl, r, e); }
static void plan_addmul_d8(opplan_t* pl, rng_t* r, const env_t* e) { M_AT_LEAST(pl, e, 8) plan_addmul_d(pl, r, e); }
static void plan_addmul_d8_512(opplan_t* pl, rng_t* r, const env_t* e) { if (!__builtin_cpu_supports("avx512f")) { pl->skip = 1; return; } plan_addmul_d8(pl, r, e); }
TCALL(k_reim_mul_ref, reim_fftvec_mul_ref(e->reim_mul, p[0], p[1], p[2])) TCALL(k_reim_mul_fma, reim_fftvec_mul_fma(e->reim_mul, p[0], p[1], p[2]))
TCALL(k_reim_addmul_ref, reim_fftvec_addmul_ref(e->reim_addmul, p[0], p[1], p[2])) TCALL(k_reim_addmul_fma, reim_fftvec_addmul_fma(e->reim_addmul, p[0], p[1], p[2]))
TCALL(k_cplx_mul_ref, cplx_fftvec_mul_ref(e->cplx_mul, p[0], p[1], p[2])) TCALL(k_cplx_mul_fma, cplx_fftvec_mul_fma(e->cplx_mul, p[0], p[1], p[2]))
TCALL(k_cplx_addmul_ref, cplx_fftvec_addmul_ref(e->cplx_addmul, p[0], p[1], p[2])) TCALL(k_cplx_addmul_fma, cplx_fftvec_addmul_fma(e->cplx_addmul, p[0], p[1], p[2]))
TCALL(k_cplx_addmul_sse, cplx_fftvec_addmul_sse(e->cplx_addmul, p[0], p[1], p[2])) TCALL(k_cplx_addmul_512, cplx_fftvec_addmul_avx512(e->cplx_addmul, p[0], p[1], p[2]))
TCALL(k_r4_mul_ref, reim4_fftvec_mul_ref(e->r4_mul, p[0], p[1], p[2])) TCALL(k_r4_mul_fma, reim4_fftvec_mul_fma(e->r4_mul, p[0], p[1], p[2]))
TCALL(k_r4_addmul_ref, reim4_fftvec_addmul_ref(e->r4_addmul, p[0], p[1], p[2])) TCALL(k_r4_addmul_fma, reim4_fftvec_addmul_fma(e->r4_addmul, p[0], p[1], p[2]))
TCALL(k_r4_from_ref, reim4_from_cplx_ref(e->r4_from, p[0], p[1])) TCALL(k_r4_from_fma, reim4_from_cplx_fma(e->r4_from, p[0], p[1]))
TCALL(k_r4_to_ref, reim4_to_cplx_ref(e->r4_to, p[0], p[1])) TCALL(k_r4_to_fma, reim4_to_cplx_fma(e->r4_to, p[0], p[1]))
static void plan_from_znx64_2(opplan_t* pl, rng_t* r, const env_t* e) { M_AT_LEAST(pl, e, 2) plan_from_znx64(pl, r, e); }
TCALL(k_from_znx64_ref, reim_from_znx64_ref(e->from_znx64, p[0], p[1])) TCALL(k_from_znx64_fma, reim_from_znx64_bnd50_fma(e->from_znx64, p[0], p[1]))
// double -> int64 with a table made for the drawn divisor (bound 50 values for the fast kernel, 52 for the wide one)
static void plan_to_znx64_k(opplan_t* pl, rng_t* r, const env_t* e) {
  M_AT_LEAST(pl, e, 2)
  static const int DE[] = {-3, 0, 5, 12};
  pl->u[0] = (uint64_t)(rng_u64(r) % 4);
  pl->d[0] = ldexp(1.0, DE[pl->u[0]]);
  B_RAW(pl, R_OUT, F_NONE, 0, 2 * e->m * 8, 8);
  int bi = B_RAW(pl, R_IN, F_RATIO, 50, 2 * e->m * 8, 8);  // near-ties, quarter points, boundary: rounding is exercised
  pl->b[bi].fscale = pl->d[0];
}
#define TOZ(NAME, FN)                                                                              \
  static void call_##NAME(const opplan_t* pl, void* const p[], const env_t* e) {                 \
    REIM_TO_ZNX64_PRECOMP* t = new_reim_to_znx64_precomp((uint32_t)e->m, pl->d[0], 63);            \
    FN(t, p[0], p[1]);                                                                             \
    free(t);                                                                                       \
  }
TOZ(k_to_znx64_ref, reim_to_znx64_ref) TOZ(k_to_znx64_b50, reim_to_znx64_avx2_bnd50_fma) TOZ(k_to_znx64_b63, reim_to_znx64_avx2_bnd63_fma)
static void plan_to_tnx_4(opplan_t* pl, rng_t* r, const env_t* e) { M_AT_LEAST(pl, e, 4) plan_to_tnx(pl, r, e); }
TCALL(k_to_tnx_ref, reim_to_tnx_ref(e->to_tnx, p[0], p[1])) TCALL(k_to_tnx_avx, reim_to_tnx_avx(e->to_tnx, p[0], p[1]))
static void plan_cplx_from32_8(opplan_t* pl, rng_t* r, const env_t* e) { M_AT_LEAST(pl, e, 8) plan_cplx_from32(pl, r, e); }
static void plan_cplx_to_tnx32_8(opplan_t* pl, rng_t* r, const env_t* e) { M_AT_LEAST(pl, e, 8) plan_cplx_to_tnx32(pl, r, e); }
TCALL(k_cfz_ref, cplx_from_znx32_ref(e->cplx_from_znx32, p[0], p[1])) TCALL(k_cfz_avx, cplx_from_znx32_avx2_fma(e->cplx_from_znx32, p[0], p[1]))
TCALL(k_cft_ref, cplx_from_tnx32_ref(e->cplx_from_tnx32, p[0], p[1])) TCALL(k_cft_avx, cplx_from_tnx32_avx2_fma(e->cplx_from_tnx32, p[0], p[1]))
TCALL(k_ctt_ref, cplx_to_tnx32_ref(e->cplx_to_tnx32, p[0], p[1])) TCALL(k_ctt_avx, cplx_to_tnx32_avx2_fma(e->cplx_to_tnx32, p[0], p[1]))
// vec_znx kernels ref / avx on the FFT64 module (only nn is read)
#define VK3(NAME, FN) static void call_##NAME(const opplan_t* pl, void* const p[], const env_t* e) { FN(e->fft64, p[0], pl->b[0].size, pl->b[0].sl, p[1], pl->b[1].size, pl->b[1].sl, p[2], pl->b[2].size, pl->b[2].sl); }
#define VK2(NAME, FN) static void call_##NAME(const opplan_t* pl, void* const p[], const env_t* e) { FN(e->fft64, p[0], pl->b[0].size, pl->b[0].sl, p[1], pl->b[1].size, pl->b[1].sl); }
VK3(k_vadd_ref, vec_znx_add_ref) VK3(k_vadd_avx, vec_znx_add_avx) VK3(k_vsub_ref, vec_znx_sub_ref) VK3(k_vsub_avx, vec_znx_sub_avx)
VK2(k_vneg_ref, vec_znx_negate_ref) VK2(k_vneg_avx, vec_znx_negate_avx)
// vmp ref / avx
static void call_k_vmp_prep_ref(const opplan_t* pl, void* const p[], const env_t* e) { fft64_vmp_prepare_contiguous_ref(e->fft64, p[0], p[1], pl->u[0], pl->u[1], p[2]); }
static void call_k_vmp_prep_avx(const opplan_t* pl, void* const p[], const env_t* e) { fft64_vmp_prepare_contiguous_avx(e->fft64, p[0], p[1], pl->u[0], pl->u[1], p[2]); }
static void call_k_vmp_apply_ref(const opplan_t* pl, void* const p[], const env_t* e) {
  fft64_vmp_prepare_contiguous_ref(e->fft64, p[1], p[2], pl->u[0], pl->u[1], p[3]);
  fft64_vmp_apply_dft_ref(e->fft64, p[0], pl->u[3], p[4], pl->u[2], pl->b[4].sl, p[1], pl->u[0], pl->u[1], p[5]);
}
static void call_k_vmp_apply_avx(const opplan_t* pl, void* const p[], const env_t* e) {
  fft64_vmp_prepare_contiguous_avx(e->fft64, p[1], p[2], pl->u[0], pl->u[1], p[3]);
  fft64_vmp_apply_dft_avx(e->fft64, p[0], pl->u[3], p[4], pl->u[2], pl->b[4].sl, p[1], pl->u[0], pl->u[1], p[5]);
}
static void call_k_vmp_d2d_ref(const opplan_t* pl, void* const p[], const env_t* e) {
  fft64_vmp_prepare_contiguous_ref(e->fft64, p[1], p[2], pl->u[0], pl->u[1], p[3]);
  fft64_vmp_apply_dft_to_dft_ref(e->fft64, p[0], pl->u[3], p[4], pl->u[2], p[1], pl->u[0], pl->u[1], p[5]);
}
static void call_k_vmp_d2d_avx(const opplan_t* pl, void* const p[], const env_t* e) {
  fft64_vmp_prepare_contiguous_avx(e->fft64, p[1], p[2], pl->u[0], pl->u[1], p[3]);
  fft64_vmp_apply_dft_to_dft_avx(e->fft64, p[0], pl->u[3], p[4], pl->u[2], p[1], pl->u[0], pl->u[1], p[5]);
}
// 16/8/4-point leaves with tables from the library's fill functions (entry power 1/4 = full transform of that size)
static void plan_leaf(opplan_t* pl, rng_t* r, const env_t* e, uint64_t lm) {
  (void)r; (void)e;
  pl->u[0] = lm;
  B_RAW(pl, R_INOUT, F_DBL, 4, 2 * lm * 8, 8);
  B_RAW(pl, R_SCRATCH, F_NONE, 0, 4096, 64);
}
static void plan_leaf16(opplan_t* pl, rng_t* r, const env_t* e) { plan_leaf(pl, r, e, 16); }
static void plan_leaf8(opplan_t* pl, rng_t* r, const env_t* e) { plan_leaf(pl, r, e, 8); }
static void plan_leaf4(opplan_t* pl, rng_t* r, const env_t* e) { plan_leaf(pl, r, e, 4); }
#define LEAF(NAME, FILL, FN)                                                                      \
  static void call_##NAME(const opplan_t* pl, void* const p[], const env_t* e) {                \
    (void)e; double* w = p[1]; FILL(0.25, &w); double* d = p[0]; FN(d, d + pl->u[0], p[1]);        \
  }
LEAF(l_fft16_ref, fill_reim_fft16_omegas, reim_fft16_ref) LEAF(l_fft16_avx, fill_reim_fft16_omegas, reim_fft16_avx_fma)
LEAF(l_ifft16_ref, fill_reim_ifft16_omegas, reim_ifft16_ref) LEAF(l_ifft16_avx, fill_reim_ifft16_omegas, reim_ifft16_avx_fma)
LEAF(l_fft8_ref, fill_reim_fft8_omegas, reim_fft8_ref) LEAF(l_fft8_avx, fill_reim_fft8_omegas, reim_fft8_avx_fma)
LEAF(l_ifft8_ref, fill_reim_ifft8_omegas, reim_ifft8_ref) LEAF(l_ifft8_avx, fill_reim_ifft8_omegas, reim_ifft8_avx_fma)
LEAF(l_fft4_ref, fill_reim_fft4_omegas, reim_fft4_ref) LEAF(l_fft4_avx, fill_reim_fft4_omegas, reim_fft4_avx_fma)
LEAF(l_ifft4_ref, fill_reim_ifft4_omegas, reim_ifft4_ref) LEAF(l_ifft4_avx, fill_reim_ifft4_omegas, reim_ifft4_avx_fma)
extern void cplx_fft16_precomp(const double entry_pwr, CPLX** omg);
extern void cplx_ifft16_precomp(const double entry_pwr, CPLX** omg);
#define CLEAF(NAME, FILL, FN) static void call_##NAME(const opplan_t* pl, void* const p[], const env_t* e) { (void)pl; (void)e; CPLX* w = p[1]; FILL(0.25, &w); FN(p[0], p[1]); }
CLEAF(l_cfft16_ref, cplx_fft16_precomp, cplx_fft16_ref) CLEAF(l_cfft16_avx, cplx_fft16_precomp, cplx_fft16_avx_fma)
CLEAF(l_cifft16_ref, cplx_ifft16_precomp, cplx_ifft16_ref) CLEAF(l_cifft16_avx, cplx_ifft16_precomp, cplx_ifft16_avx_fma)

// twiddle pass on 2m complexes (a = first half, b = second half): a' = a + om*b, b' = a - om*b. The reference takes
// om as one complex; the vector variants read it duplicated (re, im, re, im)
extern void cplx_twiddle_fft_ref(int32_t h, CPLX* data, const CPLX powom);
static void plan_twiddle(opplan_t* pl, rng_t* r, const env_t* e) {
  (void)r;
  M_AT_LEAST(pl, e, 16)
  B_RAW(pl, R_INOUT, F_DBL, 4, 4 * e->m * 8, 8);
  B_RAW(pl, R_IN, F_DBL, 0, 16, 8);
}
static void plan_twiddle_512(opplan_t* pl, rng_t* r, const env_t* e) { if (!__builtin_cpu_supports("avx512f")) { pl->skip = 1; return; } plan_twiddle(pl, r, e); }
static void call_twiddle_ref(const opplan_t* pl, void* const p[], const env_t* e) { (void)pl; cplx_twiddle_fft_ref((int32_t)e->m, p[0], p[1]); }
static void call_twiddle_fma(const opplan_t* pl, void* const p[], const env_t* e) {
  (void)pl;
  const double* o = p[1];
  double om[4] = {o[0], o[1], o[0], o[1]};
  struct cplx_twiddle_precomp t = {0, (int64_t)e->m};
  cplx_fftvec_twiddle_fma(&t, p[0], (double*)p[0] + 2 * e->m, om);
}
static void call_twiddle_512(const opplan_t* pl, void* const p[], const env_t* e) {
  (void)pl;
  const double* o = p[1];
  double om[4] = {o[0], o[1], o[0], o[1]};
  struct cplx_twiddle_precomp t = {0, (int64_t)e->m};
  cplx_fftvec_twiddle_avx512(&t, p[0], (double*)p[0] + 2 * e->m, om);
}

// 4-slice butterfly pass (no portable counterpart, no constructor, no dispatcher in the library): the AVX2/FMA and the
// AVX-512 kernels are generated from the same template, so they must agree bit for bit on every element.
// a = 4 slices of m complexes, slice stride in bytes, omg = 4 doubles
static void plan_bitwiddle(opplan_t* pl, rng_t* r, const env_t* e) {
  (void)r;
  M_AT_LEAST(pl, e, 8)
  B_RAW(pl, R_INOUT, F_DBL, 4, 8 * e->m * 8, 8);
  B_RAW(pl, R_IN, F_DBL, 0, 32, 8);
}
static void plan_bitwiddle_512(opplan_t* pl, rng_t* r, const env_t* e) { if (!__builtin_cpu_supports("avx512f")) { pl->skip = 1; return; } plan_bitwiddle(pl, r, e); }
static void call_bitwiddle_fma(const opplan_t* pl, void* const p[], const env_t* e) { (void)pl; struct cplx_bitwiddle_precomp t = {0, (int64_t)e->m}; cplx_fftvec_bitwiddle_fma(&t, p[0], e->m * 16, p[1]); }
static void call_bitwiddle_512(const opplan_t* pl, void* const p[], const env_t* e) { (void)pl; struct cplx_bitwiddle_precomp t = {0, (int64_t)e->m}; cplx_fftvec_bitwiddle_avx512(&t, p[0], e->m * 16, p[1]); }

// element-wise vector kernels exported without a portable counterpart (8 complexes per iteration, do-while: m >= 8);
// their twins are the definitions r = a + b, r -= a + b, r = a written out in the harness ("definition:" entries)
extern void cplx_fftvec_add_fma(uint32_t m, void* r, const void* a, const void* b);
extern void cplx_fftvec_sub2_to_fma(uint32_t m, void* r, const void* a, const void* b);
extern void cplx_fftvec_copy_fma(uint32_t m, void* r, const void* a);
static void plan_cvec_out(opplan_t* pl, rng_t* r, const env_t* e) {
  (void)r;
  M_AT_LEAST(pl, e, 8)
  B_RAW(pl, R_OUT, F_NONE, 0, 2 * e->m * 8, 8);
  B_RAW(pl, R_IN, F_DBL, 30, 2 * e->m * 8, 8);
  B_RAW(pl, R_IN, F_DBL, 30, 2 * e->m * 8, 8);
}
static void plan_cvec_inout(opplan_t* pl, rng_t* r, const env_t* e) {
  (void)r;
  M_AT_LEAST(pl, e, 8)
  B_RAW(pl, R_INOUT, F_DBL, 30, 2 * e->m * 8, 8);
  B_RAW(pl, R_IN, F_DBL, 30, 2 * e->m * 8, 8);
  B_RAW(pl, R_IN, F_DBL, 30, 2 * e->m * 8, 8);
}
static void call_cvec_add(const opplan_t* pl, void* const p[], const env_t* e) { (void)pl; cplx_fftvec_add_fma((uint32_t)e->m, p[0], p[1], p[2]); }
static void call_cvec_sub2(const opplan_t* pl, void* const p[], const env_t* e) { (void)pl; cplx_fftvec_sub2_to_fma((uint32_t)e->m, p[0], p[1], p[2]); }
static void call_cvec_copy(const opplan_t* pl, void* const p[], const env_t* e) { (void)pl; cplx_fftvec_copy_fma((uint32_t)e->m, p[0], p[1]); }
static void def_cvec_add(const opplan_t* pl, void* const p[], const env_t* e) { (void)pl; double* r = p[0]; const double *a = p[1], *b = p[2]; for (uint64_t i = 0; i < 2 * e->m; i++) r[i] = a[i] + b[i]; }
static void def_cvec_sub2(const opplan_t* pl, void* const p[], const env_t* e) { (void)pl; double* r = p[0]; const double *a = p[1], *b = p[2]; for (uint64_t i = 0; i < 2 * e->m; i++) r[i] = r[i] - (a[i] + b[i]); }
static void def_cvec_copy(const opplan_t* pl, void* const p[], const env_t* e) { (void)pl; memcpy(p[0], p[1], 2 * e->m * 8); }
// reim4 element operations (8 doubles: 4 real parts then 4 imaginary parts)
static void plan_r4el(opplan_t* pl, rng_t* r, const env_t* e) { (void)r; (void)e; B_RAW(pl, R_OUT, F_NONE, 0, 64, 8); B_RAW(pl, R_IN, F_DBL, 20, 64, 8); B_RAW(pl, R_IN, F_DBL, 20, 64, 8); }
static void call_r4_add(const opplan_t* pl, void* const p[], const env_t* e) { (void)pl; (void)e; reim4_add(p[0], p[1], p[2]); }
static void call_r4_mulel(const opplan_t* pl, void* const p[], const env_t* e) { (void)pl; (void)e; reim4_mul(p[0], p[1], p[2]); }

// harness-side definitions used as twins (never counted as library entry points)
const opdef_t DEF_OPS[] = {
    {"definition:r=a+b", OPF_KERNEL, plan_cvec_out, def_cvec_add},
    {"definition:r-=a+b", OPF_KERNEL, plan_cvec_inout, def_cvec_sub2},
    {"definition:r=a", OPF_KERNEL, plan_cvec_out, def_cvec_copy},
};
const int N_DEF_OPS = (int)(sizeof DEF_OPS / sizeof DEF_OPS[0]);

#define NTTV(NAME) plan_##NAME##_ntt
const opdef_t OPS[] = {
    {"vec_znx_zero", OPF_FFT64, plan_zero, call_zero}, {"vec_znx_zero@ntt120", OPF_NTT120, NTTV(zero), call_zero},
    {"vec_znx_copy", OPF_FFT64, plan_unary, call_copy}, {"vec_znx_copy@ntt120", OPF_NTT120, NTTV(unary), call_copy},
    {"vec_znx_negate", OPF_FFT64, plan_unary, call_negate}, {"vec_znx_negate@ntt120", OPF_NTT120, NTTV(unary), call_negate},
    {"vec_znx_rotate", OPF_FFT64, plan_unary, call_rotate}, {"vec_znx_rotate@ntt120", OPF_NTT120, NTTV(unary), call_rotate},
    {"vec_znx_automorphism", OPF_FFT64, plan_unary, call_automorphism}, {"vec_znx_automorphism@ntt120", OPF_NTT120, NTTV(unary), call_automorphism},
    {"vec_znx_normalize_base2k", OPF_FFT64, plan_normalize, call_normalize}, {"vec_znx_normalize_base2k@ntt120", OPF_NTT120, NTTV(normalize), call_normalize},
    {"vec_znx_add", OPF_FFT64, plan_binary, call_add}, {"vec_znx_add@ntt120", OPF_NTT120, NTTV(binary), call_add},
    {"vec_znx_sub", OPF_FFT64, plan_binary, call_sub}, {"vec_znx_sub@ntt120", OPF_NTT120, NTTV(binary), call_sub},
    {"vec_znx_copy(res==a)", OPF_FFT64, plan_inplace_vec, call_ip_copy}, {"vec_znx_negate(res==a)", OPF_FFT64, plan_inplace_vec, call_ip_negate},
    {"vec_znx_rotate(res==a)", OPF_FFT64, plan_inplace_vec, call_ip_rotate}, {"vec_znx_rotate(res==a)@ntt120", OPF_NTT120, NTTV(inplace_vec), call_ip_rotate},
    {"vec_znx_automorphism(res==a)", OPF_FFT64, plan_inplace_vec, call_ip_auto}, {"vec_znx_automorphism(res==a)@ntt120", OPF_NTT120, NTTV(inplace_vec), call_ip_auto},
    {"vec_znx_normalize_base2k(res==a)", OPF_FFT64, plan_inplace_norm, call_ip_normalize},
    {"vec_znx_add(res==a)", OPF_FFT64, plan_inplace_vec, call_ip_add}, {"vec_znx_sub(res==b)", OPF_FFT64, plan_inplace_vec, call_ip_sub_b},
    {"vec_znx_big_add(res==a)", OPF_FFT64, plan_inplace_big, call_ipb_add}, {"vec_znx_big_sub(res==b)", OPF_FFT64, plan_inplace_big, call_ipb_sub},
    {"vec_znx_add(res==b)", OPF_FFT64, plan_inplace_vec, call_ip_add_b}, {"vec_znx_sub(res==a)", OPF_FFT64, plan_inplace_vec, call_ip_sub_a},
    {"vec_znx_big_add(res==b)", OPF_FFT64, plan_inplace_big, call_ipb_add_b}, {"vec_znx_big_sub(res==a)", OPF_FFT64, plan_inplace_big, call_ipb_sub_a},
    {"vec_znx_big_rotate(res==a)", OPF_FFT64, plan_inplace_big, call_ipb_rotate}, {"vec_znx_big_automorphism(res==a)", OPF_FFT64, plan_inplace_big, call_ipb_auto},
    {"vec_znx_idft(res==a_dft)", OPF_FFT64, plan_inplace_idft, call_ip_idft},
    {"reim_fftvec_mul(r==a)", OPF_TABLE, plan_inplace_mul, call_ip_reim_mul}, {"reim_fftvec_addmul(r==b)", OPF_TABLE, plan_inplace_mul, call_ip_reim_addmul},
    {"cplx_fftvec_mul(r==b)", OPF_TABLE, plan_inplace_mul, call_ip_cplx_mul},
    {"reim_fftvec_mul(r==b)", OPF_TABLE, plan_inplace_mul, call_ip_reim_mul_b}, {"reim_fftvec_mul(r==a==b)", OPF_TABLE, plan_square, call_ip_reim_mul_ab},
    {"cplx_fftvec_mul(r==a)", OPF_TABLE, plan_inplace_mul, call_ip_cplx_mul_a}, {"cplx_fftvec_mul(r==a==b)", OPF_TABLE, plan_square, call_ip_cplx_mul_ab},
    {"reim4_fftvec_mul(r==a)", OPF_TABLE, plan_inplace_mul4, call_ip_r4_mul_a}, {"reim4_fftvec_mul(r==b)", OPF_TABLE, plan_inplace_mul4, call_ip_r4_mul_b},
    {"reim4_fftvec_mul(r==a==b)", OPF_TABLE, plan_square4, call_ip_r4_mul_ab},
    {"reim_fftvec_mul(a==b)", OPF_TABLE, plan_sq_out, call_sq_reim_mul}, {"reim_fftvec_addmul(a==b)", OPF_TABLE, plan_sq_acc, call_sq_reim_addmul},
    {"cplx_fftvec_mul(a==b)", OPF_TABLE, plan_sq_out, call_sq_cplx_mul}, {"cplx_fftvec_addmul(a==b)", OPF_TABLE, plan_sq_acc, call_sq_cplx_addmul},
    {"reim4_fftvec_mul(a==b)", OPF_TABLE, plan_sq_out4, call_sq_r4_mul}, {"reim4_fftvec_addmul(a==b)", OPF_TABLE, plan_sq_acc4, call_sq_r4_addmul},
    {"vec_znx_dft", OPF_FFT64, plan_dft, call_dft}, {"vec_znx_dft@ntt120", OPF_NTT120, plan_dft_ntt, call_dft},
    {"vec_znx_idft", OPF_FFT64, plan_idft, call_idft}, {"vec_znx_idft@ntt120", OPF_NTT120, plan_idft_ntt, call_idft},
    {"vec_znx_idft_tmp_a", OPF_FFT64, plan_idft_tmp_a, call_idft_tmp_a}, {"vec_znx_idft_tmp_a@ntt120", OPF_NTT120, plan_idft_tmp_a_ntt, call_idft_tmp_a},
    {"vec_znx_big_add", OPF_FFT64, plan_big_bb, call_big_add}, {"vec_znx_big_add_small", OPF_FFT64, plan_big_bs, call_big_add_small},
    {"vec_znx_big_add_small2", OPF_FFT64, plan_big_ss, call_big_add_small2}, {"vec_znx_big_sub", OPF_FFT64, plan_big_bb, call_big_sub},
    {"vec_znx_big_sub_small_a", OPF_FFT64, plan_big_sb, call_big_sub_small_a}, {"vec_znx_big_sub_small_b", OPF_FFT64, plan_big_bs, call_big_sub_small_b},
    {"vec_znx_big_sub_small2", OPF_FFT64, plan_big_ss, call_big_sub_small2}, {"vec_znx_big_rotate", OPF_FFT64, plan_big_b, call_big_rotate},
    {"vec_znx_big_automorphism", OPF_FFT64, plan_big_b, call_big_automorphism},
    {"vec_znx_big_normalize_base2k", OPF_FFT64, plan_big_normalize, call_big_normalize},
    {"vec_znx_big_range_normalize_base2k", OPF_FFT64, plan_big_range_normalize, call_big_range_normalize},
    {"svp_prepare", OPF_FFT64, plan_svp_prepare, call_svp_prepare}, {"svp_apply_dft", OPF_FFT64, plan_svp_apply, call_svp_apply},
    {"znx_small_single_product", OPF_FFT64, plan_small_product, call_small_product},
    {"vmp_prepare_contiguous", OPF_FFT64, plan_vmp_prepare, call_vmp_prepare}, {"vmp_apply_dft", OPF_FFT64, plan_vmp_apply, call_vmp_apply},
    {"vmp_apply_dft_to_dft", OPF_FFT64, plan_vmp_apply_dft_to_dft, call_vmp_apply_dft_to_dft},
    {"reim_fft", OPF_TABLE, plan_inplace_d, call_reim_fft}, {"reim_ifft", OPF_TABLE, plan_inplace_d, call_reim_ifft},
    {"reim_fftvec_mul", OPF_TABLE, plan_mul_d, call_reim_mul}, {"reim_fftvec_addmul", OPF_TABLE, plan_addmul_d, call_reim_addmul},
    {"reim_from_znx64", OPF_TABLE, plan_from_znx64, call_from_znx64}, {"reim_to_znx64", OPF_TABLE, plan_to_znx64, call_to_znx64},
    {"reim_to_tnx", OPF_TABLE, plan_to_tnx, call_to_tnx},
    {"cplx_fft", OPF_TABLE, plan_inplace_d, call_cplx_fft}, {"cplx_ifft", OPF_TABLE, plan_inplace_d, call_cplx_ifft},
    {"cplx_fftvec_mul", OPF_TABLE, plan_mul_d, call_cplx_mul}, {"cplx_fftvec_addmul", OPF_TABLE, plan_addmul_d, call_cplx_addmul},
    {"cplx_from_znx32", OPF_TABLE, plan_cplx_from32, call_cplx_from_znx32}, {"cplx_from_tnx32", OPF_TABLE, plan_cplx_from32, call_cplx_from_tnx32},
    {"cplx_to_tnx32", OPF_TABLE, plan_cplx_to_tnx32, call_cplx_to_tnx32},
    {"reim4_fftvec_mul", OPF_TABLE, plan_mul_r4, call_r4_mul}, {"reim4_fftvec_addmul", OPF_TABLE, plan_addmul_r4, call_r4_addmul},
    {"reim4_from_cplx", OPF_TABLE, plan_conv_r4, call_r4_from}, {"reim4_to_cplx", OPF_TABLE, plan_conv_r4, call_r4_to},
    {"q120_ntt_bb_avx2", OPF_TABLE, plan_ntt, call_q120_ntt}, {"q120_intt_bb_avx2", OPF_TABLE, plan_ntt, call_q120_intt},
    {"q120_vec_mat1col_product_baa_ref", OPF_TABLE, plan_baa, call_baa_ref}, {"q120_vec_mat1col_product_baa_avx2", OPF_TABLE | OPF_AVX, plan_baa, call_baa_avx2, "q120_vec_mat1col_product_baa_ref"},
    {"q120_vec_mat1col_product_bbb_ref", OPF_TABLE, plan_bbb, call_bbb_ref}, {"q120_vec_mat1col_product_bbb_avx2", OPF_TABLE | OPF_AVX, plan_bbb, call_bbb_avx2, "q120_vec_mat1col_product_bbb_ref"},
    {"q120_vec_mat1col_product_bbc_ref", OPF_TABLE, plan_bbc, call_bbc_ref}, {"q120_vec_mat1col_product_bbc_avx2", OPF_TABLE | OPF_AVX, plan_bbc, call_bbc_avx2, "q120_vec_mat1col_product_bbc_ref"},
    {"q120x2_vec_mat1col_product_bbc_ref", OPF_TABLE, plan_x2_1, call_x2_1_ref}, {"q120x2_vec_mat1col_product_bbc_avx2", OPF_TABLE | OPF_AVX, plan_x2_1, call_x2_1_avx2, "q120x2_vec_mat1col_product_bbc_ref"},
    {"q120x2_vec_mat2cols_product_bbc_ref", OPF_TABLE, plan_x2_2, call_x2_2_ref}, {"q120x2_vec_mat2cols_product_bbc_avx2", OPF_TABLE | OPF_AVX, plan_x2_2, call_x2_2_avx2, "q120x2_vec_mat2cols_product_bbc_ref"},
    {"q120_b_from_znx64_simple", OPF_KERNEL, plan_b_from_znx64, call_b_from_znx64}, {"q120_c_from_znx64_simple", OPF_KERNEL, plan_b_from_znx64, call_c_from_znx64},
    {"q120_c_from_b_simple", OPF_KERNEL, plan_c_from_b, call_c_from_b}, {"q120_b_to_znx128_simple", OPF_KERNEL, plan_b_to_znx128, call_b_to_znx128},
    {"q120_add_bbb_simple", OPF_KERNEL, plan_add_bbb, call_add_bbb}, {"q120_add_ccc_simple", OPF_KERNEL, plan_add_ccc, call_add_ccc},
    {"q120x2_extract_1blk_from_contiguous_q120b_ref", OPF_KERNEL, plan_q_extract, call_q_extract_contig},
    {"q120x2_extract_1blk_from_q120b_ref", OPF_KERNEL, plan_q_extract1, call_q_extract1b}, {"q120x2_extract_1blk_from_q120c_ref", OPF_KERNEL, plan_q_extract1, call_q_extract1c},
    {"q120x2b_save_1blk_to_q120b_ref", OPF_KERNEL, plan_q_save, call_q_save},
    {"znx_add_i64_ref", OPF_KERNEL, plan_k3, call_znx_add_ref}, {"znx_add_i64_avx", OPF_KERNEL | OPF_AVX, plan_k3, call_znx_add_avx, "znx_add_i64_ref"},
    {"znx_sub_i64_ref", OPF_KERNEL, plan_k3, call_znx_sub_ref}, {"znx_sub_i64_avx", OPF_KERNEL | OPF_AVX, plan_k3, call_znx_sub_avx, "znx_sub_i64_ref"},
    {"znx_negate_i64_ref", OPF_KERNEL, plan_k2, call_znx_neg_ref}, {"znx_negate_i64_avx", OPF_KERNEL | OPF_AVX, plan_k2, call_znx_neg_avx, "znx_negate_i64_ref"},
    {"znx_copy_i64_ref", OPF_KERNEL, plan_k2, call_znx_copy_ref}, {"znx_zero_i64_ref", OPF_KERNEL, plan_k2, call_znx_zero_ref},
    {"rnx_divide_by_m_ref", OPF_KERNEL, plan_k2d_div, call_rnx_div_ref}, {"rnx_divide_by_m_avx", OPF_KERNEL | OPF_AVX, plan_k2d_div, call_rnx_div_avx, "rnx_divide_by_m_ref"},
    {"znx_rotate_i64", OPF_KERNEL, plan_k2, call_znx_rotate}, {"rnx_rotate_f64", OPF_KERNEL, plan_k2d, call_rnx_rotate},
    {"znx_rotate_inplace_i64", OPF_KERNEL, plan_k1, call_znx_rotate_ip}, {"rnx_rotate_inplace_f64", OPF_KERNEL, plan_k1d, call_rnx_rotate_ip},
    {"znx_automorphism_i64", OPF_KERNEL, plan_k2, call_znx_auto}, {"rnx_automorphism_f64", OPF_KERNEL, plan_k2d, call_rnx_auto},
    {"znx_automorphism_inplace_i64", OPF_KERNEL, plan_k1, call_znx_auto_ip}, {"rnx_automorphism_inplace_f64", OPF_KERNEL, plan_k1d, call_rnx_auto_ip},
    {"znx_mul_xp_minus_one", OPF_KERNEL, plan_k2, call_znx_mulxp}, {"rnx_mul_xp_minus_one", OPF_KERNEL, plan_k2d, call_rnx_mulxp},
    {"rnx_mul_xp_minus_one_inplace", OPF_KERNEL, plan_k1d, call_rnx_mulxp_ip},
    {"znx_normalize", OPF_KERNEL, plan_znx_normalize, call_znx_normalize},
    {"reim4_extract_1blk_from_contiguous_reim_sl_ref", OPF_KERNEL, plan_r4_extract, call_r4_ext_sl_ref}, {"reim4_extract_1blk_from_contiguous_reim_sl_avx", OPF_KERNEL | OPF_AVX, plan_r4_extract, call_r4_ext_sl_avx, "reim4_extract_1blk_from_contiguous_reim_sl_ref"},
    {"reim4_extract_1blk_from_contiguous_reim_ref", OPF_KERNEL, plan_r4_extract_c, call_r4_ext_c_ref}, {"reim4_extract_1blk_from_contiguous_reim_avx", OPF_KERNEL | OPF_AVX, plan_r4_extract_c, call_r4_ext_c_avx, "reim4_extract_1blk_from_contiguous_reim_ref"},
    {"reim4_extract_1blk_from_reim_ref", OPF_KERNEL, plan_r4_extract1, call_r4_ext1_ref}, {"reim4_extract_1blk_from_reim_avx", OPF_KERNEL | OPF_AVX, plan_r4_extract1, call_r4_ext1_avx, "reim4_extract_1blk_from_reim_ref"},
    {"reim4_save_1blk_to_reim_ref", OPF_KERNEL, plan_r4_save, call_r4_save_ref}, {"reim4_save_1blk_to_reim_avx", OPF_KERNEL | OPF_AVX, plan_r4_save, call_r4_save_avx, "reim4_save_1blk_to_reim_ref"},
    {"reim4_vec_mat1col_product_ref", OPF_KERNEL, plan_r4_dot1, call_r4_dot1_ref}, {"reim4_vec_mat1col_product_avx2", OPF_KERNEL | OPF_AVX, plan_r4_dot1, call_r4_dot1_avx, "reim4_vec_mat1col_product_ref"},
    {"reim4_vec_mat2cols_product_ref", OPF_KERNEL, plan_r4_dot2, call_r4_dot2_ref}, {"reim4_vec_mat2cols_product_avx2", OPF_KERNEL | OPF_AVX, plan_r4_dot2, call_r4_dot2_avx, "reim4_vec_mat2cols_product_ref"},
    {"reim4_convolution_ref", OPF_KERNEL, plan_r4_conv, call_r4_conv},
    {"reim_fft_ref", OPF_KERNEL, plan_inplace_d, call_k_reim_fft_ref}, {"reim_fft_avx2_fma", OPF_KERNEL | OPF_AVX, plan_inplace_d, call_k_reim_fft_avx, "reim_fft_ref"},
    {"reim_ifft_ref", OPF_KERNEL, plan_inplace_d, call_k_reim_ifft_ref}, {"reim_ifft_avx2_fma", OPF_KERNEL | OPF_AVX, plan_inplace_d, call_k_reim_ifft_avx, "reim_ifft_ref"},
    {"cplx_fft_ref", OPF_KERNEL, plan_inplace_d8, call_k_cplx_fft_ref}, {"cplx_fft_avx2_fma", OPF_KERNEL | OPF_AVX, plan_inplace_d8, call_k_cplx_fft_avx, "cplx_fft_ref"},
    {"cplx_ifft_ref", OPF_KERNEL, plan_inplace_d8, call_k_cplx_ifft_ref}, {"cplx_ifft_avx2_fma", OPF_KERNEL | OPF_AVX, plan_inplace_d8, call_k_cplx_ifft_avx, "cplx_ifft_ref"},
    {"reim_fftvec_mul_ref", OPF_KERNEL, plan_mul_d4, call_k_reim_mul_ref}, {"reim_fftvec_mul_fma", OPF_KERNEL | OPF_AVX, plan_mul_d4, call_k_reim_mul_fma, "reim_fftvec_mul_ref"},
    {"reim_fftvec_addmul_ref", OPF_KERNEL, plan_addmul_d4, call_k_reim_addmul_ref}, {"reim_fftvec_addmul_fma", OPF_KERNEL | OPF_AVX, plan_addmul_d4, call_k_reim_addmul_fma, "reim_fftvec_addmul_ref"},
    {"cplx_fftvec_mul_ref", OPF_KERNEL, plan_mul_d8, call_k_cplx_mul_ref}, {"cplx_fftvec_mul_fma", OPF_KERNEL | OPF_AVX, plan_mul_d8, call_k_cplx_mul_fma, "cplx_fftvec_mul_ref"},
    {"cplx_fftvec_addmul_ref", OPF_KERNEL, plan_addmul_d8, call_k_cplx_addmul_ref}, {"cplx_fftvec_addmul_fma", OPF_KERNEL | OPF_AVX, plan_addmul_d8, call_k_cplx_addmul_fma, "cplx_fftvec_addmul_ref"},
    {"cplx_fftvec_addmul_sse", OPF_KERNEL | OPF_AVX, plan_addmul_d8, call_k_cplx_addmul_sse, "cplx_fftvec_addmul_ref"},
    {"cplx_fftvec_addmul_avx512", OPF_KERNEL | OPF_AVX, plan_addmul_d8_512, call_k_cplx_addmul_512, "cplx_fftvec_addmul_ref"},
    {"reim4_fftvec_mul_ref", OPF_KERNEL, plan_mul_r4, call_k_r4_mul_ref}, {"reim4_fftvec_mul_fma", OPF_KERNEL | OPF_AVX, plan_mul_r4, call_k_r4_mul_fma, "reim4_fftvec_mul_ref"},
    {"reim4_fftvec_addmul_ref", OPF_KERNEL, plan_addmul_r4, call_k_r4_addmul_ref}, {"reim4_fftvec_addmul_fma", OPF_KERNEL | OPF_AVX, plan_addmul_r4, call_k_r4_addmul_fma, "reim4_fftvec_addmul_ref"},
    {"reim_fftvec_mul_ref(a==b)", OPF_KERNEL, plan_sq_out4, call_sq_reim_mul_ref}, {"reim_fftvec_mul_fma(a==b)", OPF_KERNEL | OPF_AVX, plan_sq_out4, call_sq_reim_mul_fma, "reim_fftvec_mul_ref(a==b)"},
    {"reim_fftvec_addmul_ref(a==b)", OPF_KERNEL, plan_sq_acc4, call_sq_reim_addmul_ref}, {"reim_fftvec_addmul_fma(a==b)", OPF_KERNEL | OPF_AVX, plan_sq_acc4, call_sq_reim_addmul_fma, "reim_fftvec_addmul_ref(a==b)"},
    {"cplx_fftvec_mul_ref(a==b)", OPF_KERNEL, plan_sq_out8, call_sq_cplx_mul_ref}, {"cplx_fftvec_mul_fma(a==b)", OPF_KERNEL | OPF_AVX, plan_sq_out8, call_sq_cplx_mul_fma, "cplx_fftvec_mul_ref(a==b)"},
    {"cplx_fftvec_addmul_ref(a==b)", OPF_KERNEL, plan_sq_acc8, call_sq_cplx_addmul_ref}, {"cplx_fftvec_addmul_fma(a==b)", OPF_KERNEL | OPF_AVX, plan_sq_acc8, call_sq_cplx_addmul_fma, "cplx_fftvec_addmul_ref(a==b)"},
    {"reim4_fftvec_mul_ref(a==b)", OPF_KERNEL, plan_sq_out4, call_sq_r4_mul_ref}, {"reim4_fftvec_mul_fma(a==b)", OPF_KERNEL | OPF_AVX, plan_sq_out4, call_sq_r4_mul_fma, "reim4_fftvec_mul_ref(a==b)"},
    {"reim4_fftvec_addmul_ref(a==b)", OPF_KERNEL, plan_sq_acc4, call_sq_r4_addmul_ref}, {"reim4_fftvec_addmul_fma(a==b)", OPF_KERNEL | OPF_AVX, plan_sq_acc4, call_sq_r4_addmul_fma, "reim4_fftvec_addmul_ref(a==b)"},
    {"reim4_from_cplx_ref", OPF_KERNEL, plan_conv_r4, call_k_r4_from_ref}, {"reim4_from_cplx_fma", OPF_KERNEL | OPF_AVX, plan_conv_r4, call_k_r4_from_fma, "reim4_from_cplx_ref"},
    {"reim4_to_cplx_ref", OPF_KERNEL, plan_conv_r4, call_k_r4_to_ref}, {"reim4_to_cplx_fma", OPF_KERNEL | OPF_AVX, plan_conv_r4, call_k_r4_to_fma, "reim4_to_cplx_ref"},
    {"reim_from_znx64_ref", OPF_KERNEL, plan_from_znx64_2, call_k_from_znx64_ref}, {"reim_from_znx64_bnd50_fma", OPF_KERNEL | OPF_AVX, plan_from_znx64_2, call_k_from_znx64_fma, "reim_from_znx64_ref"},
    {"reim_to_znx64_ref", OPF_KERNEL, plan_to_znx64_k, call_k_to_znx64_ref}, {"reim_to_znx64_avx2_bnd50_fma", OPF_KERNEL | OPF_AVX, plan_to_znx64_k, call_k_to_znx64_b50, "reim_to_znx64_ref"},
    {"reim_to_znx64_avx2_bnd63_fma", OPF_KERNEL | OPF_AVX, plan_to_znx64_k, call_k_to_znx64_b63, "reim_to_znx64_ref"},
    {"reim_to_tnx_ref", OPF_KERNEL, plan_to_tnx_4, call_k_to_tnx_ref}, {"reim_to_tnx_avx", OPF_KERNEL | OPF_AVX, plan_to_tnx_4, call_k_to_tnx_avx, "reim_to_tnx_ref"},
    {"cplx_from_znx32_ref", OPF_KERNEL, plan_cplx_from32_8, call_k_cfz_ref}, {"cplx_from_znx32_avx2_fma", OPF_KERNEL | OPF_AVX, plan_cplx_from32_8, call_k_cfz_avx, "cplx_from_znx32_ref"},
    {"cplx_from_tnx32_ref", OPF_KERNEL, plan_cplx_from32_8, call_k_cft_ref}, {"cplx_from_tnx32_avx2_fma", OPF_KERNEL | OPF_AVX, plan_cplx_from32_8, call_k_cft_avx, "cplx_from_tnx32_ref"},
    {"cplx_to_tnx32_ref", OPF_KERNEL, plan_cplx_to_tnx32_8, call_k_ctt_ref}, {"cplx_to_tnx32_avx2_fma", OPF_KERNEL | OPF_AVX, plan_cplx_to_tnx32_8, call_k_ctt_avx, "cplx_to_tnx32_ref"},
    {"vec_znx_add_ref", OPF_KERNEL, plan_binary, call_k_vadd_ref}, {"vec_znx_add_avx", OPF_KERNEL | OPF_AVX, plan_binary, call_k_vadd_avx, "vec_znx_add_ref"},
    {"vec_znx_sub_ref", OPF_KERNEL, plan_binary, call_k_vsub_ref}, {"vec_znx_sub_avx", OPF_KERNEL | OPF_AVX, plan_binary, call_k_vsub_avx, "vec_znx_sub_ref"},
    {"vec_znx_negate_ref", OPF_KERNEL, plan_unary, call_k_vneg_ref}, {"vec_znx_negate_avx", OPF_KERNEL | OPF_AVX, plan_unary, call_k_vneg_avx, "vec_znx_negate_ref"},
    {"fft64_vmp_prepare_contiguous_ref", OPF_KERNEL, plan_vmp_prepare, call_k_vmp_prep_ref}, {"fft64_vmp_prepare_contiguous_avx", OPF_KERNEL | OPF_AVX, plan_vmp_prepare, call_k_vmp_prep_avx, "fft64_vmp_prepare_contiguous_ref"},
    {"fft64_vmp_apply_dft_ref", OPF_KERNEL, plan_vmp_apply, call_k_vmp_apply_ref}, {"fft64_vmp_apply_dft_avx", OPF_KERNEL | OPF_AVX, plan_vmp_apply, call_k_vmp_apply_avx, "fft64_vmp_apply_dft_ref"},
    {"fft64_vmp_apply_dft_to_dft_ref", OPF_KERNEL, plan_vmp_apply_dft_to_dft, call_k_vmp_d2d_ref}, {"fft64_vmp_apply_dft_to_dft_avx", OPF_KERNEL | OPF_AVX, plan_vmp_apply_dft_to_dft, call_k_vmp_d2d_avx, "fft64_vmp_apply_dft_to_dft_ref"},
    {"reim_fft16_ref", OPF_KERNEL, plan_leaf16, call_l_fft16_ref}, {"reim_fft16_avx_fma", OPF_KERNEL | OPF_AVX, plan_leaf16, call_l_fft16_avx, "reim_fft16_ref"},
    {"reim_ifft16_ref", OPF_KERNEL, plan_leaf16, call_l_ifft16_ref}, {"reim_ifft16_avx_fma", OPF_KERNEL | OPF_AVX, plan_leaf16, call_l_ifft16_avx, "reim_ifft16_ref"},
    {"reim_fft8_ref", OPF_KERNEL, plan_leaf8, call_l_fft8_ref}, {"reim_fft8_avx_fma", OPF_KERNEL | OPF_AVX, plan_leaf8, call_l_fft8_avx, "reim_fft8_ref"},
    {"reim_ifft8_ref", OPF_KERNEL, plan_leaf8, call_l_ifft8_ref}, {"reim_ifft8_avx_fma", OPF_KERNEL | OPF_AVX, plan_leaf8, call_l_ifft8_avx, "reim_ifft8_ref"},
    {"reim_fft4_ref", OPF_KERNEL, plan_leaf4, call_l_fft4_ref}, {"reim_fft4_avx_fma", OPF_KERNEL | OPF_AVX, plan_leaf4, call_l_fft4_avx, "reim_fft4_ref"},
    {"reim_ifft4_ref", OPF_KERNEL, plan_leaf4, call_l_ifft4_ref}, {"reim_ifft4_avx_fma", OPF_KERNEL | OPF_AVX, plan_leaf4, call_l_ifft4_avx, "reim_ifft4_ref"},
    {"cplx_fft16_ref", OPF_KERNEL, plan_leaf16, call_l_cfft16_ref}, {"cplx_fft16_avx_fma", OPF_KERNEL | OPF_AVX, plan_leaf16, call_l_cfft16_avx, "cplx_fft16_ref"},
    {"cplx_ifft16_ref", OPF_KERNEL, plan_leaf16, call_l_cifft16_ref}, {"cplx_ifft16_avx_fma", OPF_KERNEL | OPF_AVX, plan_leaf16, call_l_cifft16_avx, "cplx_ifft16_ref"},
    {"cplx_twiddle_fft_ref", OPF_KERNEL, plan_twiddle, call_twiddle_ref}, {"cplx_fftvec_twiddle_fma", OPF_KERNEL | OPF_AVX, plan_twiddle, call_twiddle_fma, "cplx_twiddle_fft_ref"},
    {"cplx_fftvec_twiddle_avx512", OPF_KERNEL | OPF_AVX, plan_twiddle_512, call_twiddle_512, "cplx_twiddle_fft_ref"},
    {"cplx_fftvec_bitwiddle_fma", OPF_KERNEL | OPF_AVX, plan_bitwiddle, call_bitwiddle_fma}, {"cplx_fftvec_bitwiddle_avx512", OPF_KERNEL | OPF_AVX, plan_bitwiddle_512, call_bitwiddle_512, "cplx_fftvec_bitwiddle_fma"},
    {"cplx_fftvec_add_fma", OPF_KERNEL | OPF_AVX, plan_cvec_out, call_cvec_add, "definition:r=a+b"}, {"cplx_fftvec_sub2_to_fma", OPF_KERNEL | OPF_AVX, plan_cvec_inout, call_cvec_sub2, "definition:r-=a+b"},
    {"cplx_fftvec_copy_fma", OPF_KERNEL | OPF_AVX, plan_cvec_out, call_cvec_copy, "definition:r=a"},
    {"reim4_add", OPF_KERNEL, plan_r4el, call_r4_add}, {"reim4_mul", OPF_KERNEL, plan_r4el, call_r4_mulel},
    {"reim_to_znx64(fresh table)", OPF_TABLE, plan_s_to_znx64, call_fresh_to_znx64},
    {"cplx_to_tnx32(fresh table)", OPF_TABLE, plan_s_cplx_to_tnx32, call_fresh_cplx_to_tnx32},
    {"reim_fft_simple", OPF_SIMPLE, plan_inplace_d, call_s_reim_fft, "reim_fft"}, {"reim_ifft_simple", OPF_SIMPLE, plan_inplace_d, call_s_reim_ifft, "reim_ifft"},
    {"reim_fftvec_mul_simple", OPF_SIMPLE, plan_mul_d, call_s_reim_mul, "reim_fftvec_mul"}, {"reim_fftvec_addmul_simple", OPF_SIMPLE, plan_addmul_d, call_s_reim_addmul, "reim_fftvec_addmul"},
    {"reim_from_znx64_simple", OPF_SIMPLE, plan_from_znx64, call_s_from_znx64, "reim_from_znx64"}, {"reim_to_znx64_simple", OPF_SIMPLE, plan_s_to_znx64, call_s_to_znx64, "reim_to_znx64(fresh table)"},
    {"cplx_fft_simple", OPF_SIMPLE, plan_inplace_d, call_s_cplx_fft, "cplx_fft"}, {"cplx_ifft_simple", OPF_SIMPLE, plan_inplace_d, call_s_cplx_ifft, "cplx_ifft"},
    {"cplx_fftvec_mul_simple", OPF_SIMPLE, plan_mul_d, call_s_cplx_mul, "cplx_fftvec_mul"}, {"cplx_fftvec_addmul_simple", OPF_SIMPLE, plan_addmul_d, call_s_cplx_addmul, "cplx_fftvec_addmul"},
    {"cplx_from_znx32_simple", OPF_SIMPLE, plan_cplx_from32, call_s_cplx_from_znx32, "cplx_from_znx32"}, {"cplx_from_tnx32_simple", OPF_SIMPLE, plan_cplx_from32, call_s_cplx_from_tnx32, "cplx_from_tnx32"},
    {"cplx_to_tnx32_simple", OPF_SIMPLE, plan_s_cplx_to_tnx32, call_s_cplx_to_tnx32, "cplx_to_tnx32(fresh table)"},
    {"reim4_fftvec_mul_simple", OPF_SIMPLE, plan_mul_r4, call_s_r4_mul, "reim4_fftvec_mul"}, {"reim4_fftvec_addmul_simple", OPF_SIMPLE, plan_addmul_r4, call_s_r4_addmul, "reim4_fftvec_addmul"},
    {"reim4_from_cplx_simple", OPF_SIMPLE, plan_conv_r4, call_s_r4_from, "reim4_from_cplx"}, {"reim4_to_cplx_simple", OPF_SIMPLE, plan_conv_r4, call_s_r4_to, "reim4_to_cplx"},
};
const int N_CAT_OPS = (int)(sizeof OPS / sizeof OPS[0]);

const opdef_t* op_lookup(const char* name) {
  for (int i = 0; i < N_CAT_OPS; i++)
    if (!strcmp(OPS[i].name, name)) return &OPS[i];
  for (int i = 0; i < N_DEF_OPS; i++)
    if (!strcmp(DEF_OPS[i].name, name)) return &DEF_OPS[i];
  return 0;
}
int op_find(const char* name) {
  for (int i = 0; i < N_CAT_OPS; i++)
    if (!strcmp(OPS[i].name, name)) return i;
  return -1;
}

static uint64_t hb(uint64_t h, const void* p, size_t n, uint64_t* bytes) {
  if (!p || !n) return h;
  *bytes += n;
  return hash_bytes(p, n, h);
}
static uint64_t hash_module(uint64_t h, const MODULE* M, uint64_t* bytes) {
  if (!M) return h;
  h = hb(h, M, sizeof(MODULE), bytes);
  const uint64_t m = M->m;
  if (M->module_type == FFT64) {
    h = hb(h, M->mod.fft64.p_fft, sizeof(REIM_FFT_PRECOMP), bytes);
    if (M->mod.fft64.p_fft) h = hb(h, M->mod.fft64.p_fft->powomegas, 2 * m * 8, bytes);
    h = hb(h, M->mod.fft64.p_ifft, sizeof(REIM_IFFT_PRECOMP), bytes);
    if (M->mod.fft64.p_ifft) h = hb(h, M->mod.fft64.p_ifft->powomegas, 2 * m * 8, bytes);
    h = hb(h, M->mod.fft64.mul_fft, sizeof(REIM_FFTVEC_MUL_PRECOMP), bytes);
    h = hb(h, M->mod.fft64.p_addmul, sizeof(REIM_FFTVEC_ADDMUL_PRECOMP), bytes);
    h = hb(h, M->mod.fft64.p_conv, sizeof(struct reim_from_znx64_precomp), bytes);
    h = hb(h, M->mod.fft64.p_reim_to_znx, sizeof(struct reim_to_znx64_precomp), bytes);
  }
  return h;
}
static uint64_t hash_ntt(uint64_t h, const q120_ntt_precomp* t, uint64_t* bytes) {
  if (!t) return h;
  h = hb(h, t, sizeof *t, bytes);
  if (t->n > 1) {
    h = hb(h, t->level_metadata, (ilog2(t->n) + 2) * sizeof(q120_ntt_step_precomp), bytes);
    h = hb(h, t->powomega, 8 * t->n * 8, bytes);
  }
  return h;
}
uint64_t env_hash(const env_t* e, uint64_t* bytes) {
  uint64_t h = 99, b = 0;
  const uint64_t m = e->m;
  h = hash_module(h, e->fft64, &b);
  h = hash_module(h, e->ntt120, &b);
  if (e->ntt120) {
    h = hash_ntt(h, e->ntt120->mod.q120.p_ntt, &b);
    h = hash_ntt(h, e->ntt120->mod.q120.p_intt, &b);
  }
  h = hb(h, e->reim_fft, sizeof(REIM_FFT_PRECOMP), &b);
  h = hb(h, e->reim_fft->powomegas, 2 * m * 8, &b);
  h = hb(h, e->reim_ifft, sizeof(REIM_IFFT_PRECOMP), &b);
  h = hb(h, e->reim_ifft->powomegas, 2 * m * 8, &b);
  h = hb(h, e->reim_mul, sizeof(REIM_FFTVEC_MUL_PRECOMP), &b);
  h = hb(h, e->reim_addmul, sizeof(REIM_FFTVEC_ADDMUL_PRECOMP), &b);
  h = hb(h, e->from_znx64, sizeof(struct reim_from_znx64_precomp), &b);
  h = hb(h, e->to_znx64, sizeof(struct reim_to_znx64_precomp), &b);
  h = hb(h, e->to_tnx, sizeof(struct reim_to_tnx_precomp), &b);
  h = hb(h, e->cplx_fft, sizeof(struct cplx_fft_precomp), &b);
  h = hb(h, e->cplx_fft->powomegas, 4 * m * 8, &b);
  h = hb(h, e->cplx_ifft, sizeof(struct cplx_ifft_precomp), &b);
  h = hb(h, e->cplx_ifft->powomegas, 4 * m * 8, &b);
  h = hb(h, e->cplx_mul, sizeof(CPLX_FFTVEC_MUL_PRECOMP), &b);
  h = hb(h, e->cplx_addmul, sizeof(CPLX_FFTVEC_ADDMUL_PRECOMP), &b);
  h = hb(h, e->cplx_from_znx32, sizeof(struct cplx_from_znx32_precomp), &b);
  h = hb(h, e->cplx_from_tnx32, sizeof(struct cplx_from_tnx32_precomp), &b);
  h = hb(h, e->cplx_to_tnx32, sizeof(struct cplx_to_tnx32_precomp), &b);
  h = hb(h, e->r4_mul, sizeof(struct reim4_mul_precomp), &b);
  h = hb(h, e->r4_addmul, sizeof(struct reim4_addmul_precomp), &b);
  h = hb(h, e->r4_from, sizeof(struct reim4_from_cplx_precomp), &b);
  h = hb(h, e->r4_to, sizeof(struct reim4_to_cplx_precomp), &b);
  h = hash_ntt(h, e->ntt, &b);
  h = hash_ntt(h, e->intt, &b);
  h = hb(h, e->baa, sizeof *e->baa, &b);
  h = hb(h, e->bbb, sizeof *e->bbb, &b);
  h = hb(h, e->bbc, sizeof *e->bbc, &b);
  if (bytes) *bytes = b;
  return h;
}

void vp_list_ops(void) {
  for (int i = 0; i < N_CAT_OPS; i++) printf("%s\t%u\t%s\n", OPS[i].name, OPS[i].flags, OPS[i].twin ? OPS[i].twin : "-");
}

typedef struct {
  const opdef_t* o;
  const env_t* e;
  uint64_t seed;
  int iters;
  uint64_t* hashes;
  pthread_barrier_t* bar;
} occ_t;
static void* occ_worker(void* arg) {
  occ_t* t = arg;
  pthread_barrier_wait(t->bar);
  for (int i = 0; i < t->iters; i++) {
    opres_t r;
    op_exec(t->o, t->e, t->seed + (uint64_t)i, i & 3, (unsigned)i, 0, &r);
    t->hashes[i] = r.skipped ? 0 : r.out_hash;
  }
  return 0;
}
uint64_t ops_concurrent_check(const char* const* names, int nnames, const env_t* env, int T, int iters, uint64_t seed, char* msg, size_t msglen, uint64_t* calls) {
  uint64_t bad = 0;
  if (T > 16) T = 16;
  for (int k = 0; k < nnames; k++) {
    int oi = op_find(names[k]);
    if (oi < 0) harness_fail("ops_concurrent_check: unknown entry %s", names[k]);
    occ_t th[16];
    pthread_t tid[16];
    pthread_barrier_t bar;
    pthread_barrier_init(&bar, 0, (unsigned)T);
    for (int t = 0; t < T; t++) {
      th[t].o = &OPS[oi];
      th[t].e = env;
      th[t].seed = mix64(seed + (uint64_t)t * 1000003 + (uint64_t)k);
      th[t].iters = iters;
      th[t].hashes = calloc((size_t)iters, 8);
      th[t].bar = &bar;
      pthread_create(&tid[t], 0, occ_worker, &th[t]);
    }
    for (int t = 0; t < T; t++) pthread_join(tid[t], 0);
    pthread_barrier_destroy(&bar);
    for (int t = 0; t < T; t++) {
      for (int i = 0; i < iters; i++) {
        opres_t r;
        op_exec(&OPS[oi], env, th[t].seed + (uint64_t)i, (i + 1) & 3, (unsigned)i + 2, 0, &r);
        if (calls) (*calls)++;
        if (!r.skipped && r.out_hash != th[t].hashes[i]) {
          if (!bad && msg) snprintf(msg, msglen, "%s: result under %d concurrent threads differs from the same call run alone (N=%" PRIu64 ")", names[k], T, env->N);
          bad++;
        }
      }
      free(th[t].hashes);
    }
  }
  return bad;
}

// one case: the named entries, each run by T threads at once on private data through objects created under dispatch
// configuration cfg, every call compared with the same call run alone
void ops_concurrent_case(const char* key, const char* const* names, int nnames, uint64_t N, int cfg, int T, unsigned rep, const char* counter) {
  char k[160];
  snprintf(k, sizeof k, "%s|%d threads,private data%s%s", key, T, cfg == DISP_NATIVE ? "" : ",", cfg == DISP_NATIVE ? "" : disp_name[cfg]);
  if (!case_begin(k, "N=%" PRIu64 " rep=%u", N, rep)) return;
  env_t* e = env_create(N, cfg);
  char msg[240] = "";
  uint64_t calls = 0;
  uint64_t bad = ops_concurrent_check(names, nnames, e, T, N <= 256 ? 80 : (N <= 2048 ? 30 : 6), G.seed * 7919 + rep + N, msg, sizeof msg, &calls);
  if (bad) viol("differential", "%s (%" PRIu64 " differing calls, %s dispatch)", msg, bad, disp_name[cfg]);
  env_destroy(e);
  cnt(counter, calls);
  sample("%d entry points, each run by %d threads at once: %" PRIu64 " calls equal to their sequential re-run", nnames, T, calls);
  case_end(calls > 0);
}

// ---------------------------------------------------------------- fresh-process reference ("pristine server")
// A helper process forked at the very start of the harness process - before the prelude and before the workload has
// called anything - answers requests "what does catalogue entry o return for (N, dispatch, seed)?" by forking a child
// of its own pristine state for every request: the child creates the objects, makes that one call and reports the
// output hash. The answer is what the call returns when NOTHING was called before it in the process; the workload
// compares it with what the same call returns after its whole history.
#include <sys/wait.h>
#include <unistd.h>
static int pr_req[2] = {-1, -1}, pr_rsp[2] = {-1, -1};
static pid_t pr_pid;
typedef struct { int32_t op, native, prefill; uint32_t mis; uint64_t N, seed; } pr_req_t;
typedef struct { uint64_t hash; int32_t status; int32_t pad; } pr_rsp_t;  // status 0 ok, 1 skipped, 2 the fresh call died
void pristine_start(void) {
  if (pipe(pr_req) || pipe(pr_rsp)) return;
  fflush(0);
  pr_pid = fork();
  if (pr_pid < 0) { pr_pid = 0; return; }
  if (pr_pid == 0) {
    close(pr_req[1]);
    close(pr_rsp[0]);
    pr_req_t q;
    while (read(pr_req[0], &q, sizeof q) == (ssize_t)sizeof q) {
      pr_rsp_t a = {0, 2, 0};
      int pp[2];
      if (pipe(pp)) break;
      pid_t c = fork();
      if (c == 0) {
        close(pp[0]);
        env_t* e = env_create(q.N, q.native);
        opres_t r;
        op_exec(&OPS[q.op], e, q.seed, q.prefill, q.mis, 0, &r);
        pr_rsp_t b = {r.out_hash, r.skipped ? 1 : 0, 0};
        if (write(pp[1], &b, sizeof b) != (ssize_t)sizeof b) _exit(3);
        _exit(0);
      }
      close(pp[1]);
      pr_rsp_t b;
      if (c > 0 && read(pp[0], &b, sizeof b) == (ssize_t)sizeof b) a = b;
      close(pp[0]);
      if (c > 0) waitpid(c, 0, 0);
      if (write(pr_rsp[1], &a, sizeof a) != (ssize_t)sizeof a) break;
    }
    _exit(0);
  }
  close(pr_req[0]);
  close(pr_rsp[1]);
}
int pristine_query(int op, uint64_t N, int native, uint64_t seed, int prefill, unsigned mis, uint64_t* hash) {
  if (pr_pid <= 0) return -1;
  pr_req_t q = {op, native, prefill, mis, N, seed};
  pr_rsp_t a;
  if (write(pr_req[1], &q, sizeof q) != (ssize_t)sizeof q) return -1;
  if (read(pr_rsp[0], &a, sizeof a) != (ssize_t)sizeof a) return -1;
  *hash = a.hash;
  return a.status;
}
void pristine_stop(void) {
  if (pr_pid > 0) {
    close(pr_req[1]);
    close(pr_rsp[0]);
    waitpid(pr_pid, 0, 0);
    pr_pid = 0;
  }
}

// ---------------------------------------------------------------- long single-thread call history
// "No hidden state" includes state that only shows after MANY calls: per-call counters and generation stamps (which wrap at
// 2^8 or 2^16), warm-up thresholds, statistics. The history below keeps two argument sets of one entry point: A (dimension
// of `big`) and B (the dimension of `small`, or other arguments on `big` when small == big or the entry skips that
// dimension). It runs A, B x 255, A, B x 65535, A: the A calls are exactly 256 and 65536 calls of this entry point apart
// with nothing but B calls in between - and B touches less memory than A (or other positions), so whatever an A call left
// behind is still there when the counter comes round. Every A must return the bits of the first A, every B the bits of the
// first B, and the shared objects must not have changed at the end (a threshold crossed after N calls included).
#if VP_ASAN || VP_TSAN
size_t __sanitizer_get_current_allocated_bytes(void);  // common sanitizer allocator interface (libasan / libtsan)
static size_t heap_in_use(void) { return __sanitizer_get_current_allocated_bytes(); }
#else
#include <malloc.h>
static size_t heap_in_use(void) { return (size_t)mallinfo2().uordblks; }
#endif
int ops_history_check(const opdef_t* o, const env_t* big, const env_t* small, uint64_t seedA, uint64_t seedB, char* msg, size_t msglen, uint64_t* calls) {
  uint64_t bb = 0;
  const uint64_t hb0 = env_hash(big, &bb), hs0 = small != big ? env_hash(small, &bb) : 0;
  opres_t a0, a, b;
  const int saved_rep = op_exec_repeat;
  op_exec_repeat = 0;
  op_exec(o, big, seedA, 1, 1, 0, &a0);
  if (a0.skipped) {
    op_exec_repeat = saved_rep;
    return -1;
  }
  (*calls)++;
  int bad = 0;
  static const int GAP[2] = {256, 65536};
  size_t heap0 = 0;
  for (int g = 0; g < 2 && !bad; g++) {
    // heap in use after the first 257 calls (every lazily created cache exists by then) against the end of the history: the
    // harness frees everything it allocates per call, so what remains was allocated - and kept - by the library
    if (g == 1) heap0 = heap_in_use();
    const env_t* be = small;
    op_exec_repeat = GAP[g] - 2;  // 1 + (GAP-2) = GAP-1 calls of B between two A calls
    op_exec(o, be, seedB, 2, 3, 0, &b);
    if (b.skipped && small != big) {
      be = big;
      op_exec(o, be, seedB, 2, 3, 0, &b);
    }
    op_exec_repeat = 0;
    if (b.skipped) {
      op_exec_repeat = saved_rep;
      return -1;
    }
    *calls += (uint64_t)GAP[g] - 1;
    if (b.rerun_differs) {
      bad = 1;
      snprintf(msg, msglen, "%s [N=%" PRIu64 " shape=%s]: %s", o->name, be->N, b.shape, b.msg);
      break;
    }
    op_exec(o, big, seedA, (g + 2) & 3, 5 + (unsigned)g, 0, &a);
    (*calls)++;
    if (a.out_hash != a0.out_hash) {
      bad = 1;
      snprintf(msg, msglen, "%s [N=%" PRIu64 " shape=%s]: the call returns other bits than the equal-argument call made exactly %d calls of this entry point earlier (only calls with %s in between)", o->name, big->N,
               a0.shape, GAP[g], be == big ? "other arguments" : "a smaller dimension");
    }
  }
  op_exec_repeat = saved_rep;
  if (!bad && heap0) {
    const size_t heap1 = heap_in_use();
    if (heap1 > heap0 + (512u << 10)) {
      bad = 1;
      snprintf(msg, msglen, "%s [N=%" PRIu64 "]: the heap in use grew by %zu bytes during 65537 calls with two argument sets (the harness frees all its own allocations): memory kept per call", o->name, big->N, heap1 - heap0);
    }
  }
  if (!bad) {
    if (env_hash(big, &bb) != hb0 || (small != big && env_hash(small, &bb) != hs0)) {
      bad = 1;
      snprintf(msg, msglen, "%s [N=%" PRIu64 "]: the shared module / tables changed during a history of %" PRIu64 " calls of this entry point", o->name, big->N, *calls);
    }
  }
  return bad;
}
void ops_history_case(const char* key, const char* opname, uint64_t Nbig, uint64_t Nsmall, int cfg, unsigned rep, const char* counter) {
  char k[200];
  snprintf(k, sizeof k, "%s|%s,history of 65794 calls%s%s", opname, Nsmall == Nbig ? "other arguments in between" : "smaller dimension in between", cfg == DISP_NATIVE ? "" : ",", cfg == DISP_NATIVE ? "" : disp_name[cfg]);
  (void)key;
  if (!case_begin(k, "N=%" PRIu64 " small=%" PRIu64 " rep=%u", Nbig, Nsmall, rep)) return;
  const opdef_t* o = op_lookup(opname);
  if (!o) harness_fail("ops_history_case: unknown entry %s", opname);
  const int sa = g_case_aligned, sp = g_case_place;
  g_case_aligned = 0;  // (65794 calls: ordinary allocations)
  g_case_place = 0;
  env_t* big = env_create(Nbig, cfg);
  env_t* small = Nsmall == Nbig ? big : env_create(Nsmall, cfg);
  char msg[400] = "";
  uint64_t calls = 0;
  rng_t* r = crng();
  const uint64_t seedA = rng_u64(r), seedB = rng_u64(r);
  int bad = ops_history_check(o, big, small, seedA, seedB, msg, sizeof msg, &calls);
  if (bad > 0) viol("history", "%s", msg);
  if (small != big) env_destroy(small);
  env_destroy(big);
  g_case_aligned = sa;
  g_case_place = sp;
  cnt(counter, calls);
  if (bad >= 0) cnt("long_histories", 1);
  sample("A, B x255, A, B x65535, A: %" PRIu64 " calls, equal arguments gave equal bits, shared objects unchanged", calls);
  case_end(bad >= 0);
}

// ---------------------------------------------------------------- steady concurrent jobs
// Every job is one entry point with CONSTANT arguments (a Galois loop, a key-switch with one key, ...): first each job runs
// alone solo_iters times - in the main thread, or (ephemeral) in a thread of its own that exits afterwards, which is also
// the documented warm-up of the *_simple functions - then all jobs run at once, conc_iters times each, in fresh threads.
// Every call of a job must return the bits of its first call. Constant arguments are what a "hot parameter" cache or a
// last-arguments memo keys on; different entry points side by side are what a table shared between two functions sees.
typedef struct {
  const opdef_t* o;
  const env_t* e;
  uint64_t seed, want, wrong, done;
  int iters, tight, have, skipped;
  pthread_barrier_t* bar;
} sjob_t;
static void* sjob_worker(void* arg) {
  sjob_t* j = arg;
  if (j->bar) pthread_barrier_wait(j->bar);
  op_exec_repeat = j->tight;
  for (int i = 0; i < j->iters; i++) {
    opres_t r;
    op_exec(j->o, j->e, j->seed, i & 3, (unsigned)i, 0, &r);
    if (r.skipped) {
      j->skipped = 1;
      break;
    }
    j->done += 1 + (uint64_t)j->tight;
    if (!j->have) {
      j->want = r.out_hash;
      j->have = 1;
    }
    if (r.out_hash != j->want || r.rerun_differs) j->wrong++;
  }
  op_exec_repeat = 0;
  return 0;
}
uint64_t ops_steady_check(const char* const* names, int nj, const env_t* env, int solo_iters, int conc_iters, int tight, uint64_t seed, int ephemeral, char* msg, size_t msglen, uint64_t* calls) {
  sjob_t j[16];
  pthread_t tid[16];
  if (nj > 16) nj = 16;
  uint64_t bad = 0;
  for (int t = 0; t < nj; t++) {
    memset(&j[t], 0, sizeof j[t]);
    j[t].o = op_lookup(names[t]);
    if (!j[t].o) harness_fail("ops_steady_check: unknown entry %s", names[t]);
    j[t].e = env;
    j[t].seed = mix64(seed + 7919 * (uint64_t)t);
    j[t].iters = solo_iters;
    j[t].tight = 0;
    if (ephemeral) {
      pthread_create(&tid[t], 0, sjob_worker, &j[t]);
      pthread_join(tid[t], 0);
    } else
      sjob_worker(&j[t]);
    if (j[t].wrong && !bad++) snprintf(msg, msglen, "%s: %" PRIu64 " of %d consecutive calls with constant arguments, alone, differ from the first (N=%" PRIu64 ")", names[t], j[t].wrong, solo_iters, env->N);
    *calls += j[t].done;
    j[t].wrong = 0;
    j[t].done = 0;
  }
  pthread_barrier_t bar;
  int nrun = 0;
  for (int t = 0; t < nj; t++) nrun += !j[t].skipped;
  if (nrun < 2) return bad;
  pthread_barrier_init(&bar, 0, (unsigned)nrun);
  for (int t = 0; t < nj; t++) {
    if (j[t].skipped) continue;
    j[t].iters = conc_iters;
    j[t].tight = tight;
    j[t].bar = &bar;
    pthread_create(&tid[t], 0, sjob_worker, &j[t]);
  }
  for (int t = 0; t < nj; t++) {
    if (j[t].skipped) continue;
    pthread_join(tid[t], 0);
    *calls += j[t].done;
    if (j[t].wrong && !bad++)
      snprintf(msg, msglen, "%s: %" PRIu64 " calls with constant arguments return other bits than alone while %d other job(s) (%s%s%s) run their own constant calls (N=%" PRIu64 ")", names[t], j[t].wrong, nrun - 1,
               names[(t + 1) % nj], nj > 2 ? ", " : "", nj > 2 ? names[(t + 2) % nj] : "", env->N);
  }
  pthread_barrier_destroy(&bar);
  return bad;
}
void ops_steady_case(const char* key, const char* const* names, int nj, uint64_t N, int cfg, int solo_iters, int conc_iters, int tight, int ephemeral, unsigned rep, const char* counter) {
  char k[240];
  snprintf(k, sizeof k, "%s|%d threads,constant arguments per thread%s%s%s", key, nj, ephemeral ? ",first calls made by a thread that exits" : "", cfg == DISP_NATIVE ? "" : ",", cfg == DISP_NATIVE ? "" : disp_name[cfg]);
  if (!case_begin(k, "N=%" PRIu64 " rep=%u", N, rep)) return;
  env_t* e = env_create(N, cfg);
  char msg[400] = "";
  uint64_t calls = 0;
  uint64_t bad = ops_steady_check(names, nj, e, solo_iters, conc_iters, tight, G.seed * 6151 + rep * 13 + N, ephemeral, msg, sizeof msg, &calls);
  if (bad) viol("differential", "%s (%s dispatch)", msg, disp_name[cfg]);
  env_destroy(e);
  cnt(counter, calls);
  sample("%d jobs with constant arguments: %d calls alone then %d at once each, %" PRIu64 " calls identical to the first of their job", nj, solo_iters, conc_iters, calls);
  case_end(calls > 0);
}

// ---------------------------------------------------------------- object lifecycle fuzz
// Modules and tables are created, used and destroyed in random order, several of every (kind, dimension) alive at once:
// an object must compute what the first object of its kind and dimension computed no matter which other objects were
// created or destroyed around it (shared or recycled internals, reference counts, "last released" slots), and it must be
// what was asked for (module type and dimension fields). ASan watches the frees. `mass`: more than 256 (thorough: 65536)
// objects of one cheap kind alive at once, then a random number of them destroyed, then the survivors used.
enum { LK_MOD_FFT64, LK_MOD_NTT120, LK_REIM_FFT, LK_REIM_IFFT, LK_CPLX_FFT, LK_CPLX_IFFT, LK_NTT, LK_INTT, LK_BBC, LK_BAA, LK_BBB, LK_REIM_MUL, LK_NKINDS };
static const char* const LK_NAME[LK_NKINDS] = {"MODULE(FFT64)", "MODULE(NTT120)", "REIM_FFT_PRECOMP", "REIM_IFFT_PRECOMP", "CPLX_FFT_PRECOMP", "CPLX_IFFT_PRECOMP", "q120_ntt_precomp(forward)", "q120_ntt_precomp(inverse)",
                                               "q120_mat1col_product_bbc_precomp", "q120_mat1col_product_baa_precomp", "q120_mat1col_product_bbb_precomp", "REIM_FFTVEC_MUL_PRECOMP"};
typedef struct {
  int kind;
  uint64_t N;
  void* obj;
} lobj_t;
static void* life_new(int kind, uint64_t N) {
  const uint32_t m = (uint32_t)(N / 2);
  switch (kind) {
    case LK_MOD_FFT64: return new_module_info(N, FFT64);
    case LK_MOD_NTT120: return new_module_info(N, NTT120);
    case LK_REIM_FFT: return new_reim_fft_precomp(m, 0);
    case LK_REIM_IFFT: return new_reim_ifft_precomp(m, 0);
    case LK_CPLX_FFT: return new_cplx_fft_precomp(m, 0);
    case LK_CPLX_IFFT: return new_cplx_ifft_precomp(m, 0);
    case LK_NTT: return q120_new_ntt_bb_precomp(N);
    case LK_INTT: return q120_new_intt_bb_precomp(N);
    case LK_BBC: return q120_new_vec_mat1col_product_bbc_precomp();
    case LK_BAA: return q120_new_vec_mat1col_product_baa_precomp();
    case LK_BBB: return q120_new_vec_mat1col_product_bbb_precomp();
    default: return new_reim_fftvec_mul_precomp(m);
  }
}
static void life_del(int kind, void* o) {
  switch (kind) {
    case LK_MOD_FFT64:
    case LK_MOD_NTT120: delete_module_info(o); break;
    case LK_NTT: q120_del_ntt_bb_precomp(o); break;
    case LK_INTT: q120_del_intt_bb_precomp(o); break;
    case LK_BBC: q120_delete_vec_mat1col_product_bbc_precomp(o); break;
    case LK_BAA: q120_delete_vec_mat1col_product_baa_precomp(o); break;
    case LK_BBB: q120_delete_vec_mat1col_product_bbb_precomp(o); break;
    default: free(o);
  }
}
// deterministic use of an object; returns a hash of everything it computed; *why set when an exact identity fails
static uint64_t life_use(int kind, uint64_t N, void* obj, const char** why) {
  uint64_t h = 0x77;
  rng_t r;
  rng_seed(&r, 1234 + (uint64_t)kind, N);
  switch (kind) {
    case LK_MOD_FFT64:
    case LK_MOD_NTT120: {
      const MODULE* M = obj;
      const int ntt = kind == LK_MOD_NTT120;
      if (M->module_type != (ntt ? NTT120 : FFT64)) *why = "the module handed out is of the other module type";
      else if (M->nn != N) *why = "the module handed out has another ring dimension";
      if (*why) return 0;
      int64_t* a = malloc(N * 8);
      int64_t* back = malloc(N * 8);
      for (uint64_t i = 0; i < N; i++) a[i] = rng_sbits(&r, ntt ? 63 : 40);
      if (ntt) a[0] = INT64_MIN;
      const uint64_t db = ntt ? N * 32 : bytes_of_vec_znx_dft(M, 1), bgb = ntt ? N * 16 : bytes_of_vec_znx_big(M, 1);  // (the byte-size getters are FFT64-only)
      void* d = aligned_alloc(64, (db + 63) / 64 * 64);
      void* bg = aligned_alloc(64, (bgb + 63) / 64 * 64);
      uint8_t* tmp = malloc(vec_znx_idft_tmp_bytes(M) + 64);
      vec_znx_dft(M, d, 1, a, 1, N);
      h = hash_bytes(d, db, h);
      vec_znx_idft(M, bg, 1, d, 1, tmp);
      if (ntt) {
        const __int128* w = bg;
        for (uint64_t i = 0; i < N; i++)
          if (w[i] != (__int128)a[i]) *why = "vec_znx_idft(vec_znx_dft(a)) is not a on this module";
      } else {
        const int64_t* w = bg;
        for (uint64_t i = 0; i < N; i++)
          if (w[i] != a[i]) *why = "vec_znx_idft(vec_znx_dft(a)) is not a on this module";
      }
      (void)back;
      free(a); free(back); free(d); free(bg); free(tmp);
      return h;
    }
    case LK_REIM_FFT:
    case LK_REIM_IFFT:
    case LK_CPLX_FFT:
    case LK_CPLX_IFFT: {
      const uint64_t m = N / 2;
      double* x = aligned_alloc(64, (2 * m * 8 + 63) / 64 * 64);
      for (uint64_t i = 0; i < 2 * m; i++) x[i] = rng_unit(&r) * 2 - 1;
      if (kind == LK_REIM_FFT) reim_fft(obj, x);
      else if (kind == LK_REIM_IFFT) reim_ifft(obj, x);
      else if (kind == LK_CPLX_FFT) cplx_fft(obj, x);
      else cplx_ifft(obj, x);
      h = hash_bytes(x, 2 * m * 8, h);
      free(x);
      return h;
    }
    case LK_NTT:
    case LK_INTT: {
      uint64_t* x = aligned_alloc(64, N * 32 + 64);
      for (uint64_t i = 0; i < 4 * N; i++) x[i] = rng_u64(&r);
      if (kind == LK_NTT) q120_ntt_bb_avx2(obj, (q120b*)x);
      else q120_intt_bb_avx2(obj, (q120b*)x);
      // residues, not lazy representatives
      static const uint64_t Q[4] = {Q1, Q2, Q3, Q4};
      for (uint64_t i = 0; i < 4 * N; i++) x[i] %= Q[i & 3];
      h = hash_bytes(x, N * 32, h);
      free(x);
      return h;
    }
    case LK_BBC:
    case LK_BAA:
    case LK_BBB: {
      enum { ELL = 37 };
      uint64_t* x = aligned_alloc(64, (ELL * 32 + 63) / 64 * 64);
      uint64_t* y = aligned_alloc(64, (ELL * 32 + 63) / 64 * 64);
      uint64_t res[4];
      for (int i = 0; i < 4 * ELL; i++) {
        x[i] = kind == LK_BAA ? (rng_u64(&r) & 0xFFFFFFFFu) : rng_u64(&r);
        y[i] = kind == LK_BAA ? (rng_u64(&r) & 0xFFFFFFFFu) : rng_u64(&r);
      }
      if (kind == LK_BBC) {
        // c layout: (v mod q, v*2^32 mod q) as two 32-bit words per prime
        static const uint64_t Q[4] = {Q1, Q2, Q3, Q4};
        uint32_t* yc = (uint32_t*)y;
        for (int i = 0; i < ELL; i++)
          for (int k = 0; k < 4; k++) {
            const uint64_t v = rng_u64(&r) % Q[k];
            yc[8 * i + 2 * k] = (uint32_t)v;
            yc[8 * i + 2 * k + 1] = (uint32_t)((v << 32) % Q[k]);
          }
        q120_vec_mat1col_product_bbc_ref(obj, ELL, (q120b*)res, (q120b*)x, (q120c*)y);
      } else if (kind == LK_BAA)
        q120_vec_mat1col_product_baa_ref(obj, ELL, (q120b*)res, (q120a*)x, (q120a*)y);
      else
        q120_vec_mat1col_product_bbb_ref(obj, ELL, (q120b*)res, (q120b*)x, (q120b*)y);
      static const uint64_t Q[4] = {Q1, Q2, Q3, Q4};
      for (int k = 0; k < 4; k++) res[k] %= Q[k];
      h = hash_bytes(res, 32, h);
      free(x); free(y);
      // the table itself (plain data: split position and reduction constants) - constructors are deterministic
      h = hash_bytes(obj, kind == LK_BBC ? sizeof(q120_mat1col_product_bbc_precomp) : (kind == LK_BAA ? sizeof(q120_mat1col_product_baa_precomp) : sizeof(q120_mat1col_product_bbb_precomp)), h);
      if (kind == LK_BAA) {
        // worst case of the a*a accumulation: 1000 terms of maximal lanes, reference and AVX2 kernels
        enum { L2 = 1000 };
        uint64_t* xm = aligned_alloc(64, L2 * 32);
        for (int i = 0; i < 4 * L2; i++) xm[i] = 0xFFFFFFFFu;
        uint64_t r1[4], r2[4];
        q120_vec_mat1col_product_baa_ref(obj, L2, (q120b*)r1, (q120a*)xm, (q120a*)xm);
        q120_vec_mat1col_product_baa_avx2(obj, L2, (q120b*)r2, (q120a*)xm, (q120a*)xm);
        for (int k = 0; k < 4; k++) {
          const uint64_t want = (uint64_t)(((unsigned __int128)(0xFFFFFFFFull % Q[k]) * (0xFFFFFFFFull % Q[k]) % Q[k]) * L2 % Q[k]);
          if (r1[k] % Q[k] != want || r2[k] % Q[k] != want) *why = "the a*a product of 1000 maximal terms through this table is not congruent to the exact sum";
        }
        free(xm);
      }
      return h;
    }
    default: {
      const uint64_t m = N / 2;
      double* x = aligned_alloc(64, (6 * m * 8 + 63) / 64 * 64);
      for (uint64_t i = 0; i < 6 * m; i++) x[i] = rng_unit(&r) * 2 - 1;
      reim_fftvec_mul(obj, x, x + 2 * m, x + 4 * m);
      h = hash_bytes(x, 2 * m * 8, h);
      free(x);
      return h;
    }
  }
}
typedef struct {
  rng_t* r;
  rng_t own_rng;
  int deferred;       // worker thread of the concurrent variant: violations are kept in err[] and reported by the main thread after the join
  char err[2][400];
  int nerr, steps;
  pthread_barrier_t* bar;
  int cfg, nk, cap, live, nviol;
  int kinds[LK_NKINDS];
  lobj_t* pool;
  uint64_t uses, created, destroyed, maxlive;
} lifectx_t;
static const uint64_t LIFE_NS[] = {4, 8, 16, 64};
// reference hash per (dispatch, kind, N): the first such object of the process (kept across cases)
static uint64_t life_ref[N_DISP][LK_NKINDS][4];
static void life_check(lifectx_t* c, const lobj_t* ob) {
  const char* why = 0;
  int ni = 0;
  while (LIFE_NS[ni] != ob->N) ni++;
  const uint64_t hh = life_use(ob->kind, ob->N, ob->obj, &why);
  c->uses++;
  if (why) {
    if (c->deferred) {
      if (c->nerr < 2) snprintf(c->err[c->nerr++], 400, "%s of dimension %" PRIu64 " created and used by one thread while other threads create, use and destroy their own objects: %s", LK_NAME[ob->kind], ob->N, why);
    } else if (c->nviol++ < 3)
      viol("oracle", "%s of dimension %" PRIu64 " (object number %" PRIu64 " created, %" PRIu64 " destroyed so far, %d alive): %s", LK_NAME[ob->kind], ob->N, c->created, c->destroyed, c->live, why);
    return;
  }
  uint64_t* rf = &life_ref[c->cfg & 3][ob->kind][ni];
  uint64_t cur = __atomic_load_n(rf, __ATOMIC_RELAXED);
  if (!cur) {
    if (!c->deferred) __atomic_store_n(rf, hh, __ATOMIC_RELAXED);  // (references are only taken from single-threaded phases)
    return;
  }
  if (cur != hh) {
    if (c->deferred) {
      if (c->nerr < 2) snprintf(c->err[c->nerr++], 400, "%s of dimension %" PRIu64 " created and used by one thread while other threads create, use and destroy their own objects computes other bits than such an object built alone", LK_NAME[ob->kind], ob->N);
    } else if (c->nviol++ < 3)
      viol("differential", "%s of dimension %" PRIu64 " computes other bits than the first such object of the process (%" PRIu64 " created, %" PRIu64 " destroyed so far, %d alive)", LK_NAME[ob->kind], ob->N, c->created, c->destroyed, c->live);
  }
}
static void* life_step(void* arg) {
  lifectx_t* c = arg;
  rng_t* r = c->r;
  if (!c->deferred) set_dispatch(c->cfg);  // (the H1 hook's setting is read by the constructors: the same in whichever thread runs the step)
  const unsigned a = (unsigned)(rng_u64(r) % 8);
  if ((a < 3 && c->live < c->cap) || c->live == 0) {
    const int kind = c->kinds[rng_u64(r) % (uint64_t)c->nk];
    // few dimensions: several objects of the same (kind, dimension) are alive together, next to others
    const uint64_t N = LIFE_NS[rng_u64(r) % (rng_u64(r) & 1 ? 2 : ARRAY_LEN(LIFE_NS))];
    c->pool[c->live++] = (lobj_t){kind, N, life_new(kind, N)};
    c->created++;
    if ((uint64_t)c->live > c->maxlive) c->maxlive = (uint64_t)c->live;
    if (rng_u64(r) & 1) life_check(c, &c->pool[c->live - 1]);
  } else if (a < 5) {
    const int v = (int)(rng_u64(r) % (uint64_t)c->live);
    life_del(c->pool[v].kind, c->pool[v].obj);
    c->pool[v] = c->pool[--c->live];
    c->destroyed++;
  } else
    life_check(c, &c->pool[(size_t)(rng_u64(r) % (uint64_t)c->live)]);
  return 0;
}
// threads: 0 every step in the calling thread; 1 every third step (creation, use or destruction alike) is made by a thread
// created for it that exits afterwards - an object may be created by one thread, used by others and destroyed by yet another,
// all of them gone by the time it is used again (the steps never overlap: this is about thread identity, not concurrency)
void ops_lifecycle_case(const char* key, unsigned kindmask, int cfg, int steps, int mass, unsigned rep, const char* counter) {
  char k[240];
  const int threads = !mass && (rep % 3) == 2;
  snprintf(k, sizeof k, "%s|object lifecycle: random create/use/destroy%s%s%s%s", key, mass ? ",many alive at once" : "", threads ? ",steps made by threads that exit" : "", cfg == DISP_NATIVE ? "" : ",", cfg == DISP_NATIVE ? "" : disp_name[cfg]);
  if (!case_begin(k, "kinds=%#x steps=%d mass=%d rep=%u", kindmask, steps, mass, rep)) return;
  lifectx_t c;
  memset(&c, 0, sizeof c);
  c.r = crng();
  rng_t* r = c.r;
  c.cfg = cfg;
  const int saved = g_dispatch_native;
  set_dispatch(cfg);
  if (cfg != DISP_NATIVE && cfg != DISP_AVX2_ONLY) kindmask &= ~((1u << LK_MOD_NTT120) | (1u << LK_NTT) | (1u << LK_INTT));  // behind the avx2 gate
  for (int i = 0; i < LK_NKINDS; i++)
    if (kindmask & (1u << i)) c.kinds[c.nk++] = i;
  if (!c.nk) harness_fail("ops_lifecycle_case: no kind");
  c.cap = mass ? mass : 12;
  c.pool = calloc((size_t)c.cap + 1, sizeof *c.pool);
  if (mass) {
    // one cheap kind, `mass` objects alive at once
    const int kind = c.kinds[rng_u64(r) % (uint64_t)c.nk];
    const uint64_t N = LIFE_NS[rng_u64(r) % 2];
    const int K = mass - (int)(rng_u64(r) % 40);
    for (int i = 0; i < K; i++) {
      c.pool[c.live++] = (lobj_t){kind, N, life_new(kind, N)};
      c.created++;
    }
    c.maxlive = (uint64_t)c.live;
    life_check(&c, &c.pool[0]);
    life_check(&c, &c.pool[c.live - 1]);
    const int D = 1 + (int)(rng_u64(r) % (uint64_t)(K - 1));
    for (int i = 0; i < D; i++) {  // destroy D of them, chosen at random
      const int v = (int)(rng_u64(r) % (uint64_t)c.live);
      life_del(c.pool[v].kind, c.pool[v].obj);
      c.pool[v] = c.pool[--c.live];
      c.destroyed++;
    }
    for (int i = 0; i < c.live && i < 8; i++) life_check(&c, &c.pool[(size_t)(rng_u64(r) % (uint64_t)c.live)]);
    life_check(&c, &c.pool[0]);
    cnt("lifecycle_mass_objects_alive", (uint64_t)K);
  } else {
    uint64_t threaded = 0;
    for (int st = 0; st < steps; st++) {
      if (threads && (st % 3) == 1) {
        pthread_t t;
        pthread_create(&t, 0, life_step, &c);
        pthread_join(t, 0);
        threaded++;
      } else
        life_step(&c);
    }
    for (int i = 0; i < c.live; i++) life_check(&c, &c.pool[i]);
    if (threads) cnt("lifecycle_steps_by_exiting_threads", threaded);
  }
  while (c.live) {
    c.live--;
    life_del(c.pool[c.live].kind, c.pool[c.live].obj);
    c.destroyed++;
  }
  free(c.pool);
  set_dispatch(saved);
  cnt(counter, c.uses);
  cnt("lifecycle_objects_created", c.created);
  gauge_max("lifecycle_max_objects_alive", (double)c.maxlive);
  sample("%" PRIu64 " objects created and destroyed in random order (at most %" PRIu64 " alive), %" PRIu64 " uses equal to the first object of their kind and dimension", c.created, c.maxlive, c.uses);
  case_end(c.uses > 0);
}

// T threads run the lifecycle fuzz at the same time, each on its own pool of objects (nothing is shared between them): a constructor
// or destructor in one thread overlaps constructors, destructors and uses of UNRELATED objects in the others. The reference
// results are those of objects built and used alone (taken in the single-threaded phase before the threads start).
static void* life_thread(void* arg) {
  lifectx_t* c = arg;
  pthread_barrier_wait(c->bar);
  for (int st = 0; st < c->steps; st++) life_step(c);
  for (int i = 0; i < c->live; i++) life_check(c, &c->pool[i]);
  while (c->live) {
    c->live--;
    life_del(c->pool[c->live].kind, c->pool[c->live].obj);
    c->destroyed++;
  }
  return 0;
}
void ops_concurrent_lifecycle_case(const char* key, unsigned kindmask, int cfg, int T, int steps, unsigned rep, const char* counter) {
  char k[240];
  snprintf(k, sizeof k, "%s|object lifecycle: %d threads create/use/destroy their own objects at once%s%s", key, T, cfg == DISP_NATIVE ? "" : ",", cfg == DISP_NATIVE ? "" : disp_name[cfg]);
  if (!case_begin(k, "kinds=%#x steps=%d rep=%u", kindmask, steps, rep)) return;
  rng_t* r = crng();
  const int saved = g_dispatch_native;
  set_dispatch(cfg);
  if (cfg != DISP_NATIVE && cfg != DISP_AVX2_ONLY) kindmask &= ~((1u << LK_MOD_NTT120) | (1u << LK_NTT) | (1u << LK_INTT));
  if (T > 16) T = 16;
  lifectx_t* c = calloc((size_t)T + 1, sizeof *c);
  // single-threaded phase: one object of every (kind, dimension) built and used alone gives the reference bits
  {
    lifectx_t* m = &c[T];
    m->r = r;
    m->cfg = cfg;
    for (int kind = 0; kind < LK_NKINDS; kind++)
      if (kindmask & (1u << kind))
        for (size_t ni = 0; ni < ARRAY_LEN(LIFE_NS); ni++) {
          lobj_t ob = {kind, LIFE_NS[ni], life_new(kind, LIFE_NS[ni])};
          life_check(m, &ob);
          life_del(kind, ob.obj);
        }
  }
  pthread_barrier_t bar;
  pthread_barrier_init(&bar, 0, (unsigned)T);
  pthread_t tid[16];
  for (int t = 0; t < T; t++) {
    c[t].cfg = cfg;
    c[t].deferred = 1;
    c[t].steps = steps;
    c[t].bar = &bar;
    c[t].cap = 6;
    c[t].pool = calloc(8, sizeof(lobj_t));
    rng_seed(&c[t].own_rng, rng_u64(r), (uint64_t)t + 1);
    c[t].r = &c[t].own_rng;
    for (int i = 0; i < LK_NKINDS; i++)
      if (kindmask & (1u << i)) c[t].kinds[c[t].nk++] = i;
    pthread_create(&tid[t], 0, life_thread, &c[t]);
  }
  uint64_t uses = 0, created = 0;
  for (int t = 0; t < T; t++) {
    pthread_join(tid[t], 0);
    for (int e = 0; e < c[t].nerr; e++) viol("differential", "%s (thread %d of %d, %s dispatch)", c[t].err[e], t, T, disp_name[cfg]);
    uses += c[t].uses;
    created += c[t].created;
    free(c[t].pool);
  }
  pthread_barrier_destroy(&bar);
  free(c);
  set_dispatch(saved);
  cnt(counter, uses);
  cnt("lifecycle_objects_created", created);
  sample("%d threads, %" PRIu64 " objects created / used / destroyed concurrently (private pools), %" PRIu64 " uses equal to objects built alone", T, created, uses);
  case_end(uses > 0);
}

// ---------------------------------------------------------------- in-place ring maps after a long history
// The in-place rotation / automorphism walk cycles of positions; bookkeeping that survives between calls (visit marks,
// generation stamps) only shows when a call comes exactly 2^8 or 2^16 calls after the one that left the marks, with
// nothing but calls on a smaller ring (or with another exponent) in between. which: 0 vec_znx_rotate, 1 vec_znx_automorphism,
// 2 vec_znx_big_rotate, 3 vec_znx_big_automorphism (all in place, one limb). Each in-place result is compared with the
// out-of-place result of the same call, and that one with the definition. Returns the number of wrong results.
static void ring_def(int automorphism, uint64_t N, int64_t p, int64_t* res, const int64_t* a) {
  const uint64_t m2 = 2 * N - 1;
  for (uint64_t i = 0; i < N; i++) {
    const uint64_t j = automorphism ? (uint64_t)((uint64_t)i * (uint64_t)p) & m2 : ((uint64_t)i + (uint64_t)p) & m2;
    if (j < N) res[j] = a[i];
    else res[j - N] = -a[i];
  }
}
static int ring_once(int which, const MODULE* M, uint64_t N, int64_t p, uint64_t salt, int check_def, int64_t* work /* 4N words */) {
  int64_t* a = work;  // (one allocation per case: 130000 malloc/free pairs per case only exercise ASan's quarantine)
  int64_t* ip = work + N;
  int64_t* oop = work + 2 * N;
  for (uint64_t i = 0; i < N; i++) a[i] = (int64_t)(mix64(salt + i) >> 4) - ((int64_t)1 << 58);
  memcpy(ip, a, N * 8);
  switch (which) {
    case 0: vec_znx_rotate(M, p, ip, 1, N, ip, 1, N); vec_znx_rotate(M, p, oop, 1, N, a, 1, N); break;
    case 1: vec_znx_automorphism(M, p, ip, 1, N, ip, 1, N); vec_znx_automorphism(M, p, oop, 1, N, a, 1, N); break;
    case 2: vec_znx_big_rotate(M, p, (VEC_ZNX_BIG*)ip, 1, (VEC_ZNX_BIG*)ip, 1); vec_znx_big_rotate(M, p, (VEC_ZNX_BIG*)oop, 1, (VEC_ZNX_BIG*)a, 1); break;
    default: vec_znx_big_automorphism(M, p, (VEC_ZNX_BIG*)ip, 1, (VEC_ZNX_BIG*)ip, 1); vec_znx_big_automorphism(M, p, (VEC_ZNX_BIG*)oop, 1, (VEC_ZNX_BIG*)a, 1); break;
  }
  int bad = memcmp(ip, oop, N * 8) != 0;
  if (check_def && !bad) {
    int64_t* d = work + 3 * N;
    ring_def(which & 1, N, p, d, a);
    bad = memcmp(d, oop, N * 8) != 0;
  }
  return bad;
}
void ops_ring_history_case(int which, uint64_t N, int64_t pA, uint64_t N2, int64_t pB, int native, unsigned rep, const char* counter) {
  static const char* nm[] = {"vec_znx_rotate", "vec_znx_automorphism", "vec_znx_big_rotate", "vec_znx_big_automorphism"};
  char k[200];
  snprintf(k, sizeof k, "%s(res==a)|history of 65794 calls,%s in between%s", nm[which], N2 == N ? "another exponent" : "a smaller ring", native ? "" : ",generic");
  if (!case_begin(k, "N=%" PRIu64 " p=%" PRId64 " N2=%" PRIu64 " p2=%" PRId64 " rep=%u", N, pA, N2, pB, rep)) return;
  const MODULE* MA = get_module(N, FFT64, native);
  const MODULE* MB = get_module(N2, FFT64, native);
  uint64_t calls = 0, wrongA = 0, wrongB = 0;
  int firstbad = -1;
  static const int GAP[2] = {256, 65536};
  int64_t* wa = malloc(4 * N * 8);
  int64_t* wb = malloc(4 * N2 * 8);
  wrongA += (uint64_t)ring_once(which, MA, N, pA, rep, 1, wa);
  calls++;
  size_t heap0 = 0;
  for (int g = 0; g < 2; g++) {
    if (g == 1) heap0 = heap_in_use();
    for (int i = 1; i < GAP[g]; i++) {
      wrongB += (uint64_t)ring_once(which, MB, N2, pB, (uint64_t)i, i < 4, wb);
      calls++;
    }
    const int b = ring_once(which, MA, N, pA, rep + 1000 * (unsigned)(g + 1), 1, wa);
    if (b && firstbad < 0) firstbad = GAP[g];
    wrongA += (uint64_t)b;
    calls++;
  }
  {
    const size_t heap1 = heap_in_use();
    if (heap0 && heap1 > heap0 + (512u << 10))
      viol("history", "%s (N=%" PRIu64 ", p=%" PRId64 " / N=%" PRIu64 ", p=%" PRId64 "): the heap in use grew by %zu bytes during 65536 in-place and out-of-place calls (the harness allocates nothing in between): memory kept per call", nm[which], N, pA, N2, pB, heap1 - heap0);
  }
  free(wa);
  free(wb);
  if (wrongA) viol("history", "%s in place (N=%" PRIu64 ", p=%" PRId64 ") differs from the out-of-place call / the definition: first wrong call made exactly %d in-place calls after the previous call on this ring (only %s in between)", nm[which], N, pA, firstbad, N2 == N ? "calls with another exponent" : "calls on a smaller ring");
  if (wrongB) viol("history", "%s in place (N=%" PRIu64 ", p=%" PRId64 "): %" PRIu64 " of the intermediate calls differ from the out-of-place call", nm[which], N2, pB, wrongB);
  cnt(counter, 2 * calls);
  cnt("long_histories", 1);
  sample("A, B x255, A, B x65535, A (in place and out of place each): %" PRIu64 " calls agree", 2 * calls);
  case_end(1);
}

// ---------------------------------------------------------------- same buffers, other data
// each named entry, `reps` argument sets: the call, then a second call on the SAME buffers after other data was written into the
// inputs (new values / two limbs exchanged / one word moved between limbs), compared with a fresh call on that data
void ops_recontent_case(const char* key, const char* const* names, int n, uint64_t N, int cfg, int reps, unsigned rep, const char* counter) {
  char k[200];
  snprintf(k, sizeof k, "%s|same buffers, other data%s%s", key, cfg == DISP_NATIVE ? "" : ",", cfg == DISP_NATIVE ? "" : disp_name[cfg]);
  if (!case_begin(k, "N=%" PRIu64 " rep=%u", N, rep)) return;
  env_t* e = env_create(N, cfg);
  uint64_t calls = 0;
  int nv = 0;
  for (int i = 0; i < n; i++) {
    const opdef_t* o = op_lookup(names[i]);
    if (!o) harness_fail("ops_recontent_case: unknown entry %s", names[i]);
    for (int s = 0; s < reps; s++) {
      opres_t r;
      // the placement of the buffers rotates per call (separate blocks, one arena, guard pages, own mappings far apart - whose const
      // inputs are write-protected during the call -, packed, nearby page offsets)
      const int sp = g_case_place, sa = g_case_aligned;
      g_case_place = (int)((s + i) % 9);
      g_case_aligned = 0;
      op_exec(o, e, mix64(G.seed * 131 + rep * 1009 + (uint64_t)s * 7 + (uint64_t)i), s & 3, (unsigned)s, MON_CANARY | MON_RECONTENT, &r);
      g_case_place = sp;
      g_case_aligned = sa;
      if (r.skipped) continue;
      calls++;
      if (r.rerun_differs && nv++ < 3) viol("history", "%s [N=%" PRIu64 " shape=%s, %s]: %s", o->name, N, r.shape, disp_name[cfg], r.msg);
      if (r.canary_bad && nv++ < 3) viol("canary", "%s: %s", o->name, r.msg);
    }
  }
  env_destroy(e);
  cnt(counter, calls);
  cnt("calls_with_write_protected_inputs", __atomic_exchange_n(&ops_readonly_input_calls, 0, __ATOMIC_RELAXED));
  sample("%d entry points x %d argument sets: second call on the same buffers with other data equals a fresh call", n, reps);
  case_end(calls > 0);
}

// ---------------------------------------------------------------- calls from a thread with a small stack
// Nothing in the API states a stack requirement, and every entry point takes its scratch from the caller: a thread with a
// 256 KiB stack (twice the default of musl, a fraction of glibc's 8 MiB) must be able to make every call at the largest
// dimension. Scratch moved to a variable-length array (8 N bytes = 512 KiB at N = 65536) runs off such a stack: the guard page
// below it turns that into SIGSEGV, which the driver reports for the running case.
typedef struct {
  const char* const* names;
  int n, reps;
  const env_t* e;
  uint64_t seed, calls, hash;
} sstk_t;
static void* sstk_worker(void* arg) {
  sstk_t* s = arg;
  for (int i = 0; i < s->n; i++) {
    const opdef_t* o = op_lookup(s->names[i]);
    if (!o) continue;
    for (int k = 0; k < s->reps; k++) {
      opres_t r;
      op_exec(o, s->e, mix64(s->seed + (uint64_t)i * 131 + (uint64_t)k), k & 3, (unsigned)k, 0, &r);
      if (r.skipped) continue;
      s->calls++;
      s->hash = mix64(s->hash ^ r.out_hash);
    }
  }
  return 0;
}
void ops_small_stack_case(const char* key, const char* const* names, int n, uint64_t N, int cfg, unsigned stack_kib, int reps, unsigned rep, const char* counter) {
  char k[200];
  snprintf(k, sizeof k, "%s|called from a thread with a %u KiB stack%s%s", key, stack_kib, cfg == DISP_NATIVE ? "" : ",", cfg == DISP_NATIVE ? "" : disp_name[cfg]);
  if (!case_begin(k, "N=%" PRIu64 " rep=%u", N, rep)) return;
  env_t* e = env_create(N, cfg);
  sstk_t big = {names, n, reps, e, G.seed * 977 + rep + N, 0, 0}, small = big;
  sstk_worker(&big);  // the same calls from the main thread first (reference results)
  pthread_attr_t at;
  pthread_attr_init(&at);
  pthread_attr_setstacksize(&at, (size_t)stack_kib << 10);
  pthread_attr_setguardsize(&at, 1 << 16);
  pthread_t t;
  if (pthread_create(&t, &at, sstk_worker, &small)) harness_fail("cannot create a thread with a %u KiB stack", stack_kib);
  pthread_join(t, 0);
  pthread_attr_destroy(&at);
  if (small.hash != big.hash || small.calls != big.calls) viol("differential", "calls made from a thread with a %u KiB stack return other bits than the same calls from the main thread (N=%" PRIu64 ")", stack_kib, N);
  env_destroy(e);
  cnt(counter, small.calls);
  sample("%" PRIu64 " calls at N=%" PRIu64 " from a thread with a %u KiB stack equal to the main thread's", small.calls, N, stack_kib);
  case_end(small.calls > 0);
}


// ---------------------------------------------------------------- allocation failure inside a call
// No entry point of the unchanged library allocates once its objects exist (scratch comes from the caller), so nothing can
// fail. A call that does ask for memory and is refused has two honest outcomes: abort, or the correct result by another
// route; a silently different result is a violation. Each call is first made normally (which also creates any lazily built
// table), then repeated in a forked child in which every malloc-family request made inside the call fails.
void ops_oom_case(const char* key, const char* const* names, int n, uint64_t N, int cfg, int reps, unsigned rep, const char* counter) {
  if (!vp_oom_available()) return;
  char k[200];
  snprintf(k, sizeof k, "%s|allocation failure inside the call%s%s", key, cfg == DISP_NATIVE ? "" : ",", cfg == DISP_NATIVE ? "" : disp_name[cfg]);
  if (!case_begin(k, "N=%" PRIu64 " rep=%u", N, rep)) return;
  env_t* e = env_create(N, cfg);
  uint64_t calls = 0, injected = 0, died = 0;
  int nv = 0;
  for (int i = 0; i < n; i++) {
    const opdef_t* o = op_lookup(names[i]);
    if (!o) harness_fail("ops_oom_case: unknown entry %s", names[i]);
    if (strstr(o->name, "fresh table")) continue;  // (these entries build a table inside the call)
    for (int sidx = 0; sidx < reps; sidx++) {
      const uint64_t seed = mix64(G.seed * 271 + rep * 1013 + (uint64_t)sidx * 5 + (uint64_t)i);
      opres_t ref;
      op_exec(o, e, seed, sidx & 3, (unsigned)sidx, 0, &ref);
      if (ref.skipped) continue;
      calls++;
      int pp[2];
      if (pipe(pp)) continue;
      fflush(0);
      const pid_t c = fork();
      if (c == 0) {
        close(pp[0]);
        opres_t r;
        op_exec_oom = 1;
        op_exec(o, e, seed, (sidx + 1) & 3, (unsigned)sidx + 1, 0, &r);
        op_exec_oom = 0;
        uint64_t msg[2] = {r.out_hash, vp_oom_failed()};
        if (write(pp[1], msg, sizeof msg) != (ssize_t)sizeof msg) _exit(3);
        _exit(0);
      }
      close(pp[1]);
      uint64_t msg[2] = {0, 0};
      const int got = c > 0 && read(pp[0], msg, sizeof msg) == (ssize_t)sizeof msg;
      close(pp[0]);
      int st = 0;
      if (c > 0) waitpid(c, &st, 0);
      if (!got) {
        died++;  // aborted or crashed on the refused request: not a result
        continue;
      }
      if (msg[1]) injected += msg[1];
      if (msg[1] && msg[0] != ref.out_hash && nv++ < 3)
        viol("oracle", "%s [N=%" PRIu64 " shape=%s, %s]: %" PRIu64 " allocation request(s) made inside the call were refused and the call returned OTHER bits than with memory available, without any error", o->name, N, ref.shape, disp_name[cfg], msg[1]);
    }
  }
  env_destroy(e);
  cnt(counter, calls);
  cnt("allocation_failures_injected", injected);
  cnt("calls_that_died_on_a_refused_allocation", died);
  sample("%" PRIu64 " calls repeated with every allocation request inside the call refused: %" PRIu64 " requests refused, %" PRIu64 " calls died, none returned other bits", calls, injected, died);
  case_end(calls > 0);
}
