// C11 — memory contract: declared extents and *_tmp_bytes scratch are never exceeded; no result
// depends on uninitialised memory; new_*/delete_* pairs release everything.
// Monitors: ASan+UBSan on exactly-sized guard-banded buffers (asan build), canaries, differential
// pre-fill of outputs and scratch, memcheck definedness (mode "memcheck"), LeakSanitizer (mode "leaks").
#include <pthread.h>
#include <valgrind/memcheck.h>

#include "ops.h"
#include "lib.h"

#if VP_ASAN
#include <sanitizer/lsan_interface.h>
#endif

static void catalogue_sweep(const uint64_t* Ns, size_t nN, unsigned seeds_small, unsigned seeds_large, unsigned monitors) {
  for (size_t ni = 0; ni < nN; ni++) {
    const uint64_t N = Ns[ni];
    for (int native = 1; native >= 0; native--) {
      env_t* env = 0;  // created lazily: only if this process owns a case of this (N, dispatch)
      const unsigned seeds = N <= 256 ? seeds_small : seeds_large;
      for (int oq = 0; oq < N_CAT_OPS; oq++) {
        // every other dimension walks the catalogue backwards: which of two related entry points is the first one a process calls
        // for a dimension (and so creates whatever they share) must not matter
        const int oi = (ni & 1) ? N_CAT_OPS - 1 - oq : oq;
        const opdef_t* o = &OPS[oi];
        if (!native && (o->flags & (OPF_NTT120 | OPF_AVX))) continue;  // generic dispatch: module/table API only
        if (!native && (o->flags & OPF_KERNEL)) continue;
        if (!native && (o->flags & OPF_SIMPLE)) continue;  // their function-local caches are created once per process
        for (unsigned sd = 0; sd < seeds; sd++) {
          char key[128];
          // the shape class needs the plan: do a dry planning pass through op_exec's plan by asking for it
          opres_t r1, r2;
          snprintf(key, sizeof key, "%s|%s", o->name, native ? "native" : "generic");
          if (!case_begin(key, "N=%" PRIu64 " disp=%s seed=%u", N, native ? "native" : "generic", sd)) continue;
          if (!env) env = env_create(N, native);
          const uint64_t seed = mix64(G.seed * 1000003 + sd * 7919 + N);
          // two executions with different pre-fills of outputs/scratch and different placements
          op_exec(o, env, seed, (int)(sd & 3), sd, monitors, &r1);
          if (r1.skipped) {
            cnt("not_applicable", 1);
            case_end(0);
            continue;
          }
          op_exec(o, env, seed, (int)((sd + 2) & 3), sd, monitors | MON_RERUN, &r2);  // same placement, different pre-fill; then once more on the same buffers
          if (r2.rerun_differs) viol("undefined-output", "%s [%s]: %s (N=%" PRIu64 ")", o->name, r1.shape, r2.msg, N);
          if (r1.canary_bad || r2.canary_bad) viol("canary", "%s [%s]: %s", o->name, r1.shape, r1.canary_bad ? r1.msg : r2.msg);
          if (r1.out_hash != r2.out_hash) viol("undefined-output", "%s [%s]: output depends on the previous content of the output/scratch buffers (N=%" PRIu64 ")", o->name, r1.shape, N);
          if ((monitors & MON_VALGRIND) && (r1.msg[0] || r2.msg[0]) && !r1.canary_bad && !r2.canary_bad) viol("undefined-output", "%s [%s]: %s", o->name, r1.shape, r1.msg[0] ? r1.msg : r2.msg);
          cnt("instrumented_calls", 2);
          cnt("guarded_bytes", 2 * (r1.src_bytes + r1.out_bytes + r1.scratch_bytes));
          cnt("scratch_bytes_exact", 2 * r1.scratch_bytes);
          cntf("shape:%s|%s", 1, o->name, r1.shape);
          cntf("N:%" PRIu64, 1, N);
          if (monitors & MON_VALGRIND) cnt("memcheck_definedness_checks", 2);
          sample("shape=%s bytes in/out/scratch=%" PRIu64 "/%" PRIu64 "/%" PRIu64 "; prefill-independent", r1.shape, r1.src_bytes, r1.out_bytes, r1.scratch_bytes);
          case_end(r1.src_bytes + r1.out_bytes > 0);
        }
      }
      if (env) env_destroy(env);
    }
  }
}

// matched new_*/delete_* cycles of every object kind; every table size; leak check after each batch
static void lifecycle_case(uint64_t N, unsigned rep) {
  if (!case_begin("new/delete|all-object-kinds", "N=%" PRIu64 " rep=%u", N, rep)) return;
  for (int native = 1; native >= 0; native--) {
    env_t* e = env_create(N, native);
    const MODULE* M = e->fft64;  // (new_reim_fft_buffer / new_cplx_fft_buffer are declared but not defined by the library)
    VEC_ZNX_DFT* d = new_vec_znx_dft(M, 1 + rep % 3);
    VEC_ZNX_BIG* b = new_vec_znx_big(M, 1 + rep % 3);
    SVP_PPOL* s = new_svp_ppol(M);
    VMP_PMAT* pm = new_vmp_pmat(M, 2, 3);
    REIM_FFT_PRECOMP* wb = new_reim_fft_precomp((uint32_t)(e->m ? e->m : 1), 2);  // with built-in buffers
    double* buf = reim_fft_precomp_get_buffer(wb, 1);
    if (e->m) memset(buf, 0, 2 * e->m * 8);  // the buffer must be usable: ASan checks the extent
    CPLX_FFT_PRECOMP* wc = new_cplx_fft_precomp((uint32_t)(e->m ? e->m : 1), 1);
    if (e->m) memset(cplx_fft_precomp_get_buffer(wc, 0), 0, e->m * 16);
    delete_vec_znx_dft(d);
    delete_vec_znx_big(b);
    delete_svp_ppol(s);
    delete_vmp_pmat(pm);
    free(wb);
    free(wc);
    env_destroy(e);
    cnt("object_cycles", 30);
  }
#if VP_ASAN
  if (!strcmp(G.mode, "leaks")) {
    if (__lsan_do_recoverable_leak_check()) viol("leak", "LeakSanitizer reports memory still allocated after matched new_*/delete_* calls (N=%" PRIu64 ")", N);
    cnt("leak_check_rounds", 1);
  }
#endif
  sample("all object kinds created and released for N=%" PRIu64, N);
  case_end(1);
}

// the buffers a table hands out (num_buffers >= 1) are part of the object the library sized: every byte of every buffer
// must lie inside the allocation. Checked explicitly (ASan: shadow query; memcheck: addressability client request), for
// many tables separated by spacer blocks of varying sizes so that the allocator returns them at every address residue.
static void builtin_buffers_case(uint64_t m, unsigned rep) {
  if (!case_begin("fft/ifft tables|extent of the built-in buffers", "m=%" PRIu64 " rep=%u", m, rep)) return;
  rng_t* r = crng();
  void* spacers[64];
  int ns = 0;
  uint64_t checked = 0;
  for (int it = 0; it < 24; it++) {
    if (ns < 64) spacers[ns++] = malloc(8 + 8 * (rng_u64(r) % 13));  // shifts the next block by a multiple of 16 bytes
    const int kind = it & 3;
    const uint32_t nb = 1 + (uint32_t)(rng_u64(r) % 3);
    void* t = kind == 0 ? (void*)new_reim_fft_precomp((uint32_t)m, nb) : kind == 1 ? (void*)new_reim_ifft_precomp((uint32_t)m, nb) : kind == 2 ? (void*)new_cplx_fft_precomp((uint32_t)m, nb) : (void*)new_cplx_ifft_precomp((uint32_t)m, nb);
    for (uint32_t b = 0; b < nb; b++) {
      uint8_t* buf = kind == 0 ? (uint8_t*)reim_fft_precomp_get_buffer(t, b) : kind == 1 ? (uint8_t*)reim_ifft_precomp_get_buffer(t, b) : kind == 2 ? (uint8_t*)cplx_fft_precomp_get_buffer(t, b) : (uint8_t*)cplx_ifft_precomp_get_buffer(t, b);
      const size_t len = 2 * m * 8;
      const void* bad = 0;
#if VP_ASAN
      bad = __asan_region_is_poisoned(buf, len);
#else
      if (G.valgrind) bad = (const void*)(uintptr_t)VALGRIND_CHECK_MEM_IS_ADDRESSABLE(buf, len);
#endif
      if (bad) {
        viol("extent", "%s table (m=%" PRIu64 ", %u buffers, object at address = %u mod 64): byte %ld of built-in buffer %u lies outside the allocation", kind == 0 ? "reim fft" : kind == 1 ? "reim ifft" : kind == 2 ? "cplx fft" : "cplx ifft", m, nb, (unsigned)((uintptr_t)t & 63), (long)((const uint8_t*)bad - buf), b);
        it = 1000;
        break;
      }
      memset(buf, 0x5A, len);
      checked += len;
    }
    distinct_add("table_address_residues_mod_64", ((uintptr_t)t & 63) + 1);
    free(t);
  }
  for (int i = 0; i < ns; i++) free(spacers[i]);
  cnt("builtin_buffer_bytes_checked", checked);
  sample("24 tables with 1..3 built-in buffers each, every buffer byte inside its allocation");
  case_end(1);
}

// objects of 4 GiB and more: bytes_of_*() says how large they are, new_*() must hand out that much. Only the first and the
// last page are touched (the allocation itself is lazy), so this costs address space, not memory.
static void huge_object_case(unsigned which) {
  static const char* const nm[] = {"new_vmp_pmat(64 x 128) = 4 GiB", "new_vec_znx_dft(8200 limbs) > 4 GiB", "new_vec_znx_big(8193 limbs) > 4 GiB", "spqlios_alloc(2^32 + 4096)"};
  if (!case_begin("objects of 4 GiB and more|extent", "%s", nm[which])) return;
  MODULE* mod = new_module_info(65536, FFT64);
  uint8_t* p = 0;
  uint64_t bytes = 0;
  switch (which) {
    case 0: bytes = bytes_of_vmp_pmat(mod, 64, 128); p = (uint8_t*)new_vmp_pmat(mod, 64, 128); break;
    case 1: bytes = bytes_of_vec_znx_dft(mod, 8200); p = (uint8_t*)new_vec_znx_dft(mod, 8200); break;
    case 2: bytes = bytes_of_vec_znx_big(mod, 8193); p = (uint8_t*)new_vec_znx_big(mod, 8193); break;
    default: bytes = (1ull << 32) + 4096; p = spqlios_alloc(bytes); break;
  }
  if (!p) {
    cnt("huge_object_allocation_refused", 1);  // out of address space: nothing to observe
    delete_module_info(mod);
    case_end(0);
    return;
  }
  const void* bad = 0;
#if VP_ASAN
  bad = __asan_region_is_poisoned(p + bytes - 4096, 4096);
  if (!bad) bad = __asan_region_is_poisoned(p, 4096);
#endif
  if (bad) viol("extent", "%s: bytes_of says %" PRIu64 " bytes, byte %" PRIu64 " of the object lies outside the allocation", nm[which], bytes, (uint64_t)((const uint8_t*)bad - p));
  else {
    memset(p, 0x3C, 4096);
    memset(p + bytes - 4096, 0x3C, 4096);  // faults / is reported by ASan if the block is shorter than announced
  }
  switch (which) {
    case 0: delete_vmp_pmat((VMP_PMAT*)p); break;
    case 1: delete_vec_znx_dft((VEC_ZNX_DFT*)p); break;
    case 2: delete_vec_znx_big((VEC_ZNX_BIG*)p); break;
    default: spqlios_free(p); break;
  }
  delete_module_info(mod);
  cnt("huge_objects_checked", 1);
  sample("%" PRIu64 " bytes announced, first and last page writable", bytes);
  case_end(1);
}

// the *_simple conversions keep a table behind the scenes whose dimension is read back by the kernel: two threads using
// different dimensions at the same time (after the warm-up) must each stay inside their own exact-size buffers
typedef struct {
  uint64_t m;
  int iters;
  pthread_barrier_t* bar;
} csz_t;
static void* csz_worker(void* arg) {
  csz_t* c = arg;
  const uint64_t n = 2 * c->m;
  gbuf_t gi, go, go2;
  double* x = gb_alloc(&gi, n * 8, 8, 8, 4096);
  int64_t* o = gb_alloc(&go, n * 8, 8, 16, 4096);
  int32_t* o2 = gb_alloc(&go2, n * 4, 8, 24, 4096);
  for (uint64_t i = 0; i < n; i++) x[i] = (double)(int64_t)(i * 37 % 1000) + 0.25;
  pthread_barrier_wait(c->bar);
  for (int it = 0; it < c->iters; it++) {
    reim_to_znx64_simple((uint32_t)c->m, 2.0, 50, o, x);
    cplx_to_tnx32_simple((uint32_t)c->m, 2.0, 18, o2, x);
    reim_from_znx64_simple((uint32_t)c->m, 40, x, o);
  }
  gb_free(&gi); gb_free(&go); gb_free(&go2);
  return 0;
}
static void simple_sizes_threads_case(unsigned rep) {
  if (!case_begin("simple conversions|2 threads,different dimensions,exact-size buffers", "rep=%u", rep)) return;
  static const uint64_t M1[] = {8, 16, 64}, M2[] = {4096, 1024, 2048};
  csz_t c[2] = {{M1[rep % 3], 0, 0}, {M2[rep % 3], 0, 0}};
  // documented warm-up: one call per dimension
  for (int t = 0; t < 2; t++) {
    const uint64_t n = 2 * c[t].m;
    double* x = calloc(n, 8);
    int64_t* o = malloc(n * 8);
    int32_t* o2 = malloc(n * 4);
    reim_to_znx64_simple((uint32_t)c[t].m, 2.0, 50, o, x);
    cplx_to_tnx32_simple((uint32_t)c[t].m, 2.0, 18, o2, x);
    reim_from_znx64_simple((uint32_t)c[t].m, 40, x, o);
    free(x); free(o); free(o2);
  }
  pthread_t tid[2];
  pthread_barrier_t bar;
  pthread_barrier_init(&bar, 0, 2);
  for (int t = 0; t < 2; t++) {
    c[t].iters = c[t].m <= 64 ? 60000 : 2000;
    c[t].bar = &bar;
    pthread_create(&tid[t], 0, csz_worker, &c[t]);
  }
  for (int t = 0; t < 2; t++) pthread_join(tid[t], 0);
  pthread_barrier_destroy(&bar);
  cnt("instrumented_calls", 3 * (uint64_t)(c[0].iters + c[1].iters));
  sample("m=%" PRIu64 " and m=%" PRIu64 " at the same time, every access inside the callers' exact-size buffers", c[0].m, c[1].m);
  case_end(1);
}

// the small product with operands of very different magnitude (the catalogue draws both from fixed narrow ranges so that the product
// stays exact for the dispatch comparison of C07; the memory contract has no such restriction): exact-size guarded scratch and
// operands, every combination of a 27..49-bit operand with a 1..24-bit one, both orders
static void small_product_magnitudes_case(uint64_t N, unsigned ba, unsigned bb, int swap, int native) {
  char key[128];
  snprintf(key, sizeof key, "znx_small_single_product|operand magnitudes 2^%u x 2^%u%s", swap ? bb : ba, swap ? ba : bb, native ? "" : ",generic");
  if (!case_begin(key, "N=%" PRIu64, N)) return;
  rng_t* r = crng();
  const MODULE* mod = get_module(N, FFT64, native);
  gbuf_t ga, gb, gr, gt;
  int64_t* a = gb_alloc(&ga, N * 8, 8, 8, 4096);
  int64_t* b = gb_alloc(&gb, N * 8, 8, 16, 4096);
  int64_t* res = gb_alloc(&gr, N * 8, 8, 24, 4096);
  const uint64_t tb = znx_small_single_product_tmp_bytes(mod);
  uint8_t* tmp = gb_alloc(&gt, tb, 8, 8, 4096);
  for (uint64_t i = 0; i < N; i++) {
    a[i] = rng_sbits(r, swap ? bb : ba);
    b[i] = rng_sbits(r, swap ? ba : bb);
  }
  a[0] = (int64_t)(((uint64_t)1 << (swap ? bb : ba)) - 1);  // the class's extreme is present
  b[N - 1] = -(int64_t)(((uint64_t)1 << (swap ? ba : bb)) - 1);
  gb_prefill(&gr, 2, 1);
  gb_prefill(&gt, 3, 2);
  znx_small_single_product(mod, res, a, b, tmp);
  long wh;
  if (gb_check(&gt, &wh)) viol("canary", "znx_small_single_product (N=%" PRIu64 ", operands below 2^%u and 2^%u) wrote outside its %" PRIu64 " bytes of scratch (offset %ld)", N, swap ? bb : ba, swap ? ba : bb, tb, wh);
  if (gb_check(&ga, &wh) || gb_check(&gb, &wh) || gb_check(&gr, &wh)) viol("canary", "znx_small_single_product (N=%" PRIu64 ") accessed outside an operand (offset %ld)", N, wh);
  cnt("instrumented_calls", 1);
  cnt("lopsided_small_products", 1);
  sample("%" PRIu64 " bytes of scratch, operands 2^%u x 2^%u: guards intact", tb, ba, bb);
  gb_free(&ga); gb_free(&gb); gb_free(&gr); gb_free(&gt);
  case_end(1);
}

void run_C11(void) {
  const int th = G.thorough;
  if (strcmp(G.mode, "leaks") && strcmp(G.mode, "memcheck")) {
    for (unsigned rep = 0; rep < (th ? 12u : 3u); rep++) simple_sizes_threads_case(rep);
    if (strcmp(G.mode, "conc"))
      for (unsigned w = 0; w < 4; w++) huge_object_case(w);
  }
  if (strcmp(G.mode, "leaks"))
    for (uint64_t m = 1; m <= (!strcmp(G.mode, "memcheck") ? 256u : 4096u); m <<= 1)
      for (unsigned rep = 0; rep < (th ? 6u : 2u); rep++) builtin_buffers_case(m, rep);
  if (!strcmp(G.mode, "memcheck")) {
    // small dimensions only: memcheck costs 30-50x; it is the tool that sees inside the assembly kernels
    static const uint64_t Ns[] = {2, 4, 8, 16, 32, 64};
    catalogue_sweep(Ns, th ? 6 : 4, th ? 24 : 3, 0, MON_CANARY | MON_VALGRIND);
    return;
  }
  if (!strcmp(G.mode, "leaks")) {
    // N = 1: only the NTT120 module and the q120 tables exist there
    if (case_begin("new/delete|N=1 objects", "ntt120 module and q120 tables")) {
      for (int i = 0; i < 50; i++) {
        MODULE* mo = new_module_info(1, NTT120);
        delete_module_info(mo);
        q120_ntt_precomp* f = q120_new_ntt_bb_precomp(1);
        q120_ntt_precomp* g = q120_new_intt_bb_precomp(1);
        q120_del_ntt_bb_precomp(f);
        q120_del_intt_bb_precomp(g);
      }
      cnt("object_cycles", 150);
#if VP_ASAN
      if (__lsan_do_recoverable_leak_check()) viol("leak", "LeakSanitizer reports memory still allocated after matched new/delete calls of N = 1 objects");
      cnt("leak_check_rounds", 1);
#endif
      case_end(1);
    }
    for (size_t ni = 0; ni < N_ALL_N; ni++)
      for (unsigned rep = 0; rep < (th ? 6u : 2u); rep++) lifecycle_case(ALL_N[ni], rep);
    return;
  }
  catalogue_sweep(ALL_N, N_ALL_N, th ? 400 : 20, th ? 40 : 4, MON_CANARY);
  for (size_t ni = 0; ni < N_ALL_N; ni++) lifecycle_case(ALL_N[ni], 0);
  // modules / tables created, used and destroyed in random order, several alive at once
  for (unsigned rep = 0; rep < (G.thorough ? 240u : 24u); rep++)
    ops_lifecycle_case("C11 objects", LKM_ALL, (rep % 4) == 3 ? DISP_GENERIC : DISP_NATIVE, 160, 0, rep, "lifecycle_uses");
  for (unsigned rep = 0; rep < (G.thorough ? 12u : 6u); rep++)
    ops_lifecycle_case("C11 objects", LKM_BBC | LKM_BAA | LKM_BBB | LKM_REIM_MUL, DISP_NATIVE, 0, (G.thorough && rep < 3) ? 66000 : 300 + 57 * (int)rep, rep, "lifecycle_uses");
  // several threads creating, using and destroying their own modules / tables at the same time
  for (unsigned rep = 0; rep < (G.thorough ? 60u : 8u); rep++)
    ops_concurrent_lifecycle_case("C11 objects", LKM_ALL, (rep % 4) == 3 ? DISP_GENERIC : DISP_NATIVE, rep & 1 ? 8 : 4, 120, rep, "concurrent_lifecycle_uses");
  {
    static const unsigned BA[] = {27, 30, 35, 40, 45, 49}, BB[] = {1, 5, 10, 16, 20, 24};
    static const uint64_t SN[] = {16, 256, 1024, 4096, 2, 65536};
    for (size_t ni = 0; ni < ARRAY_LEN(SN); ni++)
      for (size_t x = 0; x < ARRAY_LEN(BA); x++)
        for (size_t y = 0; y < ARRAY_LEN(BB); y++) {
          if (!G.thorough && SN[ni] > 4096 && ((x + y) & 1)) continue;
          if (BA[x] + BB[y] + ilog2(SN[ni]) > 60) continue;  // (the product's coefficients must fit in an int64)
          small_product_magnitudes_case(SN[ni], BA[x], BB[y], (int)((x + y) & 1), (int)((x * 7 + y) % 3 != 0));
        }
  }
}
