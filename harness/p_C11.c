// C11 — memory contract: declared extents and *_tmp_bytes scratch are never exceeded; no result
// depends on uninitialised memory; new_*/delete_* pairs release everything.
// Monitors: ASan+UBSan on exactly-sized guard-banded buffers (asan build), canaries, differential
// pre-fill of outputs and scratch, memcheck definedness (mode "memcheck"), LeakSanitizer (mode "leaks").
#include <valgrind/memcheck.h>

#include "ops.h"

#if VP_ASAN
#include <sanitizer/lsan_interface.h>
#endif

static void catalogue_sweep(const uint64_t* Ns, size_t nN, unsigned seeds_small, unsigned seeds_large, unsigned monitors) {
  for (size_t ni = 0; ni < nN; ni++) {
    const uint64_t N = Ns[ni];
    for (int native = 1; native >= 0; native--) {
      env_t* env = 0;  // created lazily: only if this process owns a case of this (N, dispatch)
      const unsigned seeds = N <= 256 ? seeds_small : seeds_large;
      for (int oi = 0; oi < N_CAT_OPS; oi++) {
        const opdef_t* o = &OPS[oi];
        if (!native && (o->flags & (OPF_NTT120 | OPF_AVX))) continue;  // generic dispatch: module/table API only
        if (!native && (o->flags & OPF_KERNEL)) continue;
        if (!native && (o->flags & OPF_SIMPLE)) continue;  // their function-local caches are created once per process
        for (unsigned sd = 0; sd < seeds; sd++) {
          char key[128];
          // the shape class needs the plan: do a dry planning pass through op_exec's plan by asking for it
          opres_t r1, r2;
          snprintf(key, sizeof key, "%s|%s", o->name, native ? "native" : "generic");
          if (!case_begin(key, "N=%" PRIu64 " disp=%s seed=%u", N, native ? "native" : "generic", sd)) continue;
          if (!env) env = env_create(N, native);
          const uint64_t seed = mix64(G.seed * 1000003 + sd * 7919 + N);
          // two executions with different pre-fills of outputs/scratch and different placements
          op_exec(o, env, seed, (int)(sd & 3), sd, monitors, &r1);
          if (r1.skipped) {
            cnt("not_applicable", 1);
            case_end(0);
            continue;
          }
          op_exec(o, env, seed, (int)((sd + 2) & 3), sd, monitors | MON_RERUN, &r2);  // same placement, different pre-fill; then once more on the same buffers
          if (r2.rerun_differs) viol("undefined-output", "%s [%s]: %s (N=%" PRIu64 ")", o->name, r1.shape, r2.msg, N);
          if (r1.canary_bad || r2.canary_bad) viol("canary", "%s [%s]: %s", o->name, r1.shape, r1.canary_bad ? r1.msg : r2.msg);
          if (r1.out_hash != r2.out_hash) viol("undefined-output", "%s [%s]: output depends on the previous content of the output/scratch buffers (N=%" PRIu64 ")", o->name, r1.shape, N);
          if ((monitors & MON_VALGRIND) && (r1.msg[0] || r2.msg[0]) && !r1.canary_bad && !r2.canary_bad) viol("undefined-output", "%s [%s]: %s", o->name, r1.shape, r1.msg[0] ? r1.msg : r2.msg);
          cnt("instrumented_calls", 2);
          cnt("guarded_bytes", 2 * (r1.src_bytes + r1.out_bytes + r1.scratch_bytes));
          cnt("scratch_bytes_exact", 2 * r1.scratch_bytes);
          cntf("shape:%s|%s", 1, o->name, r1.shape);
          cntf("N:%" PRIu64, 1, N);
          if (monitors & MON_VALGRIND) cnt("memcheck_definedness_checks", 2);
          sample("shape=%s bytes in/out/scratch=%" PRIu64 "/%" PRIu64 "/%" PRIu64 "; prefill-independent", r1.shape, r1.src_bytes, r1.out_bytes, r1.scratch_bytes);
          case_end(r1.src_bytes + r1.out_bytes > 0);
        }
      }
      if (env) env_destroy(env);
    }
  }
}

// matched new_*/delete_* cycles of every object kind; every table size; leak check after each batch
static void lifecycle_case(uint64_t N, unsigned rep) {
  if (!case_begin("new/delete|all-object-kinds", "N=%" PRIu64 " rep=%u", N, rep)) return;
  for (int native = 1; native >= 0; native--) {
    env_t* e = env_create(N, native);
    const MODULE* M = e->fft64;  // (new_reim_fft_buffer / new_cplx_fft_buffer are declared but not defined by the library)
    VEC_ZNX_DFT* d = new_vec_znx_dft(M, 1 + rep % 3);
    VEC_ZNX_BIG* b = new_vec_znx_big(M, 1 + rep % 3);
    SVP_PPOL* s = new_svp_ppol(M);
    VMP_PMAT* pm = new_vmp_pmat(M, 2, 3);
    REIM_FFT_PRECOMP* wb = new_reim_fft_precomp((uint32_t)(e->m ? e->m : 1), 2);  // with built-in buffers
    double* buf = reim_fft_precomp_get_buffer(wb, 1);
    if (e->m) memset(buf, 0, 2 * e->m * 8);  // the buffer must be usable: ASan checks the extent
    CPLX_FFT_PRECOMP* wc = new_cplx_fft_precomp((uint32_t)(e->m ? e->m : 1), 1);
    if (e->m) memset(cplx_fft_precomp_get_buffer(wc, 0), 0, e->m * 16);
    delete_vec_znx_dft(d);
    delete_vec_znx_big(b);
    delete_svp_ppol(s);
    delete_vmp_pmat(pm);
    free(wb);
    free(wc);
    env_destroy(e);
    cnt("object_cycles", 30);
  }
#if VP_ASAN
  if (!strcmp(G.mode, "leaks")) {
    if (__lsan_do_recoverable_leak_check()) viol("leak", "LeakSanitizer reports memory still allocated after matched new_*/delete_* calls (N=%" PRIu64 ")", N);
    cnt("leak_check_rounds", 1);
  }
#endif
  sample("all object kinds created and released for N=%" PRIu64, N);
  case_end(1);
}

// the buffers a table hands out (num_buffers >= 1) are part of the object the library sized: every byte of every buffer
// must lie inside the allocation. Checked explicitly (ASan: shadow query; memcheck: addressability client request), for
// many tables separated by spacer blocks of varying sizes so that the allocator returns them at every address residue.
static void builtin_buffers_case(uint64_t m, unsigned rep) {
  if (!case_begin("fft/ifft tables|extent of the built-in buffers", "m=%" PRIu64 " rep=%u", m, rep)) return;
  rng_t* r = crng();
  void* spacers[64];
  int ns = 0;
  uint64_t checked = 0;
  for (int it = 0; it < 24; it++) {
    if (ns < 64) spacers[ns++] = malloc(8 + 8 * (rng_u64(r) % 13));  // shifts the next block by a multiple of 16 bytes
    const int kind = it & 3;
    const uint32_t nb = 1 + (uint32_t)(rng_u64(r) % 3);
    void* t = kind == 0 ? (void*)new_reim_fft_precomp((uint32_t)m, nb) : kind == 1 ? (void*)new_reim_ifft_precomp((uint32_t)m, nb) : kind == 2 ? (void*)new_cplx_fft_precomp((uint32_t)m, nb) : (void*)new_cplx_ifft_precomp((uint32_t)m, nb);
    for (uint32_t b = 0; b < nb; b++) {
      uint8_t* buf = kind == 0 ? (uint8_t*)reim_fft_precomp_get_buffer(t, b) : kind == 1 ? (uint8_t*)reim_ifft_precomp_get_buffer(t, b) : kind == 2 ? (uint8_t*)cplx_fft_precomp_get_buffer(t, b) : (uint8_t*)cplx_ifft_precomp_get_buffer(t, b);
      const size_t len = 2 * m * 8;
      const void* bad = 0;
#if VP_ASAN
      bad = __asan_region_is_poisoned(buf, len);
#else
      if (G.valgrind) bad = (const void*)(uintptr_t)VALGRIND_CHECK_MEM_IS_ADDRESSABLE(buf, len);
#endif
      if (bad) {
        viol("extent", "%s table (m=%" PRIu64 ", %u buffers, object at address = %u mod 64): byte %ld of built-in buffer %u lies outside the allocation", kind == 0 ? "reim fft" : kind == 1 ? "reim ifft" : kind == 2 ? "cplx fft" : "cplx ifft", m, nb, (unsigned)((uintptr_t)t & 63), (long)((const uint8_t*)bad - buf), b);
        it = 1000;
        break;
      }
      memset(buf, 0x5A, len);
      checked += len;
    }
    distinct_add("table_address_residues_mod_64", ((uintptr_t)t & 63) + 1);
    free(t);
  }
  for (int i = 0; i < ns; i++) free(spacers[i]);
  cnt("builtin_buffer_bytes_checked", checked);
  sample("24 tables with 1..3 built-in buffers each, every buffer byte inside its allocation");
  case_end(1);
}

void run_C11(void) {
  const int th = G.thorough;
  if (strcmp(G.mode, "leaks"))
    for (uint64_t m = 1; m <= (!strcmp(G.mode, "memcheck") ? 256u : 4096u); m <<= 1)
      for (unsigned rep = 0; rep < (th ? 6u : 2u); rep++) builtin_buffers_case(m, rep);
  if (!strcmp(G.mode, "memcheck")) {
    // small dimensions only: memcheck costs 30-50x; it is the tool that sees inside the assembly kernels
    static const uint64_t Ns[] = {2, 4, 8, 16, 32, 64};
    catalogue_sweep(Ns, th ? 6 : 4, th ? 24 : 3, 0, MON_CANARY | MON_VALGRIND);
    return;
  }
  if (!strcmp(G.mode, "leaks")) {
    for (size_t ni = 0; ni < N_ALL_N; ni++)
      for (unsigned rep = 0; rep < (th ? 6u : 2u); rep++) lifecycle_case(ALL_N[ni], rep);
    return;
  }
  catalogue_sweep(ALL_N, N_ALL_N, th ? 400 : 20, th ? 40 : 4, MON_CANARY);
  for (size_t ni = 0; ni < N_ALL_N; ni++) lifecycle_case(ALL_N[ni], 0);
}
