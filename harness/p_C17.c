// C17 — block layouts and complex-vector kernels are faithful and mutually inverse.
// Oracle: the layout definition (block b = evaluations 4b..4b+3, real parts then imaginary parts) and
// complex arithmetic in long double with the Appendix-A rounding budgets.
#include "lib.h"
#include "ops.h"

#define U53 0x1p-53L

// V_SUBNORMAL: the first operand consists of subnormal numbers (exactly representable: multiples of 2^-1074), the second of
// numbers around 2^1000, so that every exact product is an ordinary normal number (no overflow or underflow anywhere)
enum { V_RANDOM, V_SIGNEDZERO, V_DYNRANGE, V_INTEGER, V_SUBNORMAL, N_VFAM };
static const char* vfam_name[] = {"random", "signedzero", "dynrange", "integer", "subnormal*huge"};
static double gen_val(rng_t* r, int fam) {
  switch (fam) {
    case V_SIGNEDZERO: {
      unsigned t = (unsigned)(rng_u64(r) % 6);
      return t == 0 ? 0.0 : (t == 1 ? -0.0 : (t == 2 ? 1.0 : (t == 3 ? -1.0 : rng_unit(r) - 0.5)));
    }
    case V_DYNRANGE: return ldexp(rng_unit(r) - 0.5, (int)rng_range(r, -200, 200));
    case V_INTEGER: return (double)rng_sbits(r, 30);
    default: return rng_unit(r) * 2 - 1;
  }
}
static void fill(rng_t* r, int fam, double* p, uint64_t n) {
  for (uint64_t i = 0; i < n; i++) p[i] = gen_val(r, fam);
}

// ---------------------------------------------------------------- extract / save
static void extract_case(uint64_t m, int avx, uint64_t nrows, uint64_t sl_extra, int slmode, unsigned rep) {
  char key[96];
  snprintf(key, sizeof key, "reim4_extract/save_%s|%s", avx ? "avx" : "ref", nrows == 0 ? "nrows=0" : (slmode ? "strided" : "contiguous"));
  if (!case_begin(key, "m=%" PRIu64 " nrows=%" PRIu64 " sl=2m+%" PRIu64 " strided=%d rep=%u", m, nrows, sl_extra, slmode, rep)) return;
  rng_t* r = crng();
  const uint64_t sl = slmode ? 2 * m + sl_extra : 2 * m;
  const uint64_t nb = m / 4;
  // source rows: exactly (nrows-1)*sl + 2m doubles
  const uint64_t src_n = nrows ? (nrows - 1) * sl + 2 * m : 0;
  gbuf_t gs, gd, gv, g1;
  double* src = gb_alloc(&gs, src_n * 8, 8, 8 * (rep % 8), 4096);
  double* dst = gb_alloc(&gd, nrows * 64, 8, 8 * ((rep + 1) % 8), 4096);
  double* vec = gb_alloc(&gv, 2 * m * 8, 8, 8 * ((rep + 2) % 8), 4096);
  double* one = gb_alloc(&g1, 64, 8, 8 * ((rep + 3) % 8), 4096);
  for (uint64_t i = 0; i < src_n; i++) src[i] = (double)(i + 1) + 0.25;  // injective: positions are identifiable
  uint64_t blks[70];
  unsigned nblk = 0;
  if (nb <= 64)
    for (uint64_t b = 0; b < nb; b++) blks[nblk++] = b;
  else {
    blks[nblk++] = 0;
    blks[nblk++] = nb - 1;
    for (int t = 0; t < 30; t++) blks[nblk++] = (uint64_t)rng_range(r, 0, (int64_t)nb - 1);
  }
  for (unsigned bi = 0; bi < nblk; bi++) {
    const uint64_t blk = blks[bi];
    memset(dst, 0x5B, nrows * 64);
    if (slmode)
      (avx ? reim4_extract_1blk_from_contiguous_reim_sl_avx : reim4_extract_1blk_from_contiguous_reim_sl_ref)(m, sl, nrows, blk, dst, src);
    else
      (avx ? reim4_extract_1blk_from_contiguous_reim_avx : reim4_extract_1blk_from_contiguous_reim_ref)(m, nrows, blk, dst, src);
    for (uint64_t row = 0; row < nrows; row++)
      for (int i = 0; i < 8; i++) {
        double want = src[row * sl + (i >= 4 ? m : 0) + 4 * blk + (uint64_t)(i & 3)];
        if (dst[row * 8 + i] != want) {
          viol("oracle", "extract (%s, %s): m=%" PRIu64 " row %" PRIu64 " blk %" PRIu64 " slot %d: got %.17g want %.17g", avx ? "avx" : "ref", slmode ? "strided" : "contiguous", m, row, blk, i, dst[row * 8 + i], want);
          row = nrows;
          break;
        }
      }
    // single-vector form + save is its inverse and touches nothing else
    if (nrows >= 1) {
      memset(one, 0x5B, 64);
      (avx ? reim4_extract_1blk_from_reim_avx : reim4_extract_1blk_from_reim_ref)(m, blk, one, src);
      if (memcmp(one, dst, 64)) viol("oracle", "reim4_extract_1blk_from_reim_%s: m=%" PRIu64 " blk %" PRIu64 " differs from the row-0 block", avx ? "avx" : "ref", m, blk);
      for (uint64_t i = 0; i < 2 * m; i++) vec[i] = -(double)(i + 7);
      (avx ? reim4_save_1blk_to_reim_avx : reim4_save_1blk_to_reim_ref)(m, blk, vec, one);
      for (uint64_t i = 0; i < 2 * m; i++) {
        uint64_t j = i % m;
        double want = (j >= 4 * blk && j < 4 * blk + 4) ? src[i] : -(double)(i + 7);
        if (vec[i] != want) {
          viol("oracle", "reim4_save_1blk_to_reim_%s: m=%" PRIu64 " blk %" PRIu64 " position %" PRIu64 ": got %.17g want %.17g", avx ? "avx" : "ref", m, blk, i, vec[i], want);
          break;
        }
      }
    }
    cnt("blocks_checked", 1);
  }
  // copies are copies of BITS: sources with signed zeros, NaN payloads and subnormals, destinations holding beforehand +0.0, -0.0, a
  // byte pattern or the value itself; compared word for word (a store skipped because the destination "already equals" the value
  // keeps a zero of the other sign)
  if (nrows >= 1) {
    static const uint64_t SPECIAL[] = {0x0000000000000000ull, 0x8000000000000000ull, 0x3FF8000000000000ull, 0xC004000000000000ull, 0x0000000000000001ull, 0x8000000000000001ull,
                                       0x7FF8000000000123ull, 0xFFF8000000000456ull, 0x7FF0000000000000ull, 0x0010000000000000ull};
    uint64_t* srcw = (uint64_t*)src;
    for (uint64_t i = 0; i < src_n; i++) srcw[i] = (rng_u64(r) & 1) ? SPECIAL[rng_u64(r) % 2] : SPECIAL[rng_u64(r) % ARRAY_LEN(SPECIAL)];
    for (unsigned bi = 0; bi < nblk && bi < 6; bi++) {
      const uint64_t blk = blks[bi];
      for (int bg = 0; bg < 4; bg++) {
        static const uint64_t BG[4] = {0x0000000000000000ull, 0x8000000000000000ull, 0x5B5B5B5B5B5B5B5Bull, 0x7FF4DEADBEEF0001ull};
        uint64_t* dw = (uint64_t*)dst;
        uint64_t* ow = (uint64_t*)one;
        uint64_t* vw = (uint64_t*)vec;
        for (uint64_t i = 0; i < nrows * 8; i++) dw[i] = BG[bg];
        for (int i = 0; i < 8; i++) ow[i] = BG[bg];
        for (uint64_t i = 0; i < 2 * m; i++) vw[i] = BG[bg];
        if (slmode)
          (avx ? reim4_extract_1blk_from_contiguous_reim_sl_avx : reim4_extract_1blk_from_contiguous_reim_sl_ref)(m, sl, nrows, blk, dst, src);
        else
          (avx ? reim4_extract_1blk_from_contiguous_reim_avx : reim4_extract_1blk_from_contiguous_reim_ref)(m, nrows, blk, dst, src);
        int bad = 0;
        for (uint64_t row = 0; row < nrows && !bad; row++)
          for (int i = 0; i < 8; i++)
            if (dw[row * 8 + (uint64_t)i] != srcw[row * sl + (i >= 4 ? m : 0) + 4 * blk + (uint64_t)(i & 3)]) bad = 1;
        if (bad) viol("oracle", "extract (%s, %s): m=%" PRIu64 " blk %" PRIu64 ": the extracted block is not a bit-for-bit copy (signed zeros / NaN payloads in the source, destination pre-filled with %016" PRIx64 ")", avx ? "avx" : "ref", slmode ? "strided" : "contiguous", m, blk, BG[bg]);
        (avx ? reim4_extract_1blk_from_reim_avx : reim4_extract_1blk_from_reim_ref)(m, blk, one, src);
        (avx ? reim4_save_1blk_to_reim_avx : reim4_save_1blk_to_reim_ref)(m, blk, vec, one);
        bad = 0;
        for (uint64_t i = 0; i < 2 * m; i++) {
          const uint64_t j = i % m;
          const uint64_t want = (j >= 4 * blk && j < 4 * blk + 4) ? srcw[i] : BG[bg];
          if (vw[i] != want) bad = 1;
        }
        if (bad) viol("oracle", "reim4_extract_1blk_from_reim / reim4_save_1blk_to_reim (%s): m=%" PRIu64 " blk %" PRIu64 ": save(extract(x)) is not a bit-for-bit copy of the block into a vector pre-filled with %016" PRIx64, avx ? "avx" : "ref", m, blk, BG[bg]);
        cnt("bitwise_block_copies_checked", 2);
      }
    }
  }
  long wh;
  if (gb_check(&gs, &wh) || gb_check(&gd, &wh) || gb_check(&gv, &wh) || gb_check(&g1, &wh)) viol("canary", "extract/save accessed outside a buffer (%ld)", wh);
  gb_free(&gs);
  gb_free(&gd);
  gb_free(&gv);
  gb_free(&g1);
  sample("%u blocks x %" PRIu64 " rows extracted; save inverse", nblk, nrows);
  case_end(nrows >= 1);
}

// ---------------------------------------------------------------- cplx <-> reim4 layout conversion
static void layout_case(uint64_t m, int variant /*0 native,1 generic,2 ref,3 fma*/, unsigned rep) {
  static const char* vn[] = {"dispatch-native", "dispatch-generic", "ref", "fma"};
  char key[96];
  snprintf(key, sizeof key, "reim4_from_cplx/to_cplx|%s,%s", vn[variant], m == 4 ? "m=4" : "m>4");
  if (!case_begin(key, "m=%" PRIu64 " rep=%u", m, rep)) return;
  gbuf_t gc, g4, gb;
  double* c = gb_alloc(&gc, 2 * m * 8, 8, 8 * (rep % 8), 4096);
  double* r4 = gb_alloc(&g4, 2 * m * 8, 8, 8 * ((rep + 1) % 8), 4096);
  double* back = gb_alloc(&gb, 2 * m * 8, 8, 8 * ((rep + 2) % 8), 4096);
  for (uint64_t i = 0; i < 2 * m; i++) c[i] = (double)(i + 1) * 0.5;  // injective
  memset(r4, 0x5C, 2 * m * 8);
  memset(back, 0x5D, 2 * m * 8);
  set_dispatch(variant != 1);
  REIM4_FROM_CPLX_PRECOMP* pf = new_reim4_from_cplx_precomp((uint32_t)m);
  REIM4_TO_CPLX_PRECOMP* pt = new_reim4_to_cplx_precomp((uint32_t)m);
  set_dispatch(1);
  if (variant <= 1) {
    reim4_from_cplx(pf, r4, c);
    reim4_to_cplx(pt, back, r4);
  } else if (variant == 2) {
    reim4_from_cplx_ref(pf, r4, c);
    reim4_to_cplx_ref(pt, back, r4);
  } else {
    reim4_from_cplx_fma(pf, r4, c);
    reim4_to_cplx_fma(pt, back, r4);
  }
  for (uint64_t i = 0; i < 2 * m; i++)
    if (back[i] != c[i]) {
      viol("oracle", "cplx -> reim4 -> cplx [%s]: m=%" PRIu64 " is not the identity at double %" PRIu64 " (complex number %" PRIu64 " of %" PRIu64 "): got %.17g want %.17g", vn[variant], m, i, i / 2, m, back[i], c[i]);
      break;
    }
  // every block of the 4-block layout holds the real parts then the imaginary parts of complexes 4b..4b+3
  for (uint64_t b = 0; b < m / 4; b++) {
    double re[4], im[4], bre[4], bim[4];
    for (int i = 0; i < 4; i++) {
      re[i] = c[2 * (4 * b + (uint64_t)i)];
      im[i] = c[2 * (4 * b + (uint64_t)i) + 1];
      bre[i] = r4[8 * b + (uint64_t)i];
      bim[i] = r4[8 * b + 4 + (uint64_t)i];
    }
    // as multisets (the library orders the four numbers of a block as 0,2,1,3), with matching re/im pairing
    int ok = 1;
    for (int i = 0; i < 4 && ok; i++) {
      int found = 0;
      for (int j = 0; j < 4; j++)
        if (bre[j] == re[i] && bim[j] == im[i]) found = 1;
      ok = found;
    }
    if (!ok) {
      viol("oracle", "reim4_from_cplx [%s]: m=%" PRIu64 " block %" PRIu64 " does not hold complexes %" PRIu64 "..%" PRIu64 " (re then im)", vn[variant], m, b, 4 * b, 4 * b + 3);
      break;
    }
  }
  // the conversions move bits: signed zeros, NaN payloads, subnormals and infinities in the source, destinations holding +0.0, -0.0,
  // a byte pattern or a signalling NaN beforehand; the round trip is compared word for word
  {
    static const uint64_t SPECIAL[] = {0x0000000000000000ull, 0x8000000000000000ull, 0x3FF8000000000000ull, 0xC004000000000000ull, 0x0000000000000001ull, 0x8000000000000001ull,
                                       0x7FF8000000000123ull, 0xFFF8000000000456ull, 0x7FF0000000000000ull, 0x0010000000000000ull};
    static const uint64_t BG[4] = {0x0000000000000000ull, 0x8000000000000000ull, 0x5B5B5B5B5B5B5B5Bull, 0x7FF4DEADBEEF0001ull};
    rng_t* r = crng();
    uint64_t *cw = (uint64_t*)c, *rw = (uint64_t*)r4, *bw = (uint64_t*)back;
    for (int bg = 0; bg < 4; bg++) {
      for (uint64_t i = 0; i < 2 * m; i++) {
        cw[i] = (rng_u64(r) & 1) ? SPECIAL[rng_u64(r) % 2] : SPECIAL[rng_u64(r) % ARRAY_LEN(SPECIAL)];
        rw[i] = BG[bg];
        bw[i] = BG[(bg + 1) & 3];
      }
      if (variant <= 1) {
        reim4_from_cplx(pf, r4, c);
        reim4_to_cplx(pt, back, r4);
      } else if (variant == 2) {
        reim4_from_cplx_ref(pf, r4, c);
        reim4_to_cplx_ref(pt, back, r4);
      } else {
        reim4_from_cplx_fma(pf, r4, c);
        reim4_to_cplx_fma(pt, back, r4);
      }
      if (memcmp(back, c, 2 * m * 8)) viol("oracle", "cplx -> reim4 -> cplx [%s]: m=%" PRIu64 " is not a bit-for-bit identity (signed zeros / NaN payloads in the source, destinations pre-filled with %016" PRIx64 " / %016" PRIx64 ")", vn[variant], m, BG[bg], BG[(bg + 1) & 3]);
      // the 4-block vector holds exactly the source words (as a multiset per block)
      uint64_t sa = 0, sb = 0, xa = 0, xb = 0;
      for (uint64_t i = 0; i < 2 * m; i++) {
        sa += mix64(cw[i]);
        sb += mix64(rw[i]);
        xa ^= cw[i];
        xb ^= rw[i];
      }
      if (sa != sb || xa != xb) viol("oracle", "reim4_from_cplx [%s]: m=%" PRIu64 ": the 4-block vector does not hold the source words bit for bit (destination pre-filled with %016" PRIx64 ")", vn[variant], m, BG[bg]);
      cnt("bitwise_block_copies_checked", 2);
    }
  }
  long wh;
  if (gb_check(&gc, &wh) || gb_check(&g4, &wh) || gb_check(&gb, &wh)) viol("canary", "reim4 layout conversion [%s] m=%" PRIu64 " accessed outside a 2m-double buffer (%ld)", vn[variant], m, wh);
  free(pf);
  free(pt);
  gb_free(&gc);
  gb_free(&g4);
  gb_free(&gb);
  cnt("layout_roundtrips", 1);
  sample("all %" PRIu64 " complex numbers survive cplx->reim4->cplx", m);
  case_end(1);
}

// ---------------------------------------------------------------- dot products
static void dot_case(int two_cols, int avx, uint64_t nrows, int fam, unsigned rep) {
  char key[96];
  snprintf(key, sizeof key, "reim4_vec_mat%s_product_%s|%s,%s", two_cols ? "2cols" : "1col", avx ? "avx2" : "ref", nrows == 0 ? "nrows=0" : "nrows>0", vfam_name[fam]);
  if (!case_begin(key, "nrows=%" PRIu64 " rep=%u", nrows, rep)) return;
  rng_t* r = crng();
  const uint64_t vw = two_cols ? 16 : 8;
  gbuf_t gu, gv, gd;
  double* u = gb_alloc(&gu, nrows * 64, 8, 8 * (rep % 8), 4096);
  double* v = gb_alloc(&gv, nrows * vw * 8, 8, 8 * ((rep + 1) % 8), 4096);
  double* d = gb_alloc(&gd, vw * 8, 8, 8 * ((rep + 2) % 8), 4096);
  fill(r, fam, u, nrows * 8);
  fill(r, fam, v, nrows * vw);
  gb_prefill(&gd, 2, 0);
  if (two_cols) (avx ? reim4_vec_mat2cols_product_avx2 : reim4_vec_mat2cols_product_ref)(nrows, d, u, v);
  else (avx ? reim4_vec_mat1col_product_avx2 : reim4_vec_mat1col_product_ref)(nrows, d, u, v);
  for (int col = 0; col < (two_cols ? 2 : 1); col++)
    for (int k = 0; k < 4; k++) {
      long double sr = 0, si = 0, ar = 0, ai = 0;
      for (uint64_t i = 0; i < nrows; i++) {
        long double a = u[8 * i + (uint64_t)k], b = u[8 * i + 4 + (uint64_t)k];
        long double c = v[vw * i + 8 * (uint64_t)col + (uint64_t)k], dd = v[vw * i + 8 * (uint64_t)col + 4 + (uint64_t)k];
        sr += a * c - b * dd;
        si += a * dd + b * c;
        ar += fabsl(a * c) + fabsl(b * dd);
        ai += fabsl(a * dd) + fabsl(b * c);
      }
      long double tr = (long double)(nrows + 4) * U53 * ar * (1 + 0x1p-40L), ti = (long double)(nrows + 4) * U53 * ai * (1 + 0x1p-40L);
      double gr = d[8 * col + k], gi = d[8 * col + 4 + k];
      if (tr > 0) gauge_max("worst_dot_err_over_budget", (double)(fabsl(gr - sr) / tr));
      if (ti > 0) gauge_max("worst_dot_err_over_budget", (double)(fabsl(gi - si) / ti));
      if (!(fabsl(gr - sr) <= tr) || !(fabsl(gi - si) <= ti))
        viol("oracle", "reim4_vec_mat%s_product_%s: nrows=%" PRIu64 " column %d lane %d: got (%.17g,%.17g) exact (%.17Lg,%.17Lg) budget (%.3Lg,%.3Lg)", two_cols ? "2cols" : "1col", avx ? "avx2" : "ref", nrows, col, k, gr, gi, sr, si, tr, ti);
    }
  long wh;
  if (gb_check(&gu, &wh) || gb_check(&gv, &wh) || gb_check(&gd, &wh)) viol("canary", "dot product accessed outside a buffer (%ld)", wh);
  gb_free(&gu);
  gb_free(&gv);
  gb_free(&gd);
  cnt("dot_products", 1);
  sample("sum over %" PRIu64 " rows within (n+4)u sum|products|", nrows);
  case_end(nrows >= 1);
}

// reim4 element operations: dest = u + v (exact IEEE sum per component) and dest = u * v (complex product)
static void element_case(int fam, unsigned rep) {
  char key[96];
  snprintf(key, sizeof key, "reim4_add/reim4_mul|%s", vfam_name[fam]);
  if (!case_begin(key, "rep=%u", rep)) return;
  rng_t* r = crng();
  gbuf_t gu, gv, gd;
  double* u = gb_alloc(&gu, 64, 8, 8 * (rep % 8), 4096);
  double* v = gb_alloc(&gv, 64, 8, 8 * ((rep + 3) % 8), 4096);
  double* d = gb_alloc(&gd, 64, 8, 8 * ((rep + 5) % 8), 4096);
  fill(r, fam, u, 8);
  fill(r, fam, v, 8);
  gb_prefill(&gd, (int)rep, 0);
  reim4_add(d, u, v);
  for (int k = 0; k < 8; k++) {
    double want = u[k] + v[k];
    if (memcmp(&want, &d[k], 8) && !(want == 0 && d[k] == 0)) viol("oracle", "reim4_add component %d: %.17g + %.17g gave %.17g", k, u[k], v[k], d[k]);
  }
  gb_prefill(&gd, (int)rep + 1, 0);
  reim4_mul(d, u, v);
  for (int k = 0; k < 4; k++) {
    long double a = u[k], b = u[k + 4], c = v[k], dd = v[k + 4];
    long double sr = a * c - b * dd, si = a * dd + b * c;
    long double tr = 4 * U53 * (fabsl(a * c) + fabsl(b * dd)), ti = 4 * U53 * (fabsl(a * dd) + fabsl(b * c));
    if (!(fabsl(d[k] - sr) <= tr) || !(fabsl(d[k + 4] - si) <= ti)) viol("oracle", "reim4_mul lane %d: got (%.17g,%.17g) exact (%.17Lg,%.17Lg)", k, d[k], d[k + 4], sr, si);
  }
  long wh;
  if (gb_check(&gu, &wh) || gb_check(&gv, &wh) || gb_check(&gd, &wh)) viol("canary", "reim4 element operation accessed outside a buffer (%ld)", wh);
  gb_free(&gu);
  gb_free(&gv);
  gb_free(&gd);
  cnt("reim4_element_operations", 2);
  sample("reim4_add exact per component, reim4_mul within 4u of the complex product");
  case_end(1);
}

// ---------------------------------------------------------------- pointwise mul / addmul on reim, reim4, cplx vectors
enum { LY_REIM, LY_REIM4, LY_CPLX };
static const char* ly_name[] = {"reim", "reim4", "cplx"};
// index of (re, im) of complex i in layout
static inline void idx(int ly, uint64_t m, uint64_t i, uint64_t* ire, uint64_t* iim) {
  if (ly == LY_REIM) {
    *ire = i;
    *iim = i + m;
  } else if (ly == LY_REIM4) {
    *ire = 8 * (i / 4) + (i & 3);
    *iim = *ire + 4;
  } else {
    *ire = 2 * i;
    *iim = 2 * i + 1;
  }
}
// variant: 0 native table, 1 generic table, 2 ref, 3 fma, 4 sse, 5 avx512
static int fftvec_call(int ly, int addmul, int variant, uint64_t m, double* rr, const double* a, const double* b) {
  set_dispatch(variant != 1);
  void* p = 0;
  switch (ly) {
    case LY_REIM: p = addmul ? (void*)new_reim_fftvec_addmul_precomp((uint32_t)m) : (void*)new_reim_fftvec_mul_precomp((uint32_t)m); break;
    case LY_REIM4: p = addmul ? (void*)new_reim4_fftvec_addmul_precomp((uint32_t)m) : (void*)new_reim4_fftvec_mul_precomp((uint32_t)m); break;
    default: p = addmul ? (void*)new_cplx_fftvec_addmul_precomp((uint32_t)m) : (void*)new_cplx_fftvec_mul_precomp((uint32_t)m);
  }
  set_dispatch(1);
  int ok = 1;
  if (variant <= 1) {
    if (ly == LY_REIM) addmul ? reim_fftvec_addmul(p, rr, a, b) : reim_fftvec_mul(p, rr, a, b);
    else if (ly == LY_REIM4) addmul ? reim4_fftvec_addmul(p, rr, a, b) : reim4_fftvec_mul(p, rr, a, b);
    else addmul ? cplx_fftvec_addmul(p, rr, a, b) : cplx_fftvec_mul(p, rr, a, b);
  } else if (variant == 2) {
    if (ly == LY_REIM) addmul ? reim_fftvec_addmul_ref(p, rr, a, b) : reim_fftvec_mul_ref(p, rr, a, b);
    else if (ly == LY_REIM4) addmul ? reim4_fftvec_addmul_ref(p, rr, a, b) : reim4_fftvec_mul_ref(p, rr, a, b);
    else addmul ? cplx_fftvec_addmul_ref(p, rr, a, b) : cplx_fftvec_mul_ref(p, rr, a, b);
  } else if (variant == 3) {
    // accelerated kernels at the sizes the library selects them for
    if (ly == LY_REIM && m >= 4) addmul ? reim_fftvec_addmul_fma(p, rr, a, b) : reim_fftvec_mul_fma(p, rr, a, b);
    else if (ly == LY_REIM4 && m >= 4) addmul ? reim4_fftvec_addmul_fma(p, rr, a, b) : reim4_fftvec_mul_fma(p, rr, a, b);
    else if (ly == LY_CPLX && m >= 8) addmul ? cplx_fftvec_addmul_fma(p, rr, a, b) : cplx_fftvec_mul_fma(p, rr, a, b);
    else ok = 0;
  } else if (variant == 4) {
    if (ly == LY_CPLX && addmul && m >= 2) cplx_fftvec_addmul_sse(p, rr, a, b);
    else ok = 0;
  } else {
    if (ly == LY_CPLX && addmul && m >= 8 && __builtin_cpu_supports("avx512f")) cplx_fftvec_addmul_avx512(p, rr, a, b);
    else ok = 0;
  }
  free(p);
  return ok;
}
static void fftvec_case(int ly, int addmul, int variant, uint64_t m, int fam, int alias /*0 none,1 r==a,2 r==b,3 r==a==b*/, unsigned rep) {
  static const char* vn[] = {"dispatch-native", "dispatch-generic", "ref", "fma", "sse", "avx512"};
  char key[96];
  snprintf(key, sizeof key, "%s_fftvec_%s|%s,%s%s", ly_name[ly], addmul ? "addmul" : "mul", vn[variant], vfam_name[fam], alias ? ",aliased" : "");
  if (!case_begin(key, "m=%" PRIu64 " alias=%d rep=%u", m, alias, rep)) return;
  rng_t* r = crng();
  gbuf_t ga, gb, gr;
  double* a = gb_alloc(&ga, 2 * m * 8, 8, 8 * (rep % 8), 4096);
  double* b = gb_alloc(&gb, 2 * m * 8, 8, 8 * ((rep + 1) % 8), 4096);
  double* rr = gb_alloc(&gr, 2 * m * 8, 8, 8 * ((rep + 2) % 8), 4096);
  fill(r, fam, a, 2 * m);
  fill(r, fam, b, 2 * m);
  fill(r, fam, rr, 2 * m);
  if (fam == V_SUBNORMAL)
    for (uint64_t i = 0; i < 2 * m; i++) {
      a[i] = ldexp((double)rng_sbits(r, 20), -1074 + (int)(rng_u64(r) % 8));  // |a| < 2^-1046: subnormal
      b[i] = ldexp(rng_unit(r) + 0.5, 1000) * ((rng_u64(r) & 1) ? 1 : -1);
      rr[i] = ldexp(rng_unit(r) - 0.5, -40);                                     // the accumulator of addmul: the size of the products
    }
  // one case in four: the second operand is a function of the first - its complex conjugate, its negative, its conjugate negated, a
  // copy - exactly, or (odd kinds) with the last mantissa bits of a quarter of the elements changed: squared norms, differences of
  // squares and almost-Hermitian pairs are what these kernels see in practice, and independent draws never produce them
  if (fam != V_SUBNORMAL && (rng_u64(r) & 3) == 0) {
    const unsigned kind = (unsigned)(rng_u64(r) % 8);
    for (uint64_t j = 0; j < m; j++) {
      uint64_t ire, iim;
      idx(ly, m, j, &ire, &iim);
      double br = a[ire], bi = a[iim];
      switch (kind / 2) {
        case 0: bi = -bi; break;            // conj(a)
        case 1: br = -br; bi = -bi; break;  // -a
        case 2: br = -br; break;            // -conj(a)
        default: break;                     // a
      }
      if ((kind & 1) && (rng_u64(r) & 3) == 0 && fabs(bi) > 0x1p-500) {  // (not on zeros: that would create subnormals, the business of another family)
        uint64_t w;
        memcpy(&w, &bi, 8);
        w ^= 1 + (rng_u64(r) & 0xFFFFFu);   // up to 2^-32 relative
        memcpy(&bi, &w, 8);
      }
      b[ire] = br;
      b[iim] = bi;
    }
    cnt("related_operand_vectors", 1);
  }
  double* a0 = malloc(2 * m * 8);
  double* b0 = malloc(2 * m * 8);
  double* r0 = malloc(2 * m * 8);
  double* out = rr;
  const double *pa = a, *pb = b;
  if (alias == 1) { out = a; }
  if (alias == 2) { out = b; }
  if (alias == 3) { out = a; pb = a; }
  memcpy(a0, a, 2 * m * 8);
  memcpy(b0, alias == 3 ? a : b, 2 * m * 8);
  memcpy(r0, out, 2 * m * 8);
  if (!fftvec_call(ly, addmul, variant, m, out, pa, pb)) {
    cnt("not_applicable_combinations", 1);
    goto done;
  }
  for (uint64_t i = 0; i < m; i++) {
    uint64_t ire, iim;
    idx(ly, m, i, &ire, &iim);
    long double ar = a0[ire], ai = a0[iim], br = b0[ire], bi = b0[iim];
    long double er = ar * br - ai * bi, ei = ar * bi + ai * br;
    long double tr = 4 * U53 * (fabsl(ar * br) + fabsl(ai * bi)), ti = 4 * U53 * (fabsl(ar * bi) + fabsl(ai * br));
    if (addmul) {
      er += r0[ire];
      ei += r0[iim];
      tr += 2 * U53 * fabsl((long double)r0[ire]) + 2 * U53 * fabsl(er);
      ti += 2 * U53 * fabsl((long double)r0[iim]) + 2 * U53 * fabsl(ei);
    }
    tr *= (1 + 0x1p-40L);
    ti *= (1 + 0x1p-40L);
    if (tr > 0) gauge_max("worst_pointwise_err_over_budget", (double)(fabsl(out[ire] - er) / tr));
    if (ti > 0) gauge_max("worst_pointwise_err_over_budget", (double)(fabsl(out[iim] - ei) / ti));
    if (!(fabsl(out[ire] - er) <= tr) || !(fabsl(out[iim] - ei) <= ti)) {
      viol("oracle", "%s_fftvec_%s[%s] m=%" PRIu64 " alias=%d complex %" PRIu64 ": got (%.17g,%.17g) exact (%.17Lg,%.17Lg)", ly_name[ly], addmul ? "addmul" : "mul", vn[variant], m, alias, i, out[ire], out[iim], er, ei);
      break;
    }
  }
  if (alias == 0 && (memcmp(a, a0, 2 * m * 8) || memcmp(b, b0, 2 * m * 8))) viol("snapshot", "%s_fftvec_%s[%s] modified an input", ly_name[ly], addmul ? "addmul" : "mul", vn[variant]);
  cnt("pointwise_vectors", 1);
  cntf("fftvec:%s:%s", 1, ly_name[ly], vn[variant]);
  {
    long wh;
    if (gb_check(&ga, &wh) || gb_check(&gb, &wh) || gb_check(&gr, &wh)) viol("canary", "%s_fftvec_%s[%s] m=%" PRIu64 " accessed outside a 2m-double buffer (%ld)", ly_name[ly], addmul ? "addmul" : "mul", vn[variant], m, wh);
  }
  sample("%" PRIu64 " complex products within the rounding budget", m);
done:
  free(a0);
  free(b0);
  free(r0);
  gb_free(&ga);
  gb_free(&gb);
  gb_free(&gr);
  case_end(1);
}

// ---------------------------------------------------------------- windowed convolution
static void conv_case(uint64_t sizea, uint64_t sizeb, int fam, unsigned rep) {
  char key[96];
  snprintf(key, sizeof key, "reim4_convolution_ref|%s,%s", (sizea == 0 || sizeb == 0) ? "empty-operand" : "both>0", vfam_name[fam]);
  if (!case_begin(key, "sizea=%" PRIu64 " sizeb=%" PRIu64 " rep=%u", sizea, sizeb, rep)) return;
  rng_t* r = crng();
  gbuf_t ga, gb, gd;
  double* a = gb_alloc(&ga, sizea * 64, 8, 8 * (rep % 8), 4096);
  double* b = gb_alloc(&gb, sizeb * 64, 8, 8 * ((rep + 1) % 8), 4096);
  fill(r, fam, a, sizea * 8);
  fill(r, fam, b, sizeb * 8);
  const uint64_t full = sizea + sizeb;  // coefficients 0..sizea+sizeb-2 are non-trivial, beyond are zero
  for (uint64_t off = 0; off <= full + 1; off++)
    for (uint64_t sz = 0; sz <= full + 2 - (off > full ? full : off); sz += (sz < 4 ? 1 : 3)) {
      double* d = gb_alloc(&gd, sz * 64, 8, 8 * ((rep + off) % 8), 4096);
      gb_prefill(&gd, 2, 0);
      int mode = (int)((off + sz) % 3);
      if (mode == 1 && sz == 1) reim4_convolution_1coeff_ref(off, d, a, sizea, b, sizeb);
      else if (mode == 2 && sz == 2) reim4_convolution_2coeff_ref(off, d, a, sizea, b, sizeb);
      else reim4_convolution_ref(d, sz, off, a, sizea, b, sizeb);
      for (uint64_t t = 0; t < sz; t++) {
        const uint64_t k = off + t;
        for (int lane = 0; lane < 4; lane++) {
          long double sr = 0, si = 0, ar = 0, ai = 0;
          uint64_t terms = 0;
          for (uint64_t j = 0; j < sizeb; j++) {
            if (k < j || k - j >= sizea) continue;
            const double* x = a + 8 * (k - j);
            const double* y = b + 8 * j;
            long double xr = x[lane], xi = x[lane + 4], yr = y[lane], yi = y[lane + 4];
            sr += xr * yr - xi * yi;
            si += xr * yi + xi * yr;
            ar += fabsl(xr * yr) + fabsl(xi * yi);
            ai += fabsl(xr * yi) + fabsl(xi * yr);
            terms++;
          }
          long double tr = (long double)(terms + 4) * U53 * ar * (1 + 0x1p-40L), ti = (long double)(terms + 4) * U53 * ai * (1 + 0x1p-40L);
          if (tr > 0) gauge_max("worst_conv_err_over_budget", (double)(fabsl(d[8 * t + (uint64_t)lane] - sr) / tr));
          if (!(fabsl(d[8 * t + (uint64_t)lane] - sr) <= tr) || !(fabsl(d[8 * t + 4 + (uint64_t)lane] - si) <= ti)) {
            viol("oracle", "reim4_convolution: sizea=%" PRIu64 " sizeb=%" PRIu64 " offset=%" PRIu64 " size=%" PRIu64 " coefficient %" PRIu64 " lane %d: got (%.17g,%.17g) want (%.17Lg,%.17Lg)", sizea, sizeb, off, sz, k, lane, d[8 * t + (uint64_t)lane], d[8 * t + 4 + (uint64_t)lane], sr, si);
            t = sz;
            break;
          }
        }
      }
      long wh;
      if (gb_check(&gd, &wh)) viol("canary", "reim4_convolution wrote outside dest (offset=%" PRIu64 " size=%" PRIu64 ": %ld)", off, sz, wh);
      gb_free(&gd);
      cnt("convolution_windows", 1);
    }
  long wh;
  if (gb_check(&ga, &wh) || gb_check(&gb, &wh)) viol("canary", "reim4_convolution accessed outside an operand (%ld)", wh);
  gb_free(&ga);
  gb_free(&gb);
  sample("all (offset,size) windows incl. empty and beyond-end");
  case_end(sizea >= 1 && sizeb >= 1);
}

// *_simple convenience functions: the same definitions hold, whatever was called first for a dimension
static void simple_case(uint64_t m, unsigned rep) {
  if (!case_begin("fftvec_mul/addmul/layout_simple|first-use-order", "m=%" PRIu64 " rep=%u", m, rep)) return;
  rng_t* r = crng();
  double* a = malloc(2 * m * 8);
  double* b = malloc(2 * m * 8);
  double* out = malloc(2 * m * 8);
  double* r0 = malloc(2 * m * 8);
  // the first-use order of the operations alternates with the dimension (the caches are per dimension)
  const int addmul_first = (int)(ilog2(m) & 1) ^ (int)(rep & 1);
  for (int step = 0; step < 4; step++) {
    for (int ly = 0; ly < 3; ly++) {
      if (ly == LY_REIM4 && m < 4) continue;
      const int addmul = (step & 1) ^ addmul_first;
      fill(r, V_RANDOM, a, 2 * m);
      fill(r, V_RANDOM, b, 2 * m);
      fill(r, V_RANDOM, out, 2 * m);
      memcpy(r0, out, 2 * m * 8);
      if (ly == LY_REIM) addmul ? reim_fftvec_addmul_simple((uint32_t)m, out, a, b) : reim_fftvec_mul_simple((uint32_t)m, out, a, b);
      else if (ly == LY_REIM4) addmul ? reim4_fftvec_addmul_simple((uint32_t)m, out, a, b) : reim4_fftvec_mul_simple((uint32_t)m, out, a, b);
      else addmul ? cplx_fftvec_addmul_simple((uint32_t)m, out, a, b) : cplx_fftvec_mul_simple((uint32_t)m, out, a, b);
      for (uint64_t i = 0; i < m; i++) {
        uint64_t ire, iim;
        idx(ly, m, i, &ire, &iim);
        long double er = (long double)a[ire] * b[ire] - (long double)a[iim] * b[iim], ei = (long double)a[ire] * b[iim] + (long double)a[iim] * b[ire];
        if (addmul) { er += r0[ire]; ei += r0[iim]; }
        if (fabsl(out[ire] - er) > 1e-12L || fabsl(out[iim] - ei) > 1e-12L) {
          static const char* ln[] = {"reim", "reim4", "cplx"};
          viol("oracle", "%s_fftvec_%s_simple(m=%" PRIu64 ") (call %d of the dimension, %s first): complex %" PRIu64 " = (%.17g,%.17g), definition gives (%.17Lg,%.17Lg)", ln[ly], addmul ? "addmul" : "mul", m, step, addmul_first ? "addmul" : "mul", i, out[ire], out[iim], er, ei);
          break;
        }
      }
      cnt("simple_api_calls", 1);
    }
    if (m >= 4) {
      // layout conversion round trip through the convenience functions
      for (uint64_t i = 0; i < 2 * m; i++) a[i] = (double)(i + 1);
      memset(out, 0x5A, 2 * m * 8);
      memset(b, 0x5B, 2 * m * 8);
      if (step & 1) { reim4_from_cplx_simple((uint32_t)m, out, a); reim4_to_cplx_simple((uint32_t)m, b, out); }
      else { reim4_from_cplx_simple((uint32_t)m, out, a); reim4_to_cplx_simple((uint32_t)m, b, out); }
      if (memcmp(a, b, 2 * m * 8)) viol("oracle", "reim4_from_cplx_simple / reim4_to_cplx_simple round trip is not the identity (m=%" PRIu64 ")", m);
      cnt("simple_api_calls", 2);
    }
  }
  sample("mul/addmul simple functions of three layouts in alternating first-use order + layout round trip");
  free(a); free(b); free(out); free(r0);
  case_end(1);
}

// a contiguous vector of vectors of more than 4 GiB (row counts are quantified up to N): the source is a lazily backed mapping of
// which only the block columns that the call reads are written, so the case costs a few hundred MiB of page tables and touched
// pages, not 4 GiB; every row's block must be that row's data (offsets computed in 32 bits wrap at the 4 GiB row)
#include <sys/mman.h>
static void huge_rows_case(uint64_t m, uint64_t nrows, int avx, int slmode, unsigned rep) {
  char key[128];
  snprintf(key, sizeof key, "reim4_extract_1blk_from_contiguous_reim%s_%s|rows spanning more than 4 GiB", slmode ? "_sl" : "", avx ? "avx" : "ref");
  if (!case_begin(key, "m=%" PRIu64 " nrows=%" PRIu64 " rep=%u", m, nrows, rep)) return;
  const uint64_t sl = slmode ? 2 * m + 8 : 2 * m;
  const size_t bytes = ((nrows - 1) * sl + 2 * m) * 8 + 8192;
  double* src = mmap(0, bytes, PROT_READ | PROT_WRITE, MAP_PRIVATE | MAP_ANONYMOUS | MAP_NORESERVE, -1, 0);
  if (src == MAP_FAILED) {
    cnt("huge_mapping_refused", 1);
    case_end(0);
    return;
  }
  const uint64_t blk = (m / 4 - 1) - (rep % 3);
  // rows: the first and last few, the rows around every multiple of 2^32 bytes, and a sample in between
  uint64_t* rows = malloc(4096 * 8);
  size_t nr = 0;
  const uint64_t row_bytes = sl * 8, per4g = (1ull << 32) / row_bytes;
  for (uint64_t r0 = 0; r0 < 4 && r0 < nrows; r0++) rows[nr++] = r0;
  for (uint64_t k = 1; k * per4g < nrows + 2; k++)
    for (int64_t d = -2; d <= 2; d++) {
      const int64_t rr = (int64_t)(k * per4g) + d;
      if (rr >= 0 && (uint64_t)rr < nrows) rows[nr++] = (uint64_t)rr;
    }
  for (uint64_t r0 = nrows > 3 ? nrows - 3 : 0; r0 < nrows; r0++) rows[nr++] = r0;
  for (size_t q = 0; q < nr; q++)
    for (int i = 0; i < 8; i++) src[rows[q] * sl + (i >= 4 ? m : 0) + 4 * blk + (uint64_t)(i & 3)] = (double)(rows[q] * 16 + (uint64_t)i) + 0.5;
  double* dst = malloc(nrows * 64);
  memset(dst, 0x5B, nrows * 64);
  if (slmode)
    (avx ? reim4_extract_1blk_from_contiguous_reim_sl_avx : reim4_extract_1blk_from_contiguous_reim_sl_ref)(m, sl, nrows, blk, dst, src);
  else
    (avx ? reim4_extract_1blk_from_contiguous_reim_avx : reim4_extract_1blk_from_contiguous_reim_ref)(m, nrows, blk, dst, src);
  uint64_t bad = 0;
  for (size_t q = 0; q < nr; q++)
    for (int i = 0; i < 8; i++)
      if (dst[rows[q] * 8 + (uint64_t)i] != (double)(rows[q] * 16 + (uint64_t)i) + 0.5 && bad++ < 2)
        viol("oracle", "extract (%s, %s): m=%" PRIu64 ", %" PRIu64 " rows (%.2f GiB): row %" PRIu64 " slot %d holds %.17g, not the value stored in that row (%.17g)", avx ? "avx" : "ref", slmode ? "strided" : "contiguous", m, nrows,
             (double)bytes / 0x1p30, rows[q], i, dst[rows[q] * 8 + (uint64_t)i], (double)(rows[q] * 16 + (uint64_t)i) + 0.5);
  cnt("rows_checked_in_vectors_over_4GiB", nr);
  sample("%" PRIu64 " rows of %" PRIu64 " bytes (%.2f GiB): %zu rows around the 4 GiB multiples and at both ends identified", nrows, row_bytes, (double)bytes / 0x1p30, nr);
  free(dst);
  free(rows);
  munmap(src, bytes);
  case_end(1);
}

void run_C17(void) {
  const int th = G.thorough;
  {
    static const char* const CNAMES[] = {"reim_fftvec_mul", "reim_fftvec_addmul", "cplx_fftvec_mul", "cplx_fftvec_addmul", "reim4_fftvec_mul", "reim4_fftvec_addmul", "reim4_from_cplx", "reim4_to_cplx", "reim4_extract_1blk_from_contiguous_reim_ref", "reim4_extract_1blk_from_contiguous_reim_avx", "reim4_extract_1blk_from_reim_ref", "reim4_extract_1blk_from_reim_avx", "reim4_save_1blk_to_reim_ref", "reim4_save_1blk_to_reim_avx", "reim4_vec_mat1col_product_ref", "reim4_vec_mat1col_product_avx2", "reim4_vec_mat2cols_product_ref", "reim4_vec_mat2cols_product_avx2", "reim4_convolution_ref", "reim_fftvec_mul(r==a)", "cplx_fftvec_mul(r==b)", "reim4_fftvec_mul(r==a==b)"};
    static const uint64_t CNS[] = {8, 64, 1024, 16384};
    for (size_t i = 0; i < ARRAY_LEN(CNS); i++)
      for (int cfg = DISP_NATIVE; cfg >= DISP_GENERIC; cfg--)
        for (unsigned rep = 0; rep < (th ? 5u : 1u); rep++) {
          if (!th && CNS[i] > 4096 && cfg == DISP_GENERIC) continue;
          ops_concurrent_case("C17 entry points", CNAMES, (int)ARRAY_LEN(CNAMES), CNS[i], cfg, CNS[i] <= 256 ? 8 : 4, rep, "concurrent_entry_calls");
        }
  }
  unsigned ctr = 0;
  for (unsigned k = 2; k <= 16; k++) {
    const uint64_t m = 1ull << k;
    // extract / save
    for (int avx = 0; avx <= 1; avx++) {
      static const uint64_t NR[] = {0, 1, 2, 3, 5, 8, 17};
      for (size_t ri = 0; ri < ARRAY_LEN(NR); ri++) {
        if (m > 4096 && NR[ri] > 3) continue;
        extract_case(m, avx, NR[ri], 0, 0, 0);
        static const uint64_t SX[] = {0, 1, 4, 8};
        for (size_t si = 0; si < ARRAY_LEN(SX); si++) {
          ctr++;
          if (!th && m > 256 && (ctr % 3)) continue;
          extract_case(m, avx, NR[ri], SX[si], 1, 0);
        }
        // strides that are multiples of the row length (a column of a matrix of k reim vectors per row): sl = 2m*k,
        // and the same in bytes / in complexes (classic unit mix-ups): 8*2m, 16*2m
        if (m <= 1024 || th) {
          static const uint64_t MULT[] = {2, 3, 4, 8, 16, 32};
          for (size_t q = 0; q < ARRAY_LEN(MULT); q++)
            if (NR[ri] <= 5) extract_case(m, avx, NR[ri], 2 * m * (MULT[q] - 1), 1, 2);
        }
        if (th) extract_case(m, avx, NR[ri], m, 1, 1);
      }
    }
    // layout conversion
    for (int v = 0; v < 4; v++)
      for (unsigned rep = 0; rep < (th ? 16u : 3u); rep++) layout_case(m, v, rep);
    // pointwise kernels
    for (int ly = 0; ly < 3; ly++)
      for (int addmul = 0; addmul <= 1; addmul++)
        for (int v = 0; v < 6; v++)
          for (int fam = 0; fam < N_VFAM; fam++) {
            ctr++;
            if (!th && m > 1024 && (fam != (int)(ctr % N_VFAM))) continue;
            for (int alias = 0; alias < 4; alias++) {
              if (alias && (fam != V_RANDOM || (m > 4096 && !th))) continue;
              fftvec_case(ly, addmul, v, m, fam, alias, 0);
            }
          }
  }
  for (unsigned k = 0; k <= 16; k++)
    for (unsigned rep = 0; rep < (th ? 4u : 2u); rep++) simple_case(1ull << k, rep);
  // m = 1, 2 for the layouts that exist below 4 (reim and cplx)
  for (uint64_t m = 1; m <= 2; m++)
    for (int ly = 0; ly < 3; ly += 2)
      for (int addmul = 0; addmul <= 1; addmul++)
        for (int v = 0; v < 5; v++) fftvec_case(ly, addmul, v, m, V_RANDOM, 0, 0);
  for (int fam = 0; fam < N_VFAM; fam++)
    for (unsigned rep = 0; rep < (th ? 2000u : 100u); rep++) element_case(fam, rep);
  // dot products: every length 0..320 (one family per length), then every family on 0..64 and on the long lengths
  for (int two = 0; two <= 1; two++)
    for (int avx = 0; avx <= 1; avx++)
      for (uint64_t n = 65; n <= 320; n++) dot_case(two, avx, n, (int)(n % N_VFAM), 7);
  // dot products: every length 0..64, 128, 1000
  for (int two = 0; two <= 1; two++)
    for (int avx = 0; avx <= 1; avx++)
      for (uint64_t n = 0; n <= 74; n++) {
        static const uint64_t LONG[] = {128, 1000, 1023, 1024, 1025, 2047, 2048, 2049, 4096, 5000};
        uint64_t nrows = n <= 64 ? n : LONG[n - 65];
        for (int fam = 0; fam < N_VFAM; fam++)
          for (unsigned rep = 0; rep < (th ? 40u : 3u); rep++) dot_case(two, avx, nrows, fam, rep);
      }
  // convolution windows
  for (uint64_t sa = 0; sa <= (th ? 9u : 6u); sa++)
    for (uint64_t sb = 0; sb <= (th ? 9u : 6u); sb++)
      for (int fam = 0; fam < (th ? N_VFAM : 2); fam++) conv_case(sa, sb, fam, 0);
  // the entry points of this property called a second time on the SAME buffers holding other data (new values, two limbs exchanged,
  // one word moved between limbs): must equal a fresh call on that data (results or operands remembered by address)
  {
    static const char* const RNAMES[] = {"reim_fftvec_mul", "reim_fftvec_addmul", "cplx_fftvec_mul", "cplx_fftvec_addmul", "reim4_fftvec_mul", "reim4_fftvec_addmul", "reim4_from_cplx", "reim4_to_cplx", "reim4_extract_1blk_from_contiguous_reim_ref", "reim4_extract_1blk_from_contiguous_reim_avx", "reim4_extract_1blk_from_reim_ref", "reim4_extract_1blk_from_reim_avx", "reim4_save_1blk_to_reim_ref", "reim4_save_1blk_to_reim_avx", "reim4_vec_mat1col_product_ref", "reim4_vec_mat1col_product_avx2", "reim4_vec_mat2cols_product_ref", "reim4_vec_mat2cols_product_avx2", "reim4_convolution_ref"};
    static const uint64_t RN[] = {2, 16, 64, 1024};
    for (size_t i = 0; i < ARRAY_LEN(RN); i++)
      for (int cfg = DISP_NATIVE; cfg >= DISP_GENERIC; cfg--) {
        if (cfg == DISP_GENERIC && (i & 1)) continue;
        ops_recontent_case("C17 entry points", RNAMES, (int)ARRAY_LEN(RNAMES), RN[i], cfg, G.thorough ? 40 : 6, (unsigned)i, "same_buffers_other_data_calls");
      }
    // and from a thread with a small stack, at the largest dimensions
    for (int cfg = DISP_NATIVE; cfg >= DISP_GENERIC; cfg--) {
      ops_small_stack_case("C17 entry points", RNAMES, (int)ARRAY_LEN(RNAMES), 65536, cfg, 256, G.thorough ? 4 : 1, 0, "small_stack_calls");
      ops_small_stack_case("C17 entry points", RNAMES, (int)ARRAY_LEN(RNAMES), 16384, cfg, 256, G.thorough ? 4 : 2, 1, "small_stack_calls");
    }
  }
  // vectors of vectors of more than 4 GiB
  for (int avx = 0; avx <= 1; avx++)
    for (int slmode = 0; slmode <= 1; slmode++) {
      huge_rows_case(65536, 4100, avx, slmode, 0);
      huge_rows_case(16384, 16500, avx, slmode, 1);
      if (G.thorough) huge_rows_case(65536, 8200, avx, slmode, 2);
    }
}
