// C06 — reim/cplx FFT and iFFT equal the mathematical transform, in the documented order.
// Oracle: long-double O(m log m) evaluation at omega^(1+4 bitrev(j)), omega = exp(i pi/(2m)), validated on
// every case against direct Horner evaluation in __float128 at sampled outputs.
#include <pthread.h>
#include "lib.h"
#include "ops.h"
#include "oracle.h"

enum { L_REIM, L_CPLX };
enum { I_NATIVE, I_GENERIC, I_REF_DIRECT, I_AVX_DIRECT, I_BFS_REF, I_REC_REF, I_LEAF_REF, I_LEAF_AVX, I_BUILTIN_BUF, I_NAIVE, I_AVX2_ONLY, I_FMA_ONLY, N_IMPL };
// dispatch configuration (hook H1) under which the table of an implementation is created
static int impl_cfg(int impl) { return impl == I_GENERIC ? DISP_GENERIC : (impl == I_AVX2_ONLY ? DISP_AVX2_ONLY : (impl == I_FMA_ONLY ? DISP_FMA_ONLY : DISP_NATIVE)); }
static const char* impl_name[] = {"dispatch-native", "dispatch-generic", "ref-direct", "avx2-direct", "bfs16-ref", "rec16-ref", "leaf-ref", "leaf-avx", "builtin-buffers", "naive", "dispatch-avx2-only", "dispatch-fma-only"};
enum { X_RANDOM, X_IMPULSE, X_CONSTANT, X_RESONANT, X_DYNRANGE, X_INTEGER, X_TINY, X_HUGE, X_NEARMAX, N_XFAM };
static const char* xfam_name[] = {"random", "impulse", "constant", "resonant", "dynrange", "integer50", "scale2^-900", "scale2^+900", "one coefficient near DBL_MAX"};

// table cache: [layout][inverse][native]
static void* TAB[2][2][4][17];
static size_t TABSZ[2][2][4][17];
static int tables_built_in_this_process;
static void* get_table(int layout, int inverse, int native, uint64_t m) {
  unsigned k = ilog2(m);
  if (!TAB[layout][inverse][native][k]) {
    int saved = g_dispatch_native;
    set_dispatch(native);
    void* t;
    size_t sz;
    if (layout == L_REIM) {
      t = inverse ? (void*)new_reim_ifft_precomp((uint32_t)m, 0) : (void*)new_reim_fft_precomp((uint32_t)m, 0);
      sz = sizeof(REIM_FFT_PRECOMP) + 63 + ((2 * m * 8 + 63) & ~(size_t)63);
    } else {
      t = inverse ? (void*)new_cplx_ifft_precomp((uint32_t)m, 0) : (void*)new_cplx_fft_precomp((uint32_t)m, 0);
      sz = sizeof(CPLX_FFT_PRECOMP) + 63 + ((2 * m * 16 + 63) & ~(size_t)63);
    }
    set_dispatch(saved);
    tables_built_in_this_process = 1;
    TAB[layout][inverse][native][k] = t;
    TABSZ[layout][inverse][native][k] = sz;
  }
  return TAB[layout][inverse][native][k];
}

static int64_t force_resonant_j = -1;  // >= 0: the output index the resonant family concentrates its energy on
static void gen_input(rng_t* r, int fam, uint64_t m, double* re, double* im) {
  const long double pi = 3.141592653589793238462643383279502884197L;
  switch (fam) {
    case X_IMPULSE: {
      memset(re, 0, m * 8);
      memset(im, 0, m * 8);
      uint64_t pos;
      switch (rng_u64(r) % 5) {
        case 0: pos = 0; break;
        case 1: pos = m - 1; break;
        case 2: pos = m / 2; break;
        case 3: pos = m > 1 ? 1 : 0; break;
        default: pos = (uint64_t)rng_range(r, 0, (int64_t)m - 1);
      }
      if (rng_u64(r) & 1) re[pos] = (rng_u64(r) & 1) ? 1.0 : -3.5;
      else im[pos] = (rng_u64(r) & 1) ? 1.0 : -0.375;
      break;
    }
    case X_CONSTANT: {
      double c = (double)rng_range(r, 1, 1000) / 8.0, d = (double)rng_range(r, -1000, 1000) / 8.0;
      for (uint64_t i = 0; i < m; i++) {
        re[i] = c;
        im[i] = d;
      }
      break;
    }
    case X_RESONANT: {
      // x_n = conj(z^n) with z the evaluation point of output j: all the energy goes to one output
      uint64_t j = (uint64_t)rng_range(r, 0, (int64_t)m - 1);
      if (force_resonant_j >= 0) j = (uint64_t)force_resonant_j % m;
      uint64_t t = bitrev(j, ilog2(m));
      for (uint64_t n = 0; n < m; n++) {
        long double ang = pi * (long double)((1 + 4 * t) * n % (4 * m)) / (long double)(2 * m);
        re[n] = (double)cosl(ang);
        im[n] = (double)(-sinl(ang));
      }
      break;
    }
    case X_DYNRANGE:
      for (uint64_t i = 0; i < m; i++) {
        int e1 = (int)rng_range(r, -300, 300), e2 = (int)rng_range(r, -300, 300);
        if (rng_u64(r) & 3) e1 = e2 = (int)rng_range(r, -20, 20);
        re[i] = ldexp(rng_unit(r) - 0.5, e1);
        im[i] = ldexp(rng_unit(r) - 0.5, e2);
      }
      break;
    case X_INTEGER:
      for (uint64_t i = 0; i < m; i++) {
        re[i] = (double)rng_sbits(r, 50);
        im[i] = (double)rng_sbits(r, 50);
      }
      break;
    case X_TINY:
    case X_HUGE:
      // far from overflow/underflow of the transform itself (m * 2^900 < 2^1000; 2^-900 >> denormals)
      for (uint64_t i = 0; i < m; i++) {
        re[i] = ldexp(rng_unit(r) * 2 - 1, fam == X_TINY ? -900 : 900);
        im[i] = ldexp(rng_unit(r) * 2 - 1, fam == X_TINY ? -900 : 900);
      }
      break;
    case X_NEARMAX: {
      // "every finite input": one coefficient with both parts near the largest double, the rest of order one. Every exact output is
      // that coefficient times a root of unity plus O(m): modulus below 1.2e308 * sqrt(2) = 1.70e308 < DBL_MAX, so the transform is
      // finite - but a*(b+c)-style regroupings of the complex product (the sum of the two parts is 2.4e308) overflow
      for (uint64_t i = 0; i < m; i++) {
        re[i] = rng_unit(r) * 2 - 1;
        im[i] = rng_unit(r) * 2 - 1;
      }
      const uint64_t pos = (rng_u64(r) & 3) ? (uint64_t)rng_range(r, 0, (int64_t)m - 1) : (rng_u64(r) & 1 ? 0 : m - 1);
      const double c = 9.5e307 + rng_unit(r) * 2.5e307;
      const unsigned sg = (unsigned)(rng_u64(r) & 3);
      re[pos] = (sg & 1) ? -c : c;
      im[pos] = (sg & 2) ? -c * (0.9 + 0.1 * rng_unit(r)) : c * (0.9 + 0.1 * rng_unit(r));
      break;
    }
    default:
      for (uint64_t i = 0; i < m; i++) {
        re[i] = rng_unit(r) * 2 - 1;
        im[i] = rng_unit(r) * 2 - 1;
      }
  }
}

// runs the chosen implementation in place on `buf` (layout-specific); returns 0 if not applicable
static int run_impl(int layout, int impl, int inverse, uint64_t m, double* buf, gbuf_t* gomg_out) {
  double* re = buf;
  double* im = buf + m;
  switch (impl) {
    case I_NATIVE:
    case I_AVX2_ONLY:
    case I_FMA_ONLY:
    case I_GENERIC: {
      void* t = get_table(layout, inverse, impl_cfg(impl), m);
      if (layout == L_REIM) {
        if (inverse) reim_ifft((REIM_IFFT_PRECOMP*)t, buf);
        else reim_fft((REIM_FFT_PRECOMP*)t, buf);
      } else {
        if (inverse) cplx_ifft((CPLX_IFFT_PRECOMP*)t, buf);
        else cplx_fft((CPLX_FFT_PRECOMP*)t, buf);
      }
      return 1;
    }
    case I_NAIVE:
      // the library's own table-free recursive transforms (exported; the suite uses them as its reference)
      if (layout == L_REIM) {
        if (inverse) reim_naive_ifft(m, 0.25, re, im);
        else reim_naive_fft(m, 0.25, re, im);
      } else {
        if (inverse) cplx_ifft_naive((uint32_t)m, 0.25, (CPLX*)buf);
        else cplx_fft_naive((uint32_t)m, 0.25, (CPLX*)buf);
      }
      return 1;
    case I_BUILTIN_BUF: {
      // a table created with two built-in buffers: the data is transformed inside buffer 0 and buffer 1, then once
      // more in the caller's buffer; all three must agree bit for bit (the buffers must not overlap the twiddles)
      const size_t nb = 2 * m * 8;
      double* copy = malloc(nb);
      memcpy(copy, buf, nb);
      void* t;
      double *b0, *b1;
      if (layout == L_REIM) {
        t = inverse ? (void*)new_reim_ifft_precomp((uint32_t)m, 2) : (void*)new_reim_fft_precomp((uint32_t)m, 2);
        b0 = inverse ? reim_ifft_precomp_get_buffer(t, 0) : reim_fft_precomp_get_buffer(t, 0);
        b1 = inverse ? reim_ifft_precomp_get_buffer(t, 1) : reim_fft_precomp_get_buffer(t, 1);
      } else {
        t = inverse ? (void*)new_cplx_ifft_precomp((uint32_t)m, 2) : (void*)new_cplx_fft_precomp((uint32_t)m, 2);
        b0 = inverse ? cplx_ifft_precomp_get_buffer(t, 0) : cplx_fft_precomp_get_buffer(t, 0);
        b1 = inverse ? cplx_ifft_precomp_get_buffer(t, 1) : cplx_fft_precomp_get_buffer(t, 1);
      }
      memcpy(b0, copy, nb);
      memcpy(b1, copy, nb);
      for (int k = 0; k < 3; k++) {
        double* d = k == 0 ? b0 : (k == 1 ? b1 : buf);
        if (layout == L_REIM) { if (inverse) reim_ifft(t, d); else reim_fft(t, d); }
        else { if (inverse) cplx_ifft(t, d); else cplx_fft(t, d); }
      }
      if (memcmp(b0, buf, nb) || memcmp(b1, buf, nb)) viol("oracle", "transform inside a built-in buffer of the table differs from the transform in a caller buffer (m=%" PRIu64 " %s %s)", m, layout == L_REIM ? "reim" : "cplx", inverse ? "ifft" : "fft");
      free(copy);
      free(t);
      return 1;
    }
    case I_REF_DIRECT:
    case I_AVX_DIRECT: {
      void* t = get_table(layout, inverse, 1, m);
      const int avx = impl == I_AVX_DIRECT;
      if (layout == L_REIM) {
        if (inverse) (avx ? reim_ifft_avx2_fma : reim_ifft_ref)((REIM_IFFT_PRECOMP*)t, buf);
        else (avx ? reim_fft_avx2_fma : reim_fft_ref)((REIM_FFT_PRECOMP*)t, buf);
      } else {
        if (avx && m < 8) return 0;  // the library never selects the cplx AVX2 driver for m <= 4
        if (inverse) (avx ? cplx_ifft_avx2_fma : cplx_ifft_ref)((CPLX_IFFT_PRECOMP*)t, buf);
        else (avx ? cplx_fft_avx2_fma : cplx_fft_ref)((CPLX_FFT_PRECOMP*)t, buf);
      }
      return 1;
    }
    case I_BFS_REF:
    case I_REC_REF: {
      if (layout != L_REIM || m < 32) return 0;
      // exported breadth-first / recursive drivers with their own tables (both sides of the 2048 threshold)
      double* omg = gb_alloc(gomg_out, (4 * m + 64) * 8, 64, 0, 4096);
      double* w = omg;
      if (impl == I_BFS_REF) {
        if (inverse) fill_reim_ifft_bfs_16_omegas(m, 0.25, &w);
        else fill_reim_fft_bfs_16_omegas(m, 0.25, &w);
      } else {
        if (inverse) fill_reim_ifft_rec_16_omegas(m, 0.25, &w);
        else fill_reim_fft_rec_16_omegas(m, 0.25, &w);
      }
      if ((size_t)(w - omg) > 4 * m + 64) harness_fail("omega table larger than expected");
      double* rd = omg;
      if (impl == I_BFS_REF) {
        if (inverse) reim_ifft_bfs_16_ref(m, re, im, &rd);
        else reim_fft_bfs_16_ref(m, re, im, &rd);
      } else {
        if (inverse) reim_ifft_rec_16_ref(m, re, im, &rd);
        else reim_fft_rec_16_ref(m, re, im, &rd);
      }
      return 1;
    }
    default: {
      // leaves: 16/8/4/2-point kernels (the 16-point AVX ones are hand-written assembly) with tables
      // from the library's fill functions at entry power 1/4 (= the full transform of that size)
      const int avx = impl == I_LEAF_AVX;
      if (m > 16 || m < 2) return 0;
      double* omg = gb_alloc(gomg_out, 512 * 8, 64, 0, 4096);
      double* w = omg;
      if (layout == L_REIM) {
        if (avx && m == 2) return 0;
        switch (m) {
          case 16: inverse ? fill_reim_ifft16_omegas(0.25, &w) : fill_reim_fft16_omegas(0.25, &w); break;
          case 8: inverse ? fill_reim_ifft8_omegas(0.25, &w) : fill_reim_fft8_omegas(0.25, &w); break;
          case 4: inverse ? fill_reim_ifft4_omegas(0.25, &w) : fill_reim_fft4_omegas(0.25, &w); break;
          default: inverse ? fill_reim_ifft2_omegas(0.25, &w) : fill_reim_fft2_omegas(0.25, &w); break;
        }
        switch (m) {
          case 16: (inverse ? (avx ? reim_ifft16_avx_fma : reim_ifft16_ref) : (avx ? reim_fft16_avx_fma : reim_fft16_ref))(re, im, omg); break;
          case 8: (inverse ? (avx ? reim_ifft8_avx_fma : reim_ifft8_ref) : (avx ? reim_fft8_avx_fma : reim_fft8_ref))(re, im, omg); break;
          case 4: (inverse ? (avx ? reim_ifft4_avx_fma : reim_ifft4_ref) : (avx ? reim_fft4_avx_fma : reim_fft4_ref))(re, im, omg); break;
          default: (inverse ? reim_ifft2_ref : reim_fft2_ref)(re, im, omg); break;
        }
        return 1;
      }
      if (m != 16) return 0;
      extern void cplx_fft16_precomp(const double entry_pwr, CPLX** omg);
      extern void cplx_ifft16_precomp(const double entry_pwr, CPLX** omg);
      CPLX* cw = (CPLX*)omg;
      if (inverse) cplx_ifft16_precomp(0.25, &cw);
      else cplx_fft16_precomp(0.25, &cw);
      (inverse ? (avx ? cplx_ifft16_avx_fma : cplx_ifft16_ref) : (avx ? cplx_fft16_avx_fma : cplx_fft16_ref))(buf, omg);
      return 1;
    }
  }
}

static void fft_case(int layout, int impl, int inverse, uint64_t m, int fam, unsigned rep) {
  char key[128];
  snprintf(key, sizeof key, "%s_%s|%s,%s", layout == L_REIM ? "reim" : "cplx", inverse ? "ifft" : "fft", impl_name[impl], m <= 16 ? "m<=16" : (m <= 2048 ? "m<=2048" : "m>2048"));
  if (!case_begin(key, "m=%" PRIu64 " fam=%s rep=%u", m, xfam_name[fam], rep)) return;
  rng_t* r = crng();
  double* re = malloc(m * 8);
  double* im = malloc(m * 8);
  gen_input(r, fam, m, re, im);
  long double* lre = malloc(m * sizeof(long double));
  long double* lim = malloc(m * sizeof(long double));
  long double* ore = malloc(m * sizeof(long double));
  long double* oim = malloc(m * sizeof(long double));
  if (inverse) {
    // realistic iFFT input: the (rounded) forward transform of the generated vector
    for (uint64_t i = 0; i < m; i++) {
      lre[i] = re[i];
      lim[i] = im[i];
    }
    oracle_fft(m, lre, lim, ore, oim);
    if ((fam != X_DYNRANGE && fam != X_NEARMAX) || (fam == X_DYNRANGE && (rep & 1)))  // (near DBL_MAX: the vector itself, its forward transform times m would overflow)
      for (uint64_t i = 0; i < m; i++) {
        re[i] = (double)ore[i];
        im[i] = (double)oim[i];
      }
  }
  for (uint64_t i = 0; i < m; i++) {
    lre[i] = re[i];
    lim[i] = im[i];
  }
  if (inverse) oracle_ifft(m, lre, lim, ore, oim);
  else oracle_fft(m, lre, lim, ore, oim);
  // oracle validation + documented order, from the definition (float128 Horner), forward only
  if (!inverse && m <= 4096 && !G.valgrind) {  // (valgrind emulates x87 long double with 64-bit precision)
    long double en = 0;
    for (uint64_t i = 0; i < m; i++) en += ore[i] * ore[i] + oim[i] * oim[i];
    en = sqrtl(en);
    for (int t = 0; t < (m <= 256 ? 8 : 3); t++) {
      uint64_t j = (uint64_t)rng_range(r, 0, (int64_t)m - 1);
      long double hr, hi;
      oracle_eval_q(m, re, im, j, &hr, &hi);
      long double d = hypotl(hr - ore[j], hi - oim[j]);
      if (d > en * 0x1p-57L * (long double)(ilog2(m) + 2) + 1e-4900L) harness_fail("FFT oracle disagrees with float128 Horner evaluation (m=%" PRIu64 " j=%" PRIu64 ")", m, j);
      cnt("horner_validations", 1);
    }
  }
  // the call under test, on a guarded exact-size buffer
  gbuf_t gd, gomg;
  memset(&gomg, 0, sizeof gomg);
  double* buf = gb_alloc(&gd, 2 * m * 8, 8, 8 * (rep % 8), 4096);
  double* buf2 = malloc(2 * m * 8);
  for (int pass = 0; pass < 2; pass++) {
    if (layout == L_REIM) {
      memcpy(buf, re, m * 8);
      memcpy(buf + m, im, m * 8);
    } else
      for (uint64_t i = 0; i < m; i++) {
        buf[2 * i] = re[i];
        buf[2 * i + 1] = im[i];
      }
    uint64_t th0 = 0;
    void* tab = 0;
    size_t tabsz = 0;
    if (impl <= I_AVX_DIRECT || impl == I_AVX2_ONLY || impl == I_FMA_ONLY) {
      tab = get_table(layout, inverse, impl_cfg(impl), m);
      tabsz = TABSZ[layout][inverse][impl_cfg(impl)][ilog2(m)];
      th0 = hash_bytes(tab, tabsz, 1);
    }
    if (gomg.base) gb_free(&gomg);
    if (!run_impl(layout, impl, inverse, m, buf, &gomg)) {
      gb_free(&gd);
      if (gomg.base) gb_free(&gomg);
      free(buf2);
      goto done_skip;
    }
    if (tab && hash_bytes(tab, tabsz, 1) != th0) viol("snapshot", "precomputed table modified by the transform (m=%" PRIu64 ")", m);
    if (pass == 0) memcpy(buf2, buf, 2 * m * 8);
    else if (memcmp(buf2, buf, 2 * m * 8)) viol("history", "two calls on the same input gave different bits (m=%" PRIu64 ")", m);
  }
  {
    long double err = 0, nrm = 0;
    for (uint64_t i = 0; i < m; i++) {
      long double gr = layout == L_REIM ? buf[i] : buf[2 * i], gi = layout == L_REIM ? buf[m + i] : buf[2 * i + 1];
      err += (gr - ore[i]) * (gr - ore[i]) + (gi - oim[i]) * (gi - oim[i]);
      nrm += ore[i] * ore[i] + oim[i] * oim[i];
    }
    err = sqrtl(err);
    nrm = sqrtl(nrm);
    long double bound = 8.0L * (long double)(ilog2(m) + 1) * 0x1p-53L * nrm;
    long double slack = nrm * 0x1p-60L * (long double)(ilog2(m) + 2);  // the oracle's own rounding
    if (!G.valgrind && !(err <= bound + slack)) viol("oracle", "%s %s %s: m=%" PRIu64 " ||err||_2=%.4Lg > bound %.4Lg (||exact||_2=%.4Lg, fam=%s)", layout == L_REIM ? "reim" : "cplx", inverse ? "ifft" : "fft", impl_name[impl], m, err, bound, nrm, xfam_name[fam]);
    if (nrm > 0) gauge_max("worst_err_over_bound", (double)(err / (bound > 0 ? bound : 1)));
    sample("||err||/bound=%.3Lg", nrm > 0 && bound > 0 ? err / bound : 0.0L);
    long wh;
    if (gb_check(&gd, &wh)) viol("canary", "transform wrote outside its 2m-double buffer (%ld)", wh);
    if (gomg.base && gb_check(&gomg, &wh)) viol("canary", "omega fill wrote outside the table buffer (%ld)", wh);
    cnt("transforms_checked", 2);
    cntf("m:%" PRIu64, 1, m);
    cntf("impl:%s", 1, impl_name[impl]);
    gb_free(&gd);
    if (gomg.base) gb_free(&gomg);
    free(buf2);
    int nz = 0;
    for (uint64_t i = 0; i < m; i++) nz |= (re[i] != 0 || im[i] != 0);
    free(re); free(im); free(lre); free(lim); free(ore); free(oim);
    case_end(m >= 2 && nz);
    return;
  }
done_skip:
  free(re); free(im); free(lre); free(lim); free(ore); free(oim);
  cnt("not_applicable_combinations", 1);
  case_end(0);
}

// Tables built by several threads at the same moment — in a process that has not built any table yet when this is the
// first case it runs (each partition of the check is a fresh process and these cases come first) — must transform exactly
// like tables built one at a time: a lazily initialised helper shared by the constructors must be complete before use.
typedef struct {
  uint64_t m;
  int layout, inverse, native;
  void* t;
  pthread_barrier_t* bar;
} cctor_t;
static void* cctor_worker(void* arg) {
  cctor_t* c = arg;
  pthread_barrier_wait(c->bar);
  // (the dispatch configuration was set by the main thread before the threads were started)
  if (c->layout == L_REIM) c->t = c->inverse ? (void*)new_reim_ifft_precomp((uint32_t)c->m, 0) : (void*)new_reim_fft_precomp((uint32_t)c->m, 0);
  else c->t = c->inverse ? (void*)new_cplx_ifft_precomp((uint32_t)c->m, 0) : (void*)new_cplx_fft_precomp((uint32_t)c->m, 0);
  return 0;
}
static void run_table(int layout, int inverse, void* t, double* d) {
  if (layout == L_REIM) { if (inverse) reim_ifft(t, d); else reim_fft(t, d); }
  else { if (inverse) cplx_ifft(t, d); else cplx_fft(t, d); }
}
static void concurrent_construction_case(unsigned slot) {
  if (!case_begin("fft/ifft tables|built by 8 threads at once", "slot=%u", slot)) return;
  rng_t* r = crng();
  enum { T = 8 };
  const int cold = !tables_built_in_this_process;
  tables_built_in_this_process = 1;
  cctor_t c[T];
  pthread_t tid[T];
  pthread_barrier_t bar;
  pthread_barrier_init(&bar, 0, T);
  const int native = (int)(slot & 1) ^ 1;
  int saved = g_dispatch_native;
  set_dispatch(native);
  for (int t = 0; t < T; t++) {
    c[t].m = 1ull << (1 + rng_u64(r) % 13);
    c[t].layout = (t + (int)slot) & 1;   // cplx and reim tables built side by side
    c[t].inverse = (t >> 1) & 1;
    c[t].native = native;
    c[t].t = 0;
    c[t].bar = &bar;
    pthread_create(&tid[t], 0, cctor_worker, &c[t]);
  }
  for (int t = 0; t < T; t++) pthread_join(tid[t], 0);
  pthread_barrier_destroy(&bar);
  uint64_t bytes = 0;
  for (int t = 0; t < T; t++) {
    const uint64_t m = c[t].m;
    void* seq;
    if (c[t].layout == L_REIM) seq = c[t].inverse ? (void*)new_reim_ifft_precomp((uint32_t)m, 0) : (void*)new_reim_fft_precomp((uint32_t)m, 0);
    else seq = c[t].inverse ? (void*)new_cplx_ifft_precomp((uint32_t)m, 0) : (void*)new_cplx_fft_precomp((uint32_t)m, 0);
    double* x = malloc(2 * m * 8);
    double* y = malloc(2 * m * 8);
    for (uint64_t i = 0; i < 2 * m; i++) x[i] = y[i] = rng_unit(r) * 2 - 1;
    run_table(c[t].layout, c[t].inverse, c[t].t, x);
    run_table(c[t].layout, c[t].inverse, seq, y);
    if (memcmp(x, y, 2 * m * 8))
      viol("differential", "%s %s table (m=%" PRIu64 ", %s) built while %d threads were building tables%s transforms differently from a table built alone", c[t].layout == L_REIM ? "reim" : "cplx", c[t].inverse ? "ifft" : "fft", m, native ? "native" : "generic", T, cold ? " (first tables of the process)" : "");
    bytes += 2 * m * 8;
    free(x);
    free(y);
    free(seq);
    free(c[t].t);
  }
  set_dispatch(saved);
  cnt("tables_built_concurrently", T);
  if (cold) cnt("cold_process_constructions", 1);
  sample("8 tables built together%s; %" PRIu64 " output bytes identical to sequentially built tables", cold ? " as the first tables of the process" : "", bytes);
  case_end(1);
}

// table life cycles: tables of both layouts, both directions and assorted sizes are created and deleted in a random,
// non stack-like order; after every event each live table must still transform exactly like the long-lived table of the
// same kind (a cache or pool behind the constructors must not hand out, free or overwrite storage that is in use)
static void table_lifecycle_case(int native, unsigned rep) {
  if (!case_begin(native ? "fft/ifft tables|create/delete interleaved" : "fft/ifft tables|create/delete interleaved,generic", "rep=%u", rep)) return;
  rng_t* r = crng();
  enum { SLOTS = 8 };
  struct { void* t; int layout, inverse; uint64_t m; } s[SLOTS];
  memset(s, 0, sizeof s);
  static const uint64_t LM[] = {2, 8, 16, 32, 256, 2048, 4096, 16384};
  const uint64_t m1 = LM[rng_u64(r) % ARRAY_LEN(LM)], m2 = LM[rng_u64(r) % ARRAY_LEN(LM)];
  int saved = g_dispatch_native;
  uint64_t checks = 0, events = 0;
  for (int step = 0; step < 48; step++) {
    const int k = (int)(rng_u64(r) % SLOTS);
    const unsigned act = (unsigned)(rng_u64(r) % 8);
    set_dispatch(native);
    if (!s[k].t) {
      s[k].m = act < 4 ? m1 : (act < 7 ? m2 : LM[rng_u64(r) % ARRAY_LEN(LM)]);
      s[k].layout = (int)(rng_u64(r) & 1);
      s[k].inverse = (int)(rng_u64(r) & 1);
      const uint32_t nb = (uint32_t)(rng_u64(r) % 3);  // with 0, 1 or 2 built-in buffers
      if (s[k].layout == L_REIM) s[k].t = s[k].inverse ? (void*)new_reim_ifft_precomp((uint32_t)s[k].m, nb) : (void*)new_reim_fft_precomp((uint32_t)s[k].m, nb);
      else s[k].t = s[k].inverse ? (void*)new_cplx_ifft_precomp((uint32_t)s[k].m, nb) : (void*)new_cplx_fft_precomp((uint32_t)s[k].m, nb);
      events++;
    } else if (act < 3) {
      free(s[k].t);  // delete_*_precomp is free()
      s[k].t = 0;
      events++;
    }
    set_dispatch(saved);
    for (int q = 0; q < SLOTS; q++) {
      if (!s[q].t || (rng_u64(r) & 1)) continue;
      const uint64_t m = s[q].m;
      double* x = malloc(2 * m * 8);
      double* y = malloc(2 * m * 8);
      for (uint64_t i = 0; i < 2 * m; i++) x[i] = y[i] = rng_unit(r) * 2 - 1;
      run_table(s[q].layout, s[q].inverse, s[q].t, x);
      run_table(s[q].layout, s[q].inverse, get_table(s[q].layout, s[q].inverse, native, m), y);
      if (memcmp(x, y, 2 * m * 8)) {
        viol("differential", "%s %s table (m=%" PRIu64 ", %s) transforms differently from the long-lived table of the same kind after %" PRIu64 " create/delete events of other tables", s[q].layout == L_REIM ? "reim" : "cplx", s[q].inverse ? "ifft" : "fft", m, native ? "native" : "generic", events);
        step = 1000;
        free(x); free(y);
        break;
      }
      checks++;
      free(x);
      free(y);
    }
  }
  for (int q = 0; q < SLOTS; q++) free(s[q].t);
  cnt("table_lifecycle_checks", checks);
  sample("%" PRIu64 " create/delete events on 8 slots, %" PRIu64 " transforms identical to the long-lived tables", events, checks);
  case_end(checks > 0);
}

// the *_simple transforms keep one table per dimension behind the scenes: sequences of calls that change entry point and
// dimension (returning to earlier ones: A, B, A), including the smallest and the largest dimension, must give the bits of
// the table-based transform every time
static void simple_sequence_case(unsigned seq) {
  if (!case_begin("reim/cplx fft/ifft_simple|call sequences", "sequence=%u", seq)) return;
  rng_t* r = crng();
  static const uint64_t SM[] = {1, 2, 4, 16, 64, 1024, 32768, 65536};
  // three dimensions dominate a sequence so that it keeps coming back to them
  uint64_t dims[3];
  for (int i = 0; i < 3; i++) dims[i] = SM[rng_u64(r) % ARRAY_LEN(SM)];
  if (seq % 4 == 0) { dims[0] = 65536; dims[1] = 1; }
  if (seq % 4 == 1) { dims[0] = 32768; dims[1] = 1; dims[2] = 65536; }
  uint64_t calls = 0;
  const int steps = 14;
  for (int st = 0; st < steps; st++) {
    const uint64_t m = (rng_u64(r) % 5) ? dims[rng_u64(r) % 3] : SM[rng_u64(r) % ARRAY_LEN(SM)];
    const int layout = (int)(rng_u64(r) & 1), inverse = (int)(rng_u64(r) & 1);
    if (m > 4096 && st > 5 && (seq & 3) > 1) continue;  // keep most sequences cheap
    double* x = malloc(2 * m * 8);
    double* y = malloc(2 * m * 8);
    for (uint64_t i = 0; i < 2 * m; i++) x[i] = y[i] = rng_unit(r) * 2 - 1;
    if (layout == L_REIM) { if (inverse) reim_ifft_simple((uint32_t)m, x); else reim_fft_simple((uint32_t)m, x); }
    else { if (inverse) cplx_ifft_simple((uint32_t)m, x); else cplx_fft_simple((uint32_t)m, x); }
    run_table(layout, inverse, get_table(layout, inverse, 1, m), y);
    calls++;
    if (memcmp(x, y, 2 * m * 8)) {
      viol("differential", "%s_%s_simple(m=%" PRIu64 ") at step %d of a call sequence differs from the table-based transform", layout == L_REIM ? "reim" : "cplx", inverse ? "ifft" : "fft", m, st);
      free(x); free(y);
      break;
    }
    free(x);
    free(y);
  }
  cnt("simple_sequence_calls", calls);
  sample("%" PRIu64 " *_simple calls alternating entry points and dimensions (%" PRIu64 ", %" PRIu64 ", %" PRIu64 ", ...) equal to the table-based transforms", calls, dims[0], dims[1], dims[2]);
  case_end(calls > 0);
}

void run_C06(void) {
  const int th = G.thorough;
  // must stay first: see concurrent_construction_case
  for (unsigned slot = 0; slot < (unsigned)(th ? 40 : 8) * (unsigned)G.nparts; slot++) concurrent_construction_case(slot);
  for (unsigned k = 0; k <= 16; k++) {
    const uint64_t m = 1ull << k;
    const unsigned reps = (G.valgrind ? 1 : (th ? (m <= 2048 ? 60 : (m <= 16384 ? 12 : 5)) : (m <= 2048 ? 4 : 2)));
    for (int layout = 0; layout < 2; layout++)
      for (int inverse = 0; inverse < 2; inverse++)
        for (int impl = 0; impl < N_IMPL; impl++)
          for (int fam = 0; fam < N_XFAM; fam++)
            for (unsigned rep = 0; rep < reps; rep++) {
              if (!th && m >= 8192 && impl >= I_REF_DIRECT && (fam % 2) != (int)(k % 2)) continue;  // quick: half the families on the largest sizes
              if ((impl == I_BFS_REF || impl == I_REC_REF) && (layout != L_REIM || m < 32 || m > 8192)) continue;
              if ((impl == I_LEAF_REF || impl == I_LEAF_AVX) && m > 16) continue;
              fft_case(layout, impl, inverse, m, fam, rep);
            }
  }
  // resonant inputs on the outputs where table generators have their special cases: the first and last blocks, both sides of the
  // half and of the quarter (a single imprecise twiddle only shows when the energy sits on an output that uses it); large m
  {
    static const uint64_t RM[] = {65536, 16384, 4096};
    for (size_t mi = 0; mi < (th ? 3u : 2u); mi++)
      for (int layout = 0; layout < 2; layout++)
        for (int inverse = 0; inverse < (th ? 2 : 1); inverse++) {
          const uint64_t m = RM[mi];
          const int64_t centres[] = {0, (int64_t)m, (int64_t)(m / 2), (int64_t)(m / 4), (int64_t)(3 * m / 4)};
          for (size_t c = 0; c < ARRAY_LEN(centres); c++)
            for (int64_t d = (c == 0 ? 0 : -48); d < (c == 1 ? 0 : 48); d++) {
              force_resonant_j = centres[c] + d;
              fft_case(layout, I_NATIVE, inverse, m, X_RESONANT, 900000 + (unsigned)force_resonant_j);
            }
        }
    force_resonant_j = -1;
  }
  for (int native = 1; native >= 0; native--)
    for (unsigned rep = 0; rep < (th ? 300u : 16u); rep++) table_lifecycle_case(native, rep);
  for (unsigned seq = 0; seq < (th ? 600u : 48u); seq++) simple_sequence_case(seq);
  {
    static const char* const CNAMES[] = {"reim_fft", "reim_ifft", "cplx_fft", "cplx_ifft", "reim_fft_ref", "reim_ifft_ref", "cplx_fft_ref", "cplx_ifft_ref", "reim_fft_avx2_fma", "reim_ifft_avx2_fma", "cplx_fft_avx2_fma", "cplx_ifft_avx2_fma"};
    static const uint64_t CNS[] = {8, 64, 2048, 8192, 65536};
    for (size_t i = 0; i < ARRAY_LEN(CNS); i++)
      for (int cfg = DISP_NATIVE; cfg >= DISP_GENERIC; cfg--)
        for (unsigned rep = 0; rep < (th ? 5u : 1u); rep++) {
          if (!th && CNS[i] > 4096 && cfg == DISP_GENERIC) continue;
          ops_concurrent_case("C06 entry points", CNAMES, (int)ARRAY_LEN(CNAMES), CNS[i], cfg, CNS[i] <= 256 ? 8 : 4, rep, "concurrent_entry_calls");
        }
  }
  // modules / tables created, used and destroyed in random order, several alive at once
  for (unsigned rep = 0; rep < (G.thorough ? 240u : 24u); rep++)
    ops_lifecycle_case("C06 objects", LKM_REIM_FFT | LKM_REIM_IFFT | LKM_CPLX_FFT | LKM_CPLX_IFFT, (rep % 4) == 3 ? DISP_GENERIC : DISP_NATIVE, 160, 0, rep, "lifecycle_uses");
  // the entry points of this property called a second time on the SAME buffers holding other data (new values, two limbs exchanged,
  // one word moved between limbs): must equal a fresh call on that data (results or operands remembered by address)
  {
    static const char* const RNAMES[] = {"reim_fft", "reim_ifft", "cplx_fft", "cplx_ifft", "reim_fft_simple", "reim_ifft_simple", "cplx_fft_simple", "cplx_ifft_simple"};
    static const uint64_t RN[] = {2, 16, 64, 1024};
    for (size_t i = 0; i < ARRAY_LEN(RN); i++)
      for (int cfg = DISP_NATIVE; cfg >= DISP_GENERIC; cfg--) {
        if (cfg == DISP_GENERIC && (i & 1)) continue;
        ops_recontent_case("C06 entry points", RNAMES, (int)ARRAY_LEN(RNAMES), RN[i], cfg, G.thorough ? 40 : 6, (unsigned)i, "same_buffers_other_data_calls");
      }
    // and from a thread with a small stack, at the largest dimensions
    for (int cfg = DISP_NATIVE; cfg >= DISP_GENERIC; cfg--) {
      ops_small_stack_case("C06 entry points", RNAMES, (int)ARRAY_LEN(RNAMES), 65536, cfg, 256, G.thorough ? 4 : 1, 0, "small_stack_calls");
      ops_small_stack_case("C06 entry points", RNAMES, (int)ARRAY_LEN(RNAMES), 16384, cfg, 256, G.thorough ? 4 : 2, 1, "small_stack_calls");
    }
  }
  // several threads creating, using and destroying their own modules / tables at the same time
  for (unsigned rep = 0; rep < (G.thorough ? 60u : 8u); rep++)
    ops_concurrent_lifecycle_case("C06 objects", LKM_REIM_FFT | LKM_REIM_IFFT | LKM_CPLX_FFT | LKM_CPLX_IFFT, (rep % 4) == 3 ? DISP_GENERIC : DISP_NATIVE, rep & 1 ? 8 : 4, 120, rep, "concurrent_lifecycle_uses");
}
