// q120 helpers shared by C03 / C04 / C10: operand generators per layout and the product-kernel table.
#ifndef VP_Q120H_H
#define VP_Q120H_H
#include "lib.h"
#include "oracle.h"

// K_BBC_OLD / K_X2_2COLS_OLD: exported kernels kept "for history" (one implementation each: ref resp. avx2)
typedef enum { K_BAA, K_BBB, K_BBC, K_X2_1COL, K_X2_2COLS, K_BBC_OLD, K_X2_2COLS_OLD, N_KERNELS } q120_kernel_t;
// 1 when kernel k exists in the ref (avx2=0) / avx2 (avx2=1) flavour
static inline int q120_kernel_has(q120_kernel_t k, int avx2) { return k == K_BBC_OLD ? !avx2 : (k == K_X2_2COLS_OLD ? avx2 : 1); }
extern const char* const q120_kernel_name[N_KERNELS];

// operand families
enum {
  QF_RANDOM,       // canonical residues (< q)
  QF_NONCANON,     // arbitrary words of the layout (unreduced representatives)
  QF_ALLMAX,       // every word at the layout's maximum (2^32-1 for a / c words, 2^64-1 for b)
  QF_ALTERNATE,    // max / min alternating
  QF_SINGLEMAX,    // one maximal term, others zero
  QF_NEARMULT,     // t*q - 1 and t*q*2^j - 1: just below multiples of the primes
  QF_WORD32,       // every word below 2^32 (32-bit data in 64-bit lanes), uniformly: half of them have bit 31 set
  QF_WORD32MAX,    // every word 2^32 - 1
  QF_MIXEDWIDTH,   // per element: all four words below 2^16, below 2^32, below 2^48 or full width
  QF_HIGH32,       // every word a multiple of 2^32 (low half zero, high half random): what k<<32 looks like
  QF_POW2,         // every word of the vector the same power of two (sums of partial products that are exactly a power of two)
  QF_SPARSE,       // mostly zero: a single maximal element at the last / a random position, a zero first half, zero blocks of 1024 elements
  QF_LANESPLIT,    // the four lanes (primes) of every element have different widths: one lane below 2^32 in EVERY element, the others wide
  QF_N
};
extern const char* const q120_fam_name[QF_N];

// fills `n` q120a elements (4 x uint64 < 2^32 each)
void q120_gen_a(rng_t* r, int fam, uint64_t n, uint64_t* x);
// fills `n` q120b elements (4 x uint64)
void q120_gen_b(rng_t* r, int fam, uint64_t n, uint64_t* x);
// fills `n` q120c elements (8 x uint32: per prime (v mod q, v*2^32 mod q), possibly non-canonical words)
void q120_gen_c(rng_t* r, int fam, uint64_t n, uint32_t* y);

// runs kernel `k` (ref or avx2) with `ell` terms on guarded exact-size buffers and compares every output lane
// with the 128-bit oracle. `x`/`y` operand families as above. Returns number of lanes compared.
uint64_t q120_product_check(q120_kernel_t k, int avx2, uint64_t ell, int famx, int famy, rng_t* r, unsigned mis);

// T threads build ntt+intt tables of random sizes at a barrier; worst-case transforms through them are compared (modulo
// each prime) with the sequentially built tables seq_ntt[log2 n] / seq_intt[log2 n]. Reports violations itself; returns lanes compared.
uint64_t q120_concurrent_build_check(int T, rng_t* r, q120_ntt_precomp* const* seq_ntt, q120_ntt_precomp* const* seq_intt);
// every length in [ell0, ell1]: reference vs AVX2 flavour (historical kernels vs their successors), congruent modulo each prime
uint64_t q120_pairwise_ell_check(q120_kernel_t k0, uint64_t ell0, uint64_t ell1, int famx, int famy, rng_t* r);
// all product kernels from T threads at once, private operands; violations are reported inside; returns wrong results
uint64_t q120_concurrent_kernel_check(int T, rng_t* r, int iters, uint64_t* calls);

#endif
