// C18 — read-only operands are never modified.
// Monitors: byte snapshots of every source buffer (including stride padding) around every catalogue call;
// hash of every byte of the modules / precomputed tables before and after each batch of calls; in the
// "ro" build the modules and tables additionally live in PROT_READ pages (a transient write faults).
#include "ops.h"
#include "roalloc.h"

static void batch_case(uint64_t N, int native, unsigned batch, unsigned seeds) {
  char key[96];
  snprintf(key, sizeof key, "catalogue-batch|%s%s", native ? "native" : "generic", ro_available() ? ",ro-tables" : "");
  if (!case_begin(key, "N=%" PRIu64 " disp=%s batch=%u seeds=%u", N, native ? "native" : "generic", batch, seeds)) return;
  ro_capture(1);
  env_t* env = env_create(N, native);
  ro_capture(0);
  uint64_t tb = 0;
  const uint64_t h0 = env_hash(env, &tb), rh0 = ro_hash();
  size_t robytes = ro_protect();
  if (ro_available()) {
    cnt("ro_protected_bytes", robytes);
    cnt("ro_protected_allocations", ro_regions());
  }
  uint64_t calls = 0, srcb = 0;
  for (int oi = 0; oi < N_CAT_OPS; oi++) {
    const opdef_t* o = &OPS[oi];
    if (!native && (o->flags & (OPF_NTT120 | OPF_AVX | OPF_KERNEL | OPF_SIMPLE))) continue;
    for (unsigned sd = 0; sd < seeds; sd++) {
      opres_t r;
      op_exec(o, env, mix64(G.seed * 77 + batch * 1009 + sd), (int)(sd & 3), sd + batch, MON_CANARY | MON_SNAPSHOT, &r);
      if (r.skipped) continue;
      calls++;
      srcb += r.src_bytes;
      if (r.src_modified) viol("snapshot", "%s [%s] N=%" PRIu64 " %s: %s", o->name, r.shape, N, native ? "native" : "generic", r.msg);
      if (r.canary_bad) viol("canary", "%s [%s]: %s", o->name, r.shape, r.msg);
      if (r.src_bytes) cntf("snapshotted:%s", 1, o->name);
    }
    // after all the calls of one entry point: the shared objects are bit-for-bit what they were at creation
    uint64_t t2;
    if (env_hash(env, &t2) != h0) {
      viol("table", "a module / precomputed table changed while calling %s (N=%" PRIu64 " %s)", o->name, N, native ? "native" : "generic");
      break;
    }
    cnt("table_bytes_compared", tb);
  }
  ro_unprotect();
  if (ro_available() && ro_hash() != rh0) viol("table", "an allocation made at module/table creation changed during the batch (N=%" PRIu64 ")", N);
  env_destroy(env);
  cnt("calls_snapshotted", calls);
  cnt("source_bytes_compared", srcb);
  cntf("N:%" PRIu64, 1, N);
  sample("%" PRIu64 " calls, %" PRIu64 " source bytes compared, %" PRIu64 " table bytes hashed per entry point", calls, srcb, tb);
  case_end(calls > 0);
}

// in-place calls with res_size < a_size: the limbs res_size..a_size-1 of the aliased buffer are not outputs; they are
// source data and must be bit-for-bit unchanged (stride padding included)
static void inplace_tail_case(uint64_t N, MODULE_TYPE mt, int native, int which, uint64_t rs, uint64_t as, unsigned slc, unsigned rep) {
  static const char* nm[] = {"vec_znx_copy", "vec_znx_negate", "vec_znx_rotate", "vec_znx_automorphism", "vec_znx_normalize_base2k", "vec_znx_add(res==a)", "vec_znx_sub(res==b)", "vec_znx_big_rotate", "vec_znx_big_automorphism", "vec_znx_big_add(res==a)"};
  char key[128];
  snprintf(key, sizeof key, "%s(in place, res_size<a_size)|%s%s", nm[which], mt == NTT120 ? "ntt120" : "fft64", native ? "" : ",generic");
  if (!case_begin(key, "N=%" PRIu64 " res=%" PRIu64 " a=%" PRIu64 " sl=%u rep=%u", N, rs, as, slc, rep)) return;
  rng_t* r = crng();
  const MODULE* mod = get_module(N, mt, native);
  const int big = which >= 7;
  zvec_t X, B;
  zvec_alloc(&X, N, as, big ? N : stride_choice(N, slc), 8 * (rep % 8));
  zvec_alloc(&B, N, 2, N, 8);
  for (uint64_t l = 0; l < as; l++)
    for (uint64_t i = 0; i < N; i++) zvec_limb(&X, l)[i] = rng_sbits(r, 60);
  for (uint64_t i = 0; i < 2 * N; i++) B.p[i] = rng_sbits(r, 60);
  // snapshot of everything from limb rs on (limb contents and padding)
  snap_t tail;
  zvec_t T = X;  // view used only for (un)poisoning inside zvec_snap
  (void)T;
  snap_t whole;
  zvec_snap(&whole, &X);
  const size_t off = (size_t)(rs * X.sl) * 8;
  gbuf_t gt;
  uint8_t* tmp = gb_alloc(&gt, vec_znx_normalize_base2k_tmp_bytes(mod), 8, 8, 4096);
  const int64_t p = rng_sbits(r, 30) | (which == 3 || which == 8);
  switch (which) {
    case 0: vec_znx_copy(mod, X.p, rs, X.sl, X.p, as, X.sl); break;
    case 1: vec_znx_negate(mod, X.p, rs, X.sl, X.p, as, X.sl); break;
    case 2: vec_znx_rotate(mod, p, X.p, rs, X.sl, X.p, as, X.sl); break;
    case 3: vec_znx_automorphism(mod, p, X.p, rs, X.sl, X.p, as, X.sl); break;
    case 4: vec_znx_normalize_base2k(mod, 1 + (uint64_t)(rep % 62), X.p, rs, X.sl, X.p, as, X.sl, tmp); break;
    case 5: vec_znx_add(mod, X.p, rs, X.sl, X.p, as, X.sl, B.p, 2, B.sl); break;
    case 6: vec_znx_sub(mod, X.p, rs, X.sl, B.p, 2, B.sl, X.p, as, X.sl); break;
    case 7: vec_znx_big_rotate(mod, p, (VEC_ZNX_BIG*)X.p, rs, (VEC_ZNX_BIG*)X.p, as); break;
    case 8: vec_znx_big_automorphism(mod, p, (VEC_ZNX_BIG*)X.p, rs, (VEC_ZNX_BIG*)X.p, as); break;
    default: vec_znx_big_add(mod, (VEC_ZNX_BIG*)X.p, rs, (VEC_ZNX_BIG*)X.p, as, (VEC_ZNX_BIG*)B.p, 2);
  }
  // compare the tail [rs*sl, end) of the aliased buffer with the snapshot
  {
    snap_t now;
    zvec_snap(&now, &X);
    // the normalisation reads the dropped limbs (carry propagation) but must not write them either
    if (now.n > off && memcmp(now.copy + off, whole.copy + off, now.n - off)) {
      size_t i = off;
      while (now.copy[i] == whole.copy[i]) i++;
      viol("snapshot", "%s in place with res_size=%" PRIu64 " < a_size=%" PRIu64 ": source limb %zu (not part of the output) was modified at byte %zu of the buffer (N=%" PRIu64 ")", nm[which], rs, as, i / 8 / (size_t)X.sl, i, N);
    }
    free(now.copy);
    free(whole.copy);
    (void)tail;
  }
  char msg[160];
  long wh;
  if (zvec_check(&X, msg, sizeof msg) || zvec_check(&B, msg, sizeof msg) || gb_check(&gt, &wh)) viol("canary", "%s (in place): a buffer was written outside its extent", nm[which]);
  cnt("inplace_tail_checks", 1);
  cnt("source_bytes_compared", (as - rs) * N * 8);
  sample("limbs %" PRIu64 "..%" PRIu64 " of the aliased source unchanged", rs, as - 1);
  gb_free(&gt);
  zvec_free(&X);
  zvec_free(&B);
  case_end(1);
}

void run_C18(void) {
  const int th = G.thorough;
  if (!ro_available()) {
    unsigned ctr = 0;
    for (size_t ni = 0; ni < N_ALL_N; ni++)
      for (int which = 0; which < 10; which++)
        for (int cfg = 0; cfg < 3; cfg++) {
          if (cfg == 2 && which >= 7) continue;
          for (uint64_t as = 1; as <= 4; as++)
            for (uint64_t rs = 0; rs < as; rs++) {
              ctr++;
              if (ALL_N[ni] > 64 && (mix64(ctr) % (th ? 4 : 16))) continue;
              inplace_tail_case(ALL_N[ni], cfg == 2 ? NTT120 : FFT64, cfg != 1, which, rs, as, ctr % 4, 0);
            }
        }
  }
  for (size_t ni = 0; ni < N_ALL_N; ni++) {
    const uint64_t N = ALL_N[ni];
    const unsigned batches = th ? (N <= 1024 ? 200 : (N <= 8192 ? 40 : 12)) : (N <= 1024 ? 6 : 2);
    for (unsigned b = 0; b < batches; b++)
      for (int native = 1; native >= 0; native--) batch_case(N, native, b, N <= 4096 ? 4 : 2);
  }
}
