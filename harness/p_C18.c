// C18 — read-only operands are never modified.
// Monitors: byte snapshots of every source buffer (including stride padding) around every catalogue call;
// hash of every byte of the modules / precomputed tables before and after each batch of calls; in the
// "ro" build the modules and tables additionally live in PROT_READ pages (a transient write faults).
#include <pthread.h>

#include "ops.h"
#include "roalloc.h"

typedef struct {
  uint64_t N;
  int native;
  unsigned batch, seeds;
  env_t* env;
  uint64_t h0, tb, calls, srcb;
} batch_t;
static void* batch_calls(void* arg) {
  batch_t* B = arg;
  const uint64_t N = B->N;
  const int native = B->native;
  const unsigned batch = B->batch, seeds = B->seeds;
  env_t* env = B->env;
  for (int oi = 0; oi < N_CAT_OPS; oi++) {
    const opdef_t* o = &OPS[oi];
    if (!native && (o->flags & (OPF_NTT120 | OPF_AVX | OPF_KERNEL | OPF_SIMPLE))) continue;
    for (unsigned sd = 0; sd < seeds; sd++) {
      opres_t r;
      op_exec(o, env, mix64(G.seed * 77 + batch * 1009 + sd + N * 131 + (uint64_t)oi * 7), (int)(sd & 3), sd + batch, MON_CANARY | MON_SNAPSHOT, &r);
      if (r.skipped) continue;
      B->calls++;
      B->srcb += r.src_bytes;
      if (r.src_modified) viol("snapshot", "%s [%s] N=%" PRIu64 " %s: %s", o->name, r.shape, N, native ? "native" : "generic", r.msg);
      if (r.canary_bad) viol("canary", "%s [%s]: %s", o->name, r.shape, r.msg);
      if (r.src_bytes) cntf("snapshotted:%s", 1, o->name);
    }
    // after all the calls of one entry point: the shared objects are bit-for-bit what they were at creation
    uint64_t t2;
    if (env_hash(env, &t2) != B->h0) {
      viol("table", "a module / precomputed table changed while calling %s (N=%" PRIu64 " %s)", o->name, N, native ? "native" : "generic");
      break;
    }
    cnt("table_bytes_compared", B->tb);
  }
  return 0;
}
static void batch_case(uint64_t N, int native, unsigned batch, unsigned seeds) {
  char key[128];
  // every third batch makes its calls from a thread other than the one that created the module and the tables (and that thread
  // exits afterwards): an object must not record who uses it
  const int foreign = (batch % 3) == 2;
  snprintf(key, sizeof key, "catalogue-batch|%s%s%s", native ? "native" : "generic", ro_available() ? ",ro-tables" : "", foreign ? ",called from another thread than the creator" : "");
  if (!case_begin(key, "N=%" PRIu64 " disp=%s batch=%u seeds=%u", N, native ? "native" : "generic", batch, seeds)) return;
  ro_capture(1);
  env_t* env = env_create(N, native);
  ro_capture(0);
  uint64_t tb = 0;
  const uint64_t h0 = env_hash(env, &tb), rh0 = ro_hash();
  size_t robytes = ro_protect();
  if (ro_available()) {
    cnt("ro_protected_bytes", robytes);
    cnt("ro_protected_allocations", ro_regions());
  }
  batch_t B = {N, native, batch, seeds, env, h0, tb, 0, 0};
  if (foreign) {
    pthread_t t;
    pthread_create(&t, 0, batch_calls, &B);
    pthread_join(t, 0);
    cnt("batches_called_from_another_thread", 1);
  } else
    batch_calls(&B);
  const uint64_t calls = B.calls, srcb = B.srcb;
  ro_unprotect();
  if (ro_available() && ro_hash() != rh0) viol("table", "an allocation made at module/table creation changed during the batch (N=%" PRIu64 ")", N);
  env_destroy(env);
  cnt("calls_snapshotted", calls);
  cnt("source_bytes_compared", srcb);
  cntf("N:%" PRIu64, 1, N);
  sample("%" PRIu64 " calls, %" PRIu64 " source bytes compared, %" PRIu64 " table bytes hashed per entry point", calls, srcb, tb);
  case_end(calls > 0);
}

// in-place calls with res_size < a_size: the limbs res_size..a_size-1 of the aliased buffer are not outputs; they are
// source data and must be bit-for-bit unchanged (stride padding included)
static void inplace_tail_case(uint64_t N, MODULE_TYPE mt, int native, int which, uint64_t rs, uint64_t as, unsigned slc, unsigned rep) {
  static const char* nm[] = {"vec_znx_copy", "vec_znx_negate", "vec_znx_rotate", "vec_znx_automorphism", "vec_znx_normalize_base2k", "vec_znx_add(res==a)", "vec_znx_sub(res==b)", "vec_znx_big_rotate", "vec_znx_big_automorphism", "vec_znx_big_add(res==a)"};
  char key[128];
  snprintf(key, sizeof key, "%s(in place, res_size<a_size)|%s%s", nm[which], mt == NTT120 ? "ntt120" : "fft64", native ? "" : ",generic");
  if (!case_begin(key, "N=%" PRIu64 " res=%" PRIu64 " a=%" PRIu64 " sl=%u rep=%u", N, rs, as, slc, rep)) return;
  rng_t* r = crng();
  const MODULE* mod = get_module(N, mt, native);
  const int big = which >= 7;
  zvec_t X, B;
  zvec_alloc(&X, N, as, big ? N : stride_choice(N, slc), 8 * (rep % 8));
  zvec_alloc(&B, N, 2, N, 8);
  for (uint64_t l = 0; l < as; l++)
    for (uint64_t i = 0; i < N; i++) zvec_limb(&X, l)[i] = rng_sbits(r, 60);
  for (uint64_t i = 0; i < 2 * N; i++) B.p[i] = rng_sbits(r, 60);
  // snapshot of everything from limb rs on (limb contents and padding)
  snap_t tail;
  zvec_t T = X;  // view used only for (un)poisoning inside zvec_snap
  (void)T;
  snap_t whole;
  zvec_snap(&whole, &X);
  const size_t off = (size_t)(rs * X.sl) * 8;
  gbuf_t gt;
  uint8_t* tmp = gb_alloc(&gt, vec_znx_normalize_base2k_tmp_bytes(mod), 8, 8, 4096);
  const int64_t p = rng_sbits(r, 30) | (which == 3 || which == 8);
  switch (which) {
    case 0: vec_znx_copy(mod, X.p, rs, X.sl, X.p, as, X.sl); break;
    case 1: vec_znx_negate(mod, X.p, rs, X.sl, X.p, as, X.sl); break;
    case 2: vec_znx_rotate(mod, p, X.p, rs, X.sl, X.p, as, X.sl); break;
    case 3: vec_znx_automorphism(mod, p, X.p, rs, X.sl, X.p, as, X.sl); break;
    case 4: vec_znx_normalize_base2k(mod, 1 + (uint64_t)(rep % 62), X.p, rs, X.sl, X.p, as, X.sl, tmp); break;
    case 5: vec_znx_add(mod, X.p, rs, X.sl, X.p, as, X.sl, B.p, 2, B.sl); break;
    case 6: vec_znx_sub(mod, X.p, rs, X.sl, B.p, 2, B.sl, X.p, as, X.sl); break;
    case 7: vec_znx_big_rotate(mod, p, (VEC_ZNX_BIG*)X.p, rs, (VEC_ZNX_BIG*)X.p, as); break;
    case 8: vec_znx_big_automorphism(mod, p, (VEC_ZNX_BIG*)X.p, rs, (VEC_ZNX_BIG*)X.p, as); break;
    default: vec_znx_big_add(mod, (VEC_ZNX_BIG*)X.p, rs, (VEC_ZNX_BIG*)X.p, as, (VEC_ZNX_BIG*)B.p, 2);
  }
  // compare the tail [rs*sl, end) of the aliased buffer with the snapshot
  {
    snap_t now;
    zvec_snap(&now, &X);
    // the normalisation reads the dropped limbs (carry propagation) but must not write them either
    if (now.n > off && memcmp(now.copy + off, whole.copy + off, now.n - off)) {
      size_t i = off;
      while (now.copy[i] == whole.copy[i]) i++;
      viol("snapshot", "%s in place with res_size=%" PRIu64 " < a_size=%" PRIu64 ": source limb %zu (not part of the output) was modified at byte %zu of the buffer (N=%" PRIu64 ")", nm[which], rs, as, i / 8 / (size_t)X.sl, i, N);
    }
    free(now.copy);
    free(whole.copy);
    (void)tail;
  }
  char msg[160];
  long wh;
  if (zvec_check(&X, msg, sizeof msg) || zvec_check(&B, msg, sizeof msg) || gb_check(&gt, &wh)) viol("canary", "%s (in place): a buffer was written outside its extent", nm[which]);
  cnt("inplace_tail_checks", 1);
  cnt("source_bytes_compared", (as - rs) * N * 8);
  sample("limbs %" PRIu64 "..%" PRIu64 " of the aliased source unchanged", rs, as - 1);
  gb_free(&gt);
  zvec_free(&X);
  zvec_free(&B);
  case_end(1);
}

// read-only operands whose CONTENT is arbitrary (any finite doubles, signed zeros, NaN-free): a function has no business
// writing a const operand whatever it contains, so only "unchanged afterwards" is checked here, never a numeric result
static void raw_sources_case(uint64_t N, int native, unsigned rep) {
  char key[96];
  snprintf(key, sizeof key, "prepared / DFT sources with arbitrary content%s", native ? "" : ",generic");
  if (!case_begin(key, "N=%" PRIu64 " rep=%u", N, rep)) return;
  rng_t* r = crng();
  const MODULE* mod = get_module(N, FFT64, native);
  const uint64_t rows = 1 + rng_u64(r) % 3, cols = 1 + rng_u64(r) % 3;
  gbuf_t gp, gm, gd, ga, go, gt;
  double* pp = gb_alloc(&gp, bytes_of_svp_ppol(mod), 8, 8 * (rep % 8), 4096);
  double* pm = gb_alloc(&gm, bytes_of_vmp_pmat(mod, rows, cols), 8, 8, 4096);
  double* ad = gb_alloc(&gd, bytes_of_vec_znx_dft(mod, rows), 8, 16, 4096);
  int64_t* a = gb_alloc(&ga, rows * N * 8, 8, 24, 4096);
  double* out = gb_alloc(&go, bytes_of_vec_znx_dft(mod, cols > rows ? cols : rows), 8, 0, 4096);
  size_t tb = vmp_apply_dft_to_dft_tmp_bytes(mod, cols, rows, rows, cols);
  if (vmp_apply_dft_tmp_bytes(mod, cols, rows, rows, cols) > tb) tb = vmp_apply_dft_tmp_bytes(mod, cols, rows, rows, cols);
  if (vec_znx_idft_tmp_bytes(mod) > tb) tb = vec_znx_idft_tmp_bytes(mod);
  uint8_t* tmp = gb_alloc(&gt, tb, 8, 8, 4096);
  double* bufs[3] = {pp, pm, ad};
  const size_t lens[3] = {bytes_of_svp_ppol(mod) / 8, bytes_of_vmp_pmat(mod, rows, cols) / 8, bytes_of_vec_znx_dft(mod, rows) / 8};
  for (int b = 0; b < 3; b++)
    for (size_t i = 0; i < lens[b]; i++) {
      const uint64_t t = rng_u64(r);
      double v;
      switch (t % 8) {
        case 0: v = 0.0; break;
        case 1: v = -0.0; break;
        case 2: v = ldexp(rng_unit(r) - 0.5, -1060); break;  // subnormal
        case 3: v = (double)rng_sbits(r, 40); break;
        default: v = ldexp(rng_unit(r) * 2 - 1, (int)(t >> 8) % 60 - 20);
      }
      bufs[b][i] = v;
    }
  for (uint64_t i = 0; i < rows * N; i++) a[i] = rng_sbits(r, 30);
  snap_t sp, sm, sd, sa;
  snap_take(&sp, pp, lens[0] * 8);
  snap_take(&sm, pm, lens[1] * 8);
  snap_take(&sd, ad, lens[2] * 8);
  snap_take(&sa, a, rows * N * 8);
  svp_apply_dft(mod, (VEC_ZNX_DFT*)out, rows, (SVP_PPOL*)pp, a, rows, N);
  vmp_apply_dft_to_dft(mod, (VEC_ZNX_DFT*)out, cols, (VEC_ZNX_DFT*)ad, rows, (VMP_PMAT*)pm, rows, cols, tmp);
  vmp_apply_dft(mod, (VEC_ZNX_DFT*)out, cols, a, rows, N, (VMP_PMAT*)pm, rows, cols, tmp);
  vec_znx_idft(mod, (VEC_ZNX_BIG*)out, rows, (VEC_ZNX_DFT*)ad, rows, tmp);
  long d;
  if ((d = snap_cmp_free(&sp)) >= 0) viol("snapshot", "svp_apply_dft modified its prepared scalar at byte %ld (N=%" PRIu64 " %s; content: arbitrary doubles incl. signed zeros)", d, N, native ? "native" : "generic");
  if ((d = snap_cmp_free(&sm)) >= 0) viol("snapshot", "vmp_apply_dft(_to_dft) modified the prepared matrix at byte %ld (N=%" PRIu64 ")", d, N);
  if ((d = snap_cmp_free(&sd)) >= 0) viol("snapshot", "vmp_apply_dft_to_dft / vec_znx_idft modified the DFT source at byte %ld (N=%" PRIu64 ")", d, N);
  if ((d = snap_cmp_free(&sa)) >= 0) viol("snapshot", "an integer source was modified at byte %ld (N=%" PRIu64 ")", d, N);
  long wh;
  gbuf_t* gs[] = {&gp, &gm, &gd, &ga, &go, &gt};
  for (size_t g = 0; g < ARRAY_LEN(gs); g++) {
    if (gb_check(gs[g], &wh)) viol("canary", "a call wrote outside a buffer (%ld)", wh);
    gb_free(gs[g]);
  }
  cnt("raw_source_calls", 4);
  cnt("source_bytes_compared", (lens[0] + lens[1] + lens[2]) * 8);
  sample("prepared scalar, prepared matrix and DFT vector with arbitrary doubles: unchanged by 4 calls");
  case_end(1);
}

// chained calls in which a buffer changes role: what was the scratch of the first call holds a SOURCE of the second call
// (buffer pools do this all the time), while the other operands keep their addresses and contents. The second call must
// leave that source untouched and return what it returns with fresh buffers.
static void role_rotation_case(uint64_t N, int native, unsigned rep) {
  char key[96];
  snprintf(key, sizeof key, "chained calls|former scratch holds a source%s", native ? "" : ",generic");
  if (!case_begin(key, "N=%" PRIu64 " rep=%u", N, rep)) return;
  rng_t* r = crng();
  const MODULE* mod = get_module(N, FFT64, native);
  const uint64_t nrows = 1 + rng_u64(r) % 3, ncols = 1 + rng_u64(r) % 3, rs = ncols;
  const size_t pmb = bytes_of_vmp_pmat(mod, nrows, ncols), tb = vmp_apply_dft_tmp_bytes(mod, rs, nrows, nrows, ncols), tb2 = vmp_apply_dft_to_dft_tmp_bytes(mod, rs, nrows, nrows, ncols);
  const size_t tpb = vmp_prepare_contiguous_tmp_bytes(mod, nrows, ncols), idb = vec_znx_idft_tmp_bytes(mod), rdb = bytes_of_vec_znx_dft(mod, rs);
  size_t wb = pmb;
  if (tb > wb) wb = tb;
  if (tb2 > wb) wb = tb2;
  if (idb > wb) wb = idb;
  if (rdb > wb) wb = rdb;
  gbuf_t gw, gt, gp1, gp2, gr1, gr2, gr3, ga, gad;
  uint8_t* W = gb_alloc(&gw, wb + 64, 8, 8 * (rep % 8), 4096);
  uint8_t* tmp = gb_alloc(&gt, (tb > tb2 ? tb : tb2) + tpb + idb + 64, 8, 8, 4096);
  VMP_PMAT* p1 = gb_alloc(&gp1, pmb, 8, 16, 4096);
  VMP_PMAT* p2 = gb_alloc(&gp2, pmb, 8, 24, 4096);
  VEC_ZNX_DFT* r1 = gb_alloc(&gr1, rdb, 8, 0, 4096);
  VEC_ZNX_DFT* r2 = gb_alloc(&gr2, rdb, 8, 8, 4096);
  VEC_ZNX_DFT* r3 = gb_alloc(&gr3, rdb, 8, 16, 4096);
  int64_t* a = gb_alloc(&ga, nrows * N * 8, 8, 8, 4096);
  VEC_ZNX_DFT* ad = gb_alloc(&gad, bytes_of_vec_znx_dft(mod, nrows), 8, 8, 4096);
  int64_t* m1 = malloc(nrows * ncols * N * 8);
  int64_t* m2 = malloc(nrows * ncols * N * 8);
  for (uint64_t i = 0; i < nrows * ncols * N; i++) {
    m1[i] = rng_range(r, -30, 30);
    m2[i] = rng_range(r, -30, 30);
  }
  for (uint64_t i = 0; i < nrows * N; i++) a[i] = rng_range(r, -1000, 1000);
  vmp_prepare_contiguous(mod, p1, m1, nrows, ncols, tmp);
  vmp_prepare_contiguous(mod, p2, m2, nrows, ncols, tmp);
  vec_znx_dft(mod, ad, nrows, a, nrows, N);
  for (int variant = 0; variant < 2; variant++) {  // 0: from integer coefficients, 1: from the DFT of the vector
    // call 1: W is the scratch (nothing else has used `a` before: the chain starts here)
    if (variant == 0) vmp_apply_dft(mod, r1, rs, a, nrows, N, p1, nrows, ncols, W);
    else vmp_apply_dft_to_dft(mod, r1, rs, ad, nrows, p1, nrows, ncols, W);
    // W now receives the second prepared matrix: it is a source of call 2, whose scratch lives elsewhere
    memcpy(W, p2, pmb);
    snap_t sw;
    snap_take(&sw, W, pmb);
    if (variant == 0) vmp_apply_dft(mod, r2, rs, a, nrows, N, (VMP_PMAT*)W, nrows, ncols, tmp);
    else vmp_apply_dft_to_dft(mod, r2, rs, ad, nrows, (VMP_PMAT*)W, nrows, ncols, tmp);
    long d;
    if ((d = snap_cmp_free(&sw)) >= 0) viol("snapshot", "%s: the prepared matrix of the second call (stored where the first call's scratch was) was modified at byte %ld (N=%" PRIu64 " %s)", variant ? "vmp_apply_dft_to_dft" : "vmp_apply_dft", d, N, native ? "native" : "generic");
    // reference for the second product, computed afterwards with buffers that play one role only
    if (variant == 0) vmp_apply_dft(mod, r3, rs, a, nrows, N, p2, nrows, ncols, tmp);
    else vmp_apply_dft_to_dft(mod, r3, rs, ad, nrows, p2, nrows, ncols, tmp);
    if (memcmp(r2, r3, rdb)) viol("differential", "%s: second product of a chain (its matrix stored in the first call's former scratch) differs from the same product with fresh buffers (N=%" PRIu64 ")", variant ? "vmp_apply_dft_to_dft" : "vmp_apply_dft", N);
    cnt("role_rotation_calls", 2);
  }
  // inverse DFT: the former scratch becomes the DFT source of the next inverse DFT
  {
    VEC_ZNX_BIG* b1 = (VEC_ZNX_BIG*)r1;
    vec_znx_idft(mod, b1, rs, r3, rs, W);  // r3 -> big (W = scratch)
    memcpy(W, r3, rdb);
    snap_t sw;
    snap_take(&sw, W, rdb);
    vec_znx_idft(mod, (VEC_ZNX_BIG*)r2, rs, (VEC_ZNX_DFT*)W, rs, tmp);
    long d;
    if ((d = snap_cmp_free(&sw)) >= 0) viol("snapshot", "vec_znx_idft: its DFT source (stored where the previous call's scratch was) was modified at byte %ld (N=%" PRIu64 ")", d, N);
    if (memcmp(r2, b1, bytes_of_vec_znx_big(mod, rs))) viol("differential", "vec_znx_idft: second inverse DFT of a chain differs from the first one on the same spectrum (N=%" PRIu64 ")", N);
    cnt("role_rotation_calls", 2);
  }
  long wh;
  gbuf_t* gs[] = {&gw, &gt, &gp1, &gp2, &gr1, &gr2, &gr3, &ga, &gad};
  for (size_t g = 0; g < ARRAY_LEN(gs); g++) {
    if (gb_check(gs[g], &wh)) viol("canary", "chained calls wrote outside a buffer (%ld)", wh);
    gb_free(gs[g]);
  }
  free(m1);
  free(m2);
  cnt("source_bytes_compared", 2 * pmb + rdb);
  sample("two products and two inverse DFTs in a row with the scratch of one call holding a source of the next");
  case_end(1);
}

void run_C18(void) {
  const int th = G.thorough;
  if (!ro_available())
    for (size_t ni = 0; ni < N_ALL_N; ni++)
      for (int native = 1; native >= 0; native--)
        for (unsigned rep = 0; rep < (th ? 20u : (ALL_N[ni] <= 4096 ? 3u : 1u)); rep++) {
          role_rotation_case(ALL_N[ni], native, rep);
          raw_sources_case(ALL_N[ni], native, rep);
        }
  if (!ro_available()) {
    unsigned ctr = 0;
    for (size_t ni = 0; ni < N_ALL_N; ni++)
      for (int which = 0; which < 10; which++)
        for (int cfg = 0; cfg < 3; cfg++) {
          if (cfg == 2 && which >= 7) continue;
          for (uint64_t as = 1; as <= 4; as++)
            for (uint64_t rs = 0; rs < as; rs++) {
              ctr++;
              if (ALL_N[ni] > 64 && (mix64(ctr) % (th ? 4 : 16))) continue;
              inplace_tail_case(ALL_N[ni], cfg == 2 ? NTT120 : FFT64, cfg != 1, which, rs, as, ctr % 4, 0);
            }
        }
  }
  // a module must still be what it was after tens of thousands of calls through it (warm-up thresholds, statistics)
  if (!ro_available())
    for (int oi = 0; oi < N_CAT_OPS; oi++) {
      if (!(OPS[oi].flags & (OPF_FFT64 | OPF_NTT120 | OPF_TABLE))) continue;
      for (unsigned v = 0; v < (th ? 4u : 1u); v++) ops_history_case("", OPS[oi].name, v & 1 ? 64 : 16, v & 2 ? (v & 1 ? 64 : 16) : 2, DISP_NATIVE, v, "long_history_calls");
    }
  for (size_t ni = 0; ni < N_ALL_N; ni++) {
    const uint64_t N = ALL_N[ni];
    const unsigned batches = th ? (N <= 1024 ? 200 : (N <= 8192 ? 40 : 12)) : (N <= 1024 ? 6 : 2);
    for (unsigned b = 0; b < batches; b++)
      for (int native = 1; native >= 0; native--) batch_case(N, native, b, N <= 4096 ? 4 : 2);
  }
}
