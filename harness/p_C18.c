// C18 — read-only operands are never modified.
// Monitors: byte snapshots of every source buffer (including stride padding) around every catalogue call;
// hash of every byte of the modules / precomputed tables before and after each batch of calls; in the
// "ro" build the modules and tables additionally live in PROT_READ pages (a transient write faults).
#include "ops.h"
#include "roalloc.h"

static void batch_case(uint64_t N, int native, unsigned batch, unsigned seeds) {
  char key[96];
  snprintf(key, sizeof key, "catalogue-batch|%s%s", native ? "native" : "generic", ro_available() ? ",ro-tables" : "");
  if (!case_begin(key, "N=%" PRIu64 " disp=%s batch=%u seeds=%u", N, native ? "native" : "generic", batch, seeds)) return;
  ro_capture(1);
  env_t* env = env_create(N, native);
  ro_capture(0);
  uint64_t tb = 0;
  const uint64_t h0 = env_hash(env, &tb), rh0 = ro_hash();
  size_t robytes = ro_protect();
  if (ro_available()) {
    cnt("ro_protected_bytes", robytes);
    cnt("ro_protected_allocations", ro_regions());
  }
  uint64_t calls = 0, srcb = 0;
  for (int oi = 0; oi < N_CAT_OPS; oi++) {
    const opdef_t* o = &OPS[oi];
    if (!native && (o->flags & (OPF_NTT120 | OPF_AVX | OPF_KERNEL | OPF_SIMPLE))) continue;
    for (unsigned sd = 0; sd < seeds; sd++) {
      opres_t r;
      op_exec(o, env, mix64(G.seed * 77 + batch * 1009 + sd), (int)(sd & 3), sd + batch, MON_CANARY | MON_SNAPSHOT, &r);
      if (r.skipped) continue;
      calls++;
      srcb += r.src_bytes;
      if (r.src_modified) viol("snapshot", "%s [%s] N=%" PRIu64 " %s: %s", o->name, r.shape, N, native ? "native" : "generic", r.msg);
      if (r.canary_bad) viol("canary", "%s [%s]: %s", o->name, r.shape, r.msg);
      if (r.src_bytes) cntf("snapshotted:%s", 1, o->name);
    }
    // after all the calls of one entry point: the shared objects are bit-for-bit what they were at creation
    uint64_t t2;
    if (env_hash(env, &t2) != h0) {
      viol("table", "a module / precomputed table changed while calling %s (N=%" PRIu64 " %s)", o->name, N, native ? "native" : "generic");
      break;
    }
    cnt("table_bytes_compared", tb);
  }
  ro_unprotect();
  if (ro_available() && ro_hash() != rh0) viol("table", "an allocation made at module/table creation changed during the batch (N=%" PRIu64 ")", N);
  env_destroy(env);
  cnt("calls_snapshotted", calls);
  cnt("source_bytes_compared", srcb);
  cntf("N:%" PRIu64, 1, N);
  sample("%" PRIu64 " calls, %" PRIu64 " source bytes compared, %" PRIu64 " table bytes hashed per entry point", calls, srcb, tb);
  case_end(calls > 0);
}

void run_C18(void) {
  const int th = G.thorough;
  for (size_t ni = 0; ni < N_ALL_N; ni++) {
    const uint64_t N = ALL_N[ni];
    const unsigned batches = th ? (N <= 1024 ? 200 : (N <= 8192 ? 40 : 12)) : (N <= 1024 ? 6 : 2);
    for (unsigned b = 0; b < batches; b++)
      for (int native = 1; native >= 0; native--) batch_case(N, native, b, N <= 4096 ? 4 : 2);
  }
}
