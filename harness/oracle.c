#include "oracle.h"

#include <quadmath.h>

#include "spqlios/q120/q120_common.h"

// ---------------------------------------------------------------- modular arithmetic
uint64_t powmod(uint64_t a, uint64_t e, uint64_t m) {
  uint64_t r = 1 % m;
  a %= m;
  while (e) {
    if (e & 1) r = mulmod(r, a, m);
    a = mulmod(a, a, m);
    e >>= 1;
  }
  return r;
}
uint64_t invmod(uint64_t a, uint64_t m) { return powmod(a, m - 2, m); }
int is_prime_u64(uint64_t n) {
  if (n < 2) return 0;
  static const uint64_t small[] = {2, 3, 5, 7, 11, 13, 17, 19, 23, 29, 31, 37};
  for (size_t i = 0; i < ARRAY_LEN(small); i++) {
    if (n == small[i]) return 1;
    if (n % small[i] == 0) return 0;
  }
  uint64_t d = n - 1;
  int s = 0;
  while (!(d & 1)) {
    d >>= 1;
    s++;
  }
  for (size_t i = 0; i < ARRAY_LEN(small); i++) {  // deterministic for 64-bit
    uint64_t x = powmod(small[i], d, n);
    if (x == 1 || x == n - 1) continue;
    int comp = 1;
    for (int r = 1; r < s; r++) {
      x = mulmod(x, x, n);
      if (x == n - 1) {
        comp = 0;
        break;
      }
    }
    if (comp) return 0;
  }
  return 1;
}

uint64_t bitrev(uint64_t x, unsigned bits) {
  uint64_t r = 0;
  for (unsigned i = 0; i < bits; i++) {
    r = (r << 1) | (x & 1);
    x >>= 1;
  }
  return r;
}

// ---------------------------------------------------------------- oracle NTT modulo a prime
// primitive 2N-th root of unity modulo prime q (q ≡ 1 mod 2N), found from a quadratic non-residue
static uint64_t root_2n(uint64_t q, uint64_t twoN) {
  if ((q - 1) % twoN) harness_fail("oracle: modulus has no 2N-th root");
  for (uint64_t g = 2;; g++) {
    if (powmod(g, (q - 1) / 2, q) == q - 1) return powmod(g, (q - 1) / twoN, q);
  }
}
static void ntt_inplace(uint64_t N, uint64_t* a, uint64_t w, uint64_t q) {
  // iterative radix-2 DIT on bit-reversed input, natural-order output; w = primitive N-th root
  unsigned k = ilog2(N);
  for (uint64_t i = 0; i < N; i++) {
    uint64_t j = bitrev(i, k);
    if (i < j) {
      uint64_t t = a[i];
      a[i] = a[j];
      a[j] = t;
    }
  }
  for (uint64_t len = 2; len <= N; len <<= 1) {
    uint64_t wl = powmod(w, N / len, q);
    for (uint64_t s = 0; s < N; s += len) {
      uint64_t x = 1;
      for (uint64_t i = 0; i < len / 2; i++) {
        uint64_t u = a[s + i], v = mulmod(a[s + i + len / 2], x, q);
        uint64_t p = u + v;
        if (p >= q) p -= q;
        a[s + i] = p;
        a[s + i + len / 2] = u >= v ? u - v : u + q - v;
        x = mulmod(x, wl, q);
      }
    }
  }
}
static void negacyclic_ntt_modq(uint64_t N, const uint64_t* a, const uint64_t* b, uint64_t* out, uint64_t q) {
  if (N == 1) {
    out[0] = mulmod(a[0], b[0], q);
    return;
  }
  uint64_t psi = root_2n(q, 2 * N);
  uint64_t w = mulmod(psi, psi, q);
  uint64_t* A = malloc(N * 8);
  uint64_t* B = malloc(N * 8);
  uint64_t x = 1;
  for (uint64_t i = 0; i < N; i++) {
    A[i] = mulmod(a[i] % q, x, q);
    B[i] = mulmod(b[i] % q, x, q);
    x = mulmod(x, psi, q);
  }
  ntt_inplace(N, A, w, q);
  ntt_inplace(N, B, w, q);
  for (uint64_t i = 0; i < N; i++) A[i] = mulmod(A[i], B[i], q);
  ntt_inplace(N, A, invmod(w, q), q);
  uint64_t ninv = invmod(N % q, q), psiinv = invmod(psi, q);
  x = ninv;
  for (uint64_t i = 0; i < N; i++) {
    out[i] = mulmod(A[i], x, q);
    x = mulmod(x, psiinv, q);
  }
  free(A);
  free(B);
}
void negacyclic_modq(uint64_t N, const uint64_t* a, const uint64_t* b, uint64_t* out, uint64_t q) {
  if (N <= 256) {
    for (uint64_t k = 0; k < N; k++) {
      i128 acc = 0;
      for (uint64_t i = 0; i < N; i++) {
        uint64_t j = (k + N - i) % N;  // i + j = k or k + N
        u128 p = (u128)(a[i] % q) * (b[j] % q) % q;
        if (i + j >= N)
          acc -= (i128)p;
        else
          acc += (i128)p;
      }
      out[k] = smod(acc, q);
    }
  } else {
    negacyclic_ntt_modq(N, a, b, out, q);
  }
}

static uint64_t P62 = 0;
static void init_p62(void) {
  if (P62) return;
  for (uint64_t k = ((1ull << 62) - 1) >> 18;; k--) {
    uint64_t p = (k << 18) + 1;
    if (is_prime_u64(p)) {
      P62 = p;
      return;
    }
  }
}
void negacyclic_school(uint64_t N, const int64_t* a, const int64_t* b, i128* out) {
  for (uint64_t k = 0; k < N; k++) out[k] = 0;
  for (uint64_t j = 0; j < N; j++) {
    if (b[j] == 0) continue;
    const i128 bj = b[j];
    for (uint64_t i = 0; i < N - j; i++) out[i + j] += bj * a[i];
    for (uint64_t i = N - j; i < N; i++) out[i + j - N] -= bj * a[i];
  }
}
void negacyclic_ntt(uint64_t N, const int64_t* a, const int64_t* b, i128* out) {
  init_p62();
  uint64_t* A = malloc(N * 8);
  uint64_t* B = malloc(N * 8);
  uint64_t* C = malloc(N * 8);
  for (uint64_t i = 0; i < N; i++) {
    A[i] = smod(a[i], P62);
    B[i] = smod(b[i], P62);
  }
  negacyclic_ntt_modq(N, A, B, C, P62);
  for (uint64_t i = 0; i < N; i++) out[i] = (C[i] > P62 / 2) ? (i128)C[i] - (i128)P62 : (i128)C[i];
  free(A);
  free(B);
  free(C);
}
void negacyclic_exact(uint64_t N, const int64_t* a, const int64_t* b, i128* out) {
  uint64_t nzb = 0;
  for (uint64_t i = 0; i < N; i++) nzb += (b[i] != 0);
  if (N <= 512 || nzb * N <= (1u << 19))
    negacyclic_school(N, a, b, out);
  else
    negacyclic_ntt(N, a, b, out);
}
int negacyclic_selfcheck(uint64_t seed) {
  rng_t r;
  rng_seed(&r, seed, 77);
  static const uint64_t Ns[] = {2, 8, 64, 512, 2048};
  for (size_t t = 0; t < ARRAY_LEN(Ns); t++) {
    uint64_t N = Ns[t];
    int64_t* a = malloc(N * 8);
    int64_t* b = malloc(N * 8);
    i128* x = malloc(N * 16);
    i128* y = malloc(N * 16);
    for (uint64_t i = 0; i < N; i++) {
      a[i] = rng_sbits(&r, 24);
      b[i] = rng_sbits(&r, 24);
    }
    negacyclic_school(N, a, b, x);
    negacyclic_ntt(N, a, b, y);
    int bad = memcmp(x, y, N * 16) != 0;
    free(a);
    free(b);
    free(x);
    free(y);
    if (bad) return 1;
  }
  return 0;
}

// ---------------------------------------------------------------- q120
const uint64_t Q120[4] = {Q1, Q2, Q3, Q4};
u128 q120_bigQ(void) { return (u128)Q120[0] * Q120[1] * Q120[2] * Q120[3]; }
i128 q120_crt_centered(const uint64_t r[4]) {
  // textbook CRT with constants recomputed here (not the header's *_CRT_CST)
  const u128 Q = q120_bigQ();
  u128 acc = 0;
  for (int k = 0; k < 4; k++) {
    u128 Mk = Q / Q120[k];
    uint64_t Mk_mod = (uint64_t)(Mk % Q120[k]);
    uint64_t c = mulmod(r[k] % Q120[k], invmod(Mk_mod, Q120[k]), Q120[k]);
    // acc += c * Mk mod Q   (c < 2^31, Mk < 2^90 -> fits in 128 bits)
    acc = (acc + (u128)c * Mk) % Q;
  }
  // centred representative in [-Q/2, Q/2)  (Q odd: Q/2 = floor)
  i128 v = (i128)acc;
  i128 half = (i128)(Q / 2);
  // values in [0, half) stay, [half+1, Q) go negative; for odd Q: -Q/2 <= r < Q/2 means r in [-(Q-1)/2 .. (Q-1)/2]
  if (v > half) v -= (i128)Q;
  return v;
}

// ---------------------------------------------------------------- 1024-bit integers
void big_zero(big_t* x) { memset(x, 0, sizeof *x); }
static void big_add(big_t* x, const big_t* y) {
  unsigned carry = 0;
  for (int i = 0; i < BIG_W; i++) {
    u128 s = (u128)x->w[i] + y->w[i] + carry;
    x->w[i] = (uint64_t)s;
    carry = (unsigned)(s >> 64);
  }
}
static void big_from_i64(big_t* x, int64_t v) {
  uint64_t ext = v < 0 ? ~0ull : 0;
  x->w[0] = (uint64_t)v;
  for (int i = 1; i < BIG_W; i++) x->w[i] = ext;
}
static void big_shl(big_t* x, unsigned s) {
  unsigned ws = s / 64, bs = s % 64;
  for (int i = BIG_W - 1; i >= 0; i--) {
    uint64_t lo = (i >= (int)ws) ? x->w[i - ws] : 0;
    uint64_t lo2 = (i >= (int)ws + 1) ? x->w[i - ws - 1] : 0;
    x->w[i] = bs ? ((lo << bs) | (lo2 >> (64 - bs))) : lo;
  }
}
static void big_sar(big_t* x, unsigned s) {  // arithmetic shift right, s < 64
  uint64_t ext = (x->w[BIG_W - 1] >> 63) ? ~0ull : 0;
  if (s == 0) return;
  for (int i = 0; i < BIG_W; i++) {
    uint64_t hi = (i + 1 < BIG_W) ? x->w[i + 1] : ext;
    x->w[i] = (x->w[i] >> s) | (hi << (64 - s));
  }
}
void big_add_shifted_i64(big_t* x, int64_t v, unsigned shift) {
  big_t t;
  big_from_i64(&t, v);
  big_shl(&t, shift);
  big_add(x, &t);
}
void big_trunc(big_t* x, unsigned bits) {
  for (unsigned i = 0; i < BIG_W; i++) {
    if (bits >= 64 * (i + 1)) continue;
    if (bits <= 64 * i)
      x->w[i] = 0;
    else
      x->w[i] &= (1ull << (bits - 64 * i)) - 1;
  }
}
void big_sext_from(big_t* x, unsigned bits) {
  if (bits == 0 || bits >= 64 * BIG_W) return;
  unsigned wi = (bits - 1) / 64, bi = (bits - 1) % 64;
  int neg = (x->w[wi] >> bi) & 1;
  if (!neg) return;
  if (bi < 63) x->w[wi] |= ~0ull << (bi + 1);
  for (unsigned i = wi + 1; i < BIG_W; i++) x->w[i] = ~0ull;
}
int64_t big_centered_digit(big_t* x, unsigned k) {
  // k in 1..63
  uint64_t mask = (1ull << k) - 1;
  int64_t d = (int64_t)(x->w[0] & mask);
  if (d >= (int64_t)(1ull << (k - 1))) d -= (int64_t)(1ull << k);
  big_t t;
  big_from_i64(&t, -d);
  big_add(x, &t);
  big_sar(x, k);
  return d;
}
int big_is_zero(const big_t* x) {
  for (int i = 0; i < BIG_W; i++)
    if (x->w[i]) return 0;
  return 1;
}

// ---------------------------------------------------------------- FFT oracle
typedef struct {
  long double* c;
  long double* s;
} tw_t;
static tw_t twcache[20];  // exp(2 pi i k / m) for k < m, indexed by log2(m)
static const tw_t* get_tw(uint64_t m) {
  unsigned k = ilog2(m);
  tw_t* t = &twcache[k];
  if (!t->c) {
    t->c = malloc(m * sizeof(long double));
    t->s = malloc(m * sizeof(long double));
    const long double twopi = 6.283185307179586476925286766559005768394L;
    for (uint64_t i = 0; i < m; i++) {
      // reduce the angle to the first octant for accuracy
      long double ang = twopi * (long double)i / (long double)m;
      t->c[i] = cosl(ang);
      t->s[i] = sinl(ang);
    }
    // exact values on the axes
    t->c[0] = 1;
    t->s[0] = 0;
    if (m >= 2) {
      t->c[m / 2] = -1;
      t->s[m / 2] = 0;
    }
    if (m >= 4) {
      t->c[m / 4] = 0;
      t->s[m / 4] = 1;
      t->c[3 * m / 4] = 0;
      t->s[3 * m / 4] = -1;
    }
  }
  return t;
}
void oracle_fft(uint64_t m, const long double* re, const long double* im, long double* ore, long double* oim) {
  const long double pi = 3.141592653589793238462643383279502884197L;
  // twist by omega^n, omega = exp(i pi/(2m))
  for (uint64_t n = 0; n < m; n++) {
    long double ang = pi * (long double)n / (long double)(2 * m);
    long double c = cosl(ang), s = sinl(ang);
    ore[n] = re[n] * c - im[n] * s;
    oim[n] = re[n] * s + im[n] * c;
  }
  if (m == 1) return;
  const tw_t* tw = get_tw(m);
  // DIF radix-2 with positive exponent: position j ends with Y[bitrev(j)]
  for (uint64_t len = m; len >= 2; len >>= 1) {
    uint64_t half = len / 2, stride = m / len;
    for (uint64_t s0 = 0; s0 < m; s0 += len) {
      for (uint64_t i = 0; i < half; i++) {
        long double ur = ore[s0 + i], ui = oim[s0 + i];
        long double vr = ore[s0 + i + half], vi = oim[s0 + i + half];
        ore[s0 + i] = ur + vr;
        oim[s0 + i] = ui + vi;
        long double dr = ur - vr, di = ui - vi;
        long double c = tw->c[i * stride], s = tw->s[i * stride];
        ore[s0 + i + half] = dr * c - di * s;
        oim[s0 + i + half] = dr * s + di * c;
      }
    }
  }
}
void oracle_ifft(uint64_t m, const long double* re, const long double* im, long double* ore, long double* oim) {
  const long double pi = 3.141592653589793238462643383279502884197L;
  for (uint64_t n = 0; n < m; n++) {
    ore[n] = re[n];
    oim[n] = im[n];
  }
  if (m > 1) {
    const tw_t* tw = get_tw(m);
    // DIT radix-2, negative exponent, input in bit-reversed order (exactly the documented output order)
    for (uint64_t len = 2; len <= m; len <<= 1) {
      uint64_t half = len / 2, stride = m / len;
      for (uint64_t s0 = 0; s0 < m; s0 += len) {
        for (uint64_t i = 0; i < half; i++) {
          long double c = tw->c[i * stride], s = -tw->s[i * stride];
          long double xr = ore[s0 + i + half], xi = oim[s0 + i + half];
          long double vr = xr * c - xi * s, vi = xr * s + xi * c;
          long double ur = ore[s0 + i], ui = oim[s0 + i];
          ore[s0 + i] = ur + vr;
          oim[s0 + i] = ui + vi;
          ore[s0 + i + half] = ur - vr;
          oim[s0 + i + half] = ui - vi;
        }
      }
    }
  }
  for (uint64_t n = 0; n < m; n++) {
    long double ang = -pi * (long double)n / (long double)(2 * m);
    long double c = cosl(ang), s = sinl(ang);
    long double r = ore[n] * c - oim[n] * s, i = ore[n] * s + oim[n] * c;
    ore[n] = r;
    oim[n] = i;
  }
}
void oracle_eval_q(uint64_t m, const double* re, const double* im, uint64_t j, long double* ore, long double* oim) {
  unsigned k = ilog2(m);
  uint64_t t = bitrev(j, k);
  __float128 ang = M_PIq * (__float128)(1 + 4 * t) / (__float128)(2 * m);
  __float128 zr = cosq(ang), zi = sinq(ang);
  __float128 ar = 0, ai = 0;
  for (uint64_t n = m; n-- > 0;) {
    __float128 nr = ar * zr - ai * zi + (__float128)re[n];
    __float128 ni = ar * zi + ai * zr + (__float128)im[n];
    ar = nr;
    ai = ni;
  }
  *ore = (long double)ar;
  *oim = (long double)ai;
}
