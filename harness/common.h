// Shared infrastructure of the monitoring harness: PRNG, case bookkeeping, event log,
// guarded buffers (guard bands + canaries + ASan poisoning), snapshots, counters.
#ifndef VP_COMMON_H
#define VP_COMMON_H
#define _GNU_SOURCE
#include <inttypes.h>
#include <math.h>
#include <stdarg.h>
#include <stddef.h>
#include <stdint.h>
#include <stdio.h>
#include <stdlib.h>
#include <string.h>

#if defined(__SANITIZE_ADDRESS__)
#include <sanitizer/asan_interface.h>
#define VP_ASAN 1
#define VP_POISON(p, n) ASAN_POISON_MEMORY_REGION((p), (n))
#define VP_UNPOISON(p, n) ASAN_UNPOISON_MEMORY_REGION((p), (n))
#else
#define VP_ASAN 0
#define VP_POISON(p, n) ((void)(p), (void)(n))
#define VP_UNPOISON(p, n) ((void)(p), (void)(n))
#endif
#if defined(__SANITIZE_THREAD__)
#define VP_TSAN 1
#else
#define VP_TSAN 0
#endif

typedef __int128 i128;
typedef unsigned __int128 u128;

// ---------------------------------------------------------------- PRNG (xoshiro256**)
typedef struct {
  uint64_t s[4];
} rng_t;
void rng_seed(rng_t* r, uint64_t a, uint64_t b);
uint64_t rng_u64(rng_t* r);
// uniform in [lo,hi] (inclusive)
int64_t rng_range(rng_t* r, int64_t lo, int64_t hi);
// uniform signed value with |x| < 2^bits (bits in 0..63)
int64_t rng_sbits(rng_t* r, unsigned bits);
double rng_unit(rng_t* r);  // [0,1)
uint64_t mix64(uint64_t x);

// ---------------------------------------------------------------- context / cases
typedef struct {
  const char* prop;
  int thorough;
  uint64_t seed;
  int part, nparts;
  int64_t skip_upto;  // cases with index <= skip_upto are not run (restart after a crash)
  int64_t only;       // >=0: run only this case index (replay)
  FILE* log;
  int valgrind;       // running under valgrind (set by --valgrind)
  const char* mode;   // optional sub-mode (e.g. "memcheck", "plain")
} ctx_t;
extern ctx_t G;

// Starts a case. `key` = "<entry point>|<shape class>" (no addresses / seeds); the rest is a printf
// style descriptor from which the case can be regenerated. Returns 1 when the case must run in
// this process (partitioning by case index), 0 when it must be skipped.
int case_begin(const char* key, const char* fmt, ...) __attribute__((format(printf, 2, 3)));
// Ends the current case; `nontrivial` per the property's rule.
void case_end(int nontrivial);
// per-case generator (seeded from VERIF_SEED, property and case index)
rng_t* crng(void);
int64_t case_index(void);
// record a violation for the current case. kind: oracle|canary|snapshot|history|...
void viol(const char* kind, const char* fmt, ...) __attribute__((format(printf, 2, 3)));
// record an observation sample (kept small: at most a few per key are written)
void sample(const char* fmt, ...) __attribute__((format(printf, 1, 2)));
// named counters / gauges, written in the summary record
void cnt(const char* name, uint64_t add);
void cntf(const char* fmt_name, uint64_t add, ...);
void gauge_max(const char* name, double v);
// extra distinct-hash contribution (e.g. state hashes); counted in a separate set
void distinct_add(const char* setname, uint64_t h);
void finish_summary(void);
// fatal harness failure (exit 2)
void harness_fail(const char* fmt, ...) __attribute__((format(printf, 1, 2), noreturn));

// ---------------------------------------------------------------- guarded buffers
typedef struct {
  uint8_t* base;     // allocation
  size_t total;      // bytes allocated
  uint8_t* p;        // user pointer
  size_t n;          // user bytes (exact documented size)
  size_t guard;      // guard bytes on each side (>= 4096)
  uint64_t cseed;    // canary seed
  int arena;         // carved from the per-process placement arena (not freed individually)
  void* map_base;    // placement modes 3-5: the buffer lives in its own mapping (munmap'ed by gb_free)
  size_t map_len;
} gbuf_t;
// allocates `n` user bytes at alignment `align` (power of two >= 8) plus `mis` bytes of
// misalignment (multiple of 4), with guard bands of at least `guard` bytes on both sides.
void* gb_alloc(gbuf_t* g, size_t n, size_t align, size_t mis, size_t guard);
// returns 0 when both guard bands are intact, else offset info through *where (negative = before)
int gb_check(gbuf_t* g, long* where);
void gb_free(gbuf_t* g);
// own-mapping placements only: make the buffer's pages read-only (on) / writable again (off); returns 1 when applied
int gb_readonly(gbuf_t* g, int on);
// one-shot: the next n (<= 8) gb_alloc calls of this thread place their buffer at these offsets inside a page (rounded down to the
// requested alignment); used to sweep the distance between two operands modulo the page size
void gb_force_page_offsets(const long* offs, int n);
// pre-fill the user area with pattern id (0: 0x00, 1: 0xFF, 2: signalling NaN pattern, 3: noise)
void gb_prefill(gbuf_t* g, int pattern, uint64_t seed);
void fill_pattern(uint8_t* p, size_t n, int pattern, uint64_t seed);
// imposes a structure (scaled by 2^32 / run of one value / periodic / zero) on a fresh vector with probability 7/16; returns its kind (0 none)
int structure_words(rng_t* r, uint64_t* w, uint64_t n, unsigned bits);  // the pre-fill patterns, on any region

// limb vector of int64 (vec_znx): `size` limbs of `n` words with stride `sl` words; the padding
// words between limbs carry canaries and are poisoned under ASan. Exactly (size-1)*sl+n words.
typedef struct {
  gbuf_t g;
  int64_t* p;
  uint64_t n, size, sl;
} zvec_t;
void zvec_alloc(zvec_t* v, uint64_t n, uint64_t size, uint64_t sl, size_t mis);
void zvec_free(zvec_t* v);
// returns 0 when guards and inter-limb padding are intact
int zvec_check(zvec_t* v, char* msg, size_t msglen);
// fills padding canaries (called by alloc) and poisons
void zvec_set(zvec_t* v, uint64_t limb, uint64_t i, int64_t x);
static inline int64_t* zvec_limb(const zvec_t* v, uint64_t limb) { return v->p + limb * v->sl; }
void zvec_prefill(zvec_t* v, int pattern, uint64_t seed);

// snapshots of arbitrary memory (sources that must stay unchanged)
typedef struct {
  const void* p;
  size_t n;
  uint8_t* copy;
} snap_t;
void snap_take(snap_t* s, const void* p, size_t n);
// returns -1 if identical, else first differing byte offset; frees the copy
long snap_cmp_free(snap_t* s);
// snapshot of a zvec including padding (unpoisons/repoisons around the copy)
void zvec_snap(snap_t* s, zvec_t* v);
long zvec_snap_cmp_free(snap_t* s, zvec_t* v);

uint64_t hash_bytes(const void* p, size_t n, uint64_t h);

// dispatch configuration (hook H1): 1 = native (accelerated allowed), 0 = generic C
void set_dispatch(int native);
enum { DISP_GENERIC = 0, DISP_NATIVE = 1, DISP_AVX2_ONLY = 2, DISP_FMA_ONLY = 3, N_DISP = 4 };
extern const char* const disp_name[N_DISP];
extern int g_case_place;    // set by case_begin: 0 separate allocations (default); 1 / 2: every guarded buffer of the case is carved from one
                            // arena at ascending / descending addresses in allocation order, 256 guard bytes apart; 3: every buffer ENDS at a page
                            // boundary followed by an inaccessible page; 4: every buffer STARTS at a page boundary preceded by an inaccessible
                            // page; 5: every buffer in its own mapping, 64 GiB away from the previous one; 6: packed back to back; 7: own mappings
                            // EXACT multiples of 64 GiB apart (same offset in each: pointer differences have all-zero low 36 bits); 8: every
                            // buffer at a page offset within +-16 alignment units of 2048 (operands a few words apart modulo the page size)
extern int g_case_aligned;  // set by case_begin for a quarter of the cases: all guarded buffers 64-byte aligned
extern int g_dispatch_native;
static inline const char* dispatch_name(void) { return disp_name[g_dispatch_native & 3]; }

static inline uint32_t ilog2(uint64_t x) {
  uint32_t r = 0;
  while (x > 1) {
    x >>= 1;
    r++;
  }
  return r;
}
#define ARRAY_LEN(a) (sizeof(a) / sizeof((a)[0]))

// allocation-failure injection (only in the build with -DVP_OOM): while armed, every malloc-family request of the calling thread fails
int vp_oom_available(void);
void vp_oom_arm(int on);
uint64_t vp_oom_failed(void);

// property entry points
void run_C01(void); void run_C02(void); void run_C03(void); void run_C04(void); void run_C05(void);
void run_C06(void); void run_C07(void); void run_C08(void); void run_C09(void); void run_C10(void);
void run_C11(void); void run_C12(void); void run_C13(void); void run_C14(void); void run_C15(void);
void run_C16(void); void run_C17(void); void run_C18(void);

#endif
