// C13 — supported in-place calls give the same result as out-of-place calls.
// Oracle: the same call with a separate output buffer on a copy of the same data (bitwise equality:
// the same kernel runs), for every aliasing pattern the property lists.
#include "lib.h"
#include "ops.h"

typedef enum {
  A_COPY, A_NEGATE, A_ROTATE, A_AUTO, A_NORMALIZE, A_ADD_RA, A_ADD_RB, A_SUB_RA, A_SUB_RB,
  A_BIG_ADD_RA, A_BIG_ADD_RB, A_BIG_SUB_RA, A_BIG_SUB_RB, A_BIG_ADD_SMALL_RA, A_BIG_SUB_SMALL_B_RA, A_BIG_SUB_SMALL_A_RB,
  A_BIG_ROTATE, A_BIG_AUTO, A_BIG_NORMALIZE, N_AOPS
} aop_t;
static const char* aop_name[] = {"vec_znx_copy(res==a)", "vec_znx_negate(res==a)", "vec_znx_rotate(res==a)", "vec_znx_automorphism(res==a)",
                                 "vec_znx_normalize_base2k(res==a)", "vec_znx_add(res==a)", "vec_znx_add(res==b)", "vec_znx_sub(res==a)", "vec_znx_sub(res==b)",
                                 "vec_znx_big_add(res==a)", "vec_znx_big_add(res==b)", "vec_znx_big_sub(res==a)", "vec_znx_big_sub(res==b)",
                                 "vec_znx_big_add_small(res==a)", "vec_znx_big_sub_small_b(res==a)", "vec_znx_big_sub_small_a(res==b)",
                                 "vec_znx_big_rotate(res==a)", "vec_znx_big_automorphism(res==a)", "vec_znx_big_normalize_base2k(res==a)"};
static int aop_binary(aop_t o) { return o >= A_ADD_RA && o <= A_BIG_SUB_SMALL_A_RB; }
static int aop_alias_b(aop_t o) { return o == A_ADD_RB || o == A_SUB_RB || o == A_BIG_ADD_RB || o == A_BIG_SUB_RB || o == A_BIG_SUB_SMALL_A_RB; }
static int aop_big(aop_t o) { return o >= A_BIG_ADD_RA; }

// performs the operation: res (rs limbs, stride rsl) from x (aliased operand; xs limbs, stride xsl) and y (other operand)
static void do_op(aop_t op, const MODULE* mod, int64_t p, unsigned k, int64_t* res, uint64_t rs, uint64_t rsl, const int64_t* x, uint64_t xs, uint64_t xsl,
                  const int64_t* y, uint64_t ys, uint64_t ysl, uint8_t* tmp) {
  VEC_ZNX_BIG* R = (VEC_ZNX_BIG*)res;
  const VEC_ZNX_BIG* X = (const VEC_ZNX_BIG*)x;
  const VEC_ZNX_BIG* Y = (const VEC_ZNX_BIG*)y;
  switch (op) {
    case A_COPY: vec_znx_copy(mod, res, rs, rsl, x, xs, xsl); break;
    case A_NEGATE: vec_znx_negate(mod, res, rs, rsl, x, xs, xsl); break;
    case A_ROTATE: vec_znx_rotate(mod, p, res, rs, rsl, x, xs, xsl); break;
    case A_AUTO: vec_znx_automorphism(mod, p | 1, res, rs, rsl, x, xs, xsl); break;
    case A_NORMALIZE: vec_znx_normalize_base2k(mod, k, res, rs, rsl, x, xs, xsl, tmp); break;
    case A_ADD_RA: vec_znx_add(mod, res, rs, rsl, x, xs, xsl, y, ys, ysl); break;
    case A_ADD_RB: vec_znx_add(mod, res, rs, rsl, y, ys, ysl, x, xs, xsl); break;
    case A_SUB_RA: vec_znx_sub(mod, res, rs, rsl, x, xs, xsl, y, ys, ysl); break;
    case A_SUB_RB: vec_znx_sub(mod, res, rs, rsl, y, ys, ysl, x, xs, xsl); break;
    case A_BIG_ADD_RA: vec_znx_big_add(mod, R, rs, X, xs, Y, ys); break;
    case A_BIG_ADD_RB: vec_znx_big_add(mod, R, rs, Y, ys, X, xs); break;
    case A_BIG_SUB_RA: vec_znx_big_sub(mod, R, rs, X, xs, Y, ys); break;
    case A_BIG_SUB_RB: vec_znx_big_sub(mod, R, rs, Y, ys, X, xs); break;
    case A_BIG_ADD_SMALL_RA: vec_znx_big_add_small(mod, R, rs, X, xs, y, ys, ysl); break;
    case A_BIG_SUB_SMALL_B_RA: vec_znx_big_sub_small_b(mod, R, rs, X, xs, y, ys, ysl); break;
    case A_BIG_SUB_SMALL_A_RB: vec_znx_big_sub_small_a(mod, R, rs, y, ys, ysl, X, xs); break;
    case A_BIG_ROTATE: vec_znx_big_rotate(mod, p, R, rs, X, xs); break;
    case A_BIG_AUTO: vec_znx_big_automorphism(mod, p | 1, R, rs, X, xs); break;
    case A_BIG_NORMALIZE: vec_znx_big_normalize_base2k(mod, k, res, rs, rsl, X, xs, tmp); break;
    default: break;
  }
}

static void vec_case(aop_t op, uint64_t N, MODULE_TYPE mt, int native, uint64_t rs, uint64_t xs, uint64_t ys, unsigned slc, unsigned yslc, int pclass, unsigned rep) {
  char key[160];
  snprintf(key, sizeof key, "%s|%s%s%s", aop_name[op], rs == xs ? "res=aliased" : (rs < xs ? "res<aliased" : "res>aliased"), mt == NTT120 ? ",ntt120" : "", native ? "" : ",generic");
  if (!case_begin(key, "N=%" PRIu64 " res=%" PRIu64 " aliased=%" PRIu64 " other=%" PRIu64 " sl=%u/%u pclass=%d rep=%u", N, rs, xs, ys, slc, yslc, pclass, rep)) return;
  rng_t* r = crng();
  const MODULE* mod = get_module(N, mt, native);
  const uint64_t sl = aop_big(op) ? N : stride_choice(N, slc);  // the aliased buffer: one pointer, one stride
  const int y_small = (op == A_BIG_ADD_SMALL_RA || op == A_BIG_SUB_SMALL_B_RA || op == A_BIG_SUB_SMALL_A_RB);
  const uint64_t ysl = (aop_big(op) && !y_small) ? N : stride_choice(N, yslc);
  const uint64_t limbs = rs > xs ? rs : xs;
  zvec_t X, X2, Y, R;
  zvec_alloc(&X, N, limbs, sl, 8 * (rep % 8));    // aliased buffer (holds max(res,a) limbs)
  zvec_alloc(&X2, N, xs, sl, 8 * ((rep + 1) % 8));  // copy of the source for the out-of-place call
  zvec_alloc(&Y, N, aop_binary(op) ? ys : 0, ysl, 8 * ((rep + 2) % 8));
  zvec_alloc(&R, N, rs, sl, 8 * ((rep + 3) % 8));
  zvec_prefill(&R, (int)rep, 7);
  const unsigned bits = (op == A_NORMALIZE || op == A_BIG_NORMALIZE) ? 62 : (unsigned)rng_range(r, 2, 61);
  // the whole aliased buffer holds live data, also beyond the aliased operand's size (stale limbs)
  for (uint64_t l = 0; l < limbs; l++)
    for (uint64_t i = 0; i < N; i++) zvec_limb(&X, l)[i] = rng_sbits(r, bits);
  for (uint64_t l = 0; l < limbs; l++) structure_words(r, (uint64_t*)zvec_limb(&X, l), N, bits);
  for (uint64_t l = 0; l < xs; l++) memcpy(zvec_limb(&X2, l), zvec_limb(&X, l), N * 8);
  for (uint64_t l = 0; l < Y.size; l++)
    for (uint64_t i = 0; i < N; i++) zvec_limb(&Y, l)[i] = rng_sbits(r, bits);
  for (uint64_t l = 0; l < Y.size; l++) structure_words(r, (uint64_t*)zvec_limb(&Y, l), N, bits);
  // p classes: 0 random, 1 small, 2 +-1 / N+-1 special branches, 3 far
  int64_t p;
  switch (pclass) {
    case 1: p = rng_range(r, -3, 3); break;
    case 2: { static const int sgn[] = {1, -1}; int64_t c[] = {1, -1, (int64_t)N + 1, (int64_t)N - 1, 0, (int64_t)N}; p = c[rng_u64(r) % 6] + sgn[rng_u64(r) & 1] * (int64_t)(2 * N) * (int64_t)(rng_u64(r) % 5); break; }
    case 3: p = rng_sbits(r, 62); break;
    default: p = rng_range(r, 0, 2 * (int64_t)N - 1);
  }
  const unsigned k = 1 + (unsigned)(rng_u64(r) % 62);
  // normalisations: a third of the cases run on vectors that already consist of base-2^k digits, including the two
  // values on the edge of the balanced interval (+2^(k-1) is not a digit: it must become -2^(k-1) with a carry)
  if ((op == A_NORMALIZE || op == A_BIG_NORMALIZE) && (rng_u64(r) % 3) == 0) {
    const int64_t half = (int64_t)1 << (k - 1);
    for (uint64_t l = 0; l < limbs; l++)
      for (uint64_t i = 0; i < N; i++) {
        const uint64_t t = rng_u64(r);
        zvec_limb(&X, l)[i] = (t & 15) == 0 ? half : ((t & 15) == 1 ? -half : ((t & 15) == 2 ? half - 1 : (k >= 2 ? rng_sbits(r, k - 1) : 0)));
      }
    for (uint64_t l = 0; l < xs; l++) memcpy(zvec_limb(&X2, l), zvec_limb(&X, l), N * 8);
    cnt("normalize_on_digit_vectors", 1);
  }
  gbuf_t gt;
  uint64_t tb = N * 8;
  if (op == A_NORMALIZE) tb = vec_znx_normalize_base2k_tmp_bytes(mod);
  if (op == A_BIG_NORMALIZE) tb = vec_znx_big_normalize_base2k_tmp_bytes(mod);
  uint8_t* tmp = gb_alloc(&gt, tb, 8, 8, 4096);
  snap_t sy;
  zvec_snap(&sy, &Y);
  // out of place first, then aliased
  do_op(op, mod, p, k, R.p, rs, R.sl, X2.p, xs, X2.sl, Y.p, Y.size, Y.sl, tmp);
  gb_prefill(&gt, 1, 0);
  do_op(op, mod, p, k, X.p, rs, X.sl, X.p, xs, X.sl, Y.p, Y.size, Y.sl, tmp);
  for (uint64_t l = 0; l < rs; l++)
    if (memcmp(zvec_limb(&X, l), zvec_limb(&R, l), N * 8)) {
      uint64_t i = 0;
      while (zvec_limb(&X, l)[i] == zvec_limb(&R, l)[i]) i++;
      viol("oracle", "%s: N=%" PRIu64 " res_size=%" PRIu64 " aliased size=%" PRIu64 " other=%" PRIu64 " p=%" PRId64 " k=%u: limb %" PRIu64 " coeff %" PRIu64 ": in place %" PRId64 " != out of place %" PRId64, aop_name[op], N, rs, xs, ys, p, k, l, i, zvec_limb(&X, l)[i], zvec_limb(&R, l)[i]);
      break;
    }
  long d;
  char msg[200];
  if ((d = zvec_snap_cmp_free(&sy, &Y)) >= 0) viol("snapshot", "%s modified its non-aliased operand at byte %ld", aop_name[op], d);
  if (zvec_check(&X, msg, sizeof msg) || zvec_check(&R, msg, sizeof msg) || zvec_check(&Y, msg, sizeof msg) || zvec_check(&X2, msg, sizeof msg)) viol("canary", "%s: %s", aop_name[op], msg);
  long wh;
  if (gb_check(&gt, &wh)) viol("canary", "%s: scratch overrun (%ld)", aop_name[op], wh);
  cnt("aliased_pairs", 1);
  cntf("alias:%s", 1, aop_name[op]);
  sample("in place == out of place on %" PRIu64 " limbs", rs);
  gb_free(&gt);
  zvec_free(&X);
  zvec_free(&X2);
  zvec_free(&Y);
  zvec_free(&R);
  case_end(xs >= 1 && rs >= 1);
}

// inverse DFT writing over its own input (res == a_dft)
static void idft_case(uint64_t N, MODULE_TYPE mt, int native, uint64_t rs, uint64_t as, unsigned rep) {
  char key[96];
  snprintf(key, sizeof key, "vec_znx_idft(res==a_dft)|%s,%s%s", mt == NTT120 ? "ntt120" : "fft64", rs == as ? "res=a" : (rs < as ? "res<a" : "res>a"), native ? "" : ",generic");
  if (!case_begin(key, "N=%" PRIu64 " res=%" PRIu64 " a=%" PRIu64 " rep=%u", N, rs, as, rep)) return;
  rng_t* r = crng();
  const MODULE* mod = get_module(N, mt, native);
  const uint64_t dft_b = mt == NTT120 ? N * 32 : N * 8, big_b = mt == NTT120 ? N * 16 : N * 8;
  const uint64_t bytes_alias = (as * dft_b > rs * big_b) ? as * dft_b : rs * big_b;
  zvec_t A;
  zvec_alloc(&A, N, as, N, 0);
  for (uint64_t l = 0; l < as; l++)
    for (uint64_t i = 0; i < N; i++) zvec_limb(&A, l)[i] = mt == NTT120 ? (int64_t)rng_u64(r) : rng_sbits(r, 40);
  gbuf_t g1, g2, g3, gt;
  uint8_t* d1 = gb_alloc(&g1, bytes_alias, 32, 0, 4096);
  uint8_t* d2 = gb_alloc(&g2, as * dft_b, 32, 0, 4096);
  uint8_t* out = gb_alloc(&g3, rs * big_b, 16, 0, 4096);
  uint8_t* tmp = gb_alloc(&gt, vec_znx_idft_tmp_bytes(mod), 8, 8, 4096);
  gb_prefill(&g1, 3, rep);
  vec_znx_dft(mod, (VEC_ZNX_DFT*)d1, as, A.p, as, A.sl);
  // FFT64, every other repetition: the spectrum scaled by 2^14 .. 2^19, i.e. inverse transforms with coefficients beyond 2^53 (what a
  // product near the precision budget leaves): the conversion to integers then runs in its wide regime
  if (mt != NTT120 && (rep & 1))
    for (uint64_t i = 0; i < as * N; i++) ((double*)d1)[i] = ldexp(((double*)d1)[i], 14 + (int)(rep % 6));
  memcpy(d2, d1, as * dft_b);
  uint8_t* keep = malloc(as * dft_b + 8);
  memcpy(keep, d1, as * dft_b);
  gb_prefill(&g3, 1, 0);
  vec_znx_idft(mod, (VEC_ZNX_BIG*)out, rs, (VEC_ZNX_DFT*)d2, as, tmp);
  vec_znx_idft(mod, (VEC_ZNX_BIG*)d1, rs, (VEC_ZNX_DFT*)d1, as, tmp);
  if (memcmp(d1, out, rs * big_b)) viol("oracle", "vec_znx_idft with res == a_dft differs from the out-of-place call (N=%" PRIu64 " res=%" PRIu64 " a=%" PRIu64 " %s)", N, rs, as, mt == NTT120 ? "NTT120" : "FFT64");
  // the variant that may destroy its input, writing over it (FFT64: same element size for both views)
  if (mt != NTT120) {
    memcpy(d1, keep, as * dft_b);
    memcpy(d2, keep, as * dft_b);
    gb_prefill(&g3, 2, 1);
    vec_znx_idft_tmp_a(mod, (VEC_ZNX_BIG*)out, rs, (VEC_ZNX_DFT*)d2, as);
    vec_znx_idft_tmp_a(mod, (VEC_ZNX_BIG*)d1, rs, (VEC_ZNX_DFT*)d1, as);
    if (memcmp(d1, out, rs * big_b)) viol("oracle", "vec_znx_idft_tmp_a with res == a_dft differs from the out-of-place call (N=%" PRIu64 " res=%" PRIu64 " a=%" PRIu64 ")", N, rs, as);
    cnt("alias:vec_znx_idft_tmp_a(res==a_dft)", 1);
  }
  free(keep);
  long wh;
  if (gb_check(&g1, &wh) || gb_check(&g2, &wh) || gb_check(&g3, &wh) || gb_check(&gt, &wh)) viol("canary", "idft in place wrote outside an object (%ld)", wh);
  cnt("aliased_pairs", 1);
  cnt("alias:vec_znx_idft(res==a_dft)", 1);
  sample("in-place inverse DFT equals out-of-place on %" PRIu64 " limbs", rs);
  zvec_free(&A);
  gb_free(&g1);
  gb_free(&g2);
  gb_free(&g3);
  gb_free(&gt);
  case_end(rs >= 1 && as >= 1);
}

// pointwise products r == a, r == b, r == a == b on reim / reim4 / cplx vectors, every variant
static void fftvec_alias_case(int ly, int addmul, int variant, uint64_t m, int alias, unsigned rep) {
  static const char* ln[] = {"reim", "reim4", "cplx"};
  static const char* vn[] = {"dispatch-native", "dispatch-generic", "ref", "fma"};
  static const char* an[] = {"", "r==a", "r==b", "r==a==b"};
  char key[96];
  snprintf(key, sizeof key, "%s_fftvec_%s(%s)|%s", ln[ly], addmul ? "addmul" : "mul", an[alias], vn[variant]);
  if (!case_begin(key, "m=%" PRIu64 " rep=%u", m, rep)) return;
  rng_t* r = crng();
  gbuf_t ga, gb, gr;
  double* a = gb_alloc(&ga, 2 * m * 8, 8, 8 * (rep % 8), 4096);
  double* b = gb_alloc(&gb, 2 * m * 8, 8, 8 * ((rep + 1) % 8), 4096);
  double* out = gb_alloc(&gr, 2 * m * 8, 8, 8 * ((rep + 2) % 8), 4096);
  for (uint64_t i = 0; i < 2 * m; i++) {
    a[i] = rng_unit(r) * 2 - 1;
    b[i] = rng_unit(r) * 2 - 1;
  }
  if (alias == 3) memcpy(b, a, 2 * m * 8);
  // accumulate variant: the initial content of r matters; for aliased calls it is the aliased operand
  memcpy(out, alias == 2 ? b : a, 2 * m * 8);
  set_dispatch(variant != 1);
  void* p;
  if (ly == 0) p = addmul ? (void*)new_reim_fftvec_addmul_precomp((uint32_t)m) : (void*)new_reim_fftvec_mul_precomp((uint32_t)m);
  else if (ly == 1) p = addmul ? (void*)new_reim4_fftvec_addmul_precomp((uint32_t)m) : (void*)new_reim4_fftvec_mul_precomp((uint32_t)m);
  else p = addmul ? (void*)new_cplx_fftvec_addmul_precomp((uint32_t)m) : (void*)new_cplx_fftvec_mul_precomp((uint32_t)m);
  set_dispatch(1);
  int ok = 1;
  for (int pass = 0; pass < 2 && ok; pass++) {
    double* rr = pass == 0 ? out : (alias == 2 ? b : a);
    const double* pa = a;
    const double* pb = (alias == 3 && pass == 1) ? a : b;
    if (variant <= 1) {
      if (ly == 0) addmul ? reim_fftvec_addmul(p, rr, pa, pb) : reim_fftvec_mul(p, rr, pa, pb);
      else if (ly == 1) addmul ? reim4_fftvec_addmul(p, rr, pa, pb) : reim4_fftvec_mul(p, rr, pa, pb);
      else addmul ? cplx_fftvec_addmul(p, rr, pa, pb) : cplx_fftvec_mul(p, rr, pa, pb);
    } else if (variant == 2) {
      if (ly == 0) addmul ? reim_fftvec_addmul_ref(p, rr, pa, pb) : reim_fftvec_mul_ref(p, rr, pa, pb);
      else if (ly == 1) addmul ? reim4_fftvec_addmul_ref(p, rr, pa, pb) : reim4_fftvec_mul_ref(p, rr, pa, pb);
      else addmul ? cplx_fftvec_addmul_ref(p, rr, pa, pb) : cplx_fftvec_mul_ref(p, rr, pa, pb);
    } else {
      if (ly == 0 && m >= 4) addmul ? reim_fftvec_addmul_fma(p, rr, pa, pb) : reim_fftvec_mul_fma(p, rr, pa, pb);
      else if (ly == 1 && m >= 4) addmul ? reim4_fftvec_addmul_fma(p, rr, pa, pb) : reim4_fftvec_mul_fma(p, rr, pa, pb);
      else if (ly == 2 && m >= 8) addmul ? cplx_fftvec_addmul_fma(p, rr, pa, pb) : cplx_fftvec_mul_fma(p, rr, pa, pb);
      else ok = 0;
    }
  }
  if (ok) {
    const double* aliased = alias == 2 ? b : a;
    if (memcmp(aliased, out, 2 * m * 8)) {
      uint64_t i = 0;
      while (aliased[i] == out[i]) i++;
      viol("oracle", "%s_fftvec_%s[%s] %s: m=%" PRIu64 " double %" PRIu64 ": aliased %.17g != separate %.17g", ln[ly], addmul ? "addmul" : "mul", vn[variant], an[alias], m, i, aliased[i], out[i]);
    }
    cnt("aliased_pairs", 1);
    cntf("alias:%s_fftvec(%s)", 1, ln[ly], an[alias]);
  }
  long wh;
  if (gb_check(&ga, &wh) || gb_check(&gb, &wh) || gb_check(&gr, &wh)) viol("canary", "fftvec kernel accessed outside a buffer (%ld)", wh);
  free(p);
  gb_free(&ga);
  gb_free(&gb);
  gb_free(&gr);
  case_end(ok);
}

// every aliased catalogue entry run by several threads at once (private buffers, shared module / tables)
static void concurrent_alias_case(uint64_t N, int T, unsigned rep) {
  if (!case_begin("aliased-entry-points|concurrent threads", "N=%" PRIu64 " threads=%d rep=%u", N, T, rep)) return;
  const char* names[64];
  int n = 0;
  for (int i = 0; i < N_CAT_OPS && n < 64; i++)
    if (strstr(OPS[i].name, "(res==") || strstr(OPS[i].name, "(r==") || strstr(OPS[i].name, "inplace")) names[n++] = OPS[i].name;
  env_t* e = env_create(N, 1);
  char msg[240] = "";
  uint64_t calls = 0;
  uint64_t bad = ops_concurrent_check(names, n, e, T, N <= 1024 ? 40 : 8, G.seed * 977 + rep, msg, sizeof msg, &calls);
  if (bad) viol("differential", "%s (%" PRIu64 " differing calls)", msg, bad);
  env_destroy(e);
  cnt("concurrent_aliased_calls", calls);
  sample("%d aliased entry points x %d threads: %" PRIu64 " calls equal to their sequential re-run", n, T, calls);
  case_end(1);
}

void run_C13(void) {
  const int th = G.thorough;
  unsigned ctr = 0;
  for (size_t ni = 0; ni < N_ALL_N; ni++) {
    const uint64_t N = ALL_N[ni];
    const uint64_t smax = N <= 64 ? 4 : (N <= 4096 ? 3 : 2);
    for (aop_t op = 0; op < N_AOPS; op++)
      for (int cfg = 0; cfg < 3; cfg++) {
        if (cfg == 2 && aop_big(op)) continue;
        const MODULE_TYPE mt = cfg == 2 ? NTT120 : FFT64;
        {
          static const uint64_t CORE[][3] = {{1, 1, 1}, {2, 2, 2}, {3, 1, 2}, {1, 3, 0}, {2, 1, 3}, {1, 2, 2}};
          for (size_t c = 0; c < ARRAY_LEN(CORE); c++) vec_case(op, N, mt, cfg != 1, CORE[c][0], CORE[c][1], CORE[c][2], (unsigned)c % 4, (unsigned)(c + 1) % 4, (int)(c % 4), 50);
        }
        if (N <= 64 || (th && N <= 1024)) {  // many limbs
          static const uint64_t BIGS[][3] = {{9, 8, 7}, {8, 9, 17}, {17, 3, 9}, {7, 16, 16}, {16, 16, 16}, {5, 12, 0}, {33, 32, 31}};
          for (size_t c = 0; c < ARRAY_LEN(BIGS); c++) vec_case(op, N, mt, cfg != 1, BIGS[c][0], BIGS[c][1], BIGS[c][2], (unsigned)c % 4, (unsigned)(c + 1) % 4, (int)(c % 4), 60);
        }
        for (uint64_t rs = 0; rs <= smax; rs++)
          for (uint64_t xs = 0; xs <= smax; xs++)
            for (uint64_t ys = 0; ys <= (aop_binary(op) ? smax : 0); ys++) {
              ctr++;
              uint64_t h = mix64(ctr * 31 + op);
              int take = N <= 16 ? 1 : (N <= 1024 ? (h % (th ? 1 : 3)) == 0 : (h % (th ? 3 : 20)) == 0);
              if (!take) continue;
              const int isrot = (op == A_ROTATE || op == A_AUTO || op == A_BIG_ROTATE || op == A_BIG_AUTO);
              for (int pc = 0; pc < (isrot ? 4 : 1); pc++) vec_case(op, N, mt, cfg != 1, rs, xs, ys, (unsigned)(h >> 8) % 4, (unsigned)(h >> 12) % 4, pc, 0);
            }
      }
    for (int cfg = 0; cfg < 3; cfg++)
      for (uint64_t rs = 0; rs <= (N <= 4096 ? 3u : 2u); rs++)
        for (uint64_t as = 0; as <= (N <= 4096 ? 3u : 2u); as++) {
          if (!th && N > 1024 && ((rs + as + ni) & 1)) continue;
          idft_case(N, cfg == 2 ? NTT120 : FFT64, cfg != 1, rs, as, 0);
        }
    if (N <= 64)
      for (int cfg = 0; cfg < 3; cfg++) {
        idft_case(N, cfg == 2 ? NTT120 : FFT64, cfg != 1, 9, 13, 1);
        idft_case(N, cfg == 2 ? NTT120 : FFT64, cfg != 1, 16, 8, 1);
        idft_case(N, cfg == 2 ? NTT120 : FFT64, cfg != 1, 12, 12, 1);
      }
  }
  {
    static const uint64_t CN[] = {4, 64, 512, 2048, 8192};
    for (size_t i = 0; i < ARRAY_LEN(CN); i++)
      for (unsigned rep = 0; rep < (th ? 10u : 2u); rep++) concurrent_alias_case(CN[i], rep & 1 ? 16 : 4, rep);
  }
  // exhaustive p for in-place rotate / automorphism through the vector API on small N (coupled with C09)
  for (uint64_t N = 2; N <= (th ? 256u : 64u); N <<= 1)
    for (unsigned rep = 0; rep < 2 * N; rep++) {
      vec_case(A_ROTATE, N, FFT64, 1, 2, 2, 0, rep % 4, 0, 0, 1000 + rep);
      vec_case(A_AUTO, N, FFT64, 1, 2, 2, 0, rep % 4, 0, 0, 1000 + rep);
    }
  for (unsigned k = 0; k <= 16; k++) {
    const uint64_t m = 1ull << k;
    for (int ly = 0; ly < 3; ly++) {
      if (ly == 1 && m < 4) continue;
      for (int addmul = 0; addmul <= 1; addmul++)
        for (int v = 0; v < 4; v++)
          for (int alias = 1; alias <= 3; alias++) {
            if (!th && m > 4096 && v >= 2) continue;
            fftvec_alias_case(ly, addmul, v, m, alias, 0);
          }
    }
  }
  // in-place automorphisms (and rotations) exactly 2^8 and 2^16 calls after the previous one on the ring
  {
    static const int64_t PA[] = {5, 3, -3, 25, 7, -5, 9, 17};
    for (unsigned rep = 0; rep < (th ? 24u : 8u); rep++)
      for (int which = 0; which < 4; which++) {
        const uint64_t N = rep & 1 ? 32 : 64;
        const int aut = which & 1;
        ops_ring_history_case(which, N, aut ? PA[rep % 8] : 4 * (int64_t)(1 + rep % 7), (rep & 2) ? N : 2, aut ? ((rep & 2) ? ((rep & 4) ? 2 * (int64_t)N + 1 : -1) : 3) : ((rep & 4) ? 2 * (int64_t)N : 1), rep < 16, rep, "long_history_calls");
      }
  }
  // the entry points of this property called a second time on the SAME buffers holding other data (new values, two limbs exchanged,
  // one word moved between limbs): must equal a fresh call on that data (results or operands remembered by address)
  {
    static const char* const RNAMES[] = {"vec_znx_copy(res==a)", "vec_znx_negate(res==a)", "vec_znx_rotate(res==a)", "vec_znx_automorphism(res==a)", "vec_znx_normalize_base2k(res==a)", "vec_znx_add(res==a)", "vec_znx_sub(res==b)", "vec_znx_big_add(res==a)", "vec_znx_big_sub(res==b)", "vec_znx_add(res==b)", "vec_znx_sub(res==a)", "vec_znx_big_rotate(res==a)", "vec_znx_big_automorphism(res==a)", "vec_znx_idft(res==a_dft)", "reim_fftvec_mul(r==a)", "reim_fftvec_addmul(r==b)", "cplx_fftvec_mul(r==b)"};
    static const uint64_t RN[] = {2, 16, 64, 1024};
    for (size_t i = 0; i < ARRAY_LEN(RN); i++)
      for (int cfg = DISP_NATIVE; cfg >= DISP_GENERIC; cfg--) {
        if (cfg == DISP_GENERIC && (i & 1)) continue;
        ops_recontent_case("C13 entry points", RNAMES, (int)ARRAY_LEN(RNAMES), RN[i], cfg, G.thorough ? 40 : 6, (unsigned)i, "same_buffers_other_data_calls");
      }
    // and with every allocation request made inside the call refused (build tag "oom"; a no-op in the other builds)
    for (int cfg = DISP_NATIVE; cfg >= DISP_GENERIC; cfg--) {
      ops_oom_case("C13 entry points", RNAMES, (int)ARRAY_LEN(RNAMES), 64, cfg, G.thorough ? 12 : 3, 0, "calls_repeated_under_allocation_failure");
      ops_oom_case("C13 entry points", RNAMES, (int)ARRAY_LEN(RNAMES), 1024, cfg, G.thorough ? 6 : 2, 1, "calls_repeated_under_allocation_failure");
    }
    // and from a thread with a small stack, at the largest dimensions
    for (int cfg = DISP_NATIVE; cfg >= DISP_GENERIC; cfg--) {
      ops_small_stack_case("C13 entry points", RNAMES, (int)ARRAY_LEN(RNAMES), 65536, cfg, 256, G.thorough ? 4 : 1, 0, "small_stack_calls");
      ops_small_stack_case("C13 entry points", RNAMES, (int)ARRAY_LEN(RNAMES), 16384, cfg, 256, G.thorough ? 4 : 2, 1, "small_stack_calls");
    }
  }
}
