// C14 — numeric layout conversions are exact or correctly rounded on their whole domain.
// Oracle: exact rational comparison in __float128 (every quantity involved fits in 113 bits).
#include <quadmath.h>

#include <pthread.h>
#include <xmmintrin.h>
#include "lib.h"
#include "ops.h"

typedef __float128 q_t;

// ---------------------------------------------------------------- value generators (ratios x/d)
// fills n ratios with |v| < 2^maxe: exponent sweep, boundaries, near-ties, quarter points, integers, random
static void gen_ratios(rng_t* r, uint64_t n, int maxe, double* v, unsigned variant) {
  const double top = ldexp(1.0, maxe);
  for (uint64_t i = 0; i < n; i++) {
    double x;
    switch ((i + variant) % 12) {
      case 0: {  // +-2^e for every exponent in the domain
        int e = (int)rng_range(r, -60, maxe - 1);
        x = ldexp(1.0, e);
        break;
      }
      case 1: {  // one ulp around a power of two
        int e = (int)rng_range(r, -10, maxe - 1);
        x = ldexp(1.0, e);
        x = (rng_u64(r) & 1) ? nextafter(x, 0) : nextafter(x, INFINITY);
        break;
      }
      case 2:  // just inside the domain boundary
        x = nextafter(top, 0);
        if (rng_u64(r) & 1) x = nextafter(x, 0);
        break;
      case 3:
      case 4: {  // near ties: k + 1/2 -+ 1,2 ulp (exact ties excluded from direction checks by the oracle)
        int kb = (int)rng_range(r, 0, maxe - 2 > 50 ? 50 : (maxe - 2 < 0 ? 0 : maxe - 2));
        double k = (double)(rng_u64(r) & ((kb >= 63 ? ~0ull : (1ull << kb)) - (kb ? 1 : 0)));
        if ((rng_u64(r) & 7) == 0) k = 0;
        x = k + 0.5;
        int steps = (int)rng_range(r, 1, 2);
        for (int s = 0; s < steps; s++) x = (i & 1) ? nextafter(x, 0) : nextafter(x, INFINITY);
        if (x >= top) x = nextafter(0.5, 0);
        break;
      }
      case 5: {  // quarter points
        int kb = (int)rng_range(r, 0, maxe - 3 > 48 ? 48 : (maxe - 3 < 0 ? 0 : maxe - 3));
        x = (double)(rng_u64(r) & ((1ull << kb) - (kb ? 1 : 0))) + ((rng_u64(r) & 1) ? 0.25 : 0.75);
        break;
      }
      case 6: {  // integers
        int kb = (int)rng_range(r, 0, maxe - 1 > 62 ? 62 : maxe - 1);
        x = (double)(rng_u64(r) & ((1ull << kb) | ((1ull << kb) - 1)));
        if (x >= top) x = top / 2;
        break;
      }
      case 7:  // exact tie (only checked for |r - x/d| <= 1/2, both neighbours accepted)
        x = (double)(rng_u64(r) % 1000) + 0.5;
        if (x >= top) x = 0.5;
        break;
      case 8:  // tiny (denormal-free)
        x = ldexp(rng_unit(r) + 0.5, (int)rng_range(r, -900, -60));
        break;
      case 9:
        x = 0.0;
        break;
      default: {  // random magnitude
        int e = (int)rng_range(r, -4, maxe);
        x = ldexp(rng_unit(r), e);
        if (x >= top) x = nextafter(top, 0);
      }
    }
    while (x >= top) x *= 0.5;  // never leave the documented domain |x/d| < 2^maxe
    if (rng_u64(r) & 1) x = -x;
    v[i] = x;
  }
}

// (every power of two is a legal divisor: the extremes check that no intermediate constant is kept in a narrower type)
// rep bit 12: the distance between input and output modulo the page size is swept: bits 16..21 select it (-256 .. +248 bytes in
// steps of 8), the input's own page offset rotates with the low bits
static void sweep_offsets(unsigned rep) {
  // (also: one case in four starts with every floating-point exception flag pending - sticky flags are legal thread state, as after
  // an unrelated 0/0 or overflow, and a conversion must not read them as its own)
  if ((rep & 3) == 1) _mm_setcsr(_mm_getcsr() | 0x3Fu);
  if (!(rep & 0x1000)) return;
  long offs[2];
  offs[0] = 2048 + 8 * (long)(rep & 7) + 64 * (long)((rep >> 3) & 1);
  offs[1] = offs[0] + 8 * ((long)((rep >> 16) & 63) - 32);
  gb_force_page_offsets(offs, 2);
  cnt("page_offset_sweep_calls", 1);
}
static const int DIV_EXP[] = {-8, -3, -1, 0, 1, 4, 8, 10, 16, 19, 20, 31, 32, 40, -300, -128, -97, -64, 64, 127, 182, 300};

// ---------------------------------------------------------------- reim_from_znx64
static void case_from_znx64(uint64_t m, int variant /*0 table native,1 table generic,2 ref,3 fma*/, unsigned rep) {
  static const char* vn[] = {"dispatch-native", "dispatch-generic", "ref", "bnd50_fma"};
  char key[96];
  snprintf(key, sizeof key, "reim_from_znx64|%s,%s", vn[variant], m >= 8 ? "m>=8" : "m<8");
  if (!case_begin(key, "m=%" PRIu64 " rep=%u", m, rep)) return;
  rng_t* r = crng();
  const uint64_t n = 2 * m;
  gbuf_t gi, go;
  sweep_offsets(rep);
  int64_t* x = gb_alloc(&gi, n * 8, 8, 8 * (rep % 8), 4096);
  double* out = gb_alloc(&go, n * 8, 8, 8 * ((rep + 3) % 8), 4096);
  gb_prefill(&go, (int)rep, 1);
  const int64_t lim = ((int64_t)1 << 50) - 1;
  for (uint64_t i = 0; i < n; i++) {
    switch (i % 6) {
      case 0: x[i] = (i & 8) ? lim : -lim; break;
      case 1: x[i] = (int64_t)1 << rng_range(r, 0, 49); break;
      case 2: x[i] = -((int64_t)1 << rng_range(r, 0, 49)); break;
      case 3: x[i] = ((int64_t)1 << rng_range(r, 1, 49)) - 1; break;
      case 4: x[i] = rng_range(r, -2, 2); break;
      default: x[i] = rng_sbits(r, (unsigned)rng_range(r, 1, 50));
    }
    if (x[i] > lim) x[i] = lim;
    if (x[i] < -lim) x[i] = -lim;
  }
  // the vector above mixes every value class, so a test on the WHOLE vector ("all high words zero", "all non-negative") never
  // holds: three cases in four make the vector homogeneous in one class (with the class's extremes present)
  {
    const unsigned cls = (unsigned)(rng_u64(r) % 12);
    const uint64_t special = rng_u64(r) % n;
    for (uint64_t i = 0; i < n && cls < 9; i++) {
      const uint64_t w = rng_u64(r);
      switch (cls) {
        case 0: x[i] = (int64_t)(w >> 32); break;                                  // all in [0, 2^32)
        case 1: x[i] = (int64_t)(w >> 32) | (i == special ? (int64_t)1 << 31 : 0); break;
        case 2: x[i] = (int64_t)(w >> 31) - ((int64_t)1 << 32); break;             // all in [-2^32, 2^32)
        case 3: x[i] = (int64_t)(w >> 33); break;                                  // all in [0, 2^31)
        case 4: x[i] = (int64_t)(w >> 32) - ((int64_t)1 << 31); break;             // all int32
        case 5: x[i] = (int64_t)((w >> 46) << 32); break;                          // all multiples of 2^32
        case 6: x[i] = (int64_t)(w >> 48); break;                                  // all below 2^16
        case 7: x[i] = i == special ? lim : (int64_t)(w >> 40); break;             // small, one maximal value
        default: x[i] = i + 4 >= n ? (i & 1 ? -lim : lim) : (int64_t)(w >> 36) - ((int64_t)1 << 27);  // small, the last four maximal
      }
    }
    if (cls == 0 || cls == 1) x[special] = (int64_t)0xFFFFFFFFu;
    if (cls == 4) x[special] = -((int64_t)1 << 31);
    cntf("input_class:%u", 1, cls < 9 ? cls : 9);
  }
  set_dispatch(variant != 1);
  REIM_FROM_ZNX64_PRECOMP* p = new_reim_from_znx64_precomp((uint32_t)m, 50);
  set_dispatch(1);
  if (variant <= 1) reim_from_znx64(p, out, x);
  else if (variant == 2) reim_from_znx64_ref(p, out, x);
  else reim_from_znx64_bnd50_fma(p, out, x);
  for (uint64_t i = 0; i < n; i++)
    if (out[i] != (double)x[i]) {
      viol("oracle", "reim_from_znx64[%s]: m=%" PRIu64 " x=%" PRId64 " -> %.17g", vn[variant], m, x[i], out[i]);
      break;
    }
  long wh;
  if (gb_check(&gi, &wh) || gb_check(&go, &wh)) viol("canary", "reim_from_znx64[%s] wrote/read outside its buffers (%ld)", vn[variant], wh);
  free(p);
  gb_free(&gi);
  gb_free(&go);
  cnt("values_checked", n);
  cnt("conv:reim_from_znx64", n);
  sample("%" PRIu64 " int64 values up to +-(2^50-1) converted exactly", n);
  case_end(1);
}

// ---------------------------------------------------------------- reim_to_znx64
// log2bound: the bound declared to new_reim_to_znx64_precomp; the values stay below 2^min(log2bound,52)
static void case_to_znx64_b(uint64_t m, int variant /*0 native table,1 generic table,2 ref,3 bnd50,4 bnd63*/, unsigned log2bound, int dexp, unsigned rep) {
  static const char* vn[] = {"dispatch-native", "dispatch-generic", "ref", "avx2_bnd50_fma", "avx2_bnd63_fma"};
  const int wide = log2bound > 50;
  const int maxe = log2bound > 52 ? 52 : (int)log2bound;
  char key[96];
  // rep bit 8: the conversion overwrites its own input (r == x: same pointer; the library does this itself in vec_znx_idft_tmp_a)
  const int inplace = (rep >> 8) & 1;
  snprintf(key, sizeof key, "reim_to_znx64|%s,%s,%s%s", vn[variant], wide ? "log2bound>50(|x/d|<2^52)" : "log2bound<=50", m >= 8 ? "m>=8" : "m<8", inplace ? ",in place" : "");
  if (!case_begin(key, "m=%" PRIu64 " log2bound=%u divisor=2^%d rep=%u", m, log2bound, dexp, rep)) return;
  rng_t* r = crng();
  const uint64_t n = 2 * m;
  const double d = ldexp(1.0, dexp);
  gbuf_t gi, go;
  sweep_offsets(rep);
  double* x = gb_alloc(&gi, n * 8, 8, 8 * (rep % 8), 4096);
  int64_t* out = gb_alloc(&go, n * 8, 8, 8 * ((rep + 5) % 8), 4096);
  gb_prefill(&go, (int)rep, 2);
  double* ratio = malloc(n * 8);
  gen_ratios(r, n, maxe, ratio, rep);
  // (same remark as for the int64 -> double cases: half of the cases are homogeneous in one magnitude class, optionally with a
  // single value of the top class at a random position or among the last four)
  {
    const unsigned cls = (unsigned)(rng_u64(r) % 8);
    const uint64_t special = rng_u64(r) % n;
    if (cls < 4) {
      const int smalle = cls == 0 ? 10 : (cls == 1 ? 31 : (maxe > 50 ? 50 : maxe - 2));
      double* small = malloc(n * 8);
      gen_ratios(r, n, smalle < 2 ? 2 : smalle, small, rep + 1);
      for (uint64_t i = 0; i < n; i++) {
        const int keep_big = (cls == 2 && i == special) || (cls == 3 && i + 4 >= n && ((i ^ special) & 1));
        if (!keep_big) ratio[i] = small[i];
        else if (fabs(ratio[i]) < ldexp(1.0, maxe - 1)) ratio[i] = (ratio[i] < 0 ? -1 : 1) * nextafter(ldexp(1.0, maxe), 0);
      }
      free(small);
    }
    cntf("input_class:%u", 1, cls < 4 ? cls : 4);
  }
  for (uint64_t i = 0; i < n; i++) x[i] = ratio[i] * d;  // exact: power-of-two scaling, no under/overflow here
  double* x0 = malloc(n * 8 + 8);
  memcpy(x0, x, n * 8);
  if (inplace) out = (int64_t*)x;
  set_dispatch(variant != 1);
  REIM_TO_ZNX64_PRECOMP* p = new_reim_to_znx64_precomp((uint32_t)m, d, log2bound);
  set_dispatch(1);
  switch (variant) {
    case 0: case 1: reim_to_znx64(p, out, x); break;
    case 2: reim_to_znx64_ref(p, out, x); break;
    case 3: reim_to_znx64_avx2_bnd50_fma(p, out, x); break;
    default: reim_to_znx64_avx2_bnd63_fma(p, out, x);
  }
  uint64_t nbad = 0;
  for (uint64_t i = 0; i < n; i++) {
    q_t t = (q_t)x0[i] / (q_t)d;
    q_t diff = fabsq((q_t)out[i] - t);
    if (diff > (q_t)0.5) {
      // class key of the one pre-existing finding: x/d = +-pred(1/2) on the bnd63 AVX2 kernel
      const int pred_half = fabs(ratio[i]) == nextafter(0.5, 0);
      if (nbad++ < 2) viol(pred_half ? "oracle:x/d=+-pred(1/2)" : "oracle", "reim_to_znx64[%s]: m=%" PRIu64 " d=2^%d x/d=%.17g (%a) -> %" PRId64 ": |r - x/d| = 1/2 + %.3g", vn[variant], m, dexp, ratio[i], ratio[i], out[i], (double)(diff - (q_t)0.5));
    }
    if (ratio[i] != floor(ratio[i])) cnt("rounding_exercised", 1);
  }
  long wh;
  if (gb_check(&gi, &wh) || gb_check(&go, &wh)) viol("canary", "reim_to_znx64[%s] accessed outside its buffers (%ld)", vn[variant], wh);
  free(p);
  free(ratio);
  free(x0);
  gb_free(&gi);
  gb_free(&go);
  if (inplace) cnt("inplace_conversions", 1);
  cnt("values_checked", n);
  cnt("conv:reim_to_znx64", n);
  cntf("divisor:2^%d", 1, dexp);
  sample("%" PRIu64 " doubles incl. near-ties and domain boundary rounded within 1/2", n);
  case_end(1);
}

// dense near-tie sweep: every binade of the domain, k + 1/2 -+ 1..3 ulp, for every variant
static void case_to_znx64_sweep(int variant, int e, int dexp, unsigned rep) {
  static const char* vn[] = {"dispatch-native", "dispatch-generic", "ref", "avx2_bnd50_fma", "avx2_bnd63_fma"};
  char key[96];
  snprintf(key, sizeof key, "reim_to_znx64|%s,near-tie-sweep", vn[variant]);
  if (!case_begin(key, "binade=2^%d divisor=2^%d rep=%u", e, dexp, rep)) return;
  rng_t* r = crng();
  const uint64_t m = 512, n = 2 * m;
  const double d = ldexp(1.0, dexp);
  const int wide = variant != 3 && e >= 49;
  gbuf_t gi, go;
  sweep_offsets(rep);
  double* x = gb_alloc(&gi, n * 8, 8, 8 * (rep % 8), 4096);
  int64_t* out = gb_alloc(&go, n * 8, 8, 8 * ((rep + 5) % 8), 4096);
  double* ratio = malloc(n * 8);
  for (uint64_t i = 0; i < n; i++) {
    double k = e < 0 ? 0.0 : floor(ldexp(1.0 + rng_unit(r), e));
    double v = k + 0.5;
    if (v == k) v = k;  // beyond 2^52 there is no half
    int steps = 1 + (int)(i % 3);
    for (int s2 = 0; s2 < steps; s2++) v = (i & 4) ? nextafter(v, 0) : nextafter(v, INFINITY);
    if (i % 16 == 15) v = k + 0.5;  // exact tie: either neighbour accepted
    ratio[i] = (i & 8) ? -v : v;
    x[i] = ratio[i] * d;
  }
  set_dispatch(variant != 1);
  REIM_TO_ZNX64_PRECOMP* p = new_reim_to_znx64_precomp((uint32_t)m, d, (wide || variant == 4 || variant == 2) ? 63 : 50);
  set_dispatch(1);
  switch (variant) {
    case 0: case 1: reim_to_znx64(p, out, x); break;
    case 2: reim_to_znx64_ref(p, out, x); break;
    case 3: reim_to_znx64_avx2_bnd50_fma(p, out, x); break;
    default: reim_to_znx64_avx2_bnd63_fma(p, out, x);
  }
  uint64_t nbad = 0;
  for (uint64_t i = 0; i < n; i++) {
    q_t diff = fabsq((q_t)out[i] - (q_t)x[i] / (q_t)d);
    if (diff > (q_t)0.5 && nbad++ < 2) {
      const int pred_half = fabs(ratio[i]) == nextafter(0.5, 0);
      viol(pred_half ? "oracle:x/d=+-pred(1/2)" : "oracle", "reim_to_znx64[%s] near-tie sweep: d=2^%d x/d=%a -> %" PRId64 ": |r - x/d| = 1/2 + %.3g", vn[variant], dexp, ratio[i], out[i], (double)(diff - (q_t)0.5));
    }
  }
  long wh;
  if (gb_check(&gi, &wh) || gb_check(&go, &wh)) viol("canary", "reim_to_znx64[%s] accessed outside its buffers (%ld)", vn[variant], wh);
  free(p);
  free(ratio);
  gb_free(&gi);
  gb_free(&go);
  cnt("values_checked", n);
  cnt("near_tie_sweep_values", n);
  cnt("rounding_exercised", n);
  cnt("conv:reim_to_znx64", n);
  sample("1024 near-ties in binade 2^%d", e);
  case_end(1);
}

static void case_to_znx64(uint64_t m, int variant, int wide, int dexp, unsigned rep) { case_to_znx64_b(m, variant, wide ? 63 : 50, dexp, rep); }

// ---------------------------------------------------------------- reim_to_tnx (double -> torus double)
extern void reim_to_tnx_basic_ref(const REIM_TO_TNX_PRECOMP* tables, double* r, const double* x);  // exported, in no header
static void case_to_tnx(uint64_t m, int variant /*0 native,1 generic,2 ref,3 avx*/, unsigned ovh, int dexp, unsigned rep) {
  static const char* vn[] = {"dispatch-native", "dispatch-generic", "ref", "avx", "basic-ref"};
  char key[96];
  snprintf(key, sizeof key, "reim_to_tnx|%s,%s,%s", vn[variant], ovh >= 29 ? "log2overhead>=29" : "log2overhead<29", m >= 8 ? "m>=8" : "m<8");
  if (!case_begin(key, "m=%" PRIu64 " log2overhead=%u divisor=2^%d rep=%u", m, ovh, dexp, rep)) return;
  rng_t* r = crng();
  const uint64_t n = 2 * m;
  const double d = ldexp(1.0, dexp);
  gbuf_t gi, go;
  sweep_offsets(rep);
  double* x = gb_alloc(&gi, n * 8, 8, 8 * (rep % 8), 4096);
  double* out = gb_alloc(&go, n * 8, 8, 8 * ((rep + 1) % 8), 4096);
  gb_prefill(&go, 2, 0);
  double* ratio = malloc(n * 8);
  gen_ratios(r, n, (int)ovh, ratio, rep);
  // domain is closed: |x/d| <= 2^log2overhead
  if (n >= 2) {
    ratio[0] = ldexp(1.0, (int)ovh);
    ratio[1] = -ldexp(1.0, (int)ovh);
  }
  for (uint64_t i = 0; i < n; i++) x[i] = ratio[i] * d;
  set_dispatch(variant != 1);
  REIM_TO_TNX_PRECOMP* p = new_reim_to_tnx_precomp((uint32_t)m, d, ovh);
  set_dispatch(1);
  if (variant <= 1) reim_to_tnx(p, out, x);
  else if (variant == 2) reim_to_tnx_ref(p, out, x);
  else if (variant == 4) reim_to_tnx_basic_ref(p, out, x);  // exported second portable implementation (x/d - rint(x/d))
  else reim_to_tnx_avx(p, out, x);
  const q_t tol = ldexpq(1, (int)ovh - 50);
  uint64_t nbad = 0;
  for (uint64_t i = 0; i < n; i++) {
    q_t t = (q_t)x[i] / (q_t)d;
    q_t diff = (q_t)out[i] - t;
    diff -= rintq(diff);  // torus distance
    if (!(fabs(out[i]) <= 0.5) && nbad++ < 2) viol("oracle", "reim_to_tnx[%s]: result %.17g outside [-1/2,1/2] (x/d=%a ovh=%u)", vn[variant], out[i], ratio[i], ovh);
    else if (fabsq(diff) > tol && nbad++ < 2) viol("oracle", "reim_to_tnx[%s]: m=%" PRIu64 " log2overhead=%u d=2^%d x/d=%a -> %.17g: torus distance %.3g > 2^%d", vn[variant], m, ovh, dexp, ratio[i], out[i], (double)fabsq(diff), (int)ovh - 50);
  }
  long wh;
  if (gb_check(&gi, &wh) || gb_check(&go, &wh)) viol("canary", "reim_to_tnx[%s] accessed outside its buffers (%ld)", vn[variant], wh);
  free(p);
  free(ratio);
  gb_free(&gi);
  gb_free(&go);
  cnt("values_checked", n);
  cnt("conv:reim_to_tnx", n);
  cntf("log2overhead:%u", 1, ovh);
  sample("%" PRIu64 " doubles reduced modulo 1 within 2^%d", n, (int)ovh - 50);
  case_end(1);
}

// ---------------------------------------------------------------- cplx conversions (int32 <-> complex)
static void case_cplx_from(uint64_t m, int torus, int variant /*0 native,1 generic,2 ref,3 avx*/, unsigned rep) {
  static const char* vn[] = {"dispatch-native", "dispatch-generic", "ref", "avx2_fma"};
  char key[96];
  snprintf(key, sizeof key, "%s|%s,%s", torus ? "cplx_from_tnx32" : "cplx_from_znx32", vn[variant], m >= 8 ? "m>=8" : "m<8");
  if (!case_begin(key, "m=%" PRIu64 " rep=%u", m, rep)) return;
  rng_t* r = crng();
  gbuf_t gi, go;
  sweep_offsets(rep);
  int32_t* x = gb_alloc(&gi, 2 * m * 4, 8, 8 * (rep % 8) + 4 * ((rep >> 1) & 1), 4096);  // (an int32 array promises 4-byte alignment only)
  double* out = gb_alloc(&go, 2 * m * 8, 8, 8 * ((rep + 1) % 8), 4096);
  gb_prefill(&go, 2, 0);
  for (uint64_t i = 0; i < 2 * m; i++) {
    switch (i % 7) {
      case 0: x[i] = INT32_MIN; break;
      case 1: x[i] = INT32_MAX; break;
      case 2: x[i] = (int32_t)rng_range(r, -2, 2); break;
      case 3: x[i] = (int32_t)(1u << rng_range(r, 0, 30)); break;
      case 4: x[i] = -(int32_t)(1u << rng_range(r, 0, 30)); break;
      default: x[i] = (int32_t)rng_u64(r);
    }
  }
  set_dispatch(variant != 1);
  void* p = torus ? (void*)new_cplx_from_tnx32_precomp((uint32_t)m) : (void*)new_cplx_from_znx32_precomp((uint32_t)m);
  set_dispatch(1);
  if (torus) {
    if (variant <= 1) cplx_from_tnx32(p, out, x);
    else if (variant == 2) cplx_from_tnx32_ref(p, out, x);
    else cplx_from_tnx32_avx2_fma(p, out, x);
  } else {
    if (variant <= 1) cplx_from_znx32(p, out, x);
    else if (variant == 2) cplx_from_znx32_ref(p, out, x);
    else cplx_from_znx32_avx2_fma(p, out, x);
  }
  for (uint64_t i = 0; i < m; i++) {
    double wr = torus ? ldexp((double)x[i], -32) : (double)x[i], wi = torus ? ldexp((double)x[m + i], -32) : (double)x[m + i];
    if (out[2 * i] != wr || out[2 * i + 1] != wi) {
      viol("oracle", "%s[%s]: m=%" PRIu64 " index %" PRIu64 ": (%d,%d) -> (%.17g,%.17g)", torus ? "cplx_from_tnx32" : "cplx_from_znx32", vn[variant], m, i, x[i], x[m + i], out[2 * i], out[2 * i + 1]);
      break;
    }
  }
  long wh;
  if (gb_check(&gi, &wh) || gb_check(&go, &wh)) viol("canary", "cplx_from_*[%s] accessed outside its buffers (%ld)", vn[variant], wh);
  free(p);
  gb_free(&gi);
  gb_free(&go);
  cnt("values_checked", 2 * m);
  cntf("conv:%s", 2 * m, torus ? "cplx_from_tnx32" : "cplx_from_znx32");
  sample("%" PRIu64 " int32 (INT32_MIN/MAX included) converted exactly", 2 * m);
  case_end(1);
}

// every int32 value: slice s of 256 covers the 2^24 values with top byte s, 65536 per call (m = 32768), each value at a
// position (real/imaginary half, vector lane) that changes from slice to slice
static void case_cplx_from_exhaustive(int torus, int variant /*2 ref,3 avx*/, unsigned slice) {
  char key[96];
  snprintf(key, sizeof key, "%s|%s,every-int32", torus ? "cplx_from_tnx32" : "cplx_from_znx32", variant == 2 ? "ref" : "avx2_fma");
  if (!case_begin(key, "slice=%u/256", slice)) return;
  const uint64_t m = 32768;
  gbuf_t gi, go;
  int32_t* x = gb_alloc(&gi, 2 * m * 4, 8, 8 * (slice % 8), 4096);
  double* out = gb_alloc(&go, 2 * m * 8, 8, 8 * ((slice + 3) % 8), 4096);
  void* p = torus ? (void*)new_cplx_from_tnx32_precomp((uint32_t)m) : (void*)new_cplx_from_znx32_precomp((uint32_t)m);
  const uint32_t rot = (uint32_t)(mix64(slice * 2654435761u + (unsigned)torus) & 0xFFFF);
  uint64_t bad = 0;
  for (uint32_t blk = 0; blk < 256; blk++) {
    const uint32_t base = (slice << 24) | (blk << 16);
    for (uint32_t i = 0; i < 2 * m; i++) x[i] = (int32_t)(base | (i ^ rot));
    if (torus) (variant == 2 ? cplx_from_tnx32_ref : cplx_from_tnx32_avx2_fma)(p, out, x);
    else (variant == 2 ? cplx_from_znx32_ref : cplx_from_znx32_avx2_fma)(p, out, x);
    for (uint64_t i = 0; i < m; i++) {
      const double wr = torus ? (double)x[i] * 0x1p-32 : (double)x[i], wi = torus ? (double)x[m + i] * 0x1p-32 : (double)x[m + i];
      if ((out[2 * i] != wr || out[2 * i + 1] != wi) && bad++ < 2)
        viol("oracle", "%s[%s]: (%d,%d) -> (%.17g,%.17g)", torus ? "cplx_from_tnx32" : "cplx_from_znx32", variant == 2 ? "ref" : "avx2_fma", x[i], x[m + i], out[2 * i], out[2 * i + 1]);
    }
  }
  long wh;
  if (gb_check(&gi, &wh) || gb_check(&go, &wh)) viol("canary", "cplx_from_* accessed outside its buffers (%ld)", wh);
  free(p);
  gb_free(&gi);
  gb_free(&go);
  cnt("values_checked", 1u << 24);
  cntf("exhaustive_int32:%s_%s", 1u << 24, torus ? "cplx_from_tnx32" : "cplx_from_znx32", variant == 2 ? "ref" : "avx2_fma");
  sample("all 2^24 int32 values with top byte 0x%02x converted exactly", slice);
  case_end(1);
}

static void case_cplx_to_tnx32(uint64_t m, int variant, unsigned ovh, int dexp, unsigned rep) {
  static const char* vn[] = {"dispatch-native", "dispatch-generic", "ref", "avx2_fma"};
  char key[96];
  snprintf(key, sizeof key, "cplx_to_tnx32|%s,%s", vn[variant], m >= 8 ? "m>=8" : "m<8");
  if (!case_begin(key, "m=%" PRIu64 " log2overhead=%u divisor=2^%d rep=%u", m, ovh, dexp, rep)) return;
  rng_t* r = crng();
  const double d = ldexp(1.0, dexp);
  gbuf_t gi, go;
  sweep_offsets(rep);
  double* x = gb_alloc(&gi, 2 * m * 8, 8, 8 * (rep % 8), 4096);
  int32_t* out = gb_alloc(&go, 2 * m * 4, 8, 8 * ((rep + 1) % 8) + 4 * ((rep >> 1) & 1), 4096);  // (an int32 array promises 4-byte alignment only)
  gb_prefill(&go, 1, 0);
  double* ratio = malloc(2 * m * 8);
  // the documented domain is |x/d| <= 2^log2overhead (header); up to overhead 18 the generator keeps the property's 2^18, above it
  // follows the declared overhead - the library may then no longer select its fast kernel, whose window ends at 2^19 - 1/2
  gen_ratios(r, 2 * m, ovh > 18 ? (int)ovh : 18, ratio, rep);
  for (uint64_t i = 0; i < 2 * m; i++) x[i] = ratio[i] * d;
  set_dispatch(variant != 1);
  CPLX_TO_TNX32_PRECOMP* p = new_cplx_to_tnx32_precomp((uint32_t)m, d, ovh);
  set_dispatch(1);
  if (variant <= 1) cplx_to_tnx32(p, out, x);
  else if (variant == 2) cplx_to_tnx32_ref(p, out, x);
  else cplx_to_tnx32_avx2_fma(p, out, x);
  uint64_t nbad = 0;
  for (uint64_t i = 0; i < 2 * m; i++) {
    // complex i: re = x[2i], im = x[2i+1]; outputs re at out[i], im at out[m+i]
    uint64_t ci = i / 2;
    int32_t got = (i & 1) ? out[m + ci] : out[ci];
    q_t t = (q_t)x[i] / (q_t)d * (q_t)4294967296.0;
    q_t diff = (q_t)got - t;
    diff -= (q_t)4294967296.0 * rintq(diff / (q_t)4294967296.0);  // modulo 2^32
    if (fabsq(diff) > (q_t)0.5 && nbad++ < 2) viol("oracle", "cplx_to_tnx32[%s]: m=%" PRIu64 " d=2^%d x/d=%a -> %d: distance to x*2^32/d modulo 2^32 = %.6g > 1/2", vn[variant], m, dexp, ratio[i], got, (double)fabsq(diff));
  }
  long wh;
  if (gb_check(&gi, &wh) || gb_check(&go, &wh)) viol("canary", "cplx_to_tnx32[%s] accessed outside its buffers (%ld)", vn[variant], wh);
  free(p);
  free(ratio);
  gb_free(&gi);
  gb_free(&go);
  cnt("values_checked", 2 * m);
  cnt("conv:cplx_to_tnx32", 2 * m);
  sample("%" PRIu64 " doubles with |x/d| < 2^18 rounded to torus32", 2 * m);
  case_end(1);
}

// the convenience functions keep last-parameter caches: every call of a random parameter sequence must still
// satisfy the conversion contract of *its own* parameters (values up to the declared bound)
static void case_simple_sequence(unsigned seq) {
  if (!case_begin("reim_to_znx64_simple+cplx_to_tnx32_simple|parameter-sequence", "sequence=%u", seq)) return;
  rng_t* r = crng();
  static const uint64_t MS[] = {2, 8, 16, 64, 256};
  static const int DE[] = {0, 10, -3};
  static const unsigned BD[] = {40, 50, 52, 63};
  for (int step = 0; step < 24; step++) {
    const uint64_t m = MS[rng_u64(r) % (step < 12 ? 3 : 5)], n = 2 * m;
    const int dexp = DE[rng_u64(r) % 2 + (rng_u64(r) % 8 == 0)];
    const double d = ldexp(1.0, dexp);
    double* x = malloc(n * 8);
    double* ratio = malloc(n * 8);
    if (rng_u64(r) % 3 == 0) {
      // int64 -> double through the simple API with a changing announced bound (small first, large later, and back)
      static const unsigned FB[] = {12, 50, 30, 20, 40, 50};
      const unsigned bound = FB[rng_u64(r) % ARRAY_LEN(FB)];
      int64_t* in = malloc(n * 8);
      for (uint64_t i = 0; i < n; i++) {
        in[i] = rng_sbits(r, bound);
        if ((i & 3) == 0) in[i] = ((i & 4) ? 1 : -1) * (((int64_t)1 << bound) - 1 - (int64_t)(rng_u64(r) & 7));  // at both ends of the announced range
      }
      reim_from_znx64_simple((uint32_t)m, bound, x, in);
      for (uint64_t i = 0; i < n; i++)
        if (x[i] != (double)in[i]) {
          viol("oracle", "reim_from_znx64_simple(m=%" PRIu64 ", log2bound=%u) at step %d of a parameter sequence: %" PRId64 " -> %.17g", m, bound, step, in[i], x[i]);
          break;
        }
      free(in);
      cnt("conv:reim_from_znx64", n);
    } else if (rng_u64(r) & 1) {
      const unsigned bound = BD[rng_u64(r) % 4];
      int64_t* out = malloc(n * 8);
      gen_ratios(r, n, bound > 52 ? 52 : (int)bound, ratio, (unsigned)step);
      for (uint64_t i = 0; i < n; i++) x[i] = ratio[i] * d;
      reim_to_znx64_simple((uint32_t)m, d, bound, out, x);
      for (uint64_t i = 0; i < n; i++)
        if (fabsq((q_t)out[i] - (q_t)x[i] / (q_t)d) > (q_t)0.5) {
          viol("oracle", "reim_to_znx64_simple(m=%" PRIu64 ", d=2^%d, log2bound=%u) at step %d of a parameter sequence: x/d=%a -> %" PRId64, m, dexp, bound, step, ratio[i], out[i]);
          break;
        }
      free(out);
      cnt("conv:reim_to_znx64", n);
    } else {
      const unsigned ovh = (rng_u64(r) & 1) ? 18 : 30;
      int32_t* out = malloc(n * 4);
      gen_ratios(r, n, 18, ratio, (unsigned)step);
      for (uint64_t i = 0; i < n; i++) x[i] = ratio[i] * d;
      cplx_to_tnx32_simple((uint32_t)m, d, ovh, out, x);
      for (uint64_t i = 0; i < n; i++) {
        int32_t got = (i & 1) ? out[m + i / 2] : out[i / 2];
        q_t diff = (q_t)got - (q_t)x[i] / (q_t)d * (q_t)4294967296.0;
        diff -= (q_t)4294967296.0 * rintq(diff / (q_t)4294967296.0);
        if (fabsq(diff) > (q_t)0.5) {
          viol("oracle", "cplx_to_tnx32_simple(m=%" PRIu64 ", d=2^%d, log2overhead=%u) at step %d of a parameter sequence: x/d=%a -> %d", m, dexp, ovh, step, ratio[i], got);
          break;
        }
      }
      free(out);
      cnt("conv:cplx_to_tnx32", n);
    }
    free(x);
    free(ratio);
    cnt("values_checked", n);
    cnt("simple_sequence_calls", 1);
  }
  sample("24 calls with changing (m, divisor, bound/overhead), each checked against its own contract");
  case_end(1);
}

// conversion tables are created, used and freed one after the other (so that the allocator hands the same address to
// the next table) with the same dimension and divisor but another bound / overhead, or re-initialised in place: every
// table must convert according to ITS parameters. The accelerated entry is compared with the reference kernel run on
// the same table (which is itself held to the exact oracle by the cases above); inputs avoid exact ties.
uint64_t c14_recycled_tables_core(rng_t* r, unsigned seq);
static void case_recycled_tables(unsigned seq) {
  if (!case_begin("conversion tables|created, used, freed, re-created at the same address", "sequence=%u", seq)) return;
  const uint64_t tables = c14_recycled_tables_core(crng(), seq);
  cnt("recycled_tables", tables);
  cnt("values_checked", tables * 16);
  sample("%" PRIu64 " tables created / used / freed in a row (same m and divisor, changing bound / overhead)", tables);
  case_end(1);
}
uint64_t c14_recycled_tables_core(rng_t* r, unsigned seq) {
  const uint64_t m = (seq & 1) ? 64 : 8, n = 2 * m;
  const int dexp = (int)(rng_u64(r) % 5);
  const double d = ldexp(1.0, dexp);
  double* x = malloc(n * 8);
  double* ratio = malloc(n * 8);
  double *o1 = malloc(n * 8), *o2 = malloc(n * 8);
  uint64_t tables = 0;
  REIM_TO_TNX_PRECOMP caller_owned;  // re-initialised in place
  for (int st = 0; st < 16; st++) {
    const unsigned kind = (unsigned)(rng_u64(r) % 3);
    if (kind == 0) {
      static const unsigned OV[] = {18, 40, 30, 10, 0, 48, 25};
      const unsigned ovh = OV[rng_u64(r) % ARRAY_LEN(OV)];
      gen_ratios(r, n, (int)ovh, ratio, (unsigned)st);
      for (uint64_t i = 0; i < n; i++) x[i] = ratio[i] * d;
      REIM_TO_TNX_PRECOMP* t;
      const int inplace_init = (int)(rng_u64(r) & 1);
      if (inplace_init) { t = &caller_owned; init_reim_to_tnx_precomp(t, (uint32_t)m, d, ovh); }
      else t = new_reim_to_tnx_precomp((uint32_t)m, d, ovh);
      reim_to_tnx(t, o1, x);
      reim_to_tnx_ref(t, o2, x);
      const double tol = ldexp(1.0, (int)ovh - 49);
      for (uint64_t i = 0; i < n; i++) {
        double df = o1[i] - o2[i];
        df -= rint(df);
        if (!(fabs(df) <= tol)) {
          viol("differential", "reim_to_tnx through a table (m=%" PRIu64 ", d=2^%d, log2overhead=%u) %s at step %d of a create/use/free sequence: x/d=%a -> %.17g, reference kernel on the same table %.17g", m, dexp, ovh, inplace_init ? "re-initialised in place" : "re-created", st, ratio[i], o1[i], o2[i]);
          break;
        }
      }
      if (!inplace_init) free(t);
    } else if (kind == 1) {
      static const unsigned BD[] = {40, 50, 52, 63, 30};
      const unsigned bound = BD[rng_u64(r) % ARRAY_LEN(BD)];
      gen_ratios(r, n, bound > 52 ? 52 : (int)bound, ratio, (unsigned)st);
      for (uint64_t i = 0; i < n; i++) {
        if (ratio[i] * 2 == rint(ratio[i] * 2)) ratio[i] += 0.125;
        if (ratio[i] != rint(ratio[i]) && ratio[i] * 2 == rint(ratio[i] * 2)) ratio[i] = floor(ratio[i]);  // (above 2^51 the only non-integers are ties)
        x[i] = ratio[i] * d;
      }
      REIM_TO_ZNX64_PRECOMP* t = new_reim_to_znx64_precomp((uint32_t)m, d, bound);
      reim_to_znx64(t, (int64_t*)o1, x);
      reim_to_znx64_ref(t, (int64_t*)o2, x);
      if (memcmp(o1, o2, n * 8)) viol("differential", "reim_to_znx64 through a re-created table (m=%" PRIu64 ", d=2^%d, log2bound=%u) at step %d differs from the reference kernel on the same table", m, dexp, bound, st);
      free(t);
    } else {
      const unsigned ovh = (rng_u64(r) & 1) ? 18 : 30;
      gen_ratios(r, n, 17, ratio, (unsigned)st);
      for (uint64_t i = 0; i < n; i++) {
        if (ratio[i] * 2 == rint(ratio[i] * 2)) ratio[i] += 0.125;
        x[i] = ratio[i] * d;
      }
      CPLX_TO_TNX32_PRECOMP* t = new_cplx_to_tnx32_precomp((uint32_t)m, d, ovh);
      cplx_to_tnx32(t, (int32_t*)o1, x);
      cplx_to_tnx32_ref(t, (int32_t*)o2, x);
      if (memcmp(o1, o2, n * 4)) viol("differential", "cplx_to_tnx32 through a re-created table (m=%" PRIu64 ", d=2^%d, log2overhead=%u) at step %d differs from the reference kernel on the same table", m, dexp, ovh, st);
      free(t);
    }
    tables++;
  }
  free(x); free(ratio); free(o1); free(o2);
  return tables;
}

// the *_simple conversions from several threads at once, same dimension, a different (divisor, bound / overhead) per
// thread, after the documented one call per dimension: each thread's results must equal what a table built for its
// own parameters returns (expected values computed beforehand, sequentially, by table-based calls)
typedef struct {
  uint64_t m;
  double d;
  unsigned bound, ovh;
  const double* x;
  const int64_t* want64;
  const int32_t* want32;
  int iters;
  uint64_t wrong64, wrong32;
  pthread_barrier_t* bar;
} csimple_t;
static void* csimple_worker(void* arg) {
  csimple_t* c = arg;
  const uint64_t n = 2 * c->m;
  int64_t* o64 = malloc(n * 8);
  int32_t* o32 = malloc(n * 4);
  pthread_barrier_wait(c->bar);
  for (int it = 0; it < c->iters; it++) {
    reim_to_znx64_simple((uint32_t)c->m, c->d, c->bound, o64, c->x);
    if (memcmp(o64, c->want64, n * 8)) c->wrong64++;
    cplx_to_tnx32_simple((uint32_t)c->m, c->d, c->ovh, o32, c->x);
    if (memcmp(o32, c->want32, n * 4)) c->wrong32++;
  }
  free(o64);
  free(o32);
  return 0;
}
static void case_simple_concurrent(uint64_t m, int T, unsigned rep) {
  char key[96];
  snprintf(key, sizeof key, "reim_to_znx64_simple+cplx_to_tnx32_simple|%d threads,own parameters", T);
  if (!case_begin(key, "m=%" PRIu64 " rep=%u", m, rep)) return;
  rng_t* r = crng();
  const uint64_t n = 2 * m;
  // documented warm-up: one call per dimension has completed
  {
    double* x = calloc(n, 8);
    int64_t* o = malloc(n * 8);
    int32_t* o2 = malloc(n * 4);
    reim_to_znx64_simple((uint32_t)m, 1.0, 50, o, x);
    cplx_to_tnx32_simple((uint32_t)m, 1.0, 18, o2, x);
    free(x); free(o); free(o2);
  }
  csimple_t c[16];
  pthread_t tid[16];
  pthread_barrier_t bar;
  pthread_barrier_init(&bar, 0, (unsigned)T);
  for (int t = 0; t < T; t++) {
    csimple_t* s = &c[t];
    memset(s, 0, sizeof *s);
    s->m = m;
    s->d = ldexp(1.0, t % 8);   // a different divisor per thread
    s->bound = (t & 1) ? 63 : 50;
    s->ovh = (t & 2) ? 30 : 18;
    s->iters = m <= 64 ? 20000 : (m <= 1024 ? 2000 : 200);
    s->bar = &bar;
    double* x = malloc(n * 8);
    double* ratio = malloc(n * 8);
    gen_ratios(r, n, 17, ratio, (unsigned)t);
    for (uint64_t i = 0; i < n; i++) {
      // keep away from exact ties: the expected values come from another (table-based) call of the same kernels
      if (ratio[i] * 2 == rint(ratio[i] * 2)) ratio[i] += 0.125;
      x[i] = ratio[i] * s->d;
    }
    free(ratio);
    int64_t* w64 = malloc(n * 8);
    int32_t* w32 = malloc(n * 4);
    REIM_TO_ZNX64_PRECOMP* t64 = new_reim_to_znx64_precomp((uint32_t)m, s->d, s->bound);
    CPLX_TO_TNX32_PRECOMP* t32 = new_cplx_to_tnx32_precomp((uint32_t)m, s->d, s->ovh);
    reim_to_znx64(t64, w64, x);
    cplx_to_tnx32(t32, w32, x);
    free(t64);
    free(t32);
    s->x = x;
    s->want64 = w64;
    s->want32 = w32;
  }
  for (int t = 0; t < T; t++) pthread_create(&tid[t], 0, csimple_worker, &c[t]);
  uint64_t calls = 0;
  for (int t = 0; t < T; t++) {
    pthread_join(tid[t], 0);
    if (c[t].wrong64) viol("differential", "reim_to_znx64_simple(m=%" PRIu64 ", d=%g, bound=%u): %" PRIu64 " of %d results of thread %d differ from the table built for these parameters while %d threads use other parameters", m, c[t].d, c[t].bound, c[t].wrong64, c[t].iters, t, T);
    if (c[t].wrong32) viol("differential", "cplx_to_tnx32_simple(m=%" PRIu64 ", d=%g, overhead=%u): %" PRIu64 " of %d results of thread %d differ from the table built for these parameters while %d threads use other parameters", m, c[t].d, c[t].ovh, c[t].wrong32, c[t].iters, t, T);
    calls += 2 * (uint64_t)c[t].iters;
    free((void*)c[t].x); free((void*)c[t].want64); free((void*)c[t].want32);
  }
  pthread_barrier_destroy(&bar);
  cnt("concurrent_simple_conversion_calls", calls);
  cnt("values_checked", calls * n);
  sample("%d threads, each with its own (divisor, bound, overhead), %" PRIu64 " calls identical to their table-based results", T, calls);
  case_end(1);
}

void run_C14(void) {
  const int th = G.thorough;
  static const uint64_t MQ[] = {1, 2, 4, 8, 16, 32, 64, 256, 1024, 4096, 65536};
  unsigned ctr = 0;
  // int32 -> complex: the whole domain (2^32 values) through both conversions, reference and AVX2 kernels
  for (unsigned slice = 0; slice < 256; slice++)
    for (int torus = 0; torus <= 1; torus++)
      for (int v = 2; v <= 3; v++) case_cplx_from_exhaustive(torus, v, slice);
  for (size_t mi = 0; mi < ARRAY_LEN(MQ); mi++) {
    const uint64_t m = MQ[mi];
    const unsigned reps = th ? (m <= 1024 ? 120 : 12) : (m <= 64 ? 8 : 2);
    for (unsigned rep = 0; rep < reps; rep++) {
      for (int v = 0; v < 4; v++) {
        if (v == 3 && m < 2) continue;  // the vector kernel handles 4 values per step (n = 2m >= 4)
        case_from_znx64(m, v, rep);
      }
      for (size_t di = 0; di < ARRAY_LEN(DIV_EXP); di++) {
        ctr++;
        if (!th && m > 64 && (ctr % 3)) continue;
        for (int wide = 0; wide <= 1; wide++)
          for (int v = 0; v < 5; v++) {
            if (v >= 3 && m < 2) continue;
            if (v == 3 && wide) continue;  // the fast kernel's contract is |x/d| < 2^50
            case_to_znx64(m, v, wide, DIV_EXP[di], rep);
          }
        for (int v = 0; v < 4; v++) {
          if (v == 3 && m < 8) continue;  // library selects the AVX kernel only for m >= 8
          case_cplx_to_tnx32(m, v, (unsigned)(ctr % 19), DIV_EXP[di], rep);
        }
      }
      for (unsigned ovh = 0; ovh <= 48; ovh++) {
        ctr++;
        if (!th && m > 16 && (ovh % 4) != (ctr % 4)) continue;
        for (int v = 0; v < 5; v++) {
          if (v == 3 && m < 4) continue;  // AVX kernel processes 8 doubles per step (n = 2m >= 8)
          case_to_tnx(m, v, ovh, DIV_EXP[(ctr + ovh) % ARRAY_LEN(DIV_EXP)], rep);
        }
      }
      for (int torus = 0; torus <= 1; torus++)
        for (int v = 0; v < 4; v++) {
          if (v == 3 && m < 8) continue;
          case_cplx_from(m, torus, v, rep);
        }
    }
  }
  for (unsigned q = 0; q < (th ? 4000u : 200u); q++) case_simple_sequence(q);
  for (unsigned q = 0; q < (th ? 2000u : 96u); q++) case_recycled_tables(q);
  {
    static const uint64_t CM[] = {8, 2, 64, 1024, 16384};
    for (size_t i = 0; i < ARRAY_LEN(CM); i++)
      for (unsigned rep = 0; rep < (th ? 8u : 1u); rep++) case_simple_concurrent(CM[i], CM[i] <= 64 ? 8 : 4, rep);
  }
  // dense near-tie sweeps: every binade of each variant's domain
  for (int v = 0; v < 5; v++)
    for (int e = -2; e <= (v == 3 ? 48 : 50); e++)
      for (unsigned rep = 0; rep < (th ? 40u : 2u); rep++) case_to_znx64_sweep(v, e, DIV_EXP[(unsigned)(e + 2 + (int)rep) % ARRAY_LEN(DIV_EXP)], rep);
  // every declared bound 1..64 through the table dispatch (both sides of the fast/wide selection at 50)
  for (unsigned b = 1; b <= 64; b++)
    for (size_t mi = 0; mi < 4; mi++) {
      static const uint64_t MB[] = {2, 8, 64, 1024};
      for (int v = 0; v < 2; v++)
        for (unsigned rep = 20; rep < (th ? 24u : 21u); rep++) case_to_znx64_b(MB[mi], v, b, DIV_EXP[(b + mi) % ARRAY_LEN(DIV_EXP)], rep);
    }
  // every m = 1..4096 on the table-dispatched entry points (thresholds m = 8)
  for (uint64_t m = 1; m <= 4096; m <<= 1)
    for (unsigned rep = 10; rep < (th ? 14u : 11u); rep++) {
      case_to_znx64(m, 0, 1, 0, rep);
      case_to_znx64(m, 0, 0, 10, rep);
      case_to_tnx(m, 0, 18, 4, rep);
      case_to_tnx(m, 0, 48, 0, rep);
      case_cplx_to_tnx32(m, 0, 18, 0, rep);
    }
  // complex -> torus32 with declared overheads above the fast kernel's 18, values up to the declared bound, through the table dispatch
  // (up to 30: the reference kernel converts x*2^32/d through int64, i.e. needs |x/d| < 2^31 - its own comment says so)
  for (unsigned ovh = 19; ovh <= 30; ovh++)
    for (size_t mi = 0; mi < 3; mi++) {
      static const uint64_t OM[] = {8, 64, 2};
      for (int v = 0; v <= 2; v++)
        for (unsigned rep = 40; rep < (th ? 46u : (ovh <= 22 ? 43u : 41u)); rep++) case_cplx_to_tnx32(OM[mi], v, ovh, DIV_EXP[(ovh + mi) % ARRAY_LEN(DIV_EXP)], rep);
    }
  // distance between input and output modulo the page size: every multiple of 8 bytes in [-256, +248], arrays larger than a page
  {
    static const uint64_t SM[] = {512, 1024, 4096, 64};
    for (size_t mi = 0; mi < (th ? 4u : 3u); mi++)
      for (unsigned k = 0; k < 64; k++) {
        const unsigned rep = 0x1000u | (k << 16) | (k & 7) | ((k >> 3 & 1) << 3);
        const uint64_t m = SM[mi];
        if (!th && mi == 2 && (k & 1)) continue;
        for (int v = 0; v <= 3; v += 3) {
          case_from_znx64(m, v, rep);
          case_to_znx64(m, v ? 4 : 0, 1, 3, rep);
          case_to_znx64(m, v ? 3 : 0, 0, 0, rep);
          case_to_tnx(m, v, 18, 2, rep);
          case_cplx_from(m, (int)(k & 1), v, rep);
          case_cplx_to_tnx32(m, v, 18, 1, rep);
        }
      }
  }
  // different *_simple conversions side by side in different threads (after each one's own warm-up), constant arguments
  {
    static const char* const SC[] = {"cplx_from_znx32_simple", "cplx_from_tnx32_simple", "reim_from_znx64_simple", "reim_to_znx64_simple", "cplx_to_tnx32_simple"};
    static const uint64_t SN[] = {16, 128, 2048, 4};
    for (size_t ni = 0; ni < ARRAY_LEN(SN); ni++)
      for (unsigned rep = 0; rep < (th ? 8u : 2u); rep++) {
        const char* names[4];
        const int nj = rep & 1 ? 4 : 2;
        for (int j = 0; j < nj; j++) names[j] = SC[(rep / 2 + (unsigned)j) % ARRAY_LEN(SC)];
        if (!(rep & 1)) { names[0] = SC[0]; names[1] = SC[1]; }
        ops_steady_case("simple conversions", names, nj, SN[ni], DISP_NATIVE, 20, SN[ni] <= 128 ? 400 : 100, 40, (int)(rep >> 1 & 1), rep, "concurrent_simple_conversion_calls");
      }
  }
  // every m on every conversion; rep 30: both buffers misaligned, 7: output on a 64-byte boundary, 8: input on one
  static const unsigned AREP[] = {30, 7, 8};
  for (size_t ar = 0; ar < ARRAY_LEN(AREP); ar++)
  for (uint64_t m = 1; m <= 65536; m <<= 1)
    for (int v = 0; v < 4; v++) {
      const unsigned rep = AREP[ar];
      if (v == 3 && m < 2) continue;
      case_from_znx64(m, v, rep);
      for (int t = 0; t <= 1; t++)
        if (!(v == 3 && m < 8)) case_cplx_from(m, t, v, rep);
      if (!(v == 3 && m < 4)) case_to_tnx(m, v, (unsigned)(m % 49), (int)(m % 7) - 3, rep);
      if (!(v == 3 && m < 8)) case_cplx_to_tnx32(m, v, 18, 3, rep);
      for (int vv = 0; vv < 5; vv++)
        if (!(vv >= 3 && m < 2) && v == 0) case_to_znx64(m, vv, vv != 3, 7, rep);
      for (int vv = 0; vv < 5; vv++)
        if (!(vv >= 3 && m < 2) && v == 0) case_to_znx64(m, vv, vv != 3, (int)(m % 5), rep | 256);  // in place
    }
  // the entry points of this property called a second time on the SAME buffers holding other data (new values, two limbs exchanged,
  // one word moved between limbs): must equal a fresh call on that data (results or operands remembered by address)
  {
    static const char* const RNAMES[] = {"reim_from_znx64", "reim_to_znx64", "reim_to_tnx", "cplx_from_znx32", "cplx_from_tnx32", "cplx_to_tnx32", "reim_from_znx64_simple", "reim_to_znx64_simple", "cplx_from_znx32_simple", "cplx_from_tnx32_simple", "cplx_to_tnx32_simple"};
    static const uint64_t RN[] = {2, 16, 64, 1024};
    for (size_t i = 0; i < ARRAY_LEN(RN); i++)
      for (int cfg = DISP_NATIVE; cfg >= DISP_GENERIC; cfg--) {
        if (cfg == DISP_GENERIC && (i & 1)) continue;
        ops_recontent_case("C14 entry points", RNAMES, (int)ARRAY_LEN(RNAMES), RN[i], cfg, G.thorough ? 40 : 6, (unsigned)i, "same_buffers_other_data_calls");
      }
    // and from a thread with a small stack, at the largest dimensions
    for (int cfg = DISP_NATIVE; cfg >= DISP_GENERIC; cfg--) {
      ops_small_stack_case("C14 entry points", RNAMES, (int)ARRAY_LEN(RNAMES), 65536, cfg, 256, G.thorough ? 4 : 1, 0, "small_stack_calls");
      ops_small_stack_case("C14 entry points", RNAMES, (int)ARRAY_LEN(RNAMES), 16384, cfg, 256, G.thorough ? 4 : 2, 1, "small_stack_calls");
    }
  }
}
