// read-only table support (see roalloc.c)
#ifndef VP_ROALLOC_H
#define VP_ROALLOC_H
#include "common.h"
int ro_available(void);
void ro_capture(int on);     // route the calling thread's allocations to recorded private mappings
size_t ro_protect(void);     // mprotect(PROT_READ) every recorded mapping; returns protected bytes
void ro_unprotect(void);
uint64_t ro_hash(void);      // hash of all recorded allocations (module / table snapshots)
size_t ro_regions(void);
#endif
