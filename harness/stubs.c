// weak fall-backs so that the harness links while properties are being added
#include "common.h"
#define STUB(id) __attribute__((weak)) void run_##id(void) { harness_fail(#id " is not implemented"); }
STUB(C01) STUB(C02) STUB(C03) STUB(C04) STUB(C05) STUB(C06) STUB(C07) STUB(C08) STUB(C09)
STUB(C10) STUB(C11) STUB(C12) STUB(C13) STUB(C14) STUB(C15) STUB(C16) STUB(C17) STUB(C18)
