// C16 — pipelines of API calls compute the corresponding expression in Z[X]/(X^N+1).
// Oracle: an exact interpreter. Every value of a random well-typed straight-line program is tracked as the
// integer polynomial vector it represents (128-bit coefficients); DFT-space and prepared objects are tracked
// as the polynomials they stand for, together with a rigorous bound `eps` on the coefficient-domain error of
// their floating-point representation. The generator only emits an operation when every operand is inside
// the documented domain and eps stays below 1/4, so the integer results must be exactly equal.
#include "lib.h"
#include "ops.h"
#include "oracle.h"

typedef enum { T_ZNX, T_DFT, T_BIG, T_PPOL, T_PMAT, T_DFT120, T_BIG120 } vtype_t;
typedef struct {
  vtype_t type;
  uint64_t size, sl;     // limbs / stride (ZNX); PMAT: size = nrows*ncols
  uint64_t nrows, ncols; // PMAT
  gbuf_t g;
  zvec_t z;              // ZNX storage
  void* p;               // storage pointer
  i128* x;               // exact value: size*N coefficients (PPOL: N; PMAT: nrows*ncols*N)
  long double eps;       // DFT / PPOL / PMAT: bound on the coefficient-domain error of the floating representation
  const char* producer;  // entry point that produced the value
  int live;
} val_t;

#define MAXV 24
typedef struct {
  uint64_t N;
  const MODULE* mod;
  int ntt;
  val_t v[MAXV];
  int nv;
  rng_t* r;
  int ops_done, products, coeff_after_idft, idfts;
  int failed;
  unsigned chain_k;  // the base 2^k for which this program's "carry chain" inputs are built
} prog_t;

static long double norm1(const i128* x, uint64_t N) { long double s = 0; for (uint64_t i = 0; i < N; i++) s += fabsl((long double)x[i]); return s; }
static long double norm2(const i128* x, uint64_t N) { long double s = 0; for (uint64_t i = 0; i < N; i++) s += (long double)x[i] * (long double)x[i]; return sqrtl(s); }
static long double norminf(const i128* x, uint64_t n) { long double s = 0; for (uint64_t i = 0; i < n; i++) { long double a = fabsl((long double)x[i]); if (a > s) s = a; } return s; }
// C01 budget of one product of exact polynomials a, b
static long double prodE(uint64_t N, const i128* a, const i128* b) { return 8.0L * (long double)ilog2(N) * 0x1p-53L * (norm1(a, N) * norm2(b, N) + norm2(a, N) * norm1(b, N)); }
static void exact_mul(uint64_t N, const i128* a, const i128* b, i128* out) {
  int64_t* ia = malloc(N * 8);
  int64_t* ib = malloc(N * 8);
  for (uint64_t i = 0; i < N; i++) {
    ia[i] = (int64_t)a[i];
    ib[i] = (int64_t)b[i];
  }
  negacyclic_exact(N, ia, ib, out);
  free(ia);
  free(ib);
}
static void exact_ringmap(uint64_t N, int is_auto, int64_t p, const i128* a, i128* out) {
  for (uint64_t i = 0; i < N; i++) {
    i128 e = is_auto ? (i128)i * p : (i128)i + p;
    i128 t = e % (i128)(2 * N);
    if (t < 0) t += 2 * N;
    if ((uint64_t)t < N) out[t] = a[i];
    else out[(uint64_t)t - N] = -a[i];
  }
}
static void exact_normalize(uint64_t N, unsigned k, const i128* a, uint64_t a_size, uint64_t a_stride_limbs, i128* out, uint64_t res_size) {
  // digits of T = sum a_i 2^(k(a_size-1-i)); a limb i is at a + i*a_stride_limbs*N
  for (uint64_t c = 0; c < N; c++) {
    big_t T;
    big_zero(&T);
    for (uint64_t i = 0; i < a_size; i++) big_add_shifted_i64(&T, (int64_t)a[i * a_stride_limbs * N + c], (unsigned)(k * (a_size - 1 - i)));
    int64_t dg[16];
    for (uint64_t i = a_size; i-- > 0;) dg[i] = big_centered_digit(&T, k);
    for (uint64_t i = 0; i < res_size; i++) out[i * N + c] = i < a_size ? dg[i] : 0;
  }
}

static val_t* newval(prog_t* P, vtype_t t, uint64_t size, uint64_t sl, const char* producer);
static uint64_t rstride(prog_t* P);
// a fresh integer input. Families: 0 uniform in a random bit length (the default); 1 "scaled": every coefficient of a limb
// is a small multiple of 2^32 (32-bit data lifted to 64 bits); 2 "carry chain": many limbs, the lowest one just past the
// rounding boundary of base 2^chain_k and the ones above exactly on it, so that a carry ripples through every limb that a
// truncating normalisation discards
static val_t* fresh_input(prog_t* P) {
  rng_t* r = P->r;
  const uint64_t N = P->N;
  const unsigned fam = (unsigned)(rng_u64(r) % 8);
  const int chain = fam == 7, scaled = fam == 6;
  const uint64_t size = chain ? 6 + rng_u64(r) % 9 : 1 + rng_u64(r) % 3;
  val_t* v = newval(P, T_ZNX, size, rstride(P), chain ? "input(carry-chain)" : (scaled ? "input(scaled)" : "input"));
  if (!v) return 0;
  const unsigned bits = 1 + (unsigned)(rng_u64(r) % (P->ntt ? 62 : 9));
  const unsigned k = P->chain_k;
  for (uint64_t i = 0; i < N; i++) {
    const int sign = (rng_u64(r) & 1) ? 1 : -1;
    const uint64_t top = chain ? rng_u64(r) % 3 : 0;  // limbs below `top` (most significant ones) stay random
    const int this_chain = chain && (rng_u64(r) % 4) != 0;
    for (uint64_t l = 0; l < size; l++) {
      int64_t c = rng_sbits(r, bits);
      if (P->ntt && (rng_u64(r) & 63) == 0) c = (rng_u64(r) & 1) ? INT64_MAX : INT64_MIN;
      if (P->ntt && (rng_u64(r) & 15) == 1) {
        // a multiple of one prime of the NTT120 modulus, or of the product of two, plus a small remainder: residues that coincide
        static const uint64_t QS[4] = {Q1, Q2, Q3, Q4};
        const uint64_t qa = QS[rng_u64(r) & 3], qb = QS[rng_u64(r) & 3];
        const uint64_t rem = rng_u64(r) % 2000;
        if (rng_u64(r) & 1) c = (int64_t)(qa * qb * (1 + rng_u64(r) % 7) + rem);   // (below 2^63: the primes are below 2^30)
        else c = (int64_t)(qa * (rng_u64(r) >> 34) + rem);
        if (rng_u64(r) & 1) c = -c;
      }
      if (scaled) c = (int64_t)((uint64_t)rng_sbits(r, P->ntt ? 30 : 8) << 32);
      if (this_chain && l >= top) {
        const int64_t half = (int64_t)1 << (k - 1);
        if (l == size - 1) c = sign > 0 ? half : -half - 1;       // least significant limb: produces a carry of +-1
        else c = sign > 0 ? half - 1 : -half;                      // on the boundary: passes the carry on
      }
      zvec_limb(&v->z, l)[i] = c;
      v->x[l * N + i] = c;
    }
  }
  cntf("input_family:%s", 1, chain ? "carry-chain" : (scaled ? "scaled" : "uniform"));
  return v;
}

static val_t* newval(prog_t* P, vtype_t t, uint64_t size, uint64_t sl, const char* producer) {
  if (P->nv >= MAXV) return 0;
  val_t* v = &P->v[P->nv++];
  memset(v, 0, sizeof *v);
  v->type = t;
  v->size = size;
  v->sl = sl;
  v->producer = producer;
  v->live = 1;
  const uint64_t N = P->N;
  const unsigned mis = 8 * (unsigned)(rng_u64(P->r) & 7);
  switch (t) {
    case T_ZNX:
      zvec_alloc(&v->z, N, size, sl, mis);
      zvec_prefill(&v->z, (int)(rng_u64(P->r) & 3), 5);
      v->p = v->z.p;
      break;
    case T_DFT: v->p = gb_alloc(&v->g, bytes_of_vec_znx_dft(P->mod, size), 8, mis, 4096); break;
    case T_BIG: v->p = gb_alloc(&v->g, bytes_of_vec_znx_big(P->mod, size), 8, mis, 4096); break;
    case T_PPOL: v->p = gb_alloc(&v->g, bytes_of_svp_ppol(P->mod), 8, mis, 4096); break;
    case T_PMAT: v->p = gb_alloc(&v->g, bytes_of_vmp_pmat(P->mod, v->nrows, v->ncols), 8, mis, 4096); break;
    case T_DFT120: v->p = gb_alloc(&v->g, size * N * 32, 32, 0, 4096); break;
    case T_BIG120: v->p = gb_alloc(&v->g, size * N * 16, 16, 16 * (mis / 16 % 4), 4096); break;
  }
  if (t != T_ZNX) gb_prefill(&v->g, (int)(rng_u64(P->r) & 3), 9);
  uint64_t nx = (t == T_PPOL) ? N : size * N;
  v->x = calloc(nx ? nx : 1, sizeof(i128));
  return v;
}
static val_t* newpmat(prog_t* P, uint64_t nrows, uint64_t ncols) {
  if (P->nv >= MAXV) return 0;
  val_t* v = &P->v[P->nv++];
  memset(v, 0, sizeof *v);
  v->type = T_PMAT;
  v->nrows = nrows;
  v->ncols = ncols;
  v->size = nrows * ncols;
  v->producer = "vmp_prepare_contiguous";
  v->live = 1;
  v->p = gb_alloc(&v->g, bytes_of_vmp_pmat(P->mod, nrows, ncols), 8, 8 * (unsigned)(rng_u64(P->r) & 7), 4096);
  gb_prefill(&v->g, 2, 0);
  v->x = calloc(v->size * P->N, sizeof(i128));
  return v;
}
static void freeval(val_t* v) {
  if (!v->live) return;
  if (v->type == T_ZNX) zvec_free(&v->z);
  else gb_free(&v->g);
  free(v->x);
  v->live = 0;
}
static val_t* pick(prog_t* P, vtype_t t) {
  int idx[MAXV], n = 0;
  for (int i = 0; i < P->nv; i++)
    if (P->v[i].live && P->v[i].type == t) idx[n++] = i;
  return n ? &P->v[idx[rng_u64(P->r) % (uint64_t)n]] : 0;
}
static void edge(const val_t* src, const char* consumer) { cntf("edge:%s->%s", 1, src->producer, consumer); }

// compare a ZNX / BIG / BIG120 value with its exact counterpart
static void check_value(prog_t* P, val_t* v, const char* after) {
  const uint64_t N = P->N;
  for (uint64_t l = 0; l < v->size && !P->failed; l++)
    for (uint64_t i = 0; i < N; i++) {
      i128 got;
      if (v->type == T_ZNX) got = zvec_limb(&v->z, l)[i];
      else if (v->type == T_BIG) got = ((int64_t*)v->p)[l * N + i];
      else got = ((__int128*)v->p)[l * N + i];
      if (got != v->x[l * N + i]) {
        viol("oracle", "after %s (step %d, N=%" PRIu64 "%s): limb %" PRIu64 " coeff %" PRIu64 ": library %" PRId64 " exact interpreter %" PRId64, after, P->ops_done, N, P->ntt ? " NTT120" : "", l, i, (int64_t)got, (int64_t)v->x[l * N + i]);
        P->failed = 1;
        break;
      }
    }
  char msg[160];
  long wh;
  if (v->type == T_ZNX ? zvec_check(&v->z, msg, sizeof msg) : gb_check(&v->g, &wh)) {
    viol("canary", "after %s: a buffer of the program was written outside its extent", after);
    P->failed = 1;
  }
}

// exponents of rotations / automorphisms: random 62-bit values, a small fixed set that recurs from program to program
// (and hence from one ring dimension to the next within a process), multiples of 2N (identity), odd multiples of N
// (negation), and for automorphisms the fixed points p = 1 mod 2N
static int64_t pick_p(prog_t* P, int is_auto) {
  rng_t* r = P->r;
  const int64_t N = (int64_t)P->N;
  static const int64_t FIXED[] = {5, 3, 7, 25, 261, -1, 1, -3, 2, 4, 12, 1023};
  int64_t p;
  switch (rng_u64(r) % 8) {
    case 0: case 1: case 2: p = rng_sbits(r, 1 + (unsigned)(rng_u64(r) % 62)); break;
    case 3: case 4: p = FIXED[rng_u64(r) % ARRAY_LEN(FIXED)]; break;
    case 5: p = 2 * N * rng_sbits(r, 1 + (unsigned)(rng_u64(r) % 20)) + (is_auto ? 1 : 0); break;
    case 6: p = N * (2 * rng_sbits(r, 10) + 1) + (is_auto ? 1 : 0); break;
    default: p = FIXED[rng_u64(r) % ARRAY_LEN(FIXED)] + 2 * N * rng_sbits(r, 30); break;
  }
  if (is_auto) p |= 1;
  return p;
}
static uint64_t rsize(prog_t* P) { return rng_u64(P->r) % 5; }
static uint64_t rstride(prog_t* P) { return stride_choice(P->N, (unsigned)(rng_u64(P->r) & 3)); }

// ---- one random step; returns 1 if an operation was emitted
static int step(prog_t* P) {
  const uint64_t N = P->N;
  rng_t* r = P->r;
  const MODULE* M = P->mod;
  // weighted choice: DFT-space products, inverse DFTs and big-coefficient operations are what the property is about
  static const int W[] = {0, 1, 2, 3, 4, 5, 6, 7, 8, 9, 10, 10, 10, 11, 11, 11, 12, 13, 13, 13, 14, 15, 15, 15, 16, 16, 16, 17, 18, 19, 20, 20, 21, 21};
  int choice = W[rng_u64(r) % ARRAY_LEN(W)];
  if (P->ntt && choice >= 9 && choice != 10 && choice != 11) choice %= 9;
  switch (choice) {
    case 0: {  // fresh input vector
      return fresh_input(P) != 0;
    }
    case 1: case 2: case 3: case 4: {  // copy / negate / rotate / automorphism (optionally in place)
      val_t* a = pick(P, T_ZNX);
      if (!a) return 0;
      const int inplace = (rng_u64(r) % 4) == 0;
      // in place: the output may have fewer limbs than the aliased input (the remaining limbs keep their data)
      const uint64_t rs = inplace ? ((rng_u64(r) & 1) ? a->size : rng_u64(r) % (a->size + 1)) : rsize(P);
      val_t* res = inplace ? a : newval(P, T_ZNX, rs, rstride(P), "");
      if (!res) return 0;
      int64_t p = pick_p(P, choice == 4);
      if (P->ntt == 0 && choice == 2 && norminf(a->x, a->size * N) > 0x1p61L) return inplace ? 0 : (freeval(res), P->nv--, 0);
      i128* nx = calloc((rs ? rs : 1) * N, sizeof(i128));
      for (uint64_t l = 0; l < rs; l++) {
        if (l >= a->size) continue;
        const i128* al = a->x + l * N;
        switch (choice) {
          case 1: memcpy(nx + l * N, al, N * sizeof(i128)); break;
          case 2: for (uint64_t i = 0; i < N; i++) nx[l * N + i] = -al[i]; break;
          case 3: exact_ringmap(N, 0, p, al, nx + l * N); break;
          default: exact_ringmap(N, 1, p, al, nx + l * N);
        }
      }
      // INT64_MIN cannot be negated in 64 bits: keep such values out of negating maps
      if (choice != 1)
        for (uint64_t i = 0; i < a->size * N; i++)
          if (a->x[i] == (i128)INT64_MIN) { free(nx); if (!inplace) { freeval(res); P->nv--; } return 0; }
      const char* nm = choice == 1 ? "vec_znx_copy" : (choice == 2 ? "vec_znx_negate" : (choice == 3 ? "vec_znx_rotate" : "vec_znx_automorphism"));
      switch (choice) {
        case 1: vec_znx_copy(M, res->p, rs, res->sl, a->p, a->size, a->sl); break;
        case 2: vec_znx_negate(M, res->p, rs, res->sl, a->p, a->size, a->sl); break;
        case 3: vec_znx_rotate(M, p, res->p, rs, res->sl, a->p, a->size, a->sl); break;
        default: vec_znx_automorphism(M, p, res->p, rs, res->sl, a->p, a->size, a->sl);
      }
      if (inplace && rs < a->size) {  // limbs beyond res_size keep their previous content
        i128* full = malloc(a->size * N * sizeof(i128));
        memcpy(full, nx, rs * N * sizeof(i128));
        memcpy(full + rs * N, a->x + rs * N, (a->size - rs) * N * sizeof(i128));
        free(nx);
        nx = full;
        cnt("inplace_fewer_limbs", 1);
      }
      free(res->x);
      res->x = nx;
      res->producer = nm;
      cntf("op:%s%s", 1, nm, inplace ? "(in place)" : "");
      check_value(P, res, nm);
      return 1;
    }
    case 5: case 6: {  // add / sub (res == a sometimes)
      val_t* a = pick(P, T_ZNX);
      val_t* b = pick(P, T_ZNX);
      if (!a || !b) return 0;
      if (norminf(a->x, a->size * N) + norminf(b->x, b->size * N) >= 0x1p62L) return 0;
      const uint64_t ipsel = rng_u64(r) % 4;
      const int inplace = a != b ? (ipsel == 0 ? 1 : (ipsel == 1 ? 2 : 0)) : 0;  // res == a, res == b (same pointer, same stride), or a new vector
      const uint64_t rs = inplace == 1 ? a->size : (inplace == 2 ? b->size : rsize(P));
      val_t* res = inplace == 1 ? a : (inplace == 2 ? b : newval(P, T_ZNX, rs, rstride(P), ""));
      if (!res) return 0;
      i128* nx = calloc((rs ? rs : 1) * N, sizeof(i128));
      for (uint64_t l = 0; l < rs; l++)
        for (uint64_t i = 0; i < N; i++) {
          i128 av = l < a->size ? a->x[l * N + i] : 0, bv = l < b->size ? b->x[l * N + i] : 0;
          nx[l * N + i] = choice == 5 ? av + bv : av - bv;
        }
      if (choice == 5) vec_znx_add(M, res->p, rs, res->sl, a->p, a->size, a->sl, b->p, b->size, b->sl);
      else vec_znx_sub(M, res->p, rs, res->sl, a->p, a->size, a->sl, b->p, b->size, b->sl);
      free(res->x);
      res->x = nx;
      res->producer = choice == 5 ? "vec_znx_add" : "vec_znx_sub";
      cntf("op:%s%s", 1, res->producer, inplace == 1 ? "(in place)" : (inplace == 2 ? "(in place, res==b)" : ""));
      check_value(P, res, res->producer);
      return 1;
    }
    case 7: case 8: {  // normalize (out of place / in place)
      val_t* a = pick(P, T_ZNX);
      if (!a || a->size > 14 || norminf(a->x, a->size * N) > 0x1p62L) return 0;
      const int inplace = choice == 8;
      const uint64_t rs = inplace ? a->size : rsize(P);
      val_t* res = inplace ? a : newval(P, T_ZNX, rs, rstride(P), "");
      if (!res) return 0;
      const unsigned k = (rng_u64(r) & 1) ? P->chain_k : 1 + (unsigned)(rng_u64(r) % 62);
      i128* nx = calloc((rs ? rs : 1) * N, sizeof(i128));
      exact_normalize(N, k, a->x, a->size, 1, nx, rs);
      gbuf_t gt;
      uint8_t* tmp = gb_alloc(&gt, vec_znx_normalize_base2k_tmp_bytes(M), 8, 8, 4096);
      vec_znx_normalize_base2k(M, k, res->p, rs, res->sl, a->p, a->size, a->sl, tmp);
      gb_free(&gt);
      free(res->x);
      res->x = nx;
      res->producer = "vec_znx_normalize_base2k";
      cntf("op:vec_znx_normalize_base2k%s", 1, inplace ? "(in place)" : "");
      check_value(P, res, res->producer);
      return 1;
    }
    case 9: {  // drop a value (keeps the pool moving)
      if (P->nv < MAXV - 4) return 0;
      for (int i = 0; i < P->nv; i++)
        if (P->v[i].live && (rng_u64(r) & 1)) freeval(&P->v[i]);
      return 0;
    }
    case 10: {  // vec_znx_dft
      val_t* a = pick(P, T_ZNX);
      if (!a) return 0;
      if (!P->ntt && norminf(a->x, a->size * N) >= 0x1p50L) return 0;
      const uint64_t rs = rsize(P);
      val_t* res = newval(P, P->ntt ? T_DFT120 : T_DFT, rs, 0, "vec_znx_dft");
      if (!res) return 0;
      for (uint64_t l = 0; l < rs && l < a->size; l++) memcpy(res->x + l * N, a->x + l * N, N * sizeof(i128));
      // representation error of a transformed integer polynomial (forward + inverse transform rounding)
      long double e = 0;
      for (uint64_t l = 0; l < rs && l < a->size; l++) {
        long double t = 16.0L * (long double)ilog2(N) * 0x1p-53L * norm2(a->x + l * N, N) * sqrtl((long double)N);
        if (t > e) e = t;
      }
      res->eps = P->ntt ? 0 : e;
      vec_znx_dft(M, res->p, rs, a->p, a->size, a->sl);
      cnt("op:vec_znx_dft", 1);
      edge(a, "vec_znx_dft");
      return 1;
    }
    case 11: {  // inverse DFT (both variants)
      val_t* d = pick(P, P->ntt ? T_DFT120 : T_DFT);
      if (!d) return 0;
      if (d->eps >= 0.25L) return 0;
      if (!P->ntt && norminf(d->x, d->size * N) >= 0x1p52L) return 0;
      const uint64_t rs = rsize(P);
      val_t* res = newval(P, P->ntt ? T_BIG120 : T_BIG, rs, 0, "");
      if (!res) return 0;
      for (uint64_t l = 0; l < rs && l < d->size; l++) memcpy(res->x + l * N, d->x + l * N, N * sizeof(i128));
      const int tmp_a = (int)(rng_u64(r) & 1);
      if (tmp_a) {
        vec_znx_idft_tmp_a(M, res->p, rs, d->p, d->size);
        edge(d, "vec_znx_idft_tmp_a");
        freeval(d);  // its content is now unspecified
      } else {
        gbuf_t gt;
        uint8_t* tmp = gb_alloc(&gt, vec_znx_idft_tmp_bytes(M), 8, 8, 4096);
        vec_znx_idft(M, res->p, rs, d->p, d->size, tmp);
        gb_free(&gt);
        edge(d, "vec_znx_idft");
      }
      res->producer = tmp_a ? "vec_znx_idft_tmp_a" : "vec_znx_idft";
      cntf("op:%s", 1, res->producer);
      P->idfts++;
      check_value(P, res, res->producer);
      return 1;
    }
    case 12: {  // svp_prepare
      val_t* a = pick(P, T_ZNX);
      if (!a || a->size == 0 || norminf(a->x, N) >= 0x1p50L) return 0;
      val_t* pp = newval(P, T_PPOL, 1, 0, "svp_prepare");
      if (!pp) return 0;
      memcpy(pp->x, a->x, N * sizeof(i128));
      svp_prepare(M, pp->p, a->p);
      cnt("op:svp_prepare", 1);
      return 1;
    }
    case 13: {  // svp_apply_dft
      val_t* pp = pick(P, T_PPOL);
      val_t* a = pick(P, T_ZNX);
      if (!pp || !a) return 0;
      const uint64_t rs = rsize(P);
      long double e = 0;
      for (uint64_t l = 0; l < rs && l < a->size; l++) {
        if (norm1(a->x + l * N, N) * norminf(pp->x, N) >= 0x1p52L || norminf(a->x + l * N, N) >= 0x1p50L) return 0;
        long double t = prodE(N, a->x + l * N, pp->x);
        if (t > e) e = t;
      }
      if (e >= 0.25L) return 0;
      val_t* res = newval(P, T_DFT, rs, 0, "svp_apply_dft");
      if (!res) return 0;
      for (uint64_t l = 0; l < rs && l < a->size; l++) exact_mul(N, a->x + l * N, pp->x, res->x + l * N);
      res->eps = e;
      svp_apply_dft(M, res->p, rs, pp->p, a->p, a->size, a->sl);
      cnt("op:svp_apply_dft", 1);
      edge(pp, "svp_apply_dft");
      P->products++;
      return 1;
    }
    case 14: {  // vmp_prepare_contiguous from fresh small matrix
      // usually up to 4 x 6; one matrix in six is wide (up to 210 columns: the prepared layout indexes by (row, column))
      const uint64_t nrows = 1 + rng_u64(r) % 4, ncols = ((rng_u64(r) % 6) || N > 256) ? 1 + rng_u64(r) % 6 : 7 + rng_u64(r) % 204;
      val_t* pm = newpmat(P, nrows, ncols);
      if (!pm) return 0;
      gbuf_t gm, gt;
      int64_t* mat = gb_alloc(&gm, nrows * ncols * N * 8, 8, 8, 4096);
      uint8_t* tmp = gb_alloc(&gt, vmp_prepare_contiguous_tmp_bytes(M, nrows, ncols), 8, 16, 4096);
      for (uint64_t i = 0; i < nrows * ncols * N; i++) {
        mat[i] = rng_range(r, -8, 8);
        pm->x[i] = mat[i];
      }
      vmp_prepare_contiguous(M, pm->p, mat, nrows, ncols, tmp);
      gb_free(&gm);
      gb_free(&gt);
      cnt("op:vmp_prepare_contiguous", 1);
      return 1;
    }
    case 15: case 16: {  // vmp_apply_dft (from ZNX) / vmp_apply_dft_to_dft (from DFT)
      val_t* pm = pick(P, T_PMAT);
      val_t* a = pick(P, choice == 15 ? T_ZNX : T_DFT);
      if (!pm || !a) return 0;
      const uint64_t rs = rng_u64(r) % 7, rows = pm->nrows < a->size ? pm->nrows : a->size;  // 0..6 output columns: below, at and above ncols
      long double e = 0, mag = 0;
      for (uint64_t j = 0; j < rs && j < pm->ncols; j++) {
        long double ej = 0, mj = 0;
        for (uint64_t i = 0; i < rows; i++) {
          const i128* mij = pm->x + (i * pm->ncols + j) * N;
          if (norminf(a->x + i * N, N) >= 0x1p50L) return 0;
          ej += prodE(N, a->x + i * N, mij) + (choice == 16 ? a->eps * norm1(mij, N) : 0);
          mj += norm1(a->x + i * N, N) * norminf(mij, N);
        }
        if (ej > e) e = ej;
        if (mj > mag) mag = mj;
      }
      if (e >= 0.25L || mag >= 0x1p52L) return 0;
      val_t* res = newval(P, T_DFT, rs, 0, choice == 15 ? "vmp_apply_dft" : "vmp_apply_dft_to_dft");
      if (!res) return 0;
      i128* prod = malloc(N * sizeof(i128));
      for (uint64_t j = 0; j < rs && j < pm->ncols; j++)
        for (uint64_t i = 0; i < rows; i++) {
          exact_mul(N, a->x + i * N, pm->x + (i * pm->ncols + j) * N, prod);
          for (uint64_t c = 0; c < N; c++) res->x[j * N + c] += prod[c];
        }
      free(prod);
      res->eps = e;
      gbuf_t gt;
      if (choice == 15) {
        uint8_t* tmp = gb_alloc(&gt, vmp_apply_dft_tmp_bytes(M, rs, a->size, pm->nrows, pm->ncols), 8, 8, 4096);
        gb_prefill(&gt, 2, 0);
        vmp_apply_dft(M, res->p, rs, a->p, a->size, a->sl, pm->p, pm->nrows, pm->ncols, tmp);
      } else {
        uint8_t* tmp = gb_alloc(&gt, vmp_apply_dft_to_dft_tmp_bytes(M, rs, a->size, pm->nrows, pm->ncols), 8, 8, 4096);
        gb_prefill(&gt, 2, 0);
        vmp_apply_dft_to_dft(M, res->p, rs, a->p, a->size, pm->p, pm->nrows, pm->ncols, tmp);
        edge(a, "vmp_apply_dft_to_dft");
      }
      long wh;
      if (gb_check(&gt, &wh)) { viol("canary", "vmp scratch overrun"); P->failed = 1; }
      gb_free(&gt);
      cntf("op:%s", 1, res->producer);
      edge(pm, res->producer);
      P->products++;
      return 1;
    }
    case 17: case 18: {  // big add / sub, all mixed forms, sometimes res == a
      val_t* a = pick(P, (rng_u64(r) & 1) ? T_BIG : T_ZNX);
      val_t* b = pick(P, (rng_u64(r) & 1) ? T_BIG : T_ZNX);
      if (!a || !b) return 0;
      if (norminf(a->x, a->size * N) + norminf(b->x, b->size * N) >= 0x1p62L) return 0;
      // in place: the output is the first input (one call in four) or the SECOND input (one in four), when that input is a big vector
      const uint64_t ipsel = rng_u64(r) % 4;
      const int inplace = a == b ? 0 : ((ipsel == 0 && a->type == T_BIG) ? 1 : ((ipsel == 1 && b->type == T_BIG) ? 2 : 0));
      const uint64_t rs = inplace == 1 ? a->size : (inplace == 2 ? b->size : rsize(P));
      val_t* res = inplace == 1 ? a : (inplace == 2 ? b : newval(P, T_BIG, rs, 0, ""));
      if (!res) return 0;
      i128* nx = calloc((rs ? rs : 1) * N, sizeof(i128));
      const int sub = choice == 18;
      for (uint64_t l = 0; l < rs; l++)
        for (uint64_t i = 0; i < N; i++) {
          i128 av = l < a->size ? a->x[l * N + i] : 0, bv = l < b->size ? b->x[l * N + i] : 0;
          nx[l * N + i] = sub ? av - bv : av + bv;
        }
      const char* nm;
      if (a->type == T_BIG && b->type == T_BIG) {
        nm = sub ? "vec_znx_big_sub" : "vec_znx_big_add";
        (sub ? vec_znx_big_sub : vec_znx_big_add)(M, res->p, rs, a->p, a->size, b->p, b->size);
      } else if (a->type == T_BIG) {
        nm = sub ? "vec_znx_big_sub_small_b" : "vec_znx_big_add_small";
        (sub ? vec_znx_big_sub_small_b : vec_znx_big_add_small)(M, res->p, rs, a->p, a->size, b->p, b->size, b->sl);
      } else if (b->type == T_BIG) {
        if (!sub) { free(nx); if (!inplace) { freeval(res); P->nv--; } return 0; }  // add_small takes the big operand first
        nm = "vec_znx_big_sub_small_a";
        vec_znx_big_sub_small_a(M, res->p, rs, a->p, a->size, a->sl, b->p, b->size);
      } else {
        nm = sub ? "vec_znx_big_sub_small2" : "vec_znx_big_add_small2";
        (sub ? vec_znx_big_sub_small2 : vec_znx_big_add_small2)(M, res->p, rs, a->p, a->size, a->sl, b->p, b->size, b->sl);
      }
      if (a->type == T_BIG) edge(a, nm);
      if (b->type == T_BIG) edge(b, nm);
      free(res->x);
      res->x = nx;
      res->producer = nm;
      cntf("op:%s%s", 1, nm, inplace == 1 ? "(in place)" : (inplace == 2 ? "(in place, res==b)" : ""));
      if (a->type == T_BIG && strncmp(a->producer, "vec_znx_idft", 12) == 0) P->coeff_after_idft++;
      check_value(P, res, nm);
      return 1;
    }
    case 19: {  // big rotate / automorphism
      val_t* a = pick(P, T_BIG);
      if (!a) return 0;
      const int is_auto = (int)(rng_u64(r) & 1);
      int64_t p = pick_p(P, is_auto);
      const uint64_t rs = rsize(P);
      // one call in three is in place: the result object (max(rs, a->size) limbs, stale pre-fill beyond the input) first
      // receives a copy of the input, then the map is applied with res == a
      const int inplace = (rng_u64(r) % 3) == 0;
      const uint64_t cap = inplace && a->size > rs ? a->size : rs;
      val_t* res = newval(P, T_BIG, cap, 0, is_auto ? (inplace ? "vec_znx_big_automorphism(in place)" : "vec_znx_big_automorphism") : (inplace ? "vec_znx_big_rotate(in place)" : "vec_znx_big_rotate"));
      if (!res) return 0;
      for (uint64_t l = 0; l < rs && l < a->size; l++) exact_ringmap(N, is_auto, p, a->x + l * N, res->x + l * N);
      if (inplace) {
        memcpy(res->p, a->p, a->size * N * 8);
        for (uint64_t l = rs; l < a->size; l++) memcpy(res->x + l * N, a->x + l * N, N * sizeof(i128));  // limbs beyond res_size keep the input
        (is_auto ? vec_znx_big_automorphism : vec_znx_big_rotate)(M, p, res->p, rs, res->p, a->size);
      } else
        (is_auto ? vec_znx_big_automorphism : vec_znx_big_rotate)(M, p, res->p, rs, a->p, a->size);
      cntf("op:%s", 1, res->producer);
      edge(a, res->producer);
      P->coeff_after_idft++;
      check_value(P, res, res->producer);
      return 1;
    }
    case 20: case 21: {  // big normalize / range normalize -> ZNX
      val_t* a = pick(P, T_BIG);
      if (!a || norminf(a->x, a->size * N) > 0x1p62L) return 0;
      const unsigned k = (rng_u64(r) & 1) ? P->chain_k : 1 + (unsigned)(rng_u64(r) % 62);
      const uint64_t rs = rsize(P);
      uint64_t b = 0, e = a->size, st = 1;
      if (choice == 21) {
        b = rng_u64(r) % (a->size + 1);
        e = b + rng_u64(r) % (a->size - b + 1);
        st = 1 + rng_u64(r) % 3;
      }
      const uint64_t nsel = choice == 21 ? (e + st - 1 - b) / st : a->size;
      val_t* res = newval(P, T_ZNX, rs, rstride(P), choice == 21 ? "vec_znx_big_range_normalize_base2k" : "vec_znx_big_normalize_base2k");
      if (!res) return 0;
      exact_normalize(N, k, a->x + b * N, nsel, st, res->x, rs);
      gbuf_t gt;
      uint8_t* tmp = gb_alloc(&gt, vec_znx_big_normalize_base2k_tmp_bytes(M), 8, 8, 4096);
      if (choice == 21) vec_znx_big_range_normalize_base2k(M, k, res->p, rs, res->sl, a->p, b, e, st, tmp);
      else vec_znx_big_normalize_base2k(M, k, res->p, rs, res->sl, a->p, a->size, tmp);
      gb_free(&gt);
      cntf("op:%s", 1, res->producer);
      edge(a, res->producer);
      P->coeff_after_idft++;
      check_value(P, res, res->producer);
      return 1;
    }
  }
  return 0;
}

static void small_product_step(prog_t* P) {
  // znx_small_single_product on two single-limb contiguous values
  const uint64_t N = P->N;
  val_t* a = pick(P, T_ZNX);
  val_t* b = pick(P, T_ZNX);
  if (!a || !b || !a->size || !b->size) return;
  if (norminf(a->x, N) >= 0x1p50L || norminf(b->x, N) >= 0x1p50L || norm1(a->x, N) * norminf(b->x, N) >= 0x1p52L || prodE(N, a->x, b->x) >= 0.25L) return;
  val_t* res = newval(P, T_ZNX, 1, N, "znx_small_single_product");
  if (!res) return;
  exact_mul(N, a->x, b->x, res->x);
  gbuf_t gt;
  uint8_t* tmp = gb_alloc(&gt, znx_small_single_product_tmp_bytes(P->mod), 8, 8, 4096);
  znx_small_single_product(P->mod, res->p, a->p, b->p, tmp);
  gb_free(&gt);
  cnt("op:znx_small_single_product", 1);
  P->products++;
  check_value(P, res, "znx_small_single_product");
}

static void program_case(uint64_t N, int ntt, int native, unsigned prog, int len) {
  char key[96];
  snprintf(key, sizeof key, "random-program|%s%s%s", ntt ? "ntt120" : "fft64", native == DISP_NATIVE ? "" : ",", native == DISP_NATIVE ? "" : disp_name[native]);
  if (!case_begin(key, "N=%" PRIu64 " program=%u len=%d", N, prog, len)) return;
  prog_t P;
  memset(&P, 0, sizeof P);
  P.N = N;
  P.ntt = ntt;
  P.r = crng();
  P.chain_k = 8 + (unsigned)(rng_u64(P.r) % 55);
  P.mod = get_module(N, ntt ? NTT120 : FFT64, native);
  for (int i = 0; i < 3; i++) {
    // start with a few inputs
    int saved = 0;
    (void)saved;
    prog_t* pp = &P;
    if (i == 0) {
      // the first value stays a plain small input: it becomes the prepared scalar of the program
      val_t* v = newval(pp, T_ZNX, 1 + rng_u64(P.r) % 3, rstride(pp), "input");
      unsigned bits = 1 + (unsigned)(rng_u64(P.r) % (ntt ? 62 : 9));
      for (uint64_t l = 0; l < v->size; l++)
        for (uint64_t c = 0; c < N; c++) {
          int64_t x = rng_sbits(P.r, bits);
          zvec_limb(&v->z, l)[c] = x;
          v->x[l * N + c] = x;
        }
    } else
      fresh_input(pp);
  }
  int guard = 0;
  if (!ntt) {
    // every FFT64 program starts with a prepared scalar and a prepared matrix in its pool
    val_t* a0 = &P.v[0];
    if (norminf(a0->x, N) < 0x1p50L) {
      val_t* pp = newval(&P, T_PPOL, 1, 0, "svp_prepare");
      memcpy(pp->x, a0->x, N * sizeof(i128));
      svp_prepare(P.mod, pp->p, a0->p);
      cnt("op:svp_prepare", 1);
    }
  }
  while (P.ops_done < len && !P.failed && guard++ < len * 30) {
    if (!ntt && (rng_u64(P.r) % 23) == 0) {
      small_product_step(&P);
      continue;
    }
    if (step(&P)) P.ops_done++;
    // compact dead values
    if (P.nv == MAXV) {
      int w = 0;
      for (int i = 0; i < P.nv; i++)
        if (P.v[i].live) P.v[w++] = P.v[i];
      P.nv = w;
      if (P.nv > MAXV - 3) {
        freeval(&P.v[rng_u64(P.r) % (uint64_t)P.nv]);
      }
    }
  }
  cnt("operations_executed", (uint64_t)P.ops_done);
  cnt("programs", 1);
  sample("%d operations, %d DFT-space products, %d inverse DFTs, %d coefficient-space operations on inverse-DFT results", P.ops_done, P.products, P.idfts, P.coeff_after_idft);
  for (int i = 0; i < P.nv; i++) freeval(&P.v[i]);
  case_end(ntt ? P.idfts >= 1 : (P.products >= 1 && P.coeff_after_idft >= 1));
}

void run_C16(void) {
  const int th = G.thorough;
  {
    static const char* const CNAMES[] = {"vec_znx_add", "vec_znx_sub", "vec_znx_rotate", "vec_znx_automorphism", "vec_znx_normalize_base2k", "vec_znx_dft", "svp_apply_dft", "vmp_prepare_contiguous", "vmp_apply_dft", "vmp_apply_dft_to_dft", "vec_znx_idft", "vec_znx_idft_tmp_a", "vec_znx_big_add", "vec_znx_big_add_small2", "vec_znx_big_sub_small_a", "vec_znx_big_rotate", "vec_znx_big_normalize_base2k", "vec_znx_big_range_normalize_base2k", "vec_znx_dft@ntt120", "vec_znx_idft@ntt120"};
    static const uint64_t CNS[] = {4, 32, 512, 8192};
    for (size_t i = 0; i < ARRAY_LEN(CNS); i++)
      for (int cfg = DISP_NATIVE; cfg >= DISP_GENERIC; cfg--)
        for (unsigned rep = 0; rep < (th ? 5u : 1u); rep++) {
          if (!th && CNS[i] > 4096 && cfg == DISP_GENERIC) continue;
          ops_concurrent_case("C16 entry points", CNAMES, (int)ARRAY_LEN(CNAMES), CNS[i], cfg, CNS[i] <= 256 ? 8 : 4, rep, "concurrent_entry_calls");
        }
  }
  if (negacyclic_selfcheck(G.seed)) harness_fail("oracle self-check failed");
  // dimension weights: small N dominate; every N is visited
  static const uint64_t WN[] = {2, 4, 4, 8, 8, 16, 16, 32, 64, 64, 128, 256, 512, 1024, 2048, 4096, 8192, 16384, 32768, 65536};
  const unsigned nprog = th ? 60000 : 1600;
  for (unsigned p = 0; p < nprog; p++) {
    const uint64_t N = WN[p % ARRAY_LEN(WN)];
    const int len = N <= 64 ? 5 + (int)(mix64(p) % 116) : (N <= 1024 ? 5 + (int)(mix64(p) % 36) : 5 + (int)(mix64(p) % 12));
    const int ntt = (p % 5) == 4;
    // dispatch configuration of the module: native twice as often as each of generic / avx2-only / fma-only
    // (NTT120 exists behind the avx2 gate only: native or avx2-only)
    static const int CFG[] = {DISP_NATIVE, DISP_GENERIC, DISP_NATIVE, DISP_AVX2_ONLY, DISP_FMA_ONLY};
    const int cfg = ntt ? ((p / 5) % 4 == 3 ? DISP_AVX2_ONLY : DISP_NATIVE) : CFG[(p / 5) % 5];
    program_case(N, ntt, cfg, p, len);
  }
  // modules / tables created, used and destroyed in random order, several alive at once
  for (unsigned rep = 0; rep < (G.thorough ? 240u : 24u); rep++)
    ops_lifecycle_case("C16 objects", LKM_MOD_NTT120 | LKM_MOD_FFT64, (rep % 4) == 3 ? DISP_GENERIC : DISP_NATIVE, 160, 0, rep, "lifecycle_uses");
  // the entry points of this property called a second time on the SAME buffers holding other data (new values, two limbs exchanged,
  // one word moved between limbs): must equal a fresh call on that data (results or operands remembered by address)
  {
    static const char* const RNAMES[] = {"vec_znx_add", "vec_znx_sub", "vec_znx_rotate", "vec_znx_automorphism", "vec_znx_normalize_base2k", "vec_znx_dft", "svp_apply_dft", "vmp_prepare_contiguous", "vmp_apply_dft", "vmp_apply_dft_to_dft", "vec_znx_idft", "vec_znx_big_normalize_base2k", "vec_znx_dft@ntt120", "vec_znx_idft@ntt120"};
    static const uint64_t RN[] = {2, 16, 64, 1024};
    for (size_t i = 0; i < ARRAY_LEN(RN); i++)
      for (int cfg = DISP_NATIVE; cfg >= DISP_GENERIC; cfg--) {
        if (cfg == DISP_GENERIC && (i & 1)) continue;
        ops_recontent_case("C16 entry points", RNAMES, (int)ARRAY_LEN(RNAMES), RN[i], cfg, G.thorough ? 40 : 6, (unsigned)i, "same_buffers_other_data_calls");
      }
    // and from a thread with a small stack, at the largest dimensions
    for (int cfg = DISP_NATIVE; cfg >= DISP_GENERIC; cfg--) {
      ops_small_stack_case("C16 entry points", RNAMES, (int)ARRAY_LEN(RNAMES), 65536, cfg, 256, G.thorough ? 4 : 1, 0, "small_stack_calls");
      ops_small_stack_case("C16 entry points", RNAMES, (int)ARRAY_LEN(RNAMES), 16384, cfg, 256, G.thorough ? 4 : 2, 1, "small_stack_calls");
    }
  }
  // several threads creating, using and destroying their own modules / tables at the same time
  for (unsigned rep = 0; rep < (G.thorough ? 60u : 8u); rep++)
    ops_concurrent_lifecycle_case("C16 objects", LKM_MOD_NTT120 | LKM_MOD_FFT64, (rep % 4) == 3 ? DISP_GENERIC : DISP_NATIVE, rep & 1 ? 8 : 4, 120, rep, "concurrent_lifecycle_uses");
}
