// C08 — vec_znx size/stride semantics: zero-extend, truncate, write only res limbs.
// Oracle: the per-limb definition (missing input limb = 0), evaluated in plain C.
#include <pthread.h>

#include "lib.h"
#include "ops.h"

typedef enum {
  OP_ZERO, OP_COPY, OP_NEGATE, OP_ADD, OP_SUB, OP_ROTATE, OP_AUTO,
  OP_BIG_ADD, OP_BIG_ADD_SMALL, OP_BIG_ADD_SMALL2, OP_BIG_SUB, OP_BIG_SUB_SMALL_A, OP_BIG_SUB_SMALL_B,
  OP_BIG_SUB_SMALL2, OP_BIG_ROTATE, OP_BIG_AUTO, N_OPS
} op_t;
static const char* op_name[] = {"vec_znx_zero", "vec_znx_copy", "vec_znx_negate", "vec_znx_add", "vec_znx_sub",
                                "vec_znx_rotate", "vec_znx_automorphism", "vec_znx_big_add", "vec_znx_big_add_small",
                                "vec_znx_big_add_small2", "vec_znx_big_sub", "vec_znx_big_sub_small_a",
                                "vec_znx_big_sub_small_b", "vec_znx_big_sub_small2", "vec_znx_big_rotate",
                                "vec_znx_big_automorphism"};
static int op_arity(op_t o) { return o == OP_ZERO ? 0 : (o == OP_COPY || o == OP_NEGATE || o == OP_ROTATE || o == OP_AUTO || o == OP_BIG_ROTATE || o == OP_BIG_AUTO) ? 1 : 2; }
static int op_is_big(op_t o) { return o >= OP_BIG_ADD; }
// which operands are "big" vectors (stride N, object sized by bytes_of_vec_znx_big)
static int a_is_big(op_t o) { return o == OP_BIG_ADD || o == OP_BIG_ADD_SMALL || o == OP_BIG_SUB || o == OP_BIG_SUB_SMALL_B || o == OP_BIG_ROTATE || o == OP_BIG_AUTO; }
static int b_is_big(op_t o) { return o == OP_BIG_ADD || o == OP_BIG_SUB || o == OP_BIG_SUB_SMALL_A; }
static int op_is_sub(op_t o) { return o == OP_SUB || o == OP_BIG_SUB || o == OP_BIG_SUB_SMALL_A || o == OP_BIG_SUB_SMALL_B || o == OP_BIG_SUB_SMALL2; }

static void ring_map(uint64_t N, int is_auto, int64_t p, const int64_t* a, int64_t* out) {
  for (uint64_t i = 0; i < N; i++) {
    i128 e = is_auto ? (i128)i * p : (i128)i + p;
    i128 r = e % (i128)(2 * N);
    if (r < 0) r += 2 * N;
    if ((uint64_t)r < N)
      out[r] = a[i];
    else
      out[(uint64_t)r - N] = -a[i];
  }
}

static const char* size_class(uint64_t rs, uint64_t as, uint64_t bs, int ar) {
  static char buf[64];
  if (ar == 0) return rs == 0 ? "res=0" : "res>0";
  const char* ra = rs == 0 ? "res=0" : (as == 0 ? "a=0" : (rs < as ? "res<a" : (rs == as ? "res=a" : "res>a")));
  if (ar == 1) return ra;
  const char* ab = bs == 0 ? "b=0" : (as < bs ? "a<b" : (as == bs ? "a=b" : "a>b"));
  const char* rb = rs < bs ? "res<b" : (rs == bs ? "res=b" : "res>b");
  snprintf(buf, sizeof buf, "%s,%s,%s", ra, ab, rb);
  return buf;
}

// fake module for kernel-level calls (N = 1, 2, 4): only nn is read by the vec_znx_*_ref/avx kernels
static void kernel_call(op_t op, int avx, uint64_t N, int64_t* r, uint64_t rs, uint64_t rsl, const int64_t* a, uint64_t as,
                        uint64_t asl, const int64_t* b, uint64_t bs, uint64_t bsl, int64_t p) {
  MODULE fake;
  memset(&fake, 0, sizeof fake);
  fake.nn = N;
  fake.m = N / 2;
  fake.module_type = FFT64;
  switch (op) {
    case OP_ZERO: vec_znx_zero_ref(&fake, r, rs, rsl); break;
    case OP_COPY: vec_znx_copy_ref(&fake, r, rs, rsl, a, as, asl); break;
    case OP_NEGATE: (avx ? vec_znx_negate_avx : vec_znx_negate_ref)(&fake, r, rs, rsl, a, as, asl); break;
    case OP_ADD: (avx ? vec_znx_add_avx : vec_znx_add_ref)(&fake, r, rs, rsl, a, as, asl, b, bs, bsl); break;
    case OP_SUB: (avx ? vec_znx_sub_avx : vec_znx_sub_ref)(&fake, r, rs, rsl, a, as, asl, b, bs, bsl); break;
    case OP_ROTATE: vec_znx_rotate_ref(&fake, p, r, rs, rsl, a, as, asl); break;
    case OP_AUTO: vec_znx_automorphism_ref(&fake, p, r, rs, rsl, a, as, asl); break;
    default: harness_fail("kernel_call: bad op");
  }
}

// level: 0 = module API, 1 = kernel ref, 2 = kernel avx
static void one_case(op_t op, int level, MODULE_TYPE mt, int native, uint64_t N, uint64_t rs, uint64_t as, uint64_t bs,
                     unsigned rslc, unsigned aslc, unsigned bslc, int extra_limb, unsigned rep) {
  const int ar = op_arity(op);
  if (ar < 2) bs = 0;
  if (ar < 1) as = 0;
  char key[160];
  snprintf(key, sizeof key, "%s|%s%s%s", op_name[op], size_class(rs, as, bs, ar),
           level ? (level == 1 ? ",kernel-ref" : ",kernel-avx") : (mt == NTT120 ? ",ntt120" : ""), (!level && !native) ? ",generic" : "");
  if (!case_begin(key, "N=%" PRIu64 " res=%" PRIu64 " a=%" PRIu64 " b=%" PRIu64 " sl=%u/%u/%u extra=%d level=%d mt=%d disp=%d rep=%u", N, rs, as, bs, rslc, aslc, bslc, extra_limb, level, (int)mt, native, rep))
    return;
  rng_t* r = crng();
  const MODULE* mod = level ? 0 : get_module(N, mt, native);
  const uint64_t rsl = op_is_big(op) ? N : stride_choice(N, rslc);
  const uint64_t asl = a_is_big(op) ? N : stride_choice(N, aslc);
  const uint64_t bsl = b_is_big(op) ? N : stride_choice(N, bslc);
  zvec_t R, A, B;
  const uint64_t r_alloc = rs + (extra_limb ? 1 : 0);
  zvec_alloc(&R, N, r_alloc, rsl, 8 * (rep % 8));
  zvec_alloc(&A, N, as, asl, 8 * ((rep + 2) % 8));
  zvec_alloc(&B, N, bs, bsl, 8 * ((rep + 5) % 8));
  zvec_prefill(&R, (int)rep, case_index() + 1);
  int64_t* extra_copy = 0;
  if (extra_limb) {
    extra_copy = malloc(N * 8);
    memcpy(extra_copy, zvec_limb(&R, rs), N * 8);
  }
  const unsigned bits = 1 + (unsigned)rng_range(r, 0, 61);
  for (uint64_t l = 0; l < as; l++)
    for (uint64_t i = 0; i < N; i++) {
      int64_t v = rng_sbits(r, bits);
      if ((rng_u64(r) & 31) == 0) v = (rng_u64(r) & 1) ? ((int64_t)1 << 62) - 1 : -(((int64_t)1 << 62) - 1);
      zvec_limb(&A, l)[i] = v;
    }
  for (uint64_t l = 0; l < as; l++) structure_words(r, (uint64_t*)zvec_limb(&A, l), N, bits);
  for (uint64_t l = 0; l < bs; l++)
    for (uint64_t i = 0; i < N; i++) {
      int64_t v = rng_sbits(r, bits);
      if ((rng_u64(r) & 31) == 0) v = (rng_u64(r) & 1) ? ((int64_t)1 << 62) - 1 : -(((int64_t)1 << 62) - 1);
      zvec_limb(&B, l)[i] = v;
    }
  for (uint64_t l = 0; l < bs; l++) structure_words(r, (uint64_t*)zvec_limb(&B, l), N, bits);
  int64_t p = rng_sbits(r, 1 + (unsigned)rng_range(r, 0, 61));
  if (op == OP_AUTO || op == OP_BIG_AUTO) p |= 1;
  snap_t sa, sb;
  zvec_snap(&sa, &A);
  zvec_snap(&sb, &B);
  if (level) {
    kernel_call(op, level == 2, N, R.p, rs, rsl, A.p, as, asl, B.p, bs, bsl, p);
  } else {
    VEC_ZNX_BIG* RB = (VEC_ZNX_BIG*)R.p;
    const VEC_ZNX_BIG* AB = (const VEC_ZNX_BIG*)A.p;
    const VEC_ZNX_BIG* BB = (const VEC_ZNX_BIG*)B.p;
    switch (op) {
      case OP_ZERO: vec_znx_zero(mod, R.p, rs, rsl); break;
      case OP_COPY: vec_znx_copy(mod, R.p, rs, rsl, A.p, as, asl); break;
      case OP_NEGATE: vec_znx_negate(mod, R.p, rs, rsl, A.p, as, asl); break;
      case OP_ADD: vec_znx_add(mod, R.p, rs, rsl, A.p, as, asl, B.p, bs, bsl); break;
      case OP_SUB: vec_znx_sub(mod, R.p, rs, rsl, A.p, as, asl, B.p, bs, bsl); break;
      case OP_ROTATE: vec_znx_rotate(mod, p, R.p, rs, rsl, A.p, as, asl); break;
      case OP_AUTO: vec_znx_automorphism(mod, p, R.p, rs, rsl, A.p, as, asl); break;
      case OP_BIG_ADD: vec_znx_big_add(mod, RB, rs, AB, as, BB, bs); break;
      case OP_BIG_ADD_SMALL: vec_znx_big_add_small(mod, RB, rs, AB, as, B.p, bs, bsl); break;
      case OP_BIG_ADD_SMALL2: vec_znx_big_add_small2(mod, RB, rs, A.p, as, asl, B.p, bs, bsl); break;
      case OP_BIG_SUB: vec_znx_big_sub(mod, RB, rs, AB, as, BB, bs); break;
      case OP_BIG_SUB_SMALL_A: vec_znx_big_sub_small_a(mod, RB, rs, A.p, as, asl, BB, bs); break;
      case OP_BIG_SUB_SMALL_B: vec_znx_big_sub_small_b(mod, RB, rs, AB, as, B.p, bs, bsl); break;
      case OP_BIG_SUB_SMALL2: vec_znx_big_sub_small2(mod, RB, rs, A.p, as, asl, B.p, bs, bsl); break;
      case OP_BIG_ROTATE: vec_znx_big_rotate(mod, p, RB, rs, AB, as); break;
      case OP_BIG_AUTO: vec_znx_big_automorphism(mod, p, RB, rs, AB, as); break;
      default: break;
    }
  }
  // oracle: per-limb definition
  int64_t* za = calloc(N, 8);
  int64_t* tmp = malloc(N * 8);
  uint64_t nbad = 0;
  for (uint64_t l = 0; l < rs; l++) {
    const int64_t* al = l < as ? zvec_limb(&A, l) : za;
    const int64_t* bl = l < bs ? zvec_limb(&B, l) : za;
    const int64_t* got = zvec_limb(&R, l);
    const int64_t* want = tmp;
    switch (op) {
      case OP_ZERO: want = za; break;
      case OP_COPY: want = al; break;
      case OP_NEGATE: for (uint64_t i = 0; i < N; i++) tmp[i] = -al[i]; break;
      case OP_ROTATE: case OP_BIG_ROTATE: ring_map(N, 0, p, al, tmp); break;
      case OP_AUTO: case OP_BIG_AUTO: ring_map(N, 1, p, al, tmp); break;
      default:
        if (op_is_sub(op)) for (uint64_t i = 0; i < N; i++) tmp[i] = al[i] - bl[i];
        else for (uint64_t i = 0; i < N; i++) tmp[i] = al[i] + bl[i];
    }
    for (uint64_t i = 0; i < N; i++)
      if (got[i] != want[i] && nbad++ < 2)
        viol("oracle", "%s: limb %" PRIu64 " coeff %" PRIu64 ": got %" PRId64 " want %" PRId64 " (res=%" PRIu64 " a=%" PRIu64 " b=%" PRIu64 " N=%" PRIu64 ")", op_name[op], l, i, got[i], want[i], rs, as, bs, N);
  }
  char msg[200];
  if (zvec_check(&R, msg, sizeof msg)) viol("canary", "%s: res: %s", op_name[op], msg);
  if (zvec_check(&A, msg, sizeof msg)) viol("canary", "%s: a: %s", op_name[op], msg);
  if (zvec_check(&B, msg, sizeof msg)) viol("canary", "%s: b: %s", op_name[op], msg);
  if (extra_limb && memcmp(extra_copy, zvec_limb(&R, rs), N * 8)) viol("canary", "%s: limb %" PRIu64 " past res_size was modified", op_name[op], rs);
  long d;
  if ((d = zvec_snap_cmp_free(&sa, &A)) >= 0) viol("snapshot", "%s modified input a at byte %ld", op_name[op], d);
  if ((d = zvec_snap_cmp_free(&sb, &B)) >= 0) viol("snapshot", "%s modified input b at byte %ld", op_name[op], d);
  cnt("limbs_compared", rs);
  cnt("calls", 1);
  cntf("dispatch:%s", 1, level ? (level == 1 ? "kernel-ref" : "kernel-avx") : (native ? "native" : "generic"));
  cntf("N:%" PRIu64, 1, N);
  sample("%" PRIu64 " output limbs match the per-limb definition; padding, guards%s and inputs intact", rs, extra_limb ? ", extra limb" : "");
  free(za);
  free(tmp);
  free(extra_copy);
  zvec_free(&R);
  zvec_free(&A);
  zvec_free(&B);
  case_end(rs >= 1 && (ar == 0 || as >= 1 || bs >= 1));
}

// aliased forms: res is the very same buffer as a (or b); the per-limb definition must still hold, including
// zero-extension when res_size exceeds the aliased operand's limb count (the buffer then holds stale limbs)
static void alias_case(op_t op, MODULE_TYPE mt, int native, uint64_t N, uint64_t rs, uint64_t as, uint64_t bs, int alias_b, unsigned slc, unsigned rep) {
  const int ar = op_arity(op);
  if (ar == 0 || (alias_b && ar < 2)) return;
  if (alias_b ? b_is_big(op) != op_is_big(op) : a_is_big(op) != op_is_big(op)) return;  // the aliased operand must have res's layout
  char key[160];
  snprintf(key, sizeof key, "%s(res==%s)|%s%s%s", op_name[op], alias_b ? "b" : "a", rs > (alias_b ? bs : as) ? "res>aliased" : (rs == (alias_b ? bs : as) ? "res=aliased" : "res<aliased"), mt == NTT120 ? ",ntt120" : "", native ? "" : ",generic");
  if (!case_begin(key, "N=%" PRIu64 " res=%" PRIu64 " a=%" PRIu64 " b=%" PRIu64 " sl=%u rep=%u", N, rs, as, bs, slc, rep)) return;
  rng_t* r = crng();
  const MODULE* mod = get_module(N, mt, native);
  const uint64_t sl = op_is_big(op) ? N : stride_choice(N, slc);
  const uint64_t xs = alias_b ? bs : as;                // limbs of the aliased operand
  const uint64_t lim = rs > xs ? rs : xs;
  const uint64_t osz = alias_b ? as : bs;               // the other operand
  const uint64_t osl = (alias_b ? a_is_big(op) : b_is_big(op)) ? N : stride_choice(N, slc + 1);
  zvec_t X, O;
  zvec_alloc(&X, N, lim, sl, 8 * (rep % 8));
  zvec_alloc(&O, N, ar == 2 ? osz : 0, osl, 8 * ((rep + 3) % 8));
  int64_t* x0 = malloc((lim ? lim : 1) * N * 8);
  for (uint64_t l = 0; l < lim; l++)
    {
      for (uint64_t i = 0; i < N; i++) zvec_limb(&X, l)[i] = rng_sbits(r, 61);
      structure_words(r, (uint64_t*)zvec_limb(&X, l), N, 61);
      memcpy(x0 + l * N, zvec_limb(&X, l), N * 8);
    }
  for (uint64_t l = 0; l < O.size; l++)
    {
      for (uint64_t i = 0; i < N; i++) zvec_limb(&O, l)[i] = rng_sbits(r, 61);
      structure_words(r, (uint64_t*)zvec_limb(&O, l), N, 61);
    }
  int64_t p = rng_sbits(r, 1 + (unsigned)rng_range(r, 0, 61));
  if (op == OP_AUTO || op == OP_BIG_AUTO) p |= 1;
  snap_t so;
  zvec_snap(&so, &O);
  const int64_t *A = alias_b ? O.p : X.p, *Bp = alias_b ? X.p : O.p;
  const uint64_t asl = alias_b ? O.sl : X.sl, bsl = alias_b ? X.sl : O.sl;
  VEC_ZNX_BIG* RB = (VEC_ZNX_BIG*)X.p;
  switch (op) {
    case OP_COPY: vec_znx_copy(mod, X.p, rs, sl, A, as, asl); break;
    case OP_NEGATE: vec_znx_negate(mod, X.p, rs, sl, A, as, asl); break;
    case OP_ADD: vec_znx_add(mod, X.p, rs, sl, A, as, asl, Bp, bs, bsl); break;
    case OP_SUB: vec_znx_sub(mod, X.p, rs, sl, A, as, asl, Bp, bs, bsl); break;
    case OP_ROTATE: vec_znx_rotate(mod, p, X.p, rs, sl, A, as, asl); break;
    case OP_AUTO: vec_znx_automorphism(mod, p, X.p, rs, sl, A, as, asl); break;
    case OP_BIG_ADD: vec_znx_big_add(mod, RB, rs, (const VEC_ZNX_BIG*)A, as, (const VEC_ZNX_BIG*)Bp, bs); break;
    case OP_BIG_ADD_SMALL: vec_znx_big_add_small(mod, RB, rs, (const VEC_ZNX_BIG*)A, as, Bp, bs, bsl); break;
    case OP_BIG_SUB: vec_znx_big_sub(mod, RB, rs, (const VEC_ZNX_BIG*)A, as, (const VEC_ZNX_BIG*)Bp, bs); break;
    case OP_BIG_SUB_SMALL_A: vec_znx_big_sub_small_a(mod, RB, rs, A, as, asl, (const VEC_ZNX_BIG*)Bp, bs); break;
    case OP_BIG_SUB_SMALL_B: vec_znx_big_sub_small_b(mod, RB, rs, (const VEC_ZNX_BIG*)A, as, Bp, bs, bsl); break;
    case OP_BIG_ROTATE: vec_znx_big_rotate(mod, p, RB, rs, (const VEC_ZNX_BIG*)A, as); break;
    case OP_BIG_AUTO: vec_znx_big_automorphism(mod, p, RB, rs, (const VEC_ZNX_BIG*)A, as); break;
    default: break;
  }
  int64_t* za = calloc(N, 8);
  int64_t* tmp = malloc(N * 8);
  uint64_t nbad = 0;
  for (uint64_t l = 0; l < rs; l++) {
    const int64_t* xl = l < xs ? x0 + l * N : za;                       // aliased operand (original content)
    const int64_t* ol = (ar == 2 && l < O.size) ? zvec_limb(&O, l) : za;  // other operand
    const int64_t* al = alias_b ? ol : xl;
    const int64_t* bl = alias_b ? xl : ol;
    switch (op) {
      case OP_COPY: memcpy(tmp, al, N * 8); break;
      case OP_NEGATE: for (uint64_t i = 0; i < N; i++) tmp[i] = -al[i]; break;
      case OP_ROTATE: case OP_BIG_ROTATE: ring_map(N, 0, p, al, tmp); break;
      case OP_AUTO: case OP_BIG_AUTO: ring_map(N, 1, p, al, tmp); break;
      default:
        if (op_is_sub(op)) for (uint64_t i = 0; i < N; i++) tmp[i] = al[i] - bl[i];
        else for (uint64_t i = 0; i < N; i++) tmp[i] = al[i] + bl[i];
    }
    for (uint64_t i = 0; i < N; i++)
      if (zvec_limb(&X, l)[i] != tmp[i] && nbad++ < 2)
        viol("oracle", "%s with res == %s: limb %" PRIu64 " coeff %" PRIu64 ": got %" PRId64 " want %" PRId64 " (res=%" PRIu64 " a=%" PRIu64 " b=%" PRIu64 " N=%" PRIu64 ")", op_name[op], alias_b ? "b" : "a", l, i, zvec_limb(&X, l)[i], tmp[i], rs, as, bs, N);
  }
  // limbs of the buffer beyond res_size keep their content
  for (uint64_t l = rs; l < lim; l++)
    if (memcmp(zvec_limb(&X, l), x0 + l * N, N * 8)) viol("canary", "%s with res == %s modified limb %" PRIu64 " >= res_size=%" PRIu64, op_name[op], alias_b ? "b" : "a", l, rs);
  char msg[200];
  long d;
  if ((d = zvec_snap_cmp_free(&so, &O)) >= 0) viol("snapshot", "%s (aliased) modified its other input at byte %ld", op_name[op], d);
  if (zvec_check(&X, msg, sizeof msg) || zvec_check(&O, msg, sizeof msg)) viol("canary", "%s (aliased): %s", op_name[op], msg);
  cnt("aliased_calls", 1);
  cnt("limbs_compared", rs);
  sample("aliased call matches the per-limb definition on %" PRIu64 " limbs", rs);
  free(za); free(tmp); free(x0);
  zvec_free(&X);
  zvec_free(&O);
  case_end(rs >= 1);
}

// limb strides of 4 GiB and more, in a sparse mapping that only reserves address space
#include <sys/mman.h>
// one-limb vectors: the stride is never used to reach memory, so every stride >= N is as good as another - including values whose
// product with the limb count or with 8 wraps 64 bits (2^61, 2^61 - 1, 2^63 + N, UINT64_MAX)
static void one_limb_stride_case(op_t op, MODULE_TYPE mt, int native, uint64_t N, unsigned rep) {
  if (op_is_big(op)) return;
  char key[160];
  snprintf(key, sizeof key, "%s|one limb, arbitrary stride up to 2^64-1%s%s", op_name[op], mt == NTT120 ? ",ntt120" : "", native ? "" : ",generic");
  if (!case_begin(key, "N=%" PRIu64 " rep=%u", N, rep)) return;
  rng_t* r = crng();
  const MODULE* mod = get_module(N, mt, native);
  static const uint64_t SL[] = {(1ull << 61) - 1, 1ull << 61, (1ull << 61) + 7, 1ull << 62, UINT64_MAX, (1ull << 63) + 64, (1ull << 60) * 3, 1ull << 32, (1ull << 63)};
  const uint64_t slr = SL[rep % ARRAY_LEN(SL)], sla = SL[(rep / 2 + 3) % ARRAY_LEN(SL)], slb = SL[(rep / 3 + 5) % ARRAY_LEN(SL)];
  gbuf_t gr, ga, gb;
  int64_t* R = gb_alloc(&gr, N * 8, 8, 8 * (rep % 8), 4096);
  int64_t* A = gb_alloc(&ga, N * 8, 8, 8 * ((rep + 3) % 8), 4096);
  int64_t* B = gb_alloc(&gb, N * 8, 8, 8 * ((rep + 5) % 8), 4096);
  for (uint64_t i = 0; i < N; i++) {
    A[i] = rng_sbits(r, 60);
    B[i] = rng_sbits(r, 60);
    R[i] = 0x5555;
  }
  int64_t p = rng_sbits(r, 40);
  if (op == OP_AUTO) p |= 1;
  const uint64_t as = (rep % 5) == 4 ? 0 : 1, bs = (rep % 7) == 6 ? 0 : 1;  // sometimes an empty operand: the limb is zero-extended
  switch (op) {
    case OP_ZERO: vec_znx_zero(mod, R, 1, slr); break;
    case OP_COPY: vec_znx_copy(mod, R, 1, slr, A, as, sla); break;
    case OP_NEGATE: vec_znx_negate(mod, R, 1, slr, A, as, sla); break;
    case OP_ADD: vec_znx_add(mod, R, 1, slr, A, as, sla, B, bs, slb); break;
    case OP_SUB: vec_znx_sub(mod, R, 1, slr, A, as, sla, B, bs, slb); break;
    case OP_ROTATE: vec_znx_rotate(mod, p, R, 1, slr, A, as, sla); break;
    default: vec_znx_automorphism(mod, p, R, 1, slr, A, as, sla); break;
  }
  int64_t* e = malloc(N * 8);
  int64_t* az = calloc(N, 8);
  for (uint64_t i = 0; i < N; i++) {
    const int64_t al = as ? A[i] : 0, bl = bs ? B[i] : 0;
    e[i] = op == OP_ZERO ? 0 : op == OP_COPY ? al : op == OP_NEGATE ? -al : op == OP_ADD ? al + bl : al - bl;
  }
  if (op == OP_ROTATE || op == OP_AUTO) ring_map(N, op == OP_AUTO, p, as ? A : az, e);
  if (memcmp(R, e, N * 8)) viol("oracle", "%s on one-limb vectors with strides res=%" PRIu64 " a=%" PRIu64 " b=%" PRIu64 " words (a_size=%" PRIu64 ", b_size=%" PRIu64 "): the output limb is not the operation applied to the input limb (N=%" PRIu64 ")", op_name[op], slr, sla, slb, as, bs, N);
  long wh;
  if (gb_check(&gr, &wh)) viol("canary", "%s: wrote outside the single output limb (%ld)", op_name[op], wh);
  free(e);
  free(az);
  cnt("one_limb_arbitrary_stride_calls", 1);
  sample("one limb, strides %" PRIu64 " / %" PRIu64 " / %" PRIu64, slr, sla, slb);
  gb_free(&gr); gb_free(&ga); gb_free(&gb);
  case_end(1);
}
static void huge_stride_case(op_t op, MODULE_TYPE mt, int native, uint64_t N, unsigned rep) {
  if (op_is_big(op)) return;  // big vectors have stride N by definition
  char key[160];
  snprintf(key, sizeof key, "%s|limb stride >= 2^29 words%s%s", op_name[op], mt == NTT120 ? ",ntt120" : "", native ? "" : ",generic");
  if (!case_begin(key, "N=%" PRIu64 " rep=%u", N, rep)) return;
  rng_t* r = crng();
  const MODULE* mod = get_module(N, mt, native);
  static const uint64_t SL[] = {(1ull << 29), (1ull << 29) + 1, (1ull << 30) + 8, 3ull << 28, (1ull << 31) + 8, 3ull << 30, (1ull << 32) + 16};  // (index of the last limb in words: up to 2^33, beyond 32 bits)
  // which of the three vectors gets the huge stride rotates with rep
  const uint64_t big = SL[rep % ARRAY_LEN(SL)], rows = 3;
  const uint64_t slr = (rep % 3 == 0) ? big : N + 1, sla = (rep % 3 == 1) ? big : N, slb = (rep % 3 == 2) ? big : N + 2;
  const size_t lr = ((rows - 1) * slr + N) * 8 + 8192, la = ((rows - 1) * sla + N) * 8 + 8192, lb = ((rows - 1) * slb + N) * 8 + 8192;
  uint8_t* mr = mmap(0, lr, PROT_READ | PROT_WRITE, MAP_PRIVATE | MAP_ANONYMOUS | MAP_NORESERVE, -1, 0);
  uint8_t* ma = mmap(0, la, PROT_READ | PROT_WRITE, MAP_PRIVATE | MAP_ANONYMOUS | MAP_NORESERVE, -1, 0);
  uint8_t* mb = mmap(0, lb, PROT_READ | PROT_WRITE, MAP_PRIVATE | MAP_ANONYMOUS | MAP_NORESERVE, -1, 0);
  if (mr == MAP_FAILED || ma == MAP_FAILED || mb == MAP_FAILED) { case_end(0); return; }
  int64_t *R = (int64_t*)(mr + 4096), *A = (int64_t*)(ma + 4096), *B = (int64_t*)(mb + 4096);
  for (uint64_t l = 0; l < rows; l++)
    for (uint64_t i = 0; i < N; i++) {
      A[l * sla + i] = rng_sbits(r, 60);
      B[l * slb + i] = rng_sbits(r, 60);
      R[l * slr + i] = 0x5555;
    }
  int64_t p = rng_sbits(r, 40);
  if (op == OP_AUTO) p |= 1;
  switch (op) {
    case OP_ZERO: vec_znx_zero(mod, R, rows, slr); break;
    case OP_COPY: vec_znx_copy(mod, R, rows, slr, A, rows, sla); break;
    case OP_NEGATE: vec_znx_negate(mod, R, rows, slr, A, rows, sla); break;
    case OP_ADD: vec_znx_add(mod, R, rows, slr, A, rows, sla, B, rows, slb); break;
    case OP_SUB: vec_znx_sub(mod, R, rows, slr, A, rows, sla, B, rows, slb); break;
    case OP_ROTATE: vec_znx_rotate(mod, p, R, rows, slr, A, rows, sla); break;
    default: vec_znx_automorphism(mod, p, R, rows, slr, A, rows, sla); break;
  }
  int64_t* e = malloc(N * 8);
  for (uint64_t l = 0; l < rows; l++) {
    for (uint64_t i = 0; i < N; i++) {
      const int64_t al = A[l * sla + i], bl = B[l * slb + i];
      e[i] = op == OP_ZERO ? 0 : op == OP_COPY ? al : op == OP_NEGATE ? -al : op == OP_ADD ? al + bl : al - bl;
    }
    if (op == OP_ROTATE || op == OP_AUTO) ring_map(N, op == OP_AUTO, p, A + l * sla, e);
    if (memcmp(R + l * slr, e, N * 8)) { viol("oracle", "%s with limb strides res=%" PRIu64 " a=%" PRIu64 " b=%" PRIu64 " words: limb %" PRIu64 " is not the operation applied to input limb %" PRIu64 " (N=%" PRIu64 ")", op_name[op], slr, sla, slb, l, l, N); break; }
  }
  free(e);
  cnt("huge_stride_calls", 1);
  sample("3 limbs, one vector with limbs %" PRIu64 " words apart", big);
  munmap(mr, lr); munmap(ma, la); munmap(mb, lb);
  case_end(1);
}

// the two INPUTS of a binary operation are the same vector (same pointer, same stride) read with different limb counts -
// nothing forbids reading one buffer twice; optionally the output is that vector too (res == a == b)
static void same_inputs_case(op_t op, MODULE_TYPE mt, int native, uint64_t N, uint64_t rs, uint64_t as, uint64_t bs, int res_too, unsigned slc, unsigned rep) {
  if (op_arity(op) != 2 || a_is_big(op) != b_is_big(op)) return;
  if (res_too && a_is_big(op) != op_is_big(op)) return;
  char key[160];
  snprintf(key, sizeof key, "%s(a==b%s)|%s%s%s", op_name[op], res_too ? "==res" : "", as == bs ? "a=b" : (as < bs ? "a<b" : "a>b"), mt == NTT120 ? ",ntt120" : "", native ? "" : ",generic");
  if (!case_begin(key, "N=%" PRIu64 " res=%" PRIu64 " a=%" PRIu64 " b=%" PRIu64 " sl=%u rep=%u", N, rs, as, bs, slc, rep)) return;
  rng_t* r = crng();
  const MODULE* mod = get_module(N, mt, native);
  const uint64_t xsl = a_is_big(op) ? N : stride_choice(N, slc);
  uint64_t lim = as > bs ? as : bs;
  if (res_too && rs > lim) lim = rs;
  zvec_t X, R;
  zvec_alloc(&X, N, lim, xsl, 8 * (rep % 8));
  zvec_alloc(&R, N, res_too ? 0 : rs, op_is_big(op) ? N : stride_choice(N, slc + 1), 8 * ((rep + 3) % 8));
  zvec_prefill(&R, (int)rep, 3);
  int64_t* x0 = malloc((lim ? lim : 1) * N * 8);
  for (uint64_t l = 0; l < lim; l++) {
    for (uint64_t i = 0; i < N; i++) zvec_limb(&X, l)[i] = rng_sbits(r, 60);
    structure_words(r, (uint64_t*)zvec_limb(&X, l), N, 60);
    memcpy(x0 + l * N, zvec_limb(&X, l), N * 8);
  }
  int64_t* out = res_too ? X.p : R.p;
  const uint64_t osl = res_too ? X.sl : R.sl;
  VEC_ZNX_BIG* OB = (VEC_ZNX_BIG*)out;
  const VEC_ZNX_BIG* XB = (const VEC_ZNX_BIG*)X.p;
  switch (op) {
    case OP_ADD: vec_znx_add(mod, out, rs, osl, X.p, as, X.sl, X.p, bs, X.sl); break;
    case OP_SUB: vec_znx_sub(mod, out, rs, osl, X.p, as, X.sl, X.p, bs, X.sl); break;
    case OP_BIG_ADD: vec_znx_big_add(mod, OB, rs, XB, as, XB, bs); break;
    case OP_BIG_SUB: vec_znx_big_sub(mod, OB, rs, XB, as, XB, bs); break;
    case OP_BIG_ADD_SMALL2: vec_znx_big_add_small2(mod, OB, rs, X.p, as, X.sl, X.p, bs, X.sl); break;
    case OP_BIG_SUB_SMALL2: vec_znx_big_sub_small2(mod, OB, rs, X.p, as, X.sl, X.p, bs, X.sl); break;
    default: break;
  }
  uint64_t nbad = 0;
  for (uint64_t l = 0; l < rs; l++)
    for (uint64_t i = 0; i < N; i++) {
      const int64_t al = l < as ? x0[l * N + i] : 0, bl = l < bs ? x0[l * N + i] : 0;
      const int64_t want = op_is_sub(op) ? al - bl : al + bl;
      const int64_t got = out[l * osl + i];
      if (got != want && nbad++ < 2) viol("oracle", "%s with a == b%s (a_size=%" PRIu64 ", b_size=%" PRIu64 ", res_size=%" PRIu64 ", N=%" PRIu64 "): limb %" PRIu64 " coeff %" PRIu64 ": got %" PRId64 " want %" PRId64, op_name[op], res_too ? " == res" : "", as, bs, rs, N, l, i, got, want);
    }
  if (!res_too)
    for (uint64_t l = 0; l < lim; l++)
      if (memcmp(zvec_limb(&X, l), x0 + l * N, N * 8)) { viol("snapshot", "%s with a == b modified its input (limb %" PRIu64 ")", op_name[op], l); break; }
  char msg[200];
  if (zvec_check(&X, msg, sizeof msg) || zvec_check(&R, msg, sizeof msg)) viol("canary", "%s (a == b): %s", op_name[op], msg);
  cnt("same_input_calls", 1);
  cnt("limbs_compared", rs);
  sample("both inputs are one vector read with %" PRIu64 " and %" PRIu64 " limbs", as, bs);
  free(x0);
  zvec_free(&X);
  zvec_free(&R);
  case_end(rs >= 1);
}

// several vectors as interleaved views of ONE buffer (column views of a matrix of polynomials): view v has its limbs at
// base + v*N + i*stride with stride = nviews*N. A legal layout: every stride is >= N and no two limbs overlap; the limbs of
// the other views lie exactly in each view's "padding" and must stay untouched.
static void interleaved_case(op_t op, MODULE_TYPE mt, int native, uint64_t N, uint64_t rs, uint64_t as, uint64_t bs, unsigned order, unsigned rep) {
  const int ar = op_arity(op);
  if (op_is_big(op) || ar == 0) return;
  if (ar < 2) bs = 0;
  char key[160];
  snprintf(key, sizeof key, "%s(interleaved views)|%s%s", op_name[op], mt == NTT120 ? "ntt120" : "fft64", native ? "" : ",generic");
  if (!case_begin(key, "N=%" PRIu64 " res=%" PRIu64 " a=%" PRIu64 " b=%" PRIu64 " order=%u rep=%u", N, rs, as, bs, order, rep)) return;
  rng_t* r = crng();
  const MODULE* mod = get_module(N, mt, native);
  const uint64_t nviews = 4, stride = nviews * N, rows = 5;
  gbuf_t g;
  int64_t* buf = gb_alloc(&g, rows * stride * 8, 8, 8 * (rep % 8), 4096);
  int64_t* ref = malloc(rows * stride * 8);
  for (uint64_t i = 0; i < rows * stride; i++) ref[i] = buf[i] = rng_sbits(r, 61);
  // which view is res / a / b (all different); view 3 is a bystander
  static const unsigned PERM[6][3] = {{0, 1, 2}, {1, 0, 2}, {2, 1, 0}, {0, 2, 1}, {1, 2, 0}, {2, 0, 1}};
  const unsigned vr = PERM[order % 6][0], va = PERM[order % 6][1], vb = PERM[order % 6][2];
  int64_t *R = buf + vr * N, *A = buf + va * N, *B = buf + vb * N;
  int64_t p = rng_sbits(r, 1 + (unsigned)rng_range(r, 0, 61));
  if (op == OP_AUTO) p |= 1;
  switch (op) {
    case OP_COPY: vec_znx_copy(mod, R, rs, stride, A, as, stride); break;
    case OP_NEGATE: vec_znx_negate(mod, R, rs, stride, A, as, stride); break;
    case OP_ADD: vec_znx_add(mod, R, rs, stride, A, as, stride, B, bs, stride); break;
    case OP_SUB: vec_znx_sub(mod, R, rs, stride, A, as, stride, B, bs, stride); break;
    case OP_ROTATE: vec_znx_rotate(mod, p, R, rs, stride, A, as, stride); break;
    case OP_AUTO: vec_znx_automorphism(mod, p, R, rs, stride, A, as, stride); break;
    default: break;
  }
  int64_t* za = calloc(N, 8);
  int64_t* tmp = malloc(N * 8);
  uint64_t nbad = 0;
  for (uint64_t row = 0; row < rows; row++)
    for (unsigned v = 0; v < nviews; v++) {
      const int64_t* got = buf + row * stride + v * N;
      const int64_t* want = ref + row * stride + v * N;  // untouched unless it is a written limb of res
      if (v == vr && row < rs) {
        const int64_t* al = row < as ? ref + row * stride + va * N : za;
        const int64_t* bl = (ar == 2 && row < bs) ? ref + row * stride + vb * N : za;
        switch (op) {
          case OP_COPY: memcpy(tmp, al, N * 8); break;
          case OP_NEGATE: for (uint64_t i = 0; i < N; i++) tmp[i] = -al[i]; break;
          case OP_ROTATE: ring_map(N, 0, p, al, tmp); break;
          case OP_AUTO: ring_map(N, 1, p, al, tmp); break;
          case OP_SUB: for (uint64_t i = 0; i < N; i++) tmp[i] = al[i] - bl[i]; break;
          default: for (uint64_t i = 0; i < N; i++) tmp[i] = al[i] + bl[i];
        }
        want = tmp;
      }
      if (memcmp(got, want, N * 8) && nbad++ < 2)
        viol(v == vr && row < rs ? "oracle" : "canary", "%s on interleaved views (res=view %u, a=view %u, b=view %u, stride 4N): row %" PRIu64 " of view %u is wrong / was modified (res=%" PRIu64 " a=%" PRIu64 " b=%" PRIu64 " N=%" PRIu64 ")", op_name[op], vr, va, vb, row, v, rs, as, bs, N);
    }
  long wh;
  if (gb_check(&g, &wh)) viol("canary", "%s on interleaved views wrote outside the buffer (%ld)", op_name[op], wh);
  cnt("interleaved_view_calls", 1);
  cnt("limbs_compared", rows * nviews);
  sample("res/a/b are views %u/%u/%u of one buffer with stride 4N; all 20 limbs checked", vr, va, vb);
  free(za); free(tmp); free(ref);
  gb_free(&g);
  case_end(rs >= 1);
}

// the same operations from several threads at once, each on its own vectors (in place and out of place): every result
// is checked by the calling thread against the per-limb definition; an implementation that stages data in storage shared
// between calls computes another function as soon as two calls overlap
typedef struct {
  const MODULE* mod;
  uint64_t N, seed;
  int iters, big_ok;
  uint64_t wrong, calls;
  op_t first_bad;
  pthread_barrier_t* bar;
} cthr8_t;
static void* c8_worker(void* arg) {
  cthr8_t* c = arg;
  const uint64_t N = c->N;
  rng_t r;
  rng_seed(&r, c->seed, 88);
  int64_t* x = malloc(3 * N * 8);   // in-place operand: 3 limbs, stride N
  int64_t* x0 = malloc(3 * N * 8);
  int64_t* o = malloc(3 * N * 8);   // other operand
  int64_t* y = malloc(3 * N * 8);   // out-of-place result
  int64_t* e = malloc(N * 8);
  pthread_barrier_wait(c->bar);
  static const op_t OPS8[] = {OP_AUTO, OP_ROTATE, OP_COPY, OP_NEGATE, OP_ADD, OP_SUB, OP_BIG_AUTO, OP_BIG_ROTATE, OP_BIG_ADD, OP_BIG_SUB};
  for (int it = 0; it < c->iters; it++) {
    const op_t op = OPS8[(unsigned)it % ARRAY_LEN(OPS8)];
    // the threads start every fourth iteration together (all of them run the same entry point in the same iteration)
    if ((it & 3) == 0) pthread_barrier_wait(c->bar);
    if (op_is_big(op) && !c->big_ok) continue;
    for (uint64_t i = 0; i < 3 * N; i++) {
      x[i] = x0[i] = rng_sbits(&r, 60);
      o[i] = rng_sbits(&r, 60);
    }
    int64_t p = rng_sbits(&r, 1 + (unsigned)(rng_u64(&r) % 61));
    if (op == OP_AUTO || op == OP_BIG_AUTO) p |= 1;
    const uint64_t rs = 1 + (uint64_t)(it % 3), as = 1 + (uint64_t)((it / 3) % 3);
    const MODULE* m = c->mod;
    for (int inplace = 0; inplace <= 1; inplace++) {
      int64_t* res = inplace ? x : y;
      switch (op) {
        case OP_COPY: vec_znx_copy(m, res, rs, N, x, as, N); break;
        case OP_NEGATE: vec_znx_negate(m, res, rs, N, x, as, N); break;
        case OP_ADD: vec_znx_add(m, res, rs, N, x, as, N, o, 3, N); break;
        case OP_SUB: vec_znx_sub(m, res, rs, N, x, as, N, o, 3, N); break;
        case OP_ROTATE: vec_znx_rotate(m, p, res, rs, N, x, as, N); break;
        case OP_AUTO: vec_znx_automorphism(m, p, res, rs, N, x, as, N); break;
        case OP_BIG_ROTATE: vec_znx_big_rotate(m, p, (VEC_ZNX_BIG*)res, rs, (VEC_ZNX_BIG*)x, as); break;
        case OP_BIG_AUTO: vec_znx_big_automorphism(m, p, (VEC_ZNX_BIG*)res, rs, (VEC_ZNX_BIG*)x, as); break;
        case OP_BIG_ADD: vec_znx_big_add(m, (VEC_ZNX_BIG*)res, rs, (VEC_ZNX_BIG*)x, as, (VEC_ZNX_BIG*)o, 3); break;
        default: vec_znx_big_sub(m, (VEC_ZNX_BIG*)res, rs, (VEC_ZNX_BIG*)x, as, (VEC_ZNX_BIG*)o, 3); break;
      }
      c->calls++;
      for (uint64_t l = 0; l < rs; l++) {
        for (uint64_t i = 0; i < N; i++) {
          const int64_t al = l < as ? x0[l * N + i] : 0;
          switch (op) {
            case OP_COPY: e[i] = al; break;
            case OP_NEGATE: e[i] = -al; break;
            case OP_ADD: case OP_BIG_ADD: e[i] = al + o[l * N + i]; break;
            case OP_SUB: case OP_BIG_SUB: e[i] = al - o[l * N + i]; break;
            default: break;
          }
        }
        if (op == OP_ROTATE || op == OP_BIG_ROTATE || op == OP_AUTO || op == OP_BIG_AUTO) {
          if (l < as) ring_map(N, op == OP_AUTO || op == OP_BIG_AUTO, p, x0 + l * N, e);
          else memset(e, 0, N * 8);
        }
        if (memcmp(res + l * N, e, N * 8)) {
          if (!c->wrong) c->first_bad = op;
          c->wrong++;
        }
      }
    }
  }
  free(x); free(x0); free(o); free(y); free(e);
  return 0;
}
static void concurrent_case(uint64_t N, MODULE_TYPE mt, int native, int T, unsigned rep) {
  char key[128];
  snprintf(key, sizeof key, "vec_znx ops|%d threads,private vectors%s%s", T, mt == NTT120 ? ",ntt120" : "", native ? "" : ",generic");
  if (!case_begin(key, "N=%" PRIu64 " rep=%u", N, rep)) return;
  rng_t* r = crng();
  cthr8_t c[16];
  pthread_t tid[16];
  pthread_barrier_t bar;
  pthread_barrier_init(&bar, 0, (unsigned)T);
  for (int t = 0; t < T; t++) {
    memset(&c[t], 0, sizeof c[t]);
    c[t].mod = get_module(N, mt, native);
    c[t].N = N;
    c[t].seed = rng_u64(r);
    c[t].iters = N <= 256 ? 400 : (N <= 4096 ? 60 : 10);
    c[t].big_ok = mt == FFT64;
    c[t].bar = &bar;
  }
  for (int t = 0; t < T; t++) pthread_create(&tid[t], 0, c8_worker, &c[t]);
  for (int t = 0; t < T; t++) pthread_join(tid[t], 0);
  pthread_barrier_destroy(&bar);
  uint64_t calls = 0;
  for (int t = 0; t < T; t++) {
    calls += c[t].calls;
    if (c[t].wrong) viol("oracle", "%s (first wrong; %" PRIu64 " wrong limbs in thread %d): result differs from the per-limb definition while %d threads work on their own vectors (N=%" PRIu64 ", %s)", op_name[c[t].first_bad], c[t].wrong, t, T, N, native ? "native" : "generic");
  }
  cnt("concurrent_vector_calls", calls);
  sample("%d threads, %" PRIu64 " calls (in place and out of place), every limb equal to its definition", T, calls);
  case_end(1);
}

void run_C08(void) {
  const int th = G.thorough;
  unsigned ctr = 0;
  // kernel level: N = 1, 2, 4 (below every vector width), ref and avx kernels, full size box
  static const uint64_t kN[] = {1, 2, 4, 8};
  for (size_t ni = 0; ni < ARRAY_LEN(kN); ni++)
    for (op_t op = OP_ZERO; op <= OP_AUTO; op++)
      for (int level = 1; level <= 2; level++) {
        if (level == 2 && !(op == OP_NEGATE || op == OP_ADD || op == OP_SUB)) continue;
        const int ar = op_arity(op);
        for (uint64_t rs = 0; rs <= 4; rs++)
          for (uint64_t as = 0; as <= (ar >= 1 ? 4u : 0u); as++)
            for (uint64_t bs = 0; bs <= (ar >= 2 ? 4u : 0u); bs++, ctr++)
              one_case(op, level, FFT64, 1, kN[ni], rs, as, bs, ctr % 4, (ctr / 4) % 4, (ctr / 16) % 4, (int)(ctr & 1), 0);
      }
  for (size_t ni = 0; ni < N_ALL_N; ni++)
    for (int cfg = 0; cfg < 3; cfg++)
      for (unsigned rep = 0; rep < (th ? 6u : 1u); rep++) {
        if (!th && ALL_N[ni] > 4096 && cfg) continue;
        concurrent_case(ALL_N[ni], cfg == 2 ? NTT120 : FFT64, cfg != 1, cfg == 0 ? 8 : 4, rep);
      }
  for (op_t op = OP_ZERO; op <= OP_AUTO; op++)
    for (int cfg = 0; cfg < 3; cfg++) {
      for (unsigned rep = 0; rep < 21; rep++) huge_stride_case(op, cfg == 2 ? NTT120 : FFT64, cfg != 1, rep & 1 ? 64 : 8, rep);
      for (unsigned rep = 0; rep < 18; rep++) one_limb_stride_case(op, cfg == 2 ? NTT120 : FFT64, cfg != 1, rep % 3 == 0 ? 64 : (rep % 3 == 1 ? 8 : 2), rep);
    }
  // both inputs the same vector
  for (size_t ni = 0; ni < N_ALL_N; ni++) {
    static const op_t BOPS[] = {OP_ADD, OP_SUB, OP_BIG_ADD, OP_BIG_SUB, OP_BIG_ADD_SMALL2, OP_BIG_SUB_SMALL2};
    for (size_t oi = 0; oi < ARRAY_LEN(BOPS); oi++)
      for (int cfg = 0; cfg < 3; cfg++) {
        if (cfg == 2 && op_is_big(BOPS[oi])) continue;
        for (uint64_t rs = 0; rs <= 3; rs++)
          for (uint64_t as = 0; as <= 3; as++)
            for (uint64_t bs = 0; bs <= 3; bs++) {
              ctr++;
              if (ALL_N[ni] > 16 && (mix64(ctr) % (th ? 4 : 24))) continue;
              same_inputs_case(BOPS[oi], cfg == 2 ? NTT120 : FFT64, cfg != 1, ALL_N[ni], rs, as, bs, (int)(ctr & 1), ctr % 4, 0);
            }
      }
  }
  // interleaved views of one buffer
  for (size_t ni = 0; ni < N_ALL_N; ni++) {
    const uint64_t N = ALL_N[ni];
    for (op_t op = OP_COPY; op <= OP_AUTO; op++)
      for (int cfg = 0; cfg < 3; cfg++)
        for (unsigned t = 0; t < (N <= 64 ? (th ? 60u : 12u) : (th ? 12u : 3u)); t++) {
          uint64_t h = mix64(t * 977 + op * 31 + N);
          interleaved_case(op, cfg == 2 ? NTT120 : FFT64, cfg != 1, N, h % 5, (h >> 3) % 5, (h >> 6) % 5, (unsigned)(h >> 9) % 6, t);
        }
  }
  // aliased forms (the suite only aliases with equal sizes): all size combinations on small N, sampled above
  for (size_t ni = 0; ni < N_ALL_N; ni++) {
    const uint64_t N = ALL_N[ni];
    for (op_t op = OP_COPY; op < N_OPS; op++)
      for (int cfg = 0; cfg < 3; cfg++) {
        if (cfg == 2 && op_is_big(op)) continue;
        for (int alias_b = 0; alias_b <= 1; alias_b++)
          for (uint64_t rs = 0; rs <= 3; rs++)
            for (uint64_t as = 0; as <= 3; as++)
              for (uint64_t bs = 0; bs <= (op_arity(op) == 2 ? 3u : 0u); bs++) {
                ctr++;
                uint64_t h = mix64(ctr * 131 + op);
                if (N > 16 && (h % (th ? (N <= 1024 ? 4 : 20) : (N <= 1024 ? 16 : 80)))) continue;
                if (N <= 16 && !th && cfg && (h & 1)) continue;
                alias_case(op, cfg == 2 ? NTT120 : FFT64, cfg != 1, N, rs, as, bs, alias_b, (unsigned)(h >> 8) % 4, 0);
              }
      }
  }
  // module level
  for (size_t ni = 0; ni < N_ALL_N; ni++) {
    const uint64_t N = ALL_N[ni];
    const int big_n = N >= 4096;
    for (op_t op = 0; op < N_OPS; op++) {
      const int ar = op_arity(op);
      for (int cfg = 0; cfg < 3; cfg++) {  // 0: FFT64 native, 1: FFT64 generic, 2: NTT120 native
        if (cfg == 2 && op_is_big(op)) continue;  // big ops do not exist on NTT120 modules
        const MODULE_TYPE mt = cfg == 2 ? NTT120 : FFT64;
        const int native = cfg != 1;
        // a fixed core of shapes for every (operation, configuration, N), so that no dimension goes unvisited
        {
          static const uint64_t CORE[][3] = {{1, 1, 1}, {2, 2, 2}, {3, 1, 2}, {1, 3, 0}, {2, 0, 3}, {0, 2, 1}, {4, 3, 4}};
          for (size_t c = 0; c < ARRAY_LEN(CORE); c++) one_case(op, 0, mt, native, N, CORE[c][0], CORE[c][1], CORE[c][2], (unsigned)c % 4, (unsigned)(c + 1) % 4, (unsigned)(c + 2) % 4, (int)(c & 1), 50);
        }
        // every limb count 0..40 on one small ring
        if (N == 4)
          for (uint64_t sz = 5; sz <= 40; sz++) {
            one_case(op, 0, mt, native, N, sz, sz, sz, (unsigned)sz % 4, (unsigned)(sz + 1) % 4, (unsigned)(sz + 2) % 4, (int)(sz & 1), 61);
            if (sz % 3 == 0) one_case(op, 0, mt, native, N, sz, sz + 1, sz - 1, 0, 1, 2, 0, 62);
          }
        // many limbs (loops over limbs that are unrolled or blocked change regime above the small box)
        if (N <= 64 || (th && N <= 1024)) {
          static const uint64_t BIGS[][3] = {{9, 8, 7}, {8, 9, 17}, {17, 3, 9}, {7, 16, 16}, {16, 16, 16}, {5, 12, 0}, {12, 0, 5}, {33, 32, 31}};
          for (size_t c = 0; c < ARRAY_LEN(BIGS); c++) {
            one_case(op, 0, mt, native, N, BIGS[c][0], BIGS[c][1], BIGS[c][2], (unsigned)c % 4, (unsigned)(c + 1) % 4, (unsigned)(c + 2) % 4, (int)(c & 1), 60);
            if (op != OP_ZERO && (c % 3) == 0) alias_case(op, mt, native, N, BIGS[c][0], BIGS[c][1], BIGS[c][2], (int)(c & 1), (unsigned)c % 4, 60);
          }
        }
        // full box for small N; for large N a sampled sub-box (more in thorough)
        for (uint64_t rs = 0; rs <= 4; rs++)
          for (uint64_t as = 0; as <= (ar >= 1 ? 4u : 0u); as++)
            for (uint64_t bs = 0; bs <= (ar >= 2 ? 4u : 0u); bs++) {
              ctr++;
              uint64_t h = mix64(ctr * 77 + op);
              int take;
              if (N <= 64) take = th ? 1 : (cfg == 0 ? 1 : (h % 3 == 0));
              else if (!big_n) take = (h % (th ? 3 : 12)) == 0;
              else take = (h % (th ? 10 : 60)) == 0;
              if (!take) continue;
              unsigned reps = (th && N <= 64) ? 2 : 1;
              for (unsigned rep = 0; rep < reps; rep++)
                one_case(op, 0, mt, native, N, rs, as, bs, (unsigned)(h >> 8) % 4, (unsigned)(h >> 12) % 4, (unsigned)(h >> 16) % 4, (int)((h >> 20) & 1), rep);
            }
      }
    }
  }
  // in-place rotations exactly 2^8 and 2^16 calls after the previous one on the ring (bookkeeping that outlives a call)
  {
    static const int64_t PA[] = {4, 8, -4, 16, 2, 12, 32, 1};
    for (unsigned rep = 0; rep < (th ? 24u : 8u); rep++)
      for (int which = 0; which <= 2; which += 2) {
        const uint64_t N = rep & 1 ? 32 : 64;
        ops_ring_history_case(which, N, PA[rep % 8], (rep & 2) ? N : 2, (rep & 2) ? 1 + 2 * (int64_t)(rep % 5) : 1, rep < 16, rep, "long_history_calls");
      }
  }
  // the entry points of this property called a second time on the SAME buffers holding other data (new values, two limbs exchanged,
  // one word moved between limbs): must equal a fresh call on that data (results or operands remembered by address)
  {
    static const char* const RNAMES[] = {"vec_znx_zero", "vec_znx_copy", "vec_znx_negate", "vec_znx_add", "vec_znx_sub", "vec_znx_rotate", "vec_znx_automorphism", "vec_znx_big_add", "vec_znx_big_add_small", "vec_znx_big_add_small2", "vec_znx_big_sub", "vec_znx_big_sub_small_a", "vec_znx_big_sub_small_b", "vec_znx_big_sub_small2", "vec_znx_big_rotate", "vec_znx_big_automorphism", "vec_znx_copy(res==a)", "vec_znx_negate@ntt120", "vec_znx_add@ntt120"};
    static const uint64_t RN[] = {2, 16, 64, 1024};
    for (size_t i = 0; i < ARRAY_LEN(RN); i++)
      for (int cfg = DISP_NATIVE; cfg >= DISP_GENERIC; cfg--) {
        if (cfg == DISP_GENERIC && (i & 1)) continue;
        ops_recontent_case("C08 entry points", RNAMES, (int)ARRAY_LEN(RNAMES), RN[i], cfg, G.thorough ? 40 : 6, (unsigned)i, "same_buffers_other_data_calls");
      }
    // and from a thread with a small stack, at the largest dimensions
    for (int cfg = DISP_NATIVE; cfg >= DISP_GENERIC; cfg--) {
      ops_small_stack_case("C08 entry points", RNAMES, (int)ARRAY_LEN(RNAMES), 65536, cfg, 256, G.thorough ? 4 : 1, 0, "small_stack_calls");
      ops_small_stack_case("C08 entry points", RNAMES, (int)ARRAY_LEN(RNAMES), 16384, cfg, 256, G.thorough ? 4 : 2, 1, "small_stack_calls");
    }
  }
}
