// C15 — results depend only on the arguments: no hidden state, history or alignment.
// Monitor: a call-history checker. Random programs of catalogue calls are executed; every (function,
// environment, argument seed) is recorded with the hash of its outputs; a later call with equal arguments —
// after arbitrary other calls, with another pre-fill of outputs/scratch and another byte alignment of every
// buffer — must return identical bits. *_simple functions are additionally compared with their table-based
// twin (explicit / freshly built table) on identical arguments.
#include <pthread.h>

#include "ops.h"
#include "lib.h"

#define NENV 16
static const uint64_t ENVN[NENV] = {2, 4, 8, 16, 32, 64, 128, 256, 512, 1024, 2048, 4096, 8192, 16384, 32768, 65536};
static env_t* ENVS[NENV][2];
static env_t* env_get(int i, int native) {
  if (!ENVS[i][native]) {
    ENVS[i][native] = env_create(ENVN[i], native);
    cnt("environments_created", 1);
  }
  return ENVS[i][native];
}

typedef struct {
  uint64_t key, out;
  uint32_t first_pos;
} hrec_t;
#define HCAP 4096
static hrec_t HT[HCAP];
static hrec_t* hfind(uint64_t key) {
  size_t i = mix64(key) & (HCAP - 1);
  while (HT[i].key && HT[i].key != key) i = (i + 1) & (HCAP - 1);
  return &HT[i];
}

static void program_case(unsigned prog, int len, int big_ok) {
  if (!case_begin("random-program|history+twins", "program=%u len=%d dims=%s", prog, len, big_ok ? "all" : "<=1024")) return;
  g_case_aligned = 0;  // this property sweeps the alignments itself, per call
  g_case_place = 0;
  rng_t* r = crng();
  memset(HT, 0, sizeof HT);
  // a small working set of (env, op, seed) triples so that equal arguments recur after unrelated calls
  enum { WS = 48 };
  struct {
    int envi, native, op;
    uint64_t seed;
  } ws[WS];
  const int nenv_use = big_ok ? NENV : 10;
  // one third of the working set hammers the functions with hidden caches (thread-local last-parameter
  // caches, per-dimension static tables) across dimensions and parameters
  static const char* CACHED[] = {"reim_to_znx64_simple", "cplx_to_tnx32_simple", "reim_fft_simple", "reim_ifft_simple", "reim_from_znx64_simple", "cplx_fft_simple", "reim4_from_cplx_simple", "cplx_fftvec_mul_simple", "reim_fftvec_addmul_simple"};
  for (int i = 0; i < WS; i++) {
    ws[i].envi = (int)(rng_u64(r) % (uint64_t)nenv_use);
    ws[i].native = (rng_u64(r) % 4) != 0;
    ws[i].op = (i % 3 == 0) ? op_find(CACHED[rng_u64(r) % ARRAY_LEN(CACHED)]) : (int)(rng_u64(r) % (uint64_t)N_CAT_OPS);
    ws[i].seed = rng_u64(r) % 5;  // few distinct argument sets per function: parameters alternate on the same cache slot
    const opdef_t* o = &OPS[ws[i].op];
    if (!ws[i].native && (o->flags & (OPF_NTT120 | OPF_AVX | OPF_KERNEL | OPF_SIMPLE))) ws[i].native = 1;
    if (ENVN[ws[i].envi] > 4096 && (rng_u64(r) & 1)) ws[i].envi = (int)(rng_u64(r) % 10);  // large dimensions are sampled less often
  }
  uint64_t nrep = 0, ntw = 0;
  int last_slot_param[2][3] = {{-1, -1, -1}, {-1, -1, -1}};
  for (int pos = 0; pos < len; pos++) {
    const int w = (int)(rng_u64(r) % WS);
    const opdef_t* o = &OPS[ws[w].op];
    env_t* e = env_get(ws[w].envi, ws[w].native);
    opres_t res;
    const int prefill = (int)(rng_u64(r) & 3);
    const unsigned mis = (unsigned)(rng_u64(r) & 7);
    // where the buffers of this call live relative to each other is drawn per call as well: separate blocks (half of the
    // calls), one arena ascending / descending, flush against guard pages, 64 GiB apart (roughly, and exactly: all-zero low bits
    // in every pointer difference), packed back to back, a few words apart modulo the page size
    {
      static const int PL[] = {0, 0, 0, 0, 0, 0, 0, 1, 2, 3, 4, 5, 6, 7, 8};
      g_case_place = PL[rng_u64(r) % ARRAY_LEN(PL)];
      g_case_aligned = g_case_place == 0 && (rng_u64(r) & 7) == 0;
    }
    // one call in four is followed by a second call on the SAME buffers holding OTHER data, compared with a fresh call on that data
    const unsigned recontent = (rng_u64(r) & 3) == 0 ? MON_RECONTENT : 0;
    op_exec(o, e, ws[w].seed, prefill, mis, MON_CANARY | recontent, &res);
    if (recontent && !res.skipped) cnt("same_buffers_other_data_calls", 1);
    if (res.rerun_differs) viol("history", "%s [N=%" PRIu64 " %s seed=%" PRIu64 " shape=%s]: %s", o->name, e->N, ws[w].native ? "native" : "generic", ws[w].seed, res.shape, res.msg);
    cntf("placement:%d", 1, g_case_place);
    g_case_place = 0;
    g_case_aligned = 0;
    cnt("calls", 1);
    if (res.skipped) continue;
    if (res.canary_bad) viol("canary", "%s: %s", o->name, res.msg);
    if (res.fpenv_changed) viol("fpenv", "%s [N=%" PRIu64 "]: %s", o->name, e->N, res.msg);
    // cache-invalidation transitions on the two last-parameter caches
    for (int s = 0; s < 2; s++)
      if (!strcmp(o->name, s ? "cplx_to_tnx32_simple" : "reim_to_znx64_simple")) {
        int cur[3] = {ws[w].envi, (int)ws[w].seed, 0};
        if (last_slot_param[s][0] >= 0 && (cur[0] != last_slot_param[s][0] || cur[1] != last_slot_param[s][1])) cnt("cache_parameter_transitions", 1);
        memcpy(last_slot_param[s], cur, sizeof cur);
      }
    const uint64_t key = mix64((uint64_t)ws[w].op * 1000003 + (uint64_t)ws[w].envi * 7919 + (uint64_t)ws[w].native * 104729 + ws[w].seed * 31 + 1);
    hrec_t* h = hfind(key);
    if (!h->key) {
      h->key = key;
      h->out = res.out_hash;
      h->first_pos = (uint32_t)pos;
      distinct_add("function_parameter_states", key);
    } else {
      nrep++;
      if (h->out != res.out_hash)
        viol("history", "%s [N=%" PRIu64 " %s seed=%" PRIu64 " shape=%s]: call #%d returned different bits than the equal-argument call #%u (pre-fill %d, byte offset class %u, %d unrelated calls in between)", o->name, e->N, ws[w].native ? "native" : "generic", ws[w].seed, res.shape, pos, h->first_pos, prefill, mis, pos - (int)h->first_pos - 1);
    }
    // one call in twelve is also compared with what the same call returns in a process that has done nothing else
    if ((rng_u64(r) % 12) == 0) {
      uint64_t fresh;
      const int st = pristine_query(ws[w].op, e->N, ws[w].native, ws[w].seed, (prefill + 2) & 3, mis + 1, &fresh);
      if (st == 0) {
        cnt("fresh_process_comparisons", 1);
        if (fresh != res.out_hash)
          viol("history", "%s [N=%" PRIu64 " %s seed=%" PRIu64 " shape=%s]: call #%d of the program returns other bits than the same call made as the only call of a fresh process", o->name, e->N, ws[w].native ? "native" : "generic", ws[w].seed, res.shape, pos);
      } else if (st == 2)
        cnt("fresh_process_call_died", 1);
    }
    // table-based twin on identical arguments
    if (o->twin && (o->flags & OPF_SIMPLE)) {  // (ref/accelerated twins legitimately differ in the last bits: that pair is C07's)
      int ti = op_find(o->twin);
      if (ti >= 0) {
        opres_t tw;
        op_exec(&OPS[ti], e, ws[w].seed, (prefill + 1) & 3, mis + 3, MON_CANARY, &tw);
        ntw++;
        if (!tw.skipped && tw.out_hash != res.out_hash)
          viol("history", "%s [N=%" PRIu64 " seed=%" PRIu64 " shape=%s] differs from %s on the same arguments (call #%d of the program)", o->name, e->N, ws[w].seed, res.shape, o->twin, pos);
      }
    }
  }
  cnt("repeated_argument_pairs_checked", nrep);
  cnt("simple_vs_table_twin_checks", ntw);
  sample("%d calls, %" PRIu64 " equal-argument repeats, %" PRIu64 " twin comparisons", len, nrep, ntw);
  case_end(nrep > 0);
}

// "whatever was called in between" includes what other threads are calling at the same moment: the same list of calls
// (equal arguments) is first run alone, then repeated by several threads at once on shared objects; every repetition must
// return the bits of the first run
typedef struct {
  const env_t* e;
  const int* ops;
  int nops, rounds;
  uint64_t seed0;   // (the first round uses the shared arguments, the later rounds this thread's own arguments)
  uint64_t own_seed;
  const uint64_t* want;
  const uint64_t* want_own;
  uint64_t wrong;
  int first_bad;
  pthread_barrier_t* bar;
} crep_t;
static void* crep_worker(void* arg) {
  crep_t* c = arg;
  pthread_barrier_wait(c->bar);
  for (int rd = 0; rd < c->rounds; rd++)
    for (int i = 0; i < c->nops; i++) {
      opres_t r;
      const int own = rd > 0;
      op_exec(&OPS[c->ops[i]], c->e, (own ? c->own_seed : c->seed0) + (uint64_t)i, (rd + i) & 3, (unsigned)(rd * 3 + i), 0, &r);
      if (!r.skipped && r.out_hash != (own ? c->want_own[i] : c->want[i])) {
        if (!c->wrong) c->first_bad = c->ops[i];
        c->wrong++;
      }
    }
  return 0;
}
static void concurrent_repeat_case(int envi, int native, int T, unsigned rep) {
  char key[96];
  snprintf(key, sizeof key, "equal-arguments|repeated by %d threads at once%s", T, native ? "" : ",generic");
  if (!case_begin(key, "N=%" PRIu64 " rep=%u", ENVN[envi], rep)) return;
  g_case_aligned = 0;
  env_t* e = env_get(envi, native);
  int ops[512], nops = 0;
  for (int i = 0; i < N_CAT_OPS; i++) {
    const opdef_t* o = &OPS[i];
    // (*_simple functions are included: the sequential reference run below is their documented warm-up for this dimension)
    if (!native && (o->flags & (OPF_NTT120 | OPF_AVX | OPF_KERNEL))) continue;
    if (ENVN[envi] >= 8192 && !(strstr(o->name, "fft") || strstr(o->name, "dft") || strstr(o->name, "vmp") || strstr(o->name, "svp") || strstr(o->name, "small") || strstr(o->name, "ntt"))) continue;
    ops[nops++] = i;
  }
  const uint64_t seed0 = mix64(G.seed * 991 + rep * 17 + (uint64_t)envi);
  uint64_t* want = calloc((size_t)nops, 8);
  for (int i = 0; i < nops; i++) {
    opres_t r;
    op_exec(&OPS[ops[i]], e, seed0 + (uint64_t)i, 1, 5, 0, &r);
    want[i] = r.skipped ? 0 : r.out_hash;
  }
  crep_t c[16];
  pthread_t tid[16];
  pthread_barrier_t bar;
  pthread_barrier_init(&bar, 0, (unsigned)T);
  // every thread also gets arguments of its own (other divisors / bounds / exponents than its neighbours), with the
  // reference results computed alone beforehand
  uint64_t* want_own[16];
  for (int t = 0; t < T; t++) {
    want_own[t] = calloc((size_t)nops, 8);
    const uint64_t own = seed0 + 7777 * (uint64_t)(t + 1);
    for (int i = 0; i < nops; i++) {
      opres_t r;
      op_exec(&OPS[ops[i]], e, own + (uint64_t)i, 2, 3, 0, &r);
      want_own[t][i] = r.skipped ? 0 : r.out_hash;
    }
    c[t] = (crep_t){e, ops, nops, ENVN[envi] <= 1024 ? 6 : 2, seed0, own, want, want_own[t], 0, -1, &bar};
  }
  for (int t = 0; t < T; t++) pthread_create(&tid[t], 0, crep_worker, &c[t]);
  uint64_t calls = 0;
  for (int t = 0; t < T; t++) {
    pthread_join(tid[t], 0);
    calls += (uint64_t)c[t].rounds * (uint64_t)nops;
    if (c[t].wrong) viol("history", "%s (first; %" PRIu64 " calls of thread %d): equal arguments returned other bits than the call run alone while %d threads repeat the same calls (N=%" PRIu64 ", %s)", OPS[c[t].first_bad].name, c[t].wrong, t, T, ENVN[envi], native ? "native" : "generic");
  }
  pthread_barrier_destroy(&bar);
  free(want);
  for (int t = 0; t < T; t++) free(want_own[t]);
  cnt("concurrent_repetitions", calls);
  sample("%d entry points repeated by %d threads, %" PRIu64 " calls bit-identical to the first run", nops, T, calls);
  case_end(nops > 0);
}

// a table's own staging buffers are caller-writable memory: what the caller stores there between two calls is "something
// that happened in between" and must not change the next transform of an unrelated vector
static void table_buffers_case(uint64_t m, int layout, int inverse, int native) {
  char key[96];
  snprintf(key, sizeof key, "%s_%s|table buffers written between equal calls%s", layout ? "cplx" : "reim", inverse ? "ifft" : "fft", native ? "" : ",generic");
  if (!case_begin(key, "m=%" PRIu64, m)) return;
  g_case_aligned = 0;
  g_case_place = 0;
  rng_t* r = crng();
  int saved = g_dispatch_native;
  set_dispatch(native);
  void* t;
  double *b0, *b1;
  if (!layout) {
    t = inverse ? (void*)new_reim_ifft_precomp((uint32_t)m, 2) : (void*)new_reim_fft_precomp((uint32_t)m, 2);
    b0 = inverse ? reim_ifft_precomp_get_buffer(t, 0) : reim_fft_precomp_get_buffer(t, 0);
    b1 = inverse ? reim_ifft_precomp_get_buffer(t, 1) : reim_fft_precomp_get_buffer(t, 1);
  } else {
    t = inverse ? (void*)new_cplx_ifft_precomp((uint32_t)m, 2) : (void*)new_cplx_fft_precomp((uint32_t)m, 2);
    b0 = inverse ? cplx_ifft_precomp_get_buffer(t, 0) : cplx_fft_precomp_get_buffer(t, 0);
    b1 = inverse ? cplx_ifft_precomp_get_buffer(t, 1) : cplx_fft_precomp_get_buffer(t, 1);
  }
  set_dispatch(saved);
  const size_t nb = 2 * m * 8;
  double* x = malloc(nb);
  double* y1 = malloc(nb);
  double* y2 = malloc(nb);
  for (uint64_t i = 0; i < 2 * m; i++) x[i] = rng_unit(r) * 2 - 1;
  for (int round = 0; round < 3; round++) {
    memcpy(round ? y2 : y1, x, nb);
    double* y = round ? y2 : y1;
    if (!layout) { if (inverse) reim_ifft(t, y); else reim_fft(t, y); }
    else { if (inverse) cplx_ifft(t, y); else cplx_fft(t, y); }
    if (round && memcmp(y1, y2, nb)) {
      viol("history", "%s_%s (m=%" PRIu64 ", %s): the same vector transforms to other bits after the caller stored data in the table's own buffers (round %d)", layout ? "cplx" : "reim", inverse ? "ifft" : "fft", m, native ? "native" : "generic", round);
      break;
    }
    // the caller uses the staging buffers for something else
    for (uint64_t i = 0; i < 2 * m; i++) {
      b0[i] = rng_unit(r) * 1e3;
      b1[i] = (double)(int64_t)rng_sbits(r, 40);
    }
  }
  cnt("table_buffer_histories", 1);
  sample("3 equal transforms with the table's two buffers overwritten in between: identical bits");
  free(x); free(y1); free(y2);
  free(t);
  case_end(1);
}

void run_C15(void) {
  const int th = G.thorough;
  const unsigned nprog = th ? 40000 : 960;
  for (unsigned p = 0; p < nprog; p++) program_case(p, 300, (p % 8) == 0);
  for (uint64_t m = 1; m <= 65536; m <<= 1)
    for (int v = 0; v < 8; v++) table_buffers_case(m, v & 1, (v >> 1) & 1, !(v >> 2));
  for (int envi = 0; envi < NENV; envi++)
    for (int native = 1; native >= 0; native--)
      for (unsigned rep = 0; rep < (th ? 6u : 1u); rep++) {
        if (!th && ENVN[envi] > 16384) continue;
        concurrent_repeat_case(envi, native, 4, rep);
      }
  // long histories of every entry point: equal arguments exactly 2^8 and 2^16 calls apart (per-call counters, stamps, thresholds)
  for (int oi = 0; oi < N_CAT_OPS; oi++)
    for (unsigned v = 0; v < (th ? 6u : 2u); v++) {
      static const uint64_t HB[] = {64, 64, 16, 256, 1024, 8};
      const int cfg = (v >= 4 && (OPS[oi].flags & (OPF_FFT64 | OPF_TABLE)) && !(OPS[oi].flags & OPF_AVX)) ? DISP_GENERIC : DISP_NATIVE;
      ops_history_case("", OPS[oi].name, HB[v], (v & 1) ? HB[v] : 2, cfg, v, "long_history_calls");
    }
  // every entry point with every allocation request made inside the call refused (build tag "oom" only)
  {
    static const char* names[512];
    int nn = 0;
    for (int oi = 0; oi < N_CAT_OPS && nn < 512; oi++) names[nn++] = OPS[oi].name;
    for (int chunk = 0; chunk * 32 < nn; chunk++) {
      const int cnt_ = nn - chunk * 32 < 32 ? nn - chunk * 32 : 32;
      ops_oom_case("catalogue entries", names + chunk * 32, cnt_, chunk & 1 ? 256 : 64, DISP_NATIVE, th ? 6 : 2, (unsigned)chunk, "calls_repeated_under_allocation_failure");
    }
  }
  for (int i = 0; i < NENV; i++)
    for (int n = 0; n < 2; n++)
      if (ENVS[i][n]) env_destroy(ENVS[i][n]);
  pristine_stop();
}
