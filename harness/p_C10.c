// C10 — q120 products and layout conversions are exact modulo the 120-bit modulus.
// Oracle: 128-bit modular arithmetic for the four primes, textbook CRT with constants recomputed here.
#include "q120h.h"
#include "ops.h"

static const uint64_t ELLS_Q[] = {0, 1, 2, 3, 4, 5, 7, 8, 15, 16, 17, 31, 33, 63, 64, 65, 100, 127, 255, 1000, 1023, 4095, 4097, 9999, 10000};

static int64_t special_i64(rng_t* r, uint64_t i) {
  static const int64_t S[] = {0, 1, -1, INT64_MAX, INT64_MIN, INT64_MIN + 1, INT64_MAX - 1, (int64_t)1 << 62, -((int64_t)1 << 62), ((int64_t)1 << 62) - 1, (int64_t)1 << 32, -((int64_t)1 << 32), ((int64_t)1 << 31) - 1, -((int64_t)1 << 31)};
  if (i < ARRAY_LEN(S)) return S[i];
  switch (i % 5) {
    case 0: return (int64_t)rng_u64(r);
    case 1: return INT64_MIN + (int64_t)(rng_u64(r) >> 8);   // within 2^56 of INT64_MIN
    case 2: return INT64_MAX - (int64_t)(rng_u64(r) >> 8);
    case 3: return (int64_t)((rng_u64(r) % 64 + 1) * Q120[i % 4]) * ((rng_u64(r) & 1) ? 1 : -1);  // multiples of a prime
    default: return rng_sbits(r, (unsigned)rng_range(r, 1, 63));
  }
}

static void conv_case(uint64_t nn, unsigned rep) {
  if (!case_begin("q120_conversions|from_znx64,c_from_b,add,to_znx128", "nn=%" PRIu64 " rep=%u", nn, rep)) return;
  rng_t* r = crng();
  gbuf_t gx, gb, gc, gc2, gz, gb2, gb3, gc3;
  int64_t* x = gb_alloc(&gx, nn * 8, 8, 8 * (rep % 8), 4096);
  uint64_t* b = gb_alloc(&gb, nn * 32, 8, 8 * ((rep + 1) % 8), 4096);
  uint32_t* c = gb_alloc(&gc, nn * 32, 8, 8 * ((rep + 2) % 8), 4096);
  uint32_t* c2 = gb_alloc(&gc2, nn * 32, 8, 8 * ((rep + 3) % 8), 4096);
  __int128* z = gb_alloc(&gz, nn * 16, 16, 16 * ((rep + 1) % 4), 4096);
  uint64_t* b2 = gb_alloc(&gb2, nn * 32, 8, 8 * ((rep + 4) % 8), 4096);
  uint64_t* b3 = gb_alloc(&gb3, nn * 32, 8, 8 * ((rep + 5) % 8), 4096);
  uint32_t* c3 = gb_alloc(&gc3, nn * 32, 8, 8 * ((rep + 6) % 8), 4096);
  for (uint64_t i = 0; i < nn; i++) x[i] = special_i64(r, i + (rep ? 14 : 0));
  // structure on the whole vector for two repetitions in three (runs, periods, values next to their 32-bit truncation,
  // multiples of 2^32, neighbourhoods of powers of two ...); full-range int64, so the extremes stay as they are
  if (rep % 3) {
    if (rep % 3 == 2) for (uint64_t i = 0; i < nn; i++) x[i] = (int64_t)rng_u64(r);
    structure_words(r, (uint64_t*)x, nn, 63);
  }
  gb_prefill(&gb, (int)rep, 1);
  gb_prefill(&gc, (int)rep + 1, 2);
  gb_prefill(&gz, (int)rep + 2, 3);
  // int64 -> b, int64 -> c
  q120_b_from_znx64_simple(nn, (q120b*)b, x);
  q120_c_from_znx64_simple(nn, (q120c*)c, x);
  for (uint64_t i = 0; i < nn; i++)
    for (int k = 0; k < 4; k++) {
      const uint64_t q = Q120[k], want = smod(x[i], q);
      if (b[4 * i + k] % q != want) viol("oracle", "q120_b_from_znx64_simple: x=%" PRId64 " prime %d lane %" PRIu64 " not congruent (want %" PRIu64 ")", x[i], k, b[4 * i + k], want);
      if (c[8 * i + 2 * k] % q != want) viol("oracle", "q120_c_from_znx64_simple: x=%" PRId64 " prime %d word0 %u not congruent", x[i], k, c[8 * i + 2 * k]);
      if (c[8 * i + 2 * k + 1] % q != (uint64_t)(((u128)want << 32) % q)) viol("oracle", "q120_c_from_znx64_simple: x=%" PRId64 " prime %d word1 %u != x*2^32 mod q", x[i], k, c[8 * i + 2 * k + 1]);
    }
  // int64 -> b -> int128 is the identity
  q120_b_to_znx128_simple(nn, z, (q120b*)b);
  for (uint64_t i = 0; i < nn; i++)
    if (z[i] != (__int128)x[i]) viol("oracle", "int64 -> b -> int128 is not the identity for x=%" PRId64 " (got low64 %" PRId64 ")", x[i], (int64_t)z[i]);
  // b -> c on arbitrary (unreduced) lanes
  q120_gen_b(r, (int)(rep % QF_N), nn, b2);
  q120_c_from_b_simple(nn, (q120c*)c2, (q120b*)b2);
  for (uint64_t i = 0; i < nn; i++)
    for (int k = 0; k < 4; k++) {
      const uint64_t q = Q120[k], v = b2[4 * i + k] % q;
      if (c2[8 * i + 2 * k] % q != v || c2[8 * i + 2 * k + 1] % q != (uint64_t)(((u128)v << 32) % q)) viol("oracle", "q120_c_from_b_simple: lane %" PRIu64 " prime %d -> (%u,%u)", b2[4 * i + k], k, c2[8 * i + 2 * k], c2[8 * i + 2 * k + 1]);
    }
  // b + b on unreduced lanes (both operands possibly near 2^64)
  q120_gen_b(r, (int)((rep + 2) % QF_N), nn, b3);
  if (rep % 3 == 0)
    for (uint64_t i = 0; i < 4 * nn; i++) {
      b2[i] = ~0ull - (rng_u64(r) >> 33);
      b3[i] = ~0ull - (rng_u64(r) >> 33);
    }
  uint64_t* bs = malloc(nn * 32 + 8);
  q120_add_bbb_simple(nn, (q120b*)bs, (q120b*)b2, (q120b*)b3);
  for (uint64_t i = 0; i < nn; i++)
    for (int k = 0; k < 4; k++) {
      const uint64_t q = Q120[k];
      if (bs[4 * i + k] % q != (b2[4 * i + k] % q + b3[4 * i + k] % q) % q) viol("oracle", "q120_add_bbb_simple: %" PRIu64 " + %" PRIu64 " prime %d -> %" PRIu64, b2[4 * i + k], b3[4 * i + k], k, bs[4 * i + k]);
    }
  // c + c on (possibly non-canonical) consistent words
  q120_gen_c(r, (int)(rep % QF_N), nn, c2);
  q120_gen_c(r, (int)((rep + 1) % QF_N), nn, c3);
  uint32_t* cs = malloc(nn * 32 + 8);
  q120_add_ccc_simple(nn, (q120c*)cs, (q120c*)c2, (q120c*)c3);
  for (uint64_t i = 0; i < nn; i++)
    for (int k = 0; k < 4; k++) {
      const uint64_t q = Q120[k], v = (c2[8 * i + 2 * k] % q + c3[8 * i + 2 * k] % q) % q;
      if (cs[8 * i + 2 * k] % q != v || cs[8 * i + 2 * k + 1] % q != (uint64_t)(((u128)v << 32) % q)) viol("oracle", "q120_add_ccc_simple: prime %d (%u,%u)+(%u,%u) -> (%u,%u)", k, c2[8 * i + 2 * k], c2[8 * i + 2 * k + 1], c3[8 * i + 2 * k], c3[8 * i + 2 * k + 1], cs[8 * i + 2 * k], cs[8 * i + 2 * k + 1]);
    }
  // b -> int128: centred representative of arbitrary residues, including values at +-Q/2
  const u128 Q = q120_bigQ();
  for (uint64_t i = 0; i < nn; i++) {
    i128 v;
    switch (i % 8) {
      case 6:
      case 7: {
        // t * (product of a subset of the primes) + small: several residues coincide (all equal to the small remainder), the value
        // itself is far from small - what a "the residues agree, so this is the value" shortcut would get wrong
        const unsigned subset = 1 + (unsigned)(rng_u64(r) % 14);  // non-empty proper subset of the four primes
        u128 P = 1;
        for (int k = 0; k < 4; k++)
          if (subset & (1u << k)) P *= Q120[k];
        const u128 tmax = (Q / 2) / P;
        const u128 t = tmax ? 1 + (((u128)rng_u64(r) << 64 | rng_u64(r)) % tmax) : 1;
        const uint64_t rem = (i % 8 == 6) ? rng_u64(r) % 1000 : rng_u64(r) % Q120[3];
        v = (i128)(t * P + rem);
        if (v > (i128)(Q / 2)) v = (i128)(P + rem);
        if (rng_u64(r) & 1) v = -v;
        break;
      }
      case 0: v = (i128)(Q / 2); break;            // (Q-1)/2: largest positive
      case 1: v = -(i128)(Q / 2); break;           // -(Q-1)/2
      case 2: v = (i128)(Q / 2) - (i128)(rng_u64(r) % 1000); break;
      case 3: v = -(i128)(Q / 2) + (i128)(rng_u64(r) % 1000); break;
      case 4: v = (i128)(((u128)rng_u64(r) << 64 | rng_u64(r)) % Q) - (i128)(Q / 2); break;
      default: v = (i128)rng_sbits(r, 63);
    }
    for (int k = 0; k < 4; k++) {
      uint64_t res = smod(v, Q120[k]);
      // lazy representative: residue + t*q anywhere in 64 bits
      uint64_t t = (rep & 1) ? rng_u64(r) % ((~0ull - res) / Q120[k] + 1) : 0;
      b2[4 * i + k] = res + t * Q120[k];
    }
    z[i] = 0;
    x[i] = 0;
    ((i128*)bs)[0] = 0;
    // stash expected in c2 area? keep simple: recompute below
  }
  q120_b_to_znx128_simple(nn, z, (q120b*)b2);
  for (uint64_t i = 0; i < nn; i++) {
    uint64_t rs[4] = {b2[4 * i] % Q120[0], b2[4 * i + 1] % Q120[1], b2[4 * i + 2] % Q120[2], b2[4 * i + 3] % Q120[3]};
    i128 want = q120_crt_centered(rs);
    if (z[i] != want) viol("oracle", "q120_b_to_znx128_simple: residues (%" PRIu64 ",%" PRIu64 ",%" PRIu64 ",%" PRIu64 ") lift differs from the centred CRT representative (low64 got %" PRId64 " want %" PRId64 ")", rs[0], rs[1], rs[2], rs[3], (int64_t)z[i], (int64_t)want);
    for (int k = 0; k < 4; k++)
      if (smod(z[i], Q120[k]) != rs[k]) viol("oracle", "q120_b_to_znx128_simple: result not congruent modulo prime %d", k);
  }
  long wh;
  gbuf_t* gs[] = {&gx, &gb, &gc, &gc2, &gz, &gb2, &gb3, &gc3};
  for (size_t g = 0; g < ARRAY_LEN(gs); g++) {
    if (gb_check(gs[g], &wh)) viol("canary", "q120 conversion wrote outside buffer %zu (offset %ld)", g, wh);
    gb_free(gs[g]);
  }
  free(bs);
  free(cs);
  cnt("conversion_values_checked", nn * 7);
  sample("nn=%" PRIu64 " values incl. INT64_MIN/MAX, +-2^62, +-Q/2, unreduced lanes", nn);
  case_end(nn >= 1);
}

static void block_case(uint64_t nn, unsigned rep) {
  if (!case_begin("q120x2_extract/save|all-blocks", "nn=%" PRIu64 " rep=%u", nn, rep)) return;
  rng_t* r = crng();
  const uint64_t nrows = (uint64_t)rng_range(r, 0, 5);
  gbuf_t gs_, gd, gv, gcs;
  uint64_t* src = gb_alloc(&gs_, nn * 32 * (nrows ? nrows : 1), 8, 8 * (rep % 8), 4096);
  uint64_t* dst = gb_alloc(&gd, 64 * (nrows ? nrows : 1), 8, 8 * ((rep + 3) % 8), 4096);
  uint64_t* vec = gb_alloc(&gv, nn * 32, 8, 8 * ((rep + 5) % 8), 4096);
  uint64_t* one = gb_alloc(&gcs, 64, 8, 8, 4096);
  for (uint64_t i = 0; i < nn * 4 * (nrows ? nrows : 1); i++) src[i] = rng_u64(r);
  uint64_t nblk = nn / 2;
  for (uint64_t blk = 0; blk < nblk; blk++) {
    // single-vector extract (b and c variants are the same copy)
    memset(one, 0x11, 64);
    q120x2_extract_1blk_from_q120b_ref(nn, blk, (q120x2b*)one, (q120b*)src);
    if (memcmp(one, src + 8 * blk, 64)) viol("oracle", "q120x2_extract_1blk_from_q120b_ref: nn=%" PRIu64 " blk=%" PRIu64 " is not coefficients 2blk,2blk+1", nn, blk);
    memset(one, 0x11, 64);
    q120x2_extract_1blk_from_q120c_ref(nn, blk, (q120x2c*)one, (q120c*)src);
    if (memcmp(one, src + 8 * blk, 64)) viol("oracle", "q120x2_extract_1blk_from_q120c_ref: nn=%" PRIu64 " blk=%" PRIu64, nn, blk);
    // contiguous rows
    if (nrows) {
      memset(dst, 0x22, 64 * nrows);
      q120x2_extract_1blk_from_contiguous_q120b_ref(nn, nrows, blk, (q120x2b*)dst, (q120b*)src);
      for (uint64_t row = 0; row < nrows; row++)
        if (memcmp(dst + 8 * row, src + row * 4 * nn + 8 * blk, 64)) viol("oracle", "q120x2_extract_1blk_from_contiguous_q120b_ref: nn=%" PRIu64 " row=%" PRIu64 " blk=%" PRIu64, nn, row, blk);
    }
    // save is the inverse copy and touches only its block
    for (uint64_t i = 0; i < 4 * nn; i++) vec[i] = 0xC0FFEE0000000000ull + i;
    q120x2b_save_1blk_to_q120b_ref(nn, blk, (q120b*)vec, (q120x2b*)one);
    for (uint64_t i = 0; i < 4 * nn; i++) {
      uint64_t want = (i >= 8 * blk && i < 8 * blk + 8) ? one[i - 8 * blk] : 0xC0FFEE0000000000ull + i;
      if (vec[i] != want) {
        viol("oracle", "q120x2b_save_1blk_to_q120b_ref: nn=%" PRIu64 " blk=%" PRIu64 " word %" PRIu64, nn, blk, i);
        break;
      }
    }
    cnt("blocks_checked", 1);
  }
  long wh;
  if (gb_check(&gs_, &wh) || gb_check(&gd, &wh) || gb_check(&gv, &wh) || gb_check(&gcs, &wh)) viol("canary", "extract/save wrote outside a buffer (%ld)", wh);
  gb_free(&gs_);
  gb_free(&gd);
  gb_free(&gv);
  gb_free(&gcs);
  sample("every block index 0..%" PRIu64 " extracted, saved back; %" PRIu64 " contiguous rows", nblk, nrows);
  case_end(nblk >= 1);
}

// the a*a product is a sum of ell products of 32-bit words, i.e. a 77-bit integer per prime; its low 64-bit word is made to land
// next to a wrap: after ell - 2 random terms the last two terms (x1 = 2^32 - 1 with a solved y1, x2 = 1 with the remainder) put the
// exact sum's low word at 2^64 - 1, 2^64 - 2^j, 0 or 1, in every lane at once. An accumulator that folds its high and low words
// with one addition too few bits wide is wrong exactly there; uniformly random terms reach such sums once in 2^20 .. 2^40 lanes.
static void baa_sum_boundary_case(uint64_t ell, unsigned kind, unsigned rep) {
  if (!case_begin("q120_vec_mat1col_product_baa|exact sum with its low word next to a wrap", "ell=%" PRIu64 " kind=%u rep=%u", ell, kind, rep)) return;
  rng_t* r = crng();
  gbuf_t gx, gy;
  uint64_t* x = gb_alloc(&gx, ell * 32, 8, 8 * (rep % 8), 4096);
  uint64_t* y = gb_alloc(&gy, ell * 32, 8, 8 * ((rep + 3) % 8), 4096);
  for (uint64_t i = 0; i < 4 * ell; i++) {
    x[i] = rng_u64(r) >> 32;
    y[i] = rng_u64(r) >> 32;
  }
  for (int k = 0; k < 4; k++) {
    u128 S = 0;
    for (uint64_t i = 0; i + 2 < ell; i++) S += (u128)x[4 * i + k] * y[4 * i + k];
    uint64_t target;
    switch (kind % 5) {
      case 0: target = ~0ull; break;
      case 1: target = 0; break;
      case 2: target = 1; break;
      case 3: target = ~0ull - (((uint64_t)1 << (rng_u64(r) % 45)) - 1); break;  // 2^64 - 2^j
      default: target = ~0ull - (rng_u64(r) >> 24); break;                        // within 2^40 below the wrap
    }
    uint64_t R = target - (uint64_t)S;  // what the last two products must add to the low word (mod 2^64)
    const uint64_t M = 0xFFFFFFFFull;
    uint64_t y1 = R / M;
    if (y1 > M) y1 = M;
    const uint64_t rest = R - y1 * M;  // < 2^32 - 1 unless y1 was clamped
    x[4 * (ell - 2) + k] = M;
    y[4 * (ell - 2) + k] = y1;
    x[4 * (ell - 1) + k] = rest > M ? M : 1;
    y[4 * (ell - 1) + k] = rest > M ? rest / M : rest;
  }
  q120_mat1col_product_baa_precomp* P = q120_new_vec_mat1col_product_baa_precomp();
  uint64_t lanes = 0;
  for (int avx2 = 0; avx2 <= 1; avx2++) {
    uint64_t res[4];
    (avx2 ? q120_vec_mat1col_product_baa_avx2 : q120_vec_mat1col_product_baa_ref)(P, ell, (q120b*)res, (q120a*)x, (q120a*)y);
    for (int k = 0; k < 4; k++) {
      const uint64_t q = Q120[k];
      uint64_t acc = 0;
      for (uint64_t i = 0; i < ell; i++) acc = (acc + (uint64_t)(((u128)(x[4 * i + k] % q) * (y[4 * i + k] % q)) % q)) % q;
      if (res[k] % q != acc) viol("oracle", "q120_vec_mat1col_product_baa_%s: ell=%" PRIu64 ", lane of prime %d: %" PRIu64 " is not congruent to the exact sum (%" PRIu64 "), whose low 64-bit word was placed next to a wrap (kind %u)", avx2 ? "avx2" : "ref", ell, k, res[k], acc, kind % 5);
      lanes++;
    }
  }
  q120_delete_vec_mat1col_product_baa_precomp(P);
  cnt("product_lanes_checked", lanes);
  cnt("sum_boundary_products", 2);
  sample("ell=%" PRIu64 ": both kernels congruent to the exact sum placed at the wrap of its low word", ell);
  gb_free(&gx);
  gb_free(&gy);
  case_end(1);
}

void run_C10(void) {
  const int th = G.thorough;
  for (unsigned rep = 0; rep < (th ? 40u : 4u); rep++) {
    if (!case_begin("q120 product kernels|8 threads,private operands", "rep=%u", rep)) continue;
    uint64_t calls = 0;
    q120_concurrent_kernel_check(8, crng(), th ? 60000 : 12000, &calls);
    cnt("concurrent_kernel_calls", calls);
    sample("8 threads x %" PRIu64 " kernel calls, every result congruent to the exact sum", calls / 8);
    case_end(1);
  }
  // vectors of one power of two on both sides, short lengths: partial sums that are exactly powers of two (thresholds of "is the
  // high part empty" shortcuts sit there); 64 x 64 exponent pairs sampled, every kernel
  for (int k = 0; k < N_KERNELS; k++)
    for (int avx2 = 0; avx2 <= 1; avx2++) {
      if (!q120_kernel_has((q120_kernel_t)k, avx2)) continue;
      for (unsigned t = 0; t < (th ? 64u : 8u); t++) {
        char key[128];
        snprintf(key, sizeof key, "%s_%s|short vectors of one power of two", q120_kernel_name[k], avx2 ? "avx2" : "ref");
        if (!case_begin(key, "t=%u", t)) continue;
        uint64_t lanes = 0;
        static const uint64_t PE[] = {1, 2, 4, 32, 3, 64, 8, 16};
        for (unsigned q = 0; q < 640; q++) lanes += q120_product_check((q120_kernel_t)k, avx2, PE[q % ARRAY_LEN(PE)], QF_POW2, QF_POW2, crng(), q);
        cnt("product_lanes_checked", lanes);
        cnt("power_of_two_products", 640);
        sample("640 products of constant power-of-two vectors, %" PRIu64 " lanes congruent", lanes);
        case_end(1);
      }
    }
  // products: every kernel, ref and avx2, ell classes x operand families
  for (int k = 0; k < N_KERNELS; k++)
    for (int avx2 = 0; avx2 <= 1; avx2++) {
      if (!q120_kernel_has((q120_kernel_t)k, avx2)) continue;
      for (size_t e = 0; e < ARRAY_LEN(ELLS_Q); e++)
        for (int fx = 0; fx < QF_N; fx++)
          for (int fy = 0; fy < QF_N; fy++) {
            const uint64_t ell = ELLS_Q[e];
            if (!th && ell >= 1000 && ((fx + 2 * fy + k) % 3)) continue;  // quick: a third of the family pairs on long vectors
            char key[128];
            snprintf(key, sizeof key, "%s_%s|ell%s,%s,%s", q120_kernel_name[k], avx2 ? "avx2" : "ref", ell == 0 ? "=0" : (ell < 100 ? "<100" : (ell < 9999 ? "<9999" : ">=9999")), q120_fam_name[fx], q120_fam_name[fy]);
            if (!case_begin(key, "ell=%" PRIu64 " x=%s y=%s", ell, q120_fam_name[fx], q120_fam_name[fy])) continue;
            uint64_t lanes = q120_product_check((q120_kernel_t)k, avx2, ell, fx, fy, crng(), (unsigned)(e + fx));
            cnt("product_lanes_checked", lanes);
            cntf("kernel:%s_%s", 1, q120_kernel_name[k], avx2 ? "avx2" : "ref");
            sample("%" PRIu64 " output lanes congruent to the exact sum of products", lanes);
            case_end(ell >= 1);
          }
    }
  // every length 0..10000, both implementations of every kernel against each other (both tiers)
  for (int k = 0; k < N_KERNELS; k++)
    for (uint64_t e0 = 0; e0 <= 10000; e0 += 500) {
      char key[128];
      snprintf(key, sizeof key, "%s|every-ell,ref~avx2", q120_kernel_name[k]);
      const uint64_t e1 = e0 + 499 > 10000 ? 10000 : e0 + 499;
      if (!case_begin(key, "ell=%" PRIu64 "..%" PRIu64, e0, e1)) continue;
      const uint64_t n = q120_pairwise_ell_check((q120_kernel_t)k, e0, e1, (int)((e0 / 500 + (uint64_t)k) % QF_N), (int)((e0 / 500 + 3) % QF_N), crng());
      cnt("pairwise_ell_values", n);
      sample("%" PRIu64 " consecutive lengths: both implementations congruent", n);
      case_end(1);
    }
  // every length 0..10000 for every kernel flavour (blocks of 250 lengths per case; quick tier: see below)
  for (int k = 0; k < N_KERNELS; k++)
    for (int avx2 = 0; avx2 <= 1; avx2++) {
      if (!q120_kernel_has((q120_kernel_t)k, avx2)) continue;
      for (uint64_t e0 = 0; e0 <= 10000; e0 += 250) {
        char key[128];
        snprintf(key, sizeof key, "%s_%s|every-ell", q120_kernel_name[k], avx2 ? "avx2" : "ref");
        if (!case_begin(key, "ell=%" PRIu64 "..%" PRIu64, e0, e0 + 249 > 10000 ? (uint64_t)10000 : e0 + 249)) continue;
        uint64_t lanes = 0, n = 0;
        for (uint64_t ell = e0; ell < e0 + 250 && ell <= 10000; ell++) {
          // quick tier: the lengths next to every multiple of 64 (where a blocked / unrolled loop changes regime); thorough: all
          if (!th && ((ell + 1) & 63) > 2) continue;
          n++;
          lanes += q120_product_check((q120_kernel_t)k, avx2, ell, (int)((ell + k) % QF_N), (int)((ell / 7 + avx2) % QF_N), crng(), (unsigned)ell);
        }
        cnt("product_lanes_checked", lanes);
        cnt("exhaustive_ell_values", n);
        sample("%" PRIu64 " consecutive lengths, %" PRIu64 " lanes congruent", n, lanes);
        case_end(1);
      }
    }
  // sampled lengths in [0, 10000]
  for (unsigned t = 0; t < (th ? 30000u : 1000u); t++) {
    uint64_t h = mix64(t * 977 + 5);
    uint64_t ell = h % 10001;
    int k = (int)((h >> 20) % N_KERNELS), avx2 = (int)((h >> 24) & 1);
    if (!q120_kernel_has((q120_kernel_t)k, avx2)) avx2 = !avx2;
    int fx = (int)((h >> 28) % QF_N), fy = (int)((h >> 32) % QF_N);
    char key[128];
    snprintf(key, sizeof key, "%s_%s|sampled-ell", q120_kernel_name[k], avx2 ? "avx2" : "ref");
    if (!case_begin(key, "ell=%" PRIu64 " x=%s y=%s t=%u", ell, q120_fam_name[fx], q120_fam_name[fy], t)) continue;
    cnt("product_lanes_checked", q120_product_check((q120_kernel_t)k, avx2, ell, fx, fy, crng(), t));
    case_end(ell >= 1);
  }
  // conversions
  static const uint64_t NN[] = {0, 1, 2, 3, 14, 16, 64, 1000, 4096};
  for (size_t i = 0; i < ARRAY_LEN(NN); i++)
    for (unsigned rep = 0; rep < (th ? 400u : 24u); rep++) conv_case(NN[i], rep);
  // block extract / save
  static const uint64_t BN[] = {2, 4, 8, 16, 32, 64, 4096};
  for (size_t i = 0; i < ARRAY_LEN(BN); i++)
    for (unsigned rep = 0; rep < (th ? 10u : 2u); rep++) block_case(BN[i], rep);
  // modules / tables created, used and destroyed in random order, several alive at once
  for (unsigned rep = 0; rep < (G.thorough ? 240u : 24u); rep++)
    ops_lifecycle_case("C10 objects", LKM_BBC | LKM_BAA | LKM_BBB, (rep % 4) == 3 ? DISP_GENERIC : DISP_NATIVE, 160, 0, rep, "lifecycle_uses");
  for (unsigned rep = 0; rep < (G.thorough ? 12u : 6u); rep++)
    ops_lifecycle_case("C10 objects", LKM_BBC | LKM_BAA | LKM_BBB, DISP_NATIVE, 0, (G.thorough && rep < 3) ? 66000 : 300 + 57 * (int)rep, rep, "lifecycle_uses");
  // the entry points of this property called a second time on the SAME buffers holding other data (new values, two limbs exchanged,
  // one word moved between limbs): must equal a fresh call on that data (results or operands remembered by address)
  {
    static const char* const RNAMES[] = {"q120_vec_mat1col_product_baa_ref", "q120_vec_mat1col_product_baa_avx2", "q120_vec_mat1col_product_bbb_ref", "q120_vec_mat1col_product_bbb_avx2", "q120_vec_mat1col_product_bbc_ref", "q120_vec_mat1col_product_bbc_avx2", "q120x2_vec_mat1col_product_bbc_ref", "q120x2_vec_mat1col_product_bbc_avx2", "q120x2_vec_mat2cols_product_bbc_ref", "q120x2_vec_mat2cols_product_bbc_avx2", "q120_b_from_znx64_simple", "q120_c_from_znx64_simple", "q120_c_from_b_simple", "q120_b_to_znx128_simple", "q120_add_bbb_simple", "q120_add_ccc_simple", "q120x2_extract_1blk_from_contiguous_q120b_ref", "q120x2_extract_1blk_from_q120b_ref", "q120x2_extract_1blk_from_q120c_ref", "q120x2b_save_1blk_to_q120b_ref"};
    static const uint64_t RN[] = {2, 16, 64, 1024};
    for (size_t i = 0; i < ARRAY_LEN(RN); i++)
      for (int cfg = DISP_NATIVE; cfg >= DISP_GENERIC; cfg--) {
        if (cfg == DISP_GENERIC && 1) continue;
        ops_recontent_case("C10 entry points", RNAMES, (int)ARRAY_LEN(RNAMES), RN[i], cfg, G.thorough ? 40 : 6, (unsigned)i, "same_buffers_other_data_calls");
      }
    // and from a thread with a small stack, at the largest dimensions
    for (int cfg = DISP_NATIVE; cfg >= DISP_GENERIC; cfg--) {
      ops_small_stack_case("C10 entry points", RNAMES, (int)ARRAY_LEN(RNAMES), 65536, cfg, 256, G.thorough ? 4 : 1, 0, "small_stack_calls");
      ops_small_stack_case("C10 entry points", RNAMES, (int)ARRAY_LEN(RNAMES), 16384, cfg, 256, G.thorough ? 4 : 2, 1, "small_stack_calls");
    }
  }
  // several threads creating, using and destroying their own modules / tables at the same time
  for (unsigned rep = 0; rep < (G.thorough ? 60u : 8u); rep++)
    ops_concurrent_lifecycle_case("C10 objects", LKM_BBC | LKM_BAA | LKM_BBB, (rep % 4) == 3 ? DISP_GENERIC : DISP_NATIVE, rep & 1 ? 8 : 4, 120, rep, "concurrent_lifecycle_uses");
  {
    static const uint64_t BE[] = {2, 3, 17, 100, 1000, 4000, 9999, 10000};
    for (size_t e = 0; e < ARRAY_LEN(BE); e++)
      for (unsigned kind = 0; kind < 5; kind++)
        for (unsigned rep = 0; rep < (G.thorough ? 40u : 4u); rep++) baa_sum_boundary_case(BE[e], kind, rep);
  }
}
