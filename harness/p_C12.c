// C12 — shared modules and precomputed tables are safe for concurrent use.
// Monitors: ThreadSanitizer (tsan build), read-only (mprotect'ed) modules/tables (build tag "ro"),
// per-thread outputs compared bit for bit with a sequential re-run of the same calls, and an
// accounting of the call overlaps that were actually observed.
#define _GNU_SOURCE
#include <pthread.h>
#include <sched.h>
#include <time.h>

#include "ops.h"
#include "roalloc.h"

#define MAXT 64
typedef struct {
  int op, envi;
  uint64_t seed;
  int prefill;
  unsigned mis;
  uint64_t t0, t1;
  uint64_t hash;
  int bad;  // canary / snapshot flags from the concurrent execution
  char msg[120];
} call_t;
typedef struct {
  int tid;
  call_t* calls;
  int ncalls;
  uint64_t jitter;
  env_t** envs;
  pthread_barrier_t* bar;
  int sched;  // 0 free-running on all cores, 1 all threads pinned to two cores (interleaving by preemption), 2 yield after every call
} thr_t;

static inline uint64_t now_ns(void) {
  struct timespec ts;
  clock_gettime(CLOCK_MONOTONIC, &ts);
  return (uint64_t)ts.tv_sec * 1000000000ull + (uint64_t)ts.tv_nsec;
}
static void* worker(void* arg) {
  thr_t* t = arg;
  if (t->sched == 1) {
    cpu_set_t cs;
    CPU_ZERO(&cs);
    CPU_SET((2 * G.part) % 16, &cs);  // a different pair per harness process
    CPU_SET((2 * G.part + 1) % 16, &cs);
    pthread_setaffinity_np(pthread_self(), sizeof cs, &cs);
  }
  pthread_barrier_wait(t->bar);
  // start jitter: outside any library code (the library has no critical sections to place it between)
  uint64_t x = t->jitter;
  for (uint64_t i = 0; i < t->jitter; i++) x = x * 6364136223846793005ull + 1;
  t->jitter = x;  // kept in the thread's own record: the monitor must not become the race
  for (int i = 0; i < t->ncalls; i++) {
    call_t* c = &t->calls[i];
    opres_t r;
    c->t0 = now_ns();
    op_exec(&OPS[c->op], t->envs[c->envi], c->seed, c->prefill, c->mis, MON_CANARY | MON_SNAPSHOT, &r);
    c->t1 = now_ns();
    if (t->sched == 2) sched_yield();
    c->hash = r.skipped ? 0 : r.out_hash;
    c->bad = r.canary_bad | (r.src_modified << 1) | (r.fpenv_changed << 2);  // (a changed FP environment stays with the thread and is inherited by the threads it creates)
    snprintf(c->msg, sizeof c->msg, "%s", r.msg);
  }
  return 0;
}

#if VP_TSAN
// gcc's libtsan calls this weak hook for every report: tie the report to the running case
static volatile int tsan_reports_in_case;
void __tsan_on_report(void* rep) {
  (void)rep;
  __atomic_add_fetch(&tsan_reports_in_case, 1, __ATOMIC_RELAXED);
}
#else
static volatile int tsan_reports_in_case;
#endif

// both sides of every size threshold (N < 8 paths, m = 4, 8, 16, 2048/4096); the thorough tier uses every power of two
static const uint64_t DIMS_Q[] = {4, 16, 64, 2048, 8, 256, 8192, 32, 16384, 1024, 2, 4096};
static const uint64_t DIMS_T[] = {4, 16, 64, 2048, 8, 256, 8192, 32, 16384, 1024, 2, 4096, 128, 65536, 512, 32768};

static uint64_t force_dims[2];  // when non-zero: the two dimensions of the next conc_case
static void conc_case(int warm, unsigned dimsel, int T, int rounds, unsigned rep) {
  char key[96];
  const int sched = (int)(rep % 3);
  static const char* sn[] = {"free", "pinned-2cpu", "yield"};
  // every third cold case shares objects created under the generic-C dispatch (the portable kernels have their own code)
  const int cfg = (!warm && (rep + (unsigned)T) % 3 == 2) ? DISP_GENERIC : DISP_NATIVE;
  snprintf(key, sizeof key, "concurrent:%s|T=%d,%s%s", warm ? "simple-API(warmed-up)" : "module+table-API(cold)", T, sn[sched], cfg == DISP_GENERIC ? ",generic-dispatch" : "");
  const uint64_t* DIMS = G.thorough ? DIMS_T : DIMS_Q;
  const size_t nd = G.thorough ? ARRAY_LEN(DIMS_T) : ARRAY_LEN(DIMS_Q);
  const uint64_t N1 = force_dims[0] ? force_dims[0] : DIMS[dimsel % nd], N2 = force_dims[0] ? force_dims[1] : DIMS[(dimsel + 1 + rep) % nd];
  if (!case_begin(key, "dims=%" PRIu64 ",%" PRIu64 " threads=%d rounds=%d rep=%u", N1, N2, T, rounds, rep)) return;
  rng_t* r = crng();
  tsan_reports_in_case = 0;
  // shared objects, created by the main thread; in the "ro" build they live in read-only pages afterwards
  env_t* envs[2];
  ro_capture(1);
  envs[0] = env_create(N1, cfg);
  envs[1] = env_create(N2 == N1 ? N1 * 2 : N2, cfg);
  ro_capture(0);
  size_t robytes = ro_protect();
  if (ro_available()) {
    cnt("ro_protected_bytes", robytes);
    cnt("ro_protected_allocations", ro_regions());
  }
  // the operations of this phase
  int ops[512], nops = 0;
  for (int i = 0; i < N_CAT_OPS; i++) {
    const int simple = (OPS[i].flags & OPF_SIMPLE) != 0;
    if (simple == warm) ops[nops++] = i;
  }
  if (warm) {
    // documented protocol: one call per dimension has completed before the threads start. The two
    // conversions with thread-local last-parameter caches need no warm-up (each thread has its own).
    for (int e = 0; e < 2; e++)
      for (int i = 0; i < nops; i++) {
        opres_t w;
        op_exec(&OPS[ops[i]], envs[e], 1, 0, 0, 0, &w);
      }
    cnt("warmup_calls", 2 * (uint64_t)nops);
  }
  thr_t th[MAXT];
  pthread_t tid[MAXT];
  pthread_barrier_t bar;
  pthread_barrier_init(&bar, 0, (unsigned)T);
  const int per = nops * rounds;
  for (int t = 0; t < T; t++) {
    th[t].tid = t;
    th[t].envs = envs;
    th[t].bar = &bar;
    th[t].sched = sched;
    th[t].jitter = rng_u64(r) & 0x3FFF;
    th[t].ncalls = per;
    th[t].calls = calloc((size_t)per, sizeof(call_t));
    int k = 0;
    for (int rd = 0; rd < rounds; rd++) {
      // random permutation of all entry points of the phase
      int perm[512];
      for (int i = 0; i < nops; i++) perm[i] = ops[i];
      for (int i = nops - 1; i > 0; i--) {
        int j = (int)(rng_u64(r) % (uint64_t)(i + 1));
        int tmp = perm[i];
        perm[i] = perm[j];
        perm[j] = tmp;
      }
      // the first call of every thread in the cold phase is the small product / a module-level product:
      // first use of anything lazily initialised must itself be race free
      for (int i = 0; i < nops; i++, k++) {
        call_t* c = &th[t].calls[k];
        c->op = perm[i];
        c->envi = (int)(rng_u64(r) & 1);
        c->seed = rng_u64(r);
        c->prefill = (int)(rng_u64(r) & 3);
        c->mis = (unsigned)(rng_u64(r) & 7);
      }
    }
  }
  for (int t = 0; t < T; t++) pthread_create(&tid[t], 0, worker, &th[t]);
  for (int t = 0; t < T; t++) pthread_join(tid[t], 0);
  pthread_barrier_destroy(&bar);
  // sequential re-run: every call must return bit for bit what it returned concurrently
  uint64_t nbad = 0, ncalls = 0;
  for (int t = 0; t < T; t++)
    for (int i = 0; i < th[t].ncalls; i++) {
      call_t* c = &th[t].calls[i];
      opres_t s;
      op_exec(&OPS[c->op], envs[c->envi], c->seed, c->prefill, c->mis, MON_CANARY, &s);
      ncalls++;
      if (s.skipped) continue;
      if (s.out_hash != c->hash && nbad++ < 3) viol("differential", "%s: result under %d concurrent threads differs from the same call run alone (N=%" PRIu64 ", thread %d call %d)", OPS[c->op].name, T, envs[c->envi]->N, t, i);
      if (c->bad && nbad++ < 3) viol(c->bad & 1 ? "canary" : (c->bad & 2 ? "snapshot" : "fpenv"), "%s under concurrency: %s", OPS[c->op].name, c->msg);
      // a *_simple function must also be the function its explicit-table twin computes (same arguments from the same seed)
      if (warm && OPS[c->op].twin) {
        const opdef_t* tw = op_lookup(OPS[c->op].twin);
        opres_t w;
        if (tw) {
          op_exec(tw, envs[c->envi], c->seed, c->prefill, c->mis, 0, &w);
          if (!w.skipped && w.out_hash != c->hash && nbad++ < 3) viol("differential", "%s under %d concurrent threads (after the warm-up) differs from %s on the same arguments (N=%" PRIu64 ")", OPS[c->op].name, T, OPS[c->op].twin, envs[c->envi]->N);
          cnt("simple_vs_table_twin_checks", 1);
        }
      }
    }
  // observed concurrency: overlapping [call,return] intervals between different threads
  uint64_t overlaps = 0;
  int first_overlap = 0;
  static uint8_t op_overlapped[512];
  memset(op_overlapped, 0, sizeof op_overlapped);
  for (int a = 0; a < T; a++)
    for (int b = a + 1; b < T; b++) {
      int j0 = 0;
      for (int i = 0; i < th[a].ncalls; i++) {
        call_t* ca = &th[a].calls[i];
        while (j0 < th[b].ncalls && th[b].calls[j0].t1 < ca->t0) j0++;
        for (int j = j0; j < th[b].ncalls && th[b].calls[j].t0 <= ca->t1; j++) {
          call_t* cb = &th[b].calls[j];
          if (cb->t1 < ca->t0) continue;
          overlaps++;
          op_overlapped[ca->op] = op_overlapped[cb->op] = 1;
          int lo = ca->op < cb->op ? ca->op : cb->op, hi = ca->op < cb->op ? cb->op : ca->op;
          distinct_add("overlap_pairs", mix64((uint64_t)lo * 1000 + (uint64_t)hi + 1));
          if (i == 0 && j == 0) first_overlap++;
        }
      }
    }
  int nover = 0;
  for (int i = 0; i < nops; i++) {
    nover += op_overlapped[ops[i]];
    if (op_overlapped[ops[i]]) distinct_add("entry_points_observed_concurrently", hash_bytes(OPS[ops[i]].name, strlen(OPS[ops[i]].name), 1));
  }
  cnt("concurrent_calls", ncalls);
  cntf("schedule:%s", 1, sn[sched]);
  cntf("shared_objects_dispatch:%s", 1, disp_name[cfg]);
  cnt("overlapping_call_pairs", overlaps);
  cnt("first_call_overlaps", (uint64_t)first_overlap);
  if (tsan_reports_in_case) {
    viol("tsan", "ThreadSanitizer produced %d report(s) during this case (stacks in the run's stderr)", tsan_reports_in_case);
  }
#if VP_TSAN
  cnt("tsan_instrumented_calls", ncalls);
#endif
  sample("%d threads x %d calls; %" PRIu64 " overlapping call pairs; %d/%d entry points overlapped; first calls overlapping: %d", T, per, overlaps, nover, nops, first_overlap);
  ro_unprotect();
  env_destroy(envs[0]);
  env_destroy(envs[1]);
  for (int t = 0; t < T; t++) free(th[t].calls);
  case_end(overlaps > 0);
}

// every thread builds, uses and destroys its OWN modules and tables at the same time as the others (constructors
// must not share hidden scratch either); results are compared with the same work done alone afterwards
typedef struct {
  uint64_t N, seed;
  uint64_t hashes[24];
  pthread_barrier_t* bar;
} ctor_t;
static void ctor_work(ctor_t* c) {
  env_t* e = env_create(c->N, 1);
  static const char* const USE[] = {"q120_ntt_bb_avx2", "q120_intt_bb_avx2", "reim_fft", "reim_ifft", "cplx_fft", "cplx_ifft", "vec_znx_dft", "vec_znx_idft", "vec_znx_dft@ntt120", "vec_znx_idft@ntt120", "znx_small_single_product", "vmp_apply_dft",
                                    "q120_vec_mat1col_product_baa_ref", "q120_vec_mat1col_product_bbb_avx2", "q120_vec_mat1col_product_bbc_ref", "reim_to_znx64", "reim_to_tnx", "cplx_to_tnx32", "reim4_from_cplx", "svp_apply_dft"};
  for (size_t i = 0; i < ARRAY_LEN(USE); i++) {
    opres_t r;
    op_exec(&OPS[op_find(USE[i])], e, c->seed + i, (int)(i & 3), (unsigned)i, 0, &r);
    c->hashes[i] = r.skipped ? 0 : r.out_hash;
  }
  env_destroy(e);
}
static void* ctor_worker(void* arg) {
  ctor_t* c = arg;
  pthread_barrier_wait(c->bar);
  ctor_work(c);
  return 0;
}
static void construction_case(int T, unsigned rep) {
  char key[96];
  snprintf(key, sizeof key, "concurrent:construction+use+destruction|T=%d", T);
  if (!case_begin(key, "threads=%d rep=%u", T, rep)) return;
  rng_t* r = crng();
  tsan_reports_in_case = 0;
  ctor_t th[MAXT], seq[MAXT];
  pthread_t tid[MAXT];
  pthread_barrier_t bar;
  pthread_barrier_init(&bar, 0, (unsigned)T);
  static const uint64_t CN[] = {4, 16, 64, 256, 2048, 4096, 16384, 1024};
  for (int t = 0; t < T; t++) {
    memset(&th[t], 0, sizeof th[t]);
    th[t].N = CN[rng_u64(r) % ARRAY_LEN(CN)];  // few values: several threads build objects of the same dimension
    th[t].seed = rng_u64(r);
    th[t].bar = &bar;
    seq[t] = th[t];
  }
  for (int t = 0; t < T; t++) pthread_create(&tid[t], 0, ctor_worker, &th[t]);
  for (int t = 0; t < T; t++) pthread_join(tid[t], 0);
  pthread_barrier_destroy(&bar);
  uint64_t nbad = 0;
  for (int t = 0; t < T; t++) {
    ctor_work(&seq[t]);
    for (int i = 0; i < 24; i++)
      if (seq[t].hashes[i] != th[t].hashes[i] && nbad++ < 2) viol("differential", "objects built while %d threads were constructing theirs give different results than objects built alone (N=%" PRIu64 ", use %d)", T, th[t].N, i);
  }
  if (tsan_reports_in_case) viol("tsan", "ThreadSanitizer produced %d report(s) during concurrent construction", tsan_reports_in_case);
  cnt("concurrent_constructions", (uint64_t)T);
  sample("%d threads each built modules + all table kinds, used 20 entry points, destroyed them; equal to the sequential run", T);
  case_end(1);
}

// the library's own allocation entry points (new_vec_znx_dft / _big, new_svp_ppol, new_vmp_pmat, spqlios_alloc) called by
// several threads at once on one shared module, with objects of different sizes in flight: every object must be
// entirely the caller's - each thread fills its objects with its own pattern, lets the others run, and reads them back
typedef struct {
  const MODULE* mod;
  uint64_t N, seed;
  int iters;
  uint64_t wrong, objects;
  pthread_barrier_t* bar;
} calloc_t;
static void* calloc_worker(void* arg) {
  calloc_t* c = arg;
  rng_t r;
  rng_seed(&r, c->seed, 555);
  pthread_barrier_wait(c->bar);
  for (int it = 0; it < c->iters; it++) {
    void* obj[3];
    size_t len[3];
    int kind[3];
    for (int j = 0; j < 3; j++) {
      kind[j] = (int)(rng_u64(&r) % 5);
      // sizes on both sides of the allocator's large-block threshold (128 KiB at N = 4096 is 4 limbs), a few size classes only
      static const uint64_t LIMBS[] = {1, 3, 4, 5, 5, 8, 40, 40, 41};
      const uint64_t limbs = LIMBS[rng_u64(&r) % ARRAY_LEN(LIMBS)];
      switch (kind[j]) {
        case 0: obj[j] = new_vec_znx_dft(c->mod, limbs); len[j] = bytes_of_vec_znx_dft(c->mod, limbs); break;
        case 1: obj[j] = new_vec_znx_big(c->mod, limbs); len[j] = bytes_of_vec_znx_big(c->mod, limbs); break;
        case 2: obj[j] = new_svp_ppol(c->mod); len[j] = bytes_of_svp_ppol(c->mod); break;
        case 3: { const uint64_t nr = 1 + limbs % 7, nc = 1 + limbs % 5; obj[j] = new_vmp_pmat(c->mod, nr, nc); len[j] = bytes_of_vmp_pmat(c->mod, nr, nc); break; }
        default: len[j] = (size_t)(limbs * c->N * 8); obj[j] = spqlios_alloc(len[j]); break;
      }
      {  // the caller's pattern at every 509th byte and at both ends (cheap enough for thousands of megabyte-sized objects)
        const uint8_t pat = (uint8_t)(0x40 + ((c->seed + (uint64_t)j) & 0x3F));
        uint8_t* q = obj[j];
        for (size_t i = 0; i < len[j]; i += 509) q[i] = pat;
        if (len[j]) q[len[j] - 1] = pat;
      }
    }
    if ((it & 7) == 0) sched_yield();
    for (int j = 0; j < 3; j++) {
      const uint8_t want = (uint8_t)(0x40 + ((c->seed + (uint64_t)j) & 0x3F));
      const uint8_t* p = obj[j];
      for (size_t i = 0; i < len[j]; i += 509)
        if (p[i] != want) { c->wrong++; break; }
      if (len[j] && p[len[j] - 1] != want) c->wrong++;
      switch (kind[j]) {
        case 0: delete_vec_znx_dft(obj[j]); break;
        case 1: delete_vec_znx_big(obj[j]); break;
        case 2: delete_svp_ppol(obj[j]); break;
        case 3: delete_vmp_pmat(obj[j]); break;
        default: spqlios_free(obj[j]); break;
      }
      c->objects++;
    }
  }
  return 0;
}
static void allocation_case(uint64_t N, int T, unsigned rep) {
  char key[96];
  snprintf(key, sizeof key, "concurrent:library allocators|T=%d", T);
  if (!case_begin(key, "N=%" PRIu64 " rep=%u", N, rep)) return;
  rng_t* r = crng();
  tsan_reports_in_case = 0;
  MODULE* mod = new_module_info(N, FFT64);
  calloc_t c[MAXT];
  pthread_t tid[MAXT];
  pthread_barrier_t bar;
  pthread_barrier_init(&bar, 0, (unsigned)T);
  for (int t = 0; t < T; t++) {
    c[t] = (calloc_t){mod, N, rng_u64(r), N <= 1024 ? 500 : 3000, 0, 0, &bar};
    pthread_create(&tid[t], 0, calloc_worker, &c[t]);
  }
  uint64_t objects = 0, wrong = 0;
  for (int t = 0; t < T; t++) {
    pthread_join(tid[t], 0);
    objects += c[t].objects;
    wrong += c[t].wrong;
  }
  pthread_barrier_destroy(&bar);
  delete_module_info(mod);
  if (wrong) viol("differential", "objects obtained from the library's allocation functions by %d threads at once were overwritten by another thread's data (%" PRIu64 " of %" PRIu64 " objects, N=%" PRIu64 ")", T, wrong, objects, N);
  if (tsan_reports_in_case) viol("tsan", "ThreadSanitizer produced %d report(s) during concurrent allocation", tsan_reports_in_case);
  cnt("concurrently_allocated_objects", objects);
  sample("%d threads allocated, filled, verified and released %" PRIu64 " objects of mixed sizes", T, objects);
  case_end(1);
}

// neighbours: the threads' private polynomials are adjacent slots of ONE array (thread t owns slots t, t+T, t+2T, ...), as
// when a matrix of polynomials is split between workers. A thread must not even rewrite a neighbour's words with the
// values it read there (a wide read-modify-write of the bytes behind a short vector): the owner may be updating them.
typedef struct {
  const MODULE* mod;
  int64_t* arr;
  const int64_t* inc;
  uint64_t N;
  int t, T, slots, iters;
  pthread_barrier_t* bar;
} cadj_t;
static void* cadj_worker(void* arg) {
  cadj_t* c = arg;
  const uint64_t N = c->N;
  pthread_barrier_wait(c->bar);
  for (int it = 0; it < c->iters; it++)
    for (int s = c->t; s < c->slots; s += c->T) {
      int64_t* x = c->arr + (uint64_t)s * N;
      switch (it % 4) {
        case 0: vec_znx_add(c->mod, x, 1, N, x, 1, N, c->inc, 1, N); break;
        case 1: vec_znx_sub(c->mod, x, 1, N, x, 1, N, c->inc, 1, N); break;
        case 2: vec_znx_add(c->mod, x, 1, N, c->inc, 1, N, x, 1, N); break;
        default: vec_znx_negate(c->mod, x, 1, N, x, 1, N); vec_znx_negate(c->mod, x, 1, N, x, 1, N); vec_znx_add(c->mod, x, 1, N, x, 1, N, c->inc, 1, N); break;
      }
    }
  return 0;
}
static void adjacent_slots_case(uint64_t N, MODULE_TYPE mt, int T, unsigned rep) {
  char key[96];
  snprintf(key, sizeof key, "concurrent:adjacent polynomials of one array|T=%d%s", T, mt == NTT120 ? ",ntt120" : "");
  if (!case_begin(key, "N=%" PRIu64 " rep=%u", N, rep)) return;
  rng_t* r = crng();
  tsan_reports_in_case = 0;
  MODULE* mod = new_module_info(N, mt);
  const int slots = 4 * T, iters = N <= 8 ? 20000 : 2000;
  int64_t* arr = malloc((uint64_t)slots * N * 8 + 64);
  int64_t* start = malloc((uint64_t)slots * N * 8 + 64);
  int64_t* inc = malloc(N * 8 + 64);
  for (uint64_t i = 0; i < (uint64_t)slots * N; i++) arr[i] = start[i] = rng_sbits(r, 40);
  for (uint64_t i = 0; i < N; i++) inc[i] = 1 + (int64_t)(rng_u64(r) % 5);
  cadj_t c[MAXT];
  pthread_t tid[MAXT];
  pthread_barrier_t bar;
  pthread_barrier_init(&bar, 0, (unsigned)T);
  for (int t = 0; t < T; t++) {
    c[t] = (cadj_t){mod, arr, inc, N, t, T, slots, iters, &bar};
    pthread_create(&tid[t], 0, cadj_worker, &c[t]);
  }
  for (int t = 0; t < T; t++) pthread_join(tid[t], 0);
  pthread_barrier_destroy(&bar);
  // per 4 iterations: +inc, -inc, +inc, +inc  =>  net 2*inc; iters is a multiple of 4
  uint64_t wrong = 0;
  for (int s = 0; s < slots; s++)
    for (uint64_t i = 0; i < N; i++)
      if (arr[(uint64_t)s * N + i] != start[(uint64_t)s * N + i] + (int64_t)(iters / 4) * 2 * inc[i]) wrong++;
  if (wrong) viol("differential", "%" PRIu64 " coefficients of polynomials that are adjacent slots of one array (N=%" PRIu64 ", each slot updated in place by exactly one of %d threads) lost updates", wrong, N, T);
  if (tsan_reports_in_case) viol("tsan", "ThreadSanitizer produced %d report(s) while %d threads updated adjacent polynomials of one array (N=%" PRIu64 ")", tsan_reports_in_case, T, N);
  delete_module_info(mod);
  free(arr); free(start); free(inc);
  cnt("adjacent_slot_updates", (uint64_t)slots * (uint64_t)iters);
  sample("%d slots of N=%" PRIu64 " coefficients, %d threads, %d in-place updates per slot, every coefficient as expected", slots, N, T, iters);
  case_end(1);
}

// thread churn: waves of short-lived threads (each lives for two calls per entry point, then exits; hundreds of threads
// per case): whatever the library keeps per thread must be set up correctly in every new thread and must not outlive it
// in a way that hurts the threads that come later
typedef struct {
  const char* const* names;
  int n;
  const env_t* e;
  uint64_t seed;
  int stop;
  uint64_t wrong, calls;
  int first_bad;
} churn_companion_t;
static void* churn_companion(void* arg) {
  churn_companion_t* c = arg;
  uint64_t want[64];
  int ops[64];
  for (int i = 0; i < c->n; i++) {
    ops[i] = op_find(c->names[i]);
    opres_t r;
    op_exec(&OPS[ops[i]], c->e, c->seed + (uint64_t)i, 0, 1, 0, &r);
    want[i] = r.skipped ? 0 : r.out_hash;
  }
  while (!__atomic_load_n(&c->stop, __ATOMIC_ACQUIRE))
    for (int i = 0; i < c->n; i++) {
      opres_t r;
      op_exec(&OPS[ops[i]], c->e, c->seed + (uint64_t)i, (int)(c->calls & 3), (unsigned)c->calls, 0, &r);
      c->calls++;
      if (!r.skipped && r.out_hash != want[i]) {
        if (!c->wrong) c->first_bad = ops[i];
        c->wrong++;
      }
    }
  return 0;
}
static void thread_churn_case(uint64_t N, unsigned rep) {
  if (!case_begin("concurrent:thread churn|waves of 8 short-lived threads", "N=%" PRIu64 " rep=%u", N, rep)) return;
  tsan_reports_in_case = 0;
  env_t* e = env_create(N, DISP_NATIVE);
  const char* names[64];
  int n = 0;
  for (int i = 0; i < N_CAT_OPS && n < 64; i++)
    if ((OPS[i].flags & OPF_SIMPLE) || !strcmp(OPS[i].name, "znx_small_single_product") || !strcmp(OPS[i].name, "vec_znx_automorphism(res==a)") || !strcmp(OPS[i].name, "vec_znx_idft") || !strcmp(OPS[i].name, "vmp_apply_dft")) names[n++] = OPS[i].name;
  // documented warm-up of the *_simple functions for this dimension
  for (int i = 0; i < n; i++) {
    opres_t w;
    op_exec(&OPS[op_find(names[i])], e, 1, 0, 0, 0, &w);
  }
  uint64_t calls = 0, bad = 0;
  char msg[240] = "";
  // a companion thread that lives through all the waves and keeps calling the same entry points with its own arguments
  churn_companion_t comp = {names, n, e, G.seed * 977 + rep, 0, 0, 0};
  pthread_t ctid;
  pthread_create(&ctid, 0, churn_companion, &comp);
  for (int wave = 0; wave < (N <= 1024 ? 12 : 3); wave++) bad += ops_concurrent_check(names, n, e, 8, 2, G.seed * 31337 + rep * 101 + (uint64_t)wave, msg, sizeof msg, &calls);
  __atomic_store_n(&comp.stop, 1, __ATOMIC_RELEASE);
  pthread_join(ctid, 0);
  if (comp.wrong) viol("differential", "%s: a long-lived thread got other results than alone while %d short-lived threads came and went (%" PRIu64 " differing calls, N=%" PRIu64 ")", OPS[comp.first_bad].name, 12 * 8 * n, comp.wrong, N);
  calls += comp.calls;
  if (bad) viol("differential", "%s (%" PRIu64 " differing calls across waves of short-lived threads)", msg, bad);
  if (tsan_reports_in_case) viol("tsan", "ThreadSanitizer produced %d report(s) during thread churn", tsan_reports_in_case);
  env_destroy(e);
  cnt("short_lived_threads", (uint64_t)(N <= 1024 ? 12 : 3) * 8 * (uint64_t)n);
  sample("%d entry points x waves of 8 threads that exit after two calls; %" PRIu64 " calls equal to their sequential re-run", n, calls);
  case_end(1);
}

// first use: T threads make their first calls on a fresh set of shared objects at the same moment, all of them
// starting with the same heavy entry points (anything built lazily on first use must be race free and complete)
static void first_use_case(uint64_t N, int T, int cfg, unsigned rep) {
  char key[96];
  snprintf(key, sizeof key, "concurrent:first-use|T=%d%s", T, cfg == DISP_GENERIC ? ",generic-dispatch" : "");
  if (!case_begin(key, "N=%" PRIu64 " threads=%d rep=%u", N, T, rep)) return;
  rng_t* r = crng();
  tsan_reports_in_case = 0;
  static const char* const FU[] = {"vec_znx_idft", "znx_small_single_product", "vec_znx_idft_tmp_a", "reim_ifft", "reim_fft", "cplx_ifft", "cplx_fft", "vec_znx_dft", "svp_prepare", "svp_apply_dft",
                                   "vmp_prepare_contiguous", "vmp_apply_dft", "vmp_apply_dft_to_dft", "vec_znx_dft@ntt120", "vec_znx_idft@ntt120", "vec_znx_idft_tmp_a@ntt120", "reim_fftvec_mul", "reim_fftvec_addmul",
                                   "cplx_fftvec_mul", "reim4_fftvec_mul", "reim_to_znx64", "reim_from_znx64", "reim_to_tnx", "cplx_to_tnx32", "q120_ntt_bb_avx2", "q120_intt_bb_avx2"};
  enum { NFU = sizeof FU / sizeof FU[0] };
  env_t* envs[2];
  envs[0] = envs[1] = env_create(N, cfg);
  thr_t th[MAXT];
  pthread_t tid[MAXT];
  pthread_barrier_t bar;
  pthread_barrier_init(&bar, 0, (unsigned)T);
  // rotation of the list: which entry point is the very first call differs from case to case, not between threads
  const unsigned rot = rep % NFU;
  for (int t = 0; t < T; t++) {
    th[t].tid = t;
    th[t].envs = envs;
    th[t].bar = &bar;
    th[t].sched = 0;
    th[t].jitter = 0;
    th[t].ncalls = NFU;
    th[t].calls = calloc(NFU, sizeof(call_t));
    for (int i = 0; i < NFU; i++) {
      call_t* c = &th[t].calls[i];
      c->op = op_find(FU[(i + rot) % NFU]);
      if (c->op < 0) harness_fail("first_use_case: %s not in the catalogue", FU[(i + rot) % NFU]);
      c->envi = 0;
      c->seed = rng_u64(r);
      c->prefill = (int)(rng_u64(r) & 3);
      c->mis = (unsigned)(rng_u64(r) & 7);
    }
  }
  for (int t = 0; t < T; t++) pthread_create(&tid[t], 0, worker, &th[t]);
  for (int t = 0; t < T; t++) pthread_join(tid[t], 0);
  pthread_barrier_destroy(&bar);
  uint64_t nbad = 0, first_overlap = 0;
  for (int t = 0; t < T; t++) {
    for (int i = 0; i < NFU; i++) {
      call_t* c = &th[t].calls[i];
      opres_t s;
      op_exec(&OPS[c->op], envs[0], c->seed, c->prefill, c->mis, 0, &s);
      if (s.skipped) continue;
      if (s.out_hash != c->hash && nbad++ < 3) viol("differential", "%s: first use of fresh objects by %d threads at once differs from the same call run alone (N=%" PRIu64 ", thread %d, call %d)", OPS[c->op].name, T, N, t, i);
      if (c->bad && nbad++ < 3) viol(c->bad & 1 ? "canary" : (c->bad & 2 ? "snapshot" : "fpenv"), "%s at first use: %s", OPS[c->op].name, c->msg);
    }
    for (int u = t + 1; u < T; u++)
      if (th[t].calls[0].t0 <= th[u].calls[0].t1 && th[u].calls[0].t0 <= th[t].calls[0].t1) first_overlap++;
  }
  if (tsan_reports_in_case) viol("tsan", "ThreadSanitizer produced %d report(s) during the first concurrent use", tsan_reports_in_case);
  cnt("first_use_cases", 1);
  cnt("first_use_overlapping_first_calls", first_overlap);
  cntf("first_use_N:%" PRIu64, 1, N);
  sample("%d threads x %d first calls on fresh objects (first entry point %s); %" PRIu64 " pairs of very first calls overlapped", T, (int)NFU, FU[rot], first_overlap);
  env_destroy(envs[0]);
  for (int t = 0; t < T; t++) free(th[t].calls);
  case_end(1);
}

void run_C12(void) {
  const int th = G.thorough;
  static const int TS[] = {8, 16, 4, 2};
  const unsigned n = th ? 150 : 10;
  // cold cases first: the first case a fresh process runs is its cold start
  for (unsigned rep = 0; rep < n; rep++)
    for (size_t ti = 0; ti < ARRAY_LEN(TS); ti++) conc_case(0, rep + (unsigned)ti, TS[ti], 1 + (int)(rep & 1), rep);
  // the *_simple API with constant arguments per thread, at a dimension no earlier case of the process has used: the documented
  // warm-up calls are made by a thread that exits before the workers start (nothing says the warm-up thread must stay alive)
  {
    int simple[64], ns = 0;
    for (int i = 0; i < N_CAT_OPS && ns < 64; i++)
      if (OPS[i].flags & OPF_SIMPLE) simple[ns++] = i;
    for (int i = 0; i < ns; i++)
      for (unsigned rep = 0; rep < (th ? 4u : 1u); rep++) {
        const char* names[3] = {OPS[simple[i]].name, OPS[simple[i]].name, OPS[simple[(i + 1 + (int)rep) % ns]].name};
        ops_steady_case(OPS[simple[i]].name, names, 3, rep & 1 ? 512 : 128, DISP_NATIVE, 70, 300, 0, 1, rep, "steady_concurrent_calls");
      }
  }
  for (unsigned rep = 0; rep < n; rep++)
    for (size_t ti = 0; ti < ARRAY_LEN(TS); ti++) conc_case(1, rep + (unsigned)ti, TS[ti], 3, rep);
  for (unsigned rep = 0; rep < (th ? 24u : 4u); rep++) allocation_case(rep & 1 ? 4096 : 256, rep & 2 ? 8 : 4, rep);
  {
    static const uint64_t TN[] = {8, 256, 4096};
    for (size_t i = 0; i < ARRAY_LEN(TN); i++)
      for (unsigned rep = 0; rep < (th ? 6u : 1u); rep++) thread_churn_case(TN[i], rep);
  }
  // three times more threads than cores (small rings: many short calls, constant preemption)
  force_dims[0] = 16;
  force_dims[1] = 256;
  for (unsigned rep = 0; rep < (th ? 6u : 1u); rep++) {
    conc_case(0, 0, 48, 1, 2000 + rep);
    conc_case(1, 0, 48, 2, 2100 + rep);
  }
  force_dims[0] = force_dims[1] = 0;
  {
    static const uint64_t AN[] = {2, 1, 4, 8, 64};
    for (size_t i = 0; i < ARRAY_LEN(AN); i++)
      for (int mt = 0; mt < 2; mt++) {
        if (AN[i] == 1 && mt == 0) continue;  // no FFT64 module for N = 1
        for (unsigned rep = 0; rep < (th ? 4u : 1u); rep++) adjacent_slots_case(AN[i], mt ? NTT120 : FFT64, rep & 1 ? 4 : 8, rep);
      }
  }
  // the warmed-up simple API at the largest and the smallest dimension together
  force_dims[0] = 65536;
  force_dims[1] = 2;
  for (unsigned rep = 0; rep < (th ? 6u : 1u); rep++) conc_case(1, 0, rep & 1 ? 4 : 2, 2, 1000 + rep);
  force_dims[0] = force_dims[1] = 0;
  for (unsigned rep = 0; rep < (th ? 60u : 6u); rep++) construction_case(rep & 1 ? 16 : 4, rep);
  // every entry point with constant arguments per thread (hot-parameter caches, memoised last arguments): twice the same entry
  // with two argument sets, and the same plus the next entry of the catalogue (usually a sibling sharing code with it)
  for (int oi = 0; oi < N_CAT_OPS; oi++) {
    if (OPS[oi].flags & OPF_SIMPLE) continue;
    for (unsigned rep = 0; rep < (th ? 6u : 2u); rep++) {
      int nx = (oi + 1) % N_CAT_OPS;
      while (OPS[nx].flags & OPF_SIMPLE) nx = (nx + 1) % N_CAT_OPS;
      const char* names[3] = {OPS[oi].name, OPS[oi].name, OPS[nx].name};
      const uint64_t N = rep < 2 ? 64 : (rep & 1 ? 1024 : 16);
      ops_steady_case(OPS[oi].name, names, 2 + (int)(rep & 1), N, DISP_NATIVE, 100, 400, 0, (int)((rep >> 1) & 1), rep, "steady_concurrent_calls");
    }
  }
  for (unsigned rep = 0; rep < (th ? 26u : 2u); rep++)
    for (size_t ni = 0; ni < N_ALL_N; ni++) first_use_case(ALL_N[ni], rep & 1 ? 8 : 4, (rep % 3) == 2 || (!th && rep == 1 && (ni & 1)) ? DISP_GENERIC : DISP_NATIVE, rep);
}
