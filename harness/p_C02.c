// C02 — vector-matrix product (VMP) equals the naive polynomial product for all shapes.
// Oracle: exact negacyclic product per (row, column), summed in 128-bit integers.
#include <pthread.h>
#include "lib.h"
#include "ops.h"
#include "oracle.h"

static long double pair_E(uint64_t N, const int64_t* a, const int64_t* b) {
  long double a1 = 0, a2 = 0, b1 = 0, b2 = 0;
  for (uint64_t i = 0; i < N; i++) {
    long double x = fabsl((long double)a[i]), y = fabsl((long double)b[i]);
    a1 += x;
    a2 += x * x;
    b1 += y;
    b2 += y * y;
  }
  return 8.0L * (long double)ilog2(N) * 0x1p-53L * (a1 * sqrtl(b2) + sqrtl(a2) * b1);
}

// operand magnitude classes: 0 = small (exact regime), 1 = budget boundary (sum of |a_i|_1 |M_ij|_inf close to 2^52)
static void one_case(uint64_t N, uint64_t nrows, uint64_t ncols, uint64_t a_size, uint64_t res_size, unsigned aslc,
                     int native, int magn, unsigned rep) {
  const uint64_t row_max = nrows < a_size ? nrows : a_size;
  const uint64_t col_max = ncols < res_size ? ncols : res_size;
  char key[160];
  snprintf(key, sizeof key, "vmp_apply_dft|%s,%s,%s,%s%s%s", N < 8 ? "N<8" : "N>=8",
           res_size == 0 ? "res_size=0" : (res_size < ncols ? ((col_max & 1) ? "res<ncols,odd" : "res<ncols,even") : (res_size == ncols ? ((ncols & 1) ? "res=ncols,odd" : "res=ncols,even") : "res>ncols")),
           a_size == 0 ? "a_size=0" : (a_size < nrows ? "a<nrows" : (a_size == nrows ? "a=nrows" : "a>nrows")),
           magn ? "boundary" : "small", native == DISP_NATIVE ? "" : ",", native == DISP_NATIVE ? "" : disp_name[native & 3]);
  if (!case_begin(key, "N=%" PRIu64 " nrows=%" PRIu64 " ncols=%" PRIu64 " a_size=%" PRIu64 " res_size=%" PRIu64 " asl=%u disp=%s magn=%d rep=%u", N, nrows, ncols, a_size, res_size, aslc, disp_name[native & 3], magn, rep))
    return;
  rng_t* r = crng();
  const MODULE* mod = get_module(N, FFT64, native);
  gbuf_t gm, gp, gt, gt2, gt3, gd, gd2, gad, gb1, gb2;
  int64_t* mat = gb_alloc(&gm, nrows * ncols * N * 8, 8, 8 * (rep % 8), 4096);
  VMP_PMAT* pmat = gb_alloc(&gp, bytes_of_vmp_pmat(mod, nrows, ncols), 8, 8 * ((rep + 1) % 8), 4096);
  uint8_t* tprep = gb_alloc(&gt, vmp_prepare_contiguous_tmp_bytes(mod, nrows, ncols), 8, 8 * ((rep + 2) % 8), 4096);
  const uint64_t tb1 = vmp_apply_dft_tmp_bytes(mod, res_size, a_size, nrows, ncols);
  const uint64_t tb2 = vmp_apply_dft_to_dft_tmp_bytes(mod, res_size, a_size, nrows, ncols);
  uint8_t* tapp = gb_alloc(&gt2, tb1, 8, 8 * ((rep + 3) % 8), 4096);
  uint8_t* tapp2 = gb_alloc(&gt3, tb2, 8, 8 * ((rep + 4) % 8), 4096);
  VEC_ZNX_DFT* rd = gb_alloc(&gd, bytes_of_vec_znx_dft(mod, res_size), 8, 8 * ((rep + 5) % 8), 4096);
  VEC_ZNX_DFT* rd2 = gb_alloc(&gd2, bytes_of_vec_znx_dft(mod, res_size), 8, 8 * ((rep + 6) % 8), 4096);
  VEC_ZNX_DFT* ad = gb_alloc(&gad, bytes_of_vec_znx_dft(mod, a_size), 8, 8 * ((rep + 7) % 8), 4096);
  VEC_ZNX_BIG* big1 = gb_alloc(&gb1, bytes_of_vec_znx_big(mod, res_size), 8, 0, 4096);
  VEC_ZNX_BIG* big2 = gb_alloc(&gb2, bytes_of_vec_znx_big(mod, res_size), 8, 8, 4096);
  zvec_t A;
  zvec_alloc(&A, N, a_size, N + aslc, 8 * ((rep + 2) % 8));
  // scratch and outputs pre-filled with NaN patterns: any dependence on them shows in the value
  gb_prefill(&gt, 2, 0);
  gb_prefill(&gt2, 2, 0);
  gb_prefill(&gt3, 2, 0);
  gb_prefill(&gp, 2, 0);
  gb_prefill(&gd, 2 + (int)(rep & 1), 7);
  gb_prefill(&gd2, 2, 0);
  gb_prefill(&gb1, 1, 0);
  gb_prefill(&gb2, 1, 0);
  // operands
  int64_t amax, mmax;
  if (!magn) {
    amax = (int64_t)rng_range(r, 1, 1 << 10);
    mmax = (int64_t)rng_range(r, 1, 1 << 6);
  } else {
    // rows * N * amax * mmax just below 2^52
    unsigned lg = ilog2(N) + ilog2(nrows ? nrows : 1) + 1;
    unsigned tot = 51 - lg;
    unsigned ba = (unsigned)rng_range(r, 1, tot - 1);
    amax = ((int64_t)1 << ba) - 1;
    mmax = ((int64_t)1 << (tot - ba)) - 1;
  }
  for (uint64_t i = 0; i < nrows * ncols * N; i++) mat[i] = magn ? ((rng_u64(r) & 1) ? mmax : -mmax) : rng_range(r, -mmax, mmax);
  // sparse matrices: some entries are exactly the zero polynomial (the prepared matrix buffer is dirty: NaN pattern)
  if (rep % 3 == 1 || (rep == 0 && (nrows + ncols + a_size) % 3 == 0))
    for (uint64_t e = 0; e < nrows * ncols; e++)
      if ((rng_u64(r) & 3) < 2) {
        memset(mat + e * N, 0, N * 8);
        cnt("zero_polynomial_matrix_entries", 1);
      }
  for (uint64_t l = 0; l < a_size; l++)
    for (uint64_t i = 0; i < N; i++) zvec_limb(&A, l)[i] = magn ? ((rng_u64(r) & 1) ? amax : -amax) : rng_range(r, -amax, amax);
  // "scaled" limbs: every coefficient of some input limbs is a non-zero multiple of 2^32 (32-bit data lifted to 64 bits);
  // only where the row sum stays inside the 2^52 budget
  if (!magn && ((rep + nrows + a_size) % 3 == 1) && N * (nrows ? nrows : 1) * (uint64_t)mmax <= (1u << 17)) {
    for (uint64_t l = 0; l < a_size; l++)
      if (l == 0 || (rng_u64(r) & 1))
        for (uint64_t i = 0; i < N; i++) zvec_limb(&A, l)[i] = (int64_t)((rng_u64(r) & 1) ? 1 : -1) * (int64_t)(1 + (rng_u64(r) & 1)) * ((int64_t)1 << 32);
    cnt("scaled_input_limbs_cases", 1);
  }
  // output columns of very different magnitude: column 0 tiny, column 1 with every term of its top coefficient aligned (all entries
  // +mmax, all inputs +amax: coefficient N-1 of the product is rows * N * amax * mmax, just below the budget) - a decision taken from
  // the first column or the first limb must not be applied to the others
  if (magn && ncols >= 2 && (rng_u64(r) & 1)) {
    const int beyond = (int)(rng_u64(r) & 1);
    for (uint64_t row = 0; row < nrows; row++)
      for (uint64_t i = 0; i < N; i++) {
        mat[(row * ncols + 0) * N + i] = (int64_t)(rng_u64(r) % 3) - 1;
        // (half of these cases go 2^5 beyond the exact regime: coefficients around 2^55, which the conversion to integers must still
        // handle - the comparison below uses the error budget E of the actual operands)
        mat[(row * ncols + 1) * N + i] = beyond && mmax < ((int64_t)1 << 40) ? mmax << 5 : mmax;
      }
    for (uint64_t l = 0; l < a_size; l++)
      for (uint64_t i = 0; i < N; i++) zvec_limb(&A, l)[i] = amax;
    cnt("lopsided_column_magnitude_cases", 1);
  }
  // rep >= 6000: every input row anti-symmetric (a[k] = -a[N-k]: real spectrum), every matrix entry symmetric with M[0] = 0 (imaginary
  // spectrum), dense and large (22-bit by 30-bit): products whose spectra live in one half of the complex plane
  if (rep >= 6000 && N >= 4) {
    for (uint64_t l = 0; l < a_size; l++) {
      int64_t* al = zvec_limb(&A, l);
      for (uint64_t i = 0; i <= N / 2; i++) al[i] = rng_sbits(r, 22);
      al[0] = 0;
      al[N / 2] = 0;
      for (uint64_t i = 1; i < N / 2; i++) al[N - i] = -al[i];
    }
    for (uint64_t e = 0; e < nrows * ncols; e++) {
      int64_t* me = mat + e * N;
      for (uint64_t i = 0; i <= N / 2; i++) me[i] = rng_sbits(r, rep & 1 ? 30 : 12);
      me[0] = 0;
      for (uint64_t i = 1; i < N / 2; i++) me[N - i] = me[i];
    }
    cnt("spectral_symmetry_cases", 1);
  }
  snap_t sm, sa, sp;
  snap_take(&sm, mat, nrows * ncols * N * 8);
  zvec_snap(&sa, &A);
  vmp_prepare_contiguous(mod, pmat, mat, nrows, ncols, tprep);
  if (snap_cmp_free(&sm) >= 0) viol("snapshot", "vmp_prepare_contiguous modified the integer matrix");
  // the prepared matrix is a value of its own: the integer matrix and the preparation scratch are overwritten before it is used
  // (a preparation that keeps pointers into its arguments, or defers work to the first product, reads the noise)
  int64_t* const mat0 = malloc(nrows * ncols * N * 8 + 8);
  memcpy(mat0, mat, nrows * ncols * N * 8);
  fill_pattern((uint8_t*)mat, nrows * ncols * N * 8, 3, case_index() * 7 + 1);
  gb_prefill(&gt, (int)(rep & 3), 4242);
  cnt("prepare_arguments_overwritten_before_use", 1);
  snap_take(&sp, pmat, bytes_of_vmp_pmat(mod, nrows, ncols));
  // entry point 1: from integer coefficients
  vmp_apply_dft(mod, rd, res_size, A.p, a_size, A.sl, pmat, nrows, ncols, tapp);
  // entry point 2: from the DFT of the same vector
  vec_znx_dft(mod, ad, a_size, A.p, a_size, A.sl);
  snap_t sad;
  snap_take(&sad, ad, bytes_of_vec_znx_dft(mod, a_size));
  vmp_apply_dft_to_dft(mod, rd2, res_size, ad, a_size, pmat, nrows, ncols, tapp2);
  if (snap_cmp_free(&sad) >= 0) viol("snapshot", "vmp_apply_dft_to_dft modified its DFT input");
  if (snap_cmp_free(&sp) >= 0) viol("snapshot", "vmp_apply modified the prepared matrix");
  vec_znx_idft_tmp_a(mod, big1, res_size, rd, res_size);
  vec_znx_idft_tmp_a(mod, big2, res_size, rd2, res_size);
  // oracle
  i128* acc = malloc(N * 16);
  i128* prod = malloc(N * 16);
  const int64_t* o1 = (const int64_t*)big1;
  const int64_t* o2 = (const int64_t*)big2;
  uint64_t nbad = 0;
  long double worst_ratio = 0;
  for (uint64_t j = 0; j < res_size; j++) {
    long double E = 0;
    for (uint64_t i = 0; i < N; i++) acc[i] = 0;
    if (j < ncols)
      for (uint64_t row = 0; row < row_max; row++) {
        const int64_t* mij = mat0 + (row * ncols + j) * N;
        negacyclic_exact(N, zvec_limb(&A, row), mij, prod);
        for (uint64_t i = 0; i < N; i++) acc[i] += prod[i];
        E += pair_E(N, zvec_limb(&A, row), mij);
      }
    long double tol = (E + 0.5L) * (1 + 0x1p-40L);
    for (uint64_t i = 0; i < N; i++) {
      long double d1 = fabsl((long double)((i128)o1[j * N + i] - acc[i]));
      long double d2 = fabsl((long double)((i128)o2[j * N + i] - acc[i]));
      if (j >= ncols) {
        if ((o1[j * N + i] != 0 || o2[j * N + i] != 0) && nbad++ < 2) viol("oracle", "column %" PRIu64 " >= ncols=%" PRIu64 " is not zero (coeff %" PRIu64 ": %" PRId64 " / %" PRId64 ")", j, ncols, i, o1[j * N + i], o2[j * N + i]);
        continue;
      }
      if (d1 > tol && nbad++ < 2) viol("oracle", "vmp_apply_dft: column %" PRIu64 " coeff %" PRIu64 ": got %" PRId64 " exact %" PRId64 " (budget %.3Lg) shape nrows=%" PRIu64 " ncols=%" PRIu64 " a=%" PRIu64 " res=%" PRIu64 " N=%" PRIu64, j, i, o1[j * N + i], (int64_t)acc[i], tol, nrows, ncols, a_size, res_size, N);
      if (d2 > tol && nbad++ < 2) viol("oracle", "vmp_apply_dft_to_dft: column %" PRIu64 " coeff %" PRIu64 ": got %" PRId64 " exact %" PRId64 " (budget %.3Lg)", j, i, o2[j * N + i], (int64_t)acc[i], tol);
      if (d1 / (E + 0.5L) > worst_ratio) worst_ratio = d1 / (E + 0.5L);
    }
    if (j >= ncols) cnt("zero_columns_checked", 1);
    else cnt("columns_checked", 1);
    if (E < 0.5L && j < ncols) cnt("exact_regime_columns", 1);
  }
  gauge_max("worst_err_over_budget", (double)worst_ratio);
  long wh, d;
  char msg[200];
  free(mat0);
  if ((d = zvec_snap_cmp_free(&sa, &A)) >= 0) viol("snapshot", "vmp_apply_dft modified input a at byte %ld", d);
  if (zvec_check(&A, msg, sizeof msg)) viol("canary", "a: %s", msg);
  gbuf_t* gs[] = {&gm, &gp, &gt, &gt2, &gt3, &gd, &gd2, &gad, &gb1, &gb2};
  const char* gn[] = {"mat", "pmat", "prepare tmp", "apply_dft tmp", "apply_dft_to_dft tmp", "res", "res2", "a_dft", "big1", "big2"};
  for (size_t g = 0; g < ARRAY_LEN(gs); g++)
    if (gb_check(gs[g], &wh)) viol("canary", "write outside %s (offset %ld; sizes from bytes_of_*/tmp_bytes)", gn[g], wh);
  cnt("shapes_checked", 1);
  cntf("layout:%s", 1, N < 8 ? "column-major(N<8)" : (N == 8 ? "blocked(one block)" : "blocked"));
  cntf("N:%" PRIu64, 1, N);
  sample("res columns=%" PRIu64 " row_max=%" PRIu64 " col_max=%" PRIu64 " worst err/budget=%.3Lg", res_size, row_max, col_max, worst_ratio);
  free(acc);
  free(prod);
  zvec_free(&A);
  for (size_t g = 0; g < ARRAY_LEN(gs); g++) gb_free(gs[g]);
  case_end(row_max >= 1 && col_max >= 1);
}

// several threads prepare and apply their own matrices at the same time through one shared module: every prepared
// matrix and every product must be bit for bit what the same thread's data gives when prepared / applied alone
typedef struct {
  const MODULE* mod;
  uint64_t N, nrows, ncols;
  int64_t *mat, *a;
  uint8_t *pm, *pm_ref, *tp, *ta;
  double *rd, *rd_ref;
  size_t pmb, rdb;
  int iters;
  uint64_t bad_prepare, bad_apply;
  pthread_barrier_t* bar;
} cvmp_t;
static void* cvmp_worker(void* arg) {
  cvmp_t* c = arg;
  pthread_barrier_wait(c->bar);
  for (int it = 0; it < c->iters; it++) {
    memset(c->pm, 0xA5, c->pmb);
    vmp_prepare_contiguous(c->mod, (VMP_PMAT*)c->pm, c->mat, c->nrows, c->ncols, c->tp);
    if (memcmp(c->pm, c->pm_ref, c->pmb)) c->bad_prepare++;
    vmp_apply_dft(c->mod, (VEC_ZNX_DFT*)c->rd, c->ncols, c->a, c->nrows, c->N, (VMP_PMAT*)c->pm_ref, c->nrows, c->ncols, c->ta);
    if (memcmp(c->rd, c->rd_ref, c->rdb)) c->bad_apply++;
  }
  return 0;
}
static void concurrent_case(uint64_t N, int native, int T, unsigned rep) {
  char key[96];
  snprintf(key, sizeof key, "vmp_prepare/apply|%d threads,private matrices%s", T, native ? "" : ",generic");
  if (!case_begin(key, "N=%" PRIu64 " rep=%u", N, rep)) return;
  rng_t* r = crng();
  const MODULE* mod = get_module(N, FFT64, native);
  cvmp_t c[16];
  pthread_t tid[16];
  pthread_barrier_t bar;
  pthread_barrier_init(&bar, 0, (unsigned)T);
  for (int t = 0; t < T; t++) {
    cvmp_t* x = &c[t];
    memset(x, 0, sizeof *x);
    x->mod = mod;
    x->N = N;
    x->nrows = 1 + rng_u64(r) % 3;
    x->ncols = 1 + rng_u64(r) % 3;
    x->bar = &bar;
    x->iters = N <= 64 ? 300 : (N <= 2048 ? 40 : 6);
    x->mat = malloc(x->nrows * x->ncols * N * 8);
    x->a = malloc(x->nrows * N * 8);
    for (uint64_t i = 0; i < x->nrows * x->ncols * N; i++) x->mat[i] = rng_range(r, -50, 50);
    for (uint64_t i = 0; i < x->nrows * N; i++) x->a[i] = rng_range(r, -1000, 1000);
    x->pmb = bytes_of_vmp_pmat(mod, x->nrows, x->ncols);
    x->rdb = bytes_of_vec_znx_dft(mod, x->ncols);
    x->pm = malloc(x->pmb + 64);
    x->pm_ref = malloc(x->pmb + 64);
    x->tp = malloc(vmp_prepare_contiguous_tmp_bytes(mod, x->nrows, x->ncols) + 64);
    x->ta = malloc(vmp_apply_dft_tmp_bytes(mod, x->ncols, x->nrows, x->nrows, x->ncols) + 64);
    x->rd = malloc(x->rdb + 64);
    x->rd_ref = malloc(x->rdb + 64);
    memset(x->pm_ref, 0xA5, x->pmb);
    vmp_prepare_contiguous(mod, (VMP_PMAT*)x->pm_ref, x->mat, x->nrows, x->ncols, x->tp);
    vmp_apply_dft(mod, (VEC_ZNX_DFT*)x->rd_ref, x->ncols, x->a, x->nrows, N, (VMP_PMAT*)x->pm_ref, x->nrows, x->ncols, x->ta);
  }
  for (int t = 0; t < T; t++) pthread_create(&tid[t], 0, cvmp_worker, &c[t]);
  for (int t = 0; t < T; t++) pthread_join(tid[t], 0);
  pthread_barrier_destroy(&bar);
  uint64_t calls = 0;
  for (int t = 0; t < T; t++) {
    if (c[t].bad_prepare) viol("differential", "vmp_prepare_contiguous (%s, N=%" PRIu64 "): %" PRIu64 " of %d prepared matrices differ from the one prepared alone while %d threads prepare their own", native ? "native" : "generic", N, c[t].bad_prepare, c[t].iters, T);
    if (c[t].bad_apply) viol("differential", "vmp_apply_dft (%s, N=%" PRIu64 "): %" PRIu64 " of %d products differ from the product computed alone while %d threads run", native ? "native" : "generic", N, c[t].bad_apply, c[t].iters, T);
    calls += 2 * (uint64_t)c[t].iters;
    free(c[t].mat); free(c[t].a); free(c[t].pm); free(c[t].pm_ref); free(c[t].tp); free(c[t].ta); free(c[t].rd); free(c[t].rd_ref);
  }
  cnt("concurrent_prepare_apply_calls", calls);
  sample("%d threads, %" PRIu64 " prepare/apply calls, all bit-identical to the sequential ones", T, calls);
  case_end(1);
}

void run_C02(void) {
  const int th = G.thorough;
  unsigned ctr = 0;
  // full shape box on small N (both prepared layouts: column-major for N<8, blocked for N>=8)
  static const uint64_t boxN[] = {2, 4, 8, 16, 32, 64};
  for (size_t ni = 0; ni < ARRAY_LEN(boxN); ni++)
    for (uint64_t nrows = 1; nrows <= 5; nrows++)
      for (uint64_t ncols = 1; ncols <= 5; ncols++)
        for (uint64_t as = 0; as <= 6; as++)
          for (uint64_t rs = 0; rs <= 6; rs++) {
            ctr++;
            uint64_t h = mix64(ctr);
            for (int native = 1; native >= 0; native--) {
              // quick: every shape natively on N in {2,4,8,16}, half of them generically; sampled on 32, 64
              int take = th ? 1 : (boxN[ni] <= 32 ? 1 : ((h >> 1) % 2 == 0));
              if (take) one_case(boxN[ni], nrows, ncols, as, rs, (unsigned)(h >> 8) % 3, native, (int)((h >> 12) % 4 == 0), 0);
            }
          }
  // sampled sub-box on every larger N
  for (size_t ni = 6; ni < N_ALL_N; ni++) {
    const uint64_t N = ALL_N[ni];
    unsigned n = th ? (N <= 1024 ? 3000 : (N <= 8192 ? 400 : 60)) : (N <= 1024 ? 150 : (N <= 8192 ? 30 : 6));
    for (unsigned t = 0; t < n; t++) {
      uint64_t h = mix64(N * 1000 + t);
      uint64_t lim = N <= 1024 ? 5 : 3;
      one_case(N, 1 + h % lim, 1 + (h >> 4) % lim, (h >> 8) % (lim + 2), (h >> 12) % (lim + 2), (unsigned)(h >> 16) % 3, (int)((h >> 20) & 1), (int)((h >> 21) % 3 == 0), t);
    }
  }
  // very tall matrices: row counts around the powers of two where a blocked implementation would change chunk
  // (64, 128, 256, 512), odd and even column counts, a_size below / at / above nrows
  {
    static const uint64_t TALL[] = {63, 64, 65, 127, 128, 129, 130, 255, 256, 257, 300, 513};
    static const uint64_t TC[] = {1, 2, 3, 5, 8};
    static const uint64_t TN[] = {8, 16, 4, 64, 2048};
    unsigned tc = 0;
    for (size_t ni = 0; ni < (th ? 5u : 4u); ni++)
      for (size_t ri = 0; ri < ARRAY_LEN(TALL); ri++)
        for (size_t ci = 0; ci < ARRAY_LEN(TC); ci++)
          for (int native = 1; native >= 0; native--) {
            tc++;
            const uint64_t nrows = TALL[ri], ncols = TC[ci];
            if (!th && TN[ni] >= 64 && (tc % 4)) continue;
            if (!th && !native && (tc % 3)) continue;
            const uint64_t as = (tc % 3 == 0) ? nrows - 3 : ((tc % 3 == 1) ? nrows : nrows + 2);
            one_case(TN[ni], nrows, ncols, as, ncols + (tc & 1), tc % 3, native, 0, 1000 + tc);
          }
  }
  for (size_t ni = 0; ni < N_ALL_N; ni++)
    for (int native = 1; native >= 0; native--)
      for (unsigned rep = 0; rep < (th ? 6u : 1u); rep++) {
        if (!th && ALL_N[ni] > 4096) continue;
        concurrent_case(ALL_N[ni], native, ALL_N[ni] <= 64 ? 8 : 4, rep);
      }
  // the two mixed CPU-feature configurations (avx2 without fma, fma without avx2): the VMP kernels are gated on avx2, the reim4
  // block kernels and the FFT on fma
  {
    static const uint64_t MN[] = {2, 4, 8, 16, 64, 1024};
    unsigned mc = 0;
    for (size_t ni = 0; ni < ARRAY_LEN(MN); ni++)
      for (int cfg = DISP_AVX2_ONLY; cfg <= DISP_FMA_ONLY; cfg++)
        for (uint64_t nrows = 1; nrows <= (MN[ni] <= 64 ? 5u : 3u); nrows++)
          for (uint64_t ncols = 1; ncols <= (MN[ni] <= 64 ? 5u : 2u); ncols++) {
            mc++;
            if (!th && MN[ni] >= 16 && (mc % 3)) continue;
            one_case(MN[ni], nrows, ncols, nrows + (mc % 3) - 1, ncols + ((mc / 3) % 3) - 1, mc % 3, cfg, (int)(mc % 5 == 0), 4000);
          }
  }
  // vectors much longer than the matrix has rows, outputs much longer than it has columns (and the reverse): the sizes that are
  // compared, subtracted and clamped inside the entry points differ by far more than one
  {
    static const uint64_t SH[][4] = {{1, 1, 24, 1}, {1, 1, 1, 24}, {2, 3, 40, 30}, {3, 2, 0, 17}, {5, 1, 33, 2}, {1, 5, 2, 33}, {4, 4, 4, 40}, {4, 4, 40, 4}, {30, 2, 3, 1}, {2, 30, 1, 3}};
    for (size_t q = 0; q < ARRAY_LEN(SH); q++)
      for (int native = 1; native >= 0; native--)
        for (size_t ni = 0; ni < 3; ni++) {
          static const uint64_t LN[] = {4, 16, 64};
          one_case(LN[ni], SH[q][0], SH[q][1], SH[q][2], SH[q][3], (unsigned)q % 3, native, 0, 5000);
        }
  }
  // operands with symmetric / anti-symmetric coefficient vectors (purely real and purely imaginary spectra), both apply entry points
  {
    static const uint64_t YN[] = {16, 64, 256, 8};
    for (size_t ni = 0; ni < ARRAY_LEN(YN); ni++)
      for (int native = 1; native >= 0; native--)
        for (unsigned q = 0; q < (th ? 12u : 4u); q++) one_case(YN[ni], 1 + q % 3, 1 + (q / 2) % 3, 1 + q % 3, 1 + (q / 2) % 3, q % 3, native, 0, 6000 + q);
  }
  // every row count 1..320 (no value of a size parameter is special to the property; blocked loops have their own ideas)
  for (uint64_t nrows = 1; nrows <= 320; nrows++) {
    const uint64_t N = (nrows & 1) ? 8 : 16, ncols = 1 + nrows % 3;
    for (int native = 1; native >= 0; native--) {
      if (!th && !native && (nrows % 3)) continue;
      one_case(N, nrows, ncols, nrows, ncols, (unsigned)nrows % 3, native, 0, 2000);
    }
  }
  // every column count 1..260 (two rows suffice: a slot computed from (row, column) goes wrong on the second row)
  for (uint64_t ncols = 1; ncols <= 260; ncols++) {
    const uint64_t N = (ncols & 1) ? 8 : 4, nrows = 2 + ncols % 2;
    for (int native = 1; native >= 0; native--) {
      if (!th && !native && (ncols % 3)) continue;
      one_case(N, nrows, ncols, nrows, ncols, (unsigned)ncols % 3, native, 0, 3000);
    }
  }
  // sampled large shapes (nrows up to 40, ncols up to 12)
  {
    unsigned n = th ? 3000 : 120;
    for (unsigned t = 0; t < n; t++) {
      uint64_t h = mix64(0xABCDEF + t);
      uint64_t N = ALL_N[(h >> 40) % (th ? 12 : 10)];  // 2..1024 (quick) / 2..4096 (thorough)
      uint64_t nrows = 6 + h % 35, ncols = 1 + (h >> 6) % 12;
      uint64_t as = (h >> 12) % (nrows + 3), rs = (h >> 20) % (ncols + 3);
      one_case(N, nrows, ncols, as, rs, (unsigned)(h >> 28) % 3, (int)((h >> 30) & 1), 0, t);
    }
  }
  // the entry points of this property called a second time on the SAME buffers holding other data (new values, two limbs exchanged,
  // one word moved between limbs): must equal a fresh call on that data (results or operands remembered by address)
  {
    static const char* const RNAMES[] = {"vmp_prepare_contiguous", "vmp_apply_dft", "vmp_apply_dft_to_dft", "fft64_vmp_apply_dft_ref", "fft64_vmp_apply_dft_avx", "fft64_vmp_apply_dft_to_dft_ref", "fft64_vmp_apply_dft_to_dft_avx", "fft64_vmp_prepare_contiguous_ref", "fft64_vmp_prepare_contiguous_avx"};
    static const uint64_t RN[] = {2, 16, 64, 1024};
    for (size_t i = 0; i < ARRAY_LEN(RN); i++)
      for (int cfg = DISP_NATIVE; cfg >= DISP_GENERIC; cfg--) {
        if (cfg == DISP_GENERIC && (i & 1)) continue;
        ops_recontent_case("C02 entry points", RNAMES, (int)ARRAY_LEN(RNAMES), RN[i], cfg, G.thorough ? 40 : 6, (unsigned)i, "same_buffers_other_data_calls");
      }
    // and from a thread with a small stack, at the largest dimensions
    for (int cfg = DISP_NATIVE; cfg >= DISP_GENERIC; cfg--) {
      ops_small_stack_case("C02 entry points", RNAMES, (int)ARRAY_LEN(RNAMES), 65536, cfg, 256, G.thorough ? 4 : 1, 0, "small_stack_calls");
      ops_small_stack_case("C02 entry points", RNAMES, (int)ARRAY_LEN(RNAMES), 16384, cfg, 256, G.thorough ? 4 : 2, 1, "small_stack_calls");
    }
  }
}
