#include "q120h.h"
#include <pthread.h>

const char* const q120_kernel_name[N_KERNELS] = {"q120_vec_mat1col_product_baa", "q120_vec_mat1col_product_bbb", "q120_vec_mat1col_product_bbc", "q120x2_vec_mat1col_product_bbc", "q120x2_vec_mat2cols_product_bbc", "q120_vec_mat1col_product_bbc(old)", "q120x2_vec_mat2cols_product_bbc(old)"};
// not declared in any header of the library
extern void q120_vec_mat1col_product_bbc_ref_old(q120_mat1col_product_bbc_precomp*, const uint64_t, q120b* const, const q120b* const, const q120c* const);
extern void q120x2_vec_mat2cols_product_bbc_avx2_old(q120_mat1col_product_bbc_precomp*, const uint64_t, q120b* const, const q120b* const, const q120c* const);
const char* const q120_fam_name[QF_N] = {"random", "noncanonical", "allmax", "alternate", "singlemax", "nearmultiple", "word32", "word32max", "mixedwidth", "high32", "pow2", "sparse", "lanesplit"};

static uint64_t near_mult(rng_t* r, uint64_t q, unsigned maxbits) {
  // t*q*2^j - 1 below 2^maxbits
  unsigned j = (unsigned)rng_range(r, 0, maxbits > 31 ? maxbits - 31 : 0);
  u128 lim = ((u128)1 << maxbits) - 1;
  u128 base = (u128)q << j;
  if (base > lim) base = q;
  u128 tmax = lim / base;
  u128 t = 1 + (u128)rng_u64(r) % tmax;
  if (rng_u64(r) & 1) t = tmax;
  return (uint64_t)(t * base - 1);
}

// QF_SPARSE: which elements stay non-zero (the others are cleared after a non-canonical fill). Mode: 0 only the last element,
// 1 only one random element, 2 the first half zero, 3 every 1024-element block zero with probability 1/2 (block 0 always), 4 all zero
static void sparse_mask(rng_t* r, uint64_t n, uint8_t* keep) {
  const unsigned mode = (unsigned)(rng_u64(r) % 5);
  const uint64_t pos = n ? rng_u64(r) % n : 0;
  uint64_t blockbits = rng_u64(r) & ~1ull;
  for (uint64_t i = 0; i < n; i++) {
    switch (mode) {
      case 0: keep[i] = i == n - 1; break;
      case 1: keep[i] = i == pos; break;
      case 2: keep[i] = i >= n / 2; break;
      case 3: keep[i] = (uint8_t)((blockbits >> ((i >> 10) & 63)) & 1); break;
      default: keep[i] = 0;
    }
  }
}
void q120_gen_a(rng_t* r, int fam, uint64_t n, uint64_t* x) {
  if (fam == QF_SPARSE) {
    uint8_t* keep = malloc(n + 1);
    sparse_mask(r, n, keep);
    q120_gen_a(r, QF_ALLMAX, n, x);
    for (uint64_t i = 0; i < n; i++)
      if (!keep[i]) x[4 * i] = x[4 * i + 1] = x[4 * i + 2] = x[4 * i + 3] = 0;
    free(keep);
    return;
  }
  if (fam == QF_POW2) {
    const uint64_t v = 1ull << (rng_u64(r) % 32);
    for (uint64_t i = 0; i < 4 * n; i++) x[i] = v;
    return;
  }
  if (fam == QF_WORD32 || fam == QF_MIXEDWIDTH || fam == QF_HIGH32 || fam == QF_LANESPLIT) fam = QF_NONCANON;  // a-layout words are 32-bit already
  if (fam == QF_WORD32MAX) fam = QF_ALLMAX;
  for (uint64_t i = 0; i < n; i++)
    for (int k = 0; k < 4; k++) {
      uint64_t v;
      switch (fam) {
        case QF_RANDOM: v = rng_u64(r) % Q120[k]; break;
        case QF_NONCANON: v = rng_u64(r) & 0xFFFFFFFFu; break;
        case QF_ALLMAX: v = 0xFFFFFFFFu; break;
        case QF_ALTERNATE: v = (i & 1) ? 0 : 0xFFFFFFFFu; break;
        case QF_SINGLEMAX: v = i == 0 ? 0xFFFFFFFFu : 0; break;
        default: v = near_mult(r, Q120[k], 32); break;
      }
      x[4 * i + k] = v;
    }
}
void q120_gen_b(rng_t* r, int fam, uint64_t n, uint64_t* x) {
  if (fam == QF_SPARSE) {
    uint8_t* keep = malloc(n + 1);
    sparse_mask(r, n, keep);
    q120_gen_b(r, (rng_u64(r) & 1) ? QF_ALLMAX : QF_NONCANON, n, x);
    for (uint64_t i = 0; i < n; i++)
      if (!keep[i]) x[4 * i] = x[4 * i + 1] = x[4 * i + 2] = x[4 * i + 3] = 0;
    free(keep);
    return;
  }
  if (fam == QF_POW2) {
    const uint64_t v = 1ull << (rng_u64(r) % 64);
    for (uint64_t i = 0; i < 4 * n; i++) x[i] = v;
    return;
  }
  const int narrow = (int)(rng_u64(r) & 3);  // QF_LANESPLIT: the lane that stays below 2^32 in every element
  for (uint64_t i = 0; i < n; i++)
    for (int k = 0; k < 4; k++) {
      uint64_t v;
      switch (fam) {
        case QF_RANDOM: v = rng_u64(r) % Q120[k]; break;
        case QF_NONCANON: v = rng_u64(r); break;
        case QF_ALLMAX: v = ~0ull; break;
        case QF_ALTERNATE: v = (i & 1) ? 0 : ~0ull; break;
        case QF_SINGLEMAX: v = i == 0 ? ~0ull : 0; break;
        case QF_WORD32: v = rng_u64(r) & 0xFFFFFFFFu; break;
        case QF_WORD32MAX: v = 0xFFFFFFFFu; break;
        case QF_HIGH32: v = rng_u64(r) << 32; break;
        case QF_LANESPLIT: { v = rng_u64(r); if (k == narrow) v &= 0xFFFFFFFFu; else v |= 1ull << 40; break; }  // which lane is narrow depends on the vector length
        case QF_MIXEDWIDTH: { static const unsigned W[] = {16, 32, 48, 64}; unsigned w = W[mix64(i * 77 + 5) & 3]; v = rng_u64(r) >> (64 - w); if (rng_u64(r) & 1) v |= 1ull << (w - 1); break; }
        default: v = near_mult(r, Q120[k], 64); break;
      }
      x[4 * i + k] = v;
    }
}
// largest 32-bit representative of residue v modulo q
static uint32_t max_rep32(uint64_t v, uint64_t q) {
  v %= q;
  uint64_t t = (0xFFFFFFFFull - v) / q;
  return (uint32_t)(v + t * q);
}
void q120_gen_c(rng_t* r, int fam, uint64_t n, uint32_t* y) {
  if (fam == QF_SPARSE) {
    uint8_t* keep = malloc(n + 1);
    sparse_mask(r, n, keep);
    q120_gen_c(r, QF_NONCANON, n, y);
    for (uint64_t i = 0; i < n; i++)
      if (!keep[i]) memset(y + 8 * i, 0, 32);
    free(keep);
    return;
  }
  if (fam == QF_POW2) {
    const unsigned e = (unsigned)(rng_u64(r) % 64);
    for (uint64_t i = 0; i < n; i++)
      for (int k = 0; k < 4; k++) {
        const uint64_t q = Q120[k];
        const uint64_t v = (uint64_t)(((u128)1 << e) % q);
        // the value 2^e itself when it fits in a word, else its residue; second word: v * 2^32 mod q
        y[8 * i + 2 * k] = e < 32 ? (uint32_t)(1u << e) : (uint32_t)v;
        y[8 * i + 2 * k + 1] = (uint32_t)(((u128)v << 32) % q);
      }
    return;
  }
  if (fam == QF_WORD32 || fam == QF_MIXEDWIDTH || fam == QF_HIGH32 || fam == QF_LANESPLIT) fam = QF_NONCANON;
  if (fam == QF_WORD32MAX) fam = QF_ALLMAX;
  for (uint64_t i = 0; i < n; i++)
    for (int k = 0; k < 4; k++) {
      const uint64_t q = Q120[k];
      uint32_t w0, w1;
      uint64_t v;
      switch (fam) {
        case QF_RANDOM:
          v = rng_u64(r) % q;
          w0 = (uint32_t)v;
          w1 = (uint32_t)(((u128)v << 32) % q);
          break;
        case QF_NONCANON: {
          v = rng_u64(r) % q;
          uint64_t v1 = (uint64_t)(((u128)v << 32) % q);
          uint64_t t0 = rng_u64(r) % ((0xFFFFFFFFull - v) / q + 1), t1 = rng_u64(r) % ((0xFFFFFFFFull - v1) / q + 1);
          w0 = (uint32_t)(v + t0 * q);
          w1 = (uint32_t)(v1 + t1 * q);
          break;
        }
        case QF_ALLMAX:
        case QF_ALTERNATE:
        case QF_SINGLEMAX:
          if ((fam == QF_ALTERNATE && (i & 1)) || (fam == QF_SINGLEMAX && i != 0)) {
            w0 = w1 = 0;
          } else {
            w0 = 0xFFFFFFFFu;
            w1 = max_rep32((uint64_t)(((u128)(0xFFFFFFFFull % q) << 32) % q), q);
          }
          break;
        default: {
          uint64_t nm = near_mult(r, q, 32);
          w0 = (uint32_t)nm;
          w1 = max_rep32((uint64_t)(((u128)(nm % q) << 32) % q), q);
        }
      }
      y[8 * i + 2 * k] = w0;
      y[8 * i + 2 * k + 1] = w1;
    }
}

static q120_mat1col_product_baa_precomp* P_baa;
static q120_mat1col_product_bbb_precomp* P_bbb;
static q120_mat1col_product_bbc_precomp* P_bbc;

uint64_t q120_product_check(q120_kernel_t k0, int avx2, uint64_t ell, int famx, int famy, rng_t* r, unsigned mis) {
  if (!q120_kernel_has(k0, avx2)) avx2 = !avx2;
  // shape (layouts, outputs) of the historical kernels is the one of their successors
  const q120_kernel_t k = k0 == K_BBC_OLD ? K_BBC : (k0 == K_X2_2COLS_OLD ? K_X2_2COLS : k0);
  // fresh precomputations for every call, created in one of the six possible orders: a table must not depend on
  // which other tables were built before it
  {
    static const int ORD[6][3] = {{0, 1, 2}, {0, 2, 1}, {1, 0, 2}, {1, 2, 0}, {2, 0, 1}, {2, 1, 0}};
    const int* o = ORD[rng_u64(r) % 6];
    if (P_baa) {
      q120_delete_vec_mat1col_product_baa_precomp(P_baa);
      q120_delete_vec_mat1col_product_bbb_precomp(P_bbb);
      q120_delete_vec_mat1col_product_bbc_precomp(P_bbc);
    }
    for (int i = 0; i < 3; i++) {
      if (o[i] == 0) P_baa = q120_new_vec_mat1col_product_baa_precomp();
      else if (o[i] == 1) P_bbb = q120_new_vec_mat1col_product_bbb_precomp();
      else P_bbc = q120_new_vec_mat1col_product_bbc_precomp();
    }
    cntf("precomp_creation_order:%d%d%d", 1, o[0], o[1], o[2]);
  }
  // element sizes in bytes
  const size_t xs = (k == K_X2_1COL || k == K_X2_2COLS) ? 64 : 32;
  const size_t ys = (k == K_BBC) ? 32 : (k == K_X2_1COL ? 64 : (k == K_X2_2COLS ? 128 : 32));
  const size_t nres = (k == K_X2_1COL) ? 2 : (k == K_X2_2COLS ? 4 : 1);  // q120b outputs
  gbuf_t gx, gy, gr;
  uint64_t* x = gb_alloc(&gx, ell * xs, 8, 8 * (mis % 8), 4096);
  void* y = gb_alloc(&gy, ell * ys, 8, 8 * ((mis + 3) % 8), 4096);
  // squares: for the kernels whose operands share a layout, one call in five passes the very same vector twice
  const int same = (k == K_BAA || k == K_BBB) && (mis % 5) == 4;
  uint64_t* res = gb_alloc(&gr, nres * 32, 8, 8 * ((mis + 5) % 8), 4096);
  gb_prefill(&gr, (int)mis, 3);
  const uint64_t nx = ell * (xs / 32);  // number of q120 elements in x
  if (k == K_BAA) q120_gen_a(r, famx, nx, x);
  else q120_gen_b(r, famx, nx, x);
  const uint64_t ny = ell * (ys / 32);
  if (k == K_BAA) q120_gen_a(r, famy, ny, (uint64_t*)y);
  else if (k == K_BBB) q120_gen_b(r, famy, ny, (uint64_t*)y);
  else q120_gen_c(r, famy, ny, (uint32_t*)y);
  if (same) {
    y = x;
    cnt("product_with_both_operands_the_same_vector", 1);
  }
  snap_t sx, sy;
  snap_take(&sx, x, ell * xs);
  snap_take(&sy, y, ell * ys);
  if (k0 == K_BBC_OLD) q120_vec_mat1col_product_bbc_ref_old(P_bbc, ell, (q120b*)res, (q120b*)x, (q120c*)y);
  else if (k0 == K_X2_2COLS_OLD) q120x2_vec_mat2cols_product_bbc_avx2_old(P_bbc, ell, (q120b*)res, (q120b*)x, (q120c*)y);
  else switch (k) {
    case K_BAA: (avx2 ? q120_vec_mat1col_product_baa_avx2 : q120_vec_mat1col_product_baa_ref)(P_baa, ell, (q120b*)res, (q120a*)x, (q120a*)y); break;
    case K_BBB: (avx2 ? q120_vec_mat1col_product_bbb_avx2 : q120_vec_mat1col_product_bbb_ref)(P_bbb, ell, (q120b*)res, (q120b*)x, (q120b*)y); break;
    case K_BBC: (avx2 ? q120_vec_mat1col_product_bbc_avx2 : q120_vec_mat1col_product_bbc_ref)(P_bbc, ell, (q120b*)res, (q120b*)x, (q120c*)y); break;
    case K_X2_1COL: (avx2 ? q120x2_vec_mat1col_product_bbc_avx2 : q120x2_vec_mat1col_product_bbc_ref)(P_bbc, ell, (q120b*)res, (q120b*)x, (q120c*)y); break;
    default: (avx2 ? q120x2_vec_mat2cols_product_bbc_avx2 : q120x2_vec_mat2cols_product_bbc_ref)(P_bbc, ell, (q120b*)res, (q120b*)x, (q120c*)y); break;
  }
  // oracle
  uint64_t lanes = 0;
  for (size_t o = 0; o < nres; o++) {
    // which x element / y element of each term feed output o
    size_t xsel = 0, ysel = 0, xper = xs / 32, yper = ys / 32;
    if (k == K_X2_1COL) { xsel = o; ysel = o; }
    if (k == K_X2_2COLS) { xsel = o & 1; ysel = o; }
    for (int p = 0; p < 4; p++) {
      const uint64_t q = Q120[p];
      uint64_t acc = 0;
      for (uint64_t i = 0; i < ell; i++) {
        uint64_t xv = x[4 * (i * xper + xsel) + p] % q;
        uint64_t yv;
        if (k == K_BAA || k == K_BBB) yv = ((uint64_t*)y)[4 * (i * yper + ysel) + p] % q;
        else yv = ((uint32_t*)y)[8 * (i * yper + ysel) + 2 * p] % q;
        acc = (acc + mulmod(xv, yv, q)) % q;
      }
      uint64_t got = res[4 * o + p];
      if (got % q != acc)
        viol("oracle", "%s_%s ell=%" PRIu64 " output %zu prime %d: lane %" PRIu64 " = %" PRIu64 " mod q, exact %" PRIu64 " (x=%s y=%s)", q120_kernel_name[k0], avx2 ? "avx2" : "ref", ell, o, p, got, got % q, acc, q120_fam_name[famx], q120_fam_name[famy]);
      lanes++;
    }
  }
  if (snap_cmp_free(&sx) >= 0 || snap_cmp_free(&sy) >= 0) viol("snapshot", "%s_%s modified an operand", q120_kernel_name[k0], avx2 ? "avx2" : "ref");
  long wh;
  if (gb_check(&gx, &wh) || gb_check(&gy, &wh) || gb_check(&gr, &wh)) viol("canary", "%s_%s wrote outside a buffer (%ld)", q120_kernel_name[k0], avx2 ? "avx2" : "ref", wh);
  gb_free(&gx);
  gb_free(&gy);
  gb_free(&gr);
  return lanes;
}

// tables built while other threads build theirs must be the same tables: worst-case transforms run with them have to
// be congruent to the ones run with the sequentially built tables
typedef struct {
  uint64_t n;
  q120_ntt_precomp *f, *i;
  pthread_barrier_t* bar;
} cbuild_t;
static void* cbuild_worker(void* arg) {
  cbuild_t* c = arg;
  pthread_barrier_wait(c->bar);
  c->f = q120_new_ntt_bb_precomp(c->n);
  c->i = q120_new_intt_bb_precomp(c->n);
  return 0;
}
uint64_t q120_concurrent_build_check(int T, rng_t* r, q120_ntt_precomp* const* seq_ntt, q120_ntt_precomp* const* seq_intt) {
  cbuild_t c[16];
  pthread_t tid[16];
  pthread_barrier_t bar;
  pthread_barrier_init(&bar, 0, (unsigned)T);
  for (int t = 0; t < T; t++) {
    c[t].n = 1ull << (1 + rng_u64(r) % 14);
    c[t].bar = &bar;
    pthread_create(&tid[t], 0, cbuild_worker, &c[t]);
  }
  for (int t = 0; t < T; t++) pthread_join(tid[t], 0);
  pthread_barrier_destroy(&bar);
  uint64_t lanes = 0;
  for (int t = 0; t < T; t++) {
    const uint64_t n = c[t].n;
    const unsigned lg = ilog2(n);
    uint64_t* x = malloc(n * 32);
    uint64_t* y = malloc(n * 32);
    for (int inv = 0; inv < 2; inv++) {
      q120_gen_b(r, (t + inv) & 1 ? QF_ALLMAX : QF_NONCANON, n, x);
      memcpy(y, x, n * 32);
      if (inv) {
        q120_intt_bb_avx2(seq_intt[lg], (q120b*)x);
        q120_intt_bb_avx2(c[t].i, (q120b*)y);
      } else {
        q120_ntt_bb_avx2(seq_ntt[lg], (q120b*)x);
        q120_ntt_bb_avx2(c[t].f, (q120b*)y);
      }
      for (uint64_t i = 0; i < 4 * n; i++)
        if (x[i] % Q120[i & 3] != y[i] % Q120[i & 3]) {
          viol("differential", "%s with a table built while %d threads were building tables: n=%" PRIu64 " lane %" PRIu64 " prime %d not congruent to the result with the table built alone", inv ? "intt" : "ntt", T, n, i / 4, (int)(i & 3));
          break;
        }
      lanes += 4 * n;
    }
    free(x);
    free(y);
    q120_del_ntt_bb_precomp(c[t].f);
    q120_del_intt_bb_precomp(c[t].i);
  }
  return lanes;
}

// every product kernel called by T threads at once on private operands (shared read-only precomputations): each thread
// checks its own results against the exact sum of products. Returns the number of wrong results (reported by the caller).
typedef struct {
  uint64_t seed;
  int iters;
  uint64_t wrong, calls;
  int first_bad_kernel, first_bad_avx2;
  q120_mat1col_product_baa_precomp* baa;
  q120_mat1col_product_bbb_precomp* bbb;
  q120_mat1col_product_bbc_precomp* bbc;
  pthread_barrier_t* bar;
} ckern_t;
static void* ckern_worker(void* arg) {
  ckern_t* c = arg;
  rng_t r;
  rng_seed(&r, c->seed, 1234);
  enum { MAXELL = 48 };
  uint64_t* x = malloc(MAXELL * 64);
  uint64_t* y = malloc(MAXELL * 128);
  uint64_t res[16];
  pthread_barrier_wait(c->bar);
  for (int it = 0; it < c->iters; it++) {
    const int k0 = it % N_KERNELS;
    int avx2 = (it / N_KERNELS) & 1;
    if (!q120_kernel_has((q120_kernel_t)k0, avx2)) avx2 = !avx2;
    const q120_kernel_t k = k0 == K_BBC_OLD ? K_BBC : (k0 == K_X2_2COLS_OLD ? K_X2_2COLS : (q120_kernel_t)k0);
    const uint64_t ell = 1 + rng_u64(&r) % MAXELL;
    const size_t xper = (k == K_X2_1COL || k == K_X2_2COLS) ? 2 : 1;
    const size_t yper = (k == K_X2_1COL) ? 2 : (k == K_X2_2COLS ? 4 : 1);
    const size_t nres = (k == K_X2_1COL) ? 2 : (k == K_X2_2COLS ? 4 : 1);
    if (k == K_BAA) { q120_gen_a(&r, QF_NONCANON, ell * xper, x); q120_gen_a(&r, QF_NONCANON, ell * yper, y); }
    else if (k == K_BBB) { q120_gen_b(&r, QF_NONCANON, ell * xper, x); q120_gen_b(&r, QF_NONCANON, ell * yper, y); }
    else { q120_gen_b(&r, QF_NONCANON, ell * xper, x); q120_gen_c(&r, QF_NONCANON, ell * yper, (uint32_t*)y); }
    if (k0 == K_BBC_OLD) q120_vec_mat1col_product_bbc_ref_old(c->bbc, ell, (q120b*)res, (q120b*)x, (q120c*)y);
    else if (k0 == K_X2_2COLS_OLD) q120x2_vec_mat2cols_product_bbc_avx2_old(c->bbc, ell, (q120b*)res, (q120b*)x, (q120c*)y);
    else switch (k) {
      case K_BAA: (avx2 ? q120_vec_mat1col_product_baa_avx2 : q120_vec_mat1col_product_baa_ref)(c->baa, ell, (q120b*)res, (q120a*)x, (q120a*)y); break;
      case K_BBB: (avx2 ? q120_vec_mat1col_product_bbb_avx2 : q120_vec_mat1col_product_bbb_ref)(c->bbb, ell, (q120b*)res, (q120b*)x, (q120b*)y); break;
      case K_BBC: (avx2 ? q120_vec_mat1col_product_bbc_avx2 : q120_vec_mat1col_product_bbc_ref)(c->bbc, ell, (q120b*)res, (q120b*)x, (q120c*)y); break;
      case K_X2_1COL: (avx2 ? q120x2_vec_mat1col_product_bbc_avx2 : q120x2_vec_mat1col_product_bbc_ref)(c->bbc, ell, (q120b*)res, (q120b*)x, (q120c*)y); break;
      default: (avx2 ? q120x2_vec_mat2cols_product_bbc_avx2 : q120x2_vec_mat2cols_product_bbc_ref)(c->bbc, ell, (q120b*)res, (q120b*)x, (q120c*)y); break;
    }
    c->calls++;
    int bad = 0;
    for (size_t o = 0; o < nres && !bad; o++) {
      size_t xsel = 0, ysel = 0;
      if (k == K_X2_1COL) { xsel = o; ysel = o; }
      if (k == K_X2_2COLS) { xsel = o & 1; ysel = o; }
      for (int p = 0; p < 4; p++) {
        const uint64_t q = Q120[p];
        uint64_t acc = 0;
        for (uint64_t i = 0; i < ell; i++) {
          uint64_t xv = x[4 * (i * xper + xsel) + p] % q;
          uint64_t yv = (k == K_BAA || k == K_BBB) ? y[4 * (i * yper + ysel) + p] % q : ((uint32_t*)y)[8 * (i * yper + ysel) + 2 * p] % q;
          acc = (acc + mulmod(xv, yv, q)) % q;
        }
        if (res[4 * o + p] % q != acc) bad = 1;
      }
    }
    if (bad) {
      if (!c->wrong) { c->first_bad_kernel = k0; c->first_bad_avx2 = avx2; }
      c->wrong++;
    }
  }
  free(x);
  free(y);
  return 0;
}
uint64_t q120_concurrent_kernel_check(int T, rng_t* r, int iters, uint64_t* calls) {
  ckern_t c[16];
  pthread_t tid[16];
  pthread_barrier_t bar;
  pthread_barrier_init(&bar, 0, (unsigned)T);
  q120_mat1col_product_baa_precomp* baa = q120_new_vec_mat1col_product_baa_precomp();
  q120_mat1col_product_bbb_precomp* bbb = q120_new_vec_mat1col_product_bbb_precomp();
  q120_mat1col_product_bbc_precomp* bbc = q120_new_vec_mat1col_product_bbc_precomp();
  for (int t = 0; t < T; t++) {
    memset(&c[t], 0, sizeof c[t]);
    c[t].seed = rng_u64(r);
    c[t].iters = iters;
    c[t].baa = baa; c[t].bbb = bbb; c[t].bbc = bbc;
    c[t].bar = &bar;
    pthread_create(&tid[t], 0, ckern_worker, &c[t]);
  }
  uint64_t wrong = 0;
  *calls = 0;
  for (int t = 0; t < T; t++) {
    pthread_join(tid[t], 0);
    *calls += c[t].calls;
    if (c[t].wrong) viol("oracle", "%s_%s: %" PRIu64 " of %" PRIu64 " results of thread %d not congruent to the exact sum of products while %d threads call the product kernels on private operands", q120_kernel_name[c[t].first_bad_kernel], c[t].first_bad_avx2 ? "avx2" : "ref", c[t].wrong, c[t].calls, t, T);
    wrong += c[t].wrong;
  }
  pthread_barrier_destroy(&bar);
  q120_delete_vec_mat1col_product_baa_precomp(baa);
  q120_delete_vec_mat1col_product_bbb_precomp(bbb);
  q120_delete_vec_mat1col_product_bbc_precomp(bbc);
  return wrong;
}

// every length ell0..ell1 of kernel k: the reference and the AVX2 flavour (for the two historical kernels: the kernel and
// its successor) on the same operands (prefixes of one generated vector) must be congruent modulo each prime. Cheap (no
// per-term oracle), so the quick tier can afford every length; the exact oracle covers every length in the thorough tier.
uint64_t q120_pairwise_ell_check(q120_kernel_t k0, uint64_t ell0, uint64_t ell1, int famx, int famy, rng_t* r) {
  const q120_kernel_t k = k0 == K_BBC_OLD ? K_BBC : (k0 == K_X2_2COLS_OLD ? K_X2_2COLS : k0);
  const size_t xper = (k == K_X2_1COL || k == K_X2_2COLS) ? 2 : 1;
  const size_t yper = (k == K_X2_1COL) ? 2 : (k == K_X2_2COLS ? 4 : 1);
  const size_t nres = (k == K_X2_1COL) ? 2 : (k == K_X2_2COLS ? 4 : 1);
  gbuf_t gx, gy;
  uint64_t* x = gb_alloc(&gx, ell1 * xper * 32, 8, 8, 4096);
  uint64_t* y = gb_alloc(&gy, ell1 * yper * 32, 8, 16, 4096);
  if (k == K_BAA) { q120_gen_a(r, famx, ell1 * xper, x); q120_gen_a(r, famy, ell1 * yper, y); }
  else if (k == K_BBB) { q120_gen_b(r, famx, ell1 * xper, x); q120_gen_b(r, famy, ell1 * yper, y); }
  else { q120_gen_b(r, famx, ell1 * xper, x); q120_gen_c(r, famy, ell1 * yper, (uint32_t*)y); }
  q120_mat1col_product_baa_precomp* baa = q120_new_vec_mat1col_product_baa_precomp();
  q120_mat1col_product_bbb_precomp* bbb = q120_new_vec_mat1col_product_bbb_precomp();
  q120_mat1col_product_bbc_precomp* bbc = q120_new_vec_mat1col_product_bbc_precomp();
  uint64_t n = 0, bad = 0;
  for (uint64_t ell = ell0; ell <= ell1; ell++, n++) {
    uint64_t ra[16], rb[16];
    memset(ra, 0x11, sizeof ra);
    memset(rb, 0x22, sizeof rb);
    switch (k0) {
      case K_BAA: q120_vec_mat1col_product_baa_ref(baa, ell, (q120b*)ra, (q120a*)x, (q120a*)y); q120_vec_mat1col_product_baa_avx2(baa, ell, (q120b*)rb, (q120a*)x, (q120a*)y); break;
      case K_BBB: q120_vec_mat1col_product_bbb_ref(bbb, ell, (q120b*)ra, (q120b*)x, (q120b*)y); q120_vec_mat1col_product_bbb_avx2(bbb, ell, (q120b*)rb, (q120b*)x, (q120b*)y); break;
      case K_BBC: q120_vec_mat1col_product_bbc_ref(bbc, ell, (q120b*)ra, (q120b*)x, (q120c*)y); q120_vec_mat1col_product_bbc_avx2(bbc, ell, (q120b*)rb, (q120b*)x, (q120c*)y); break;
      case K_X2_1COL: q120x2_vec_mat1col_product_bbc_ref(bbc, ell, (q120b*)ra, (q120b*)x, (q120c*)y); q120x2_vec_mat1col_product_bbc_avx2(bbc, ell, (q120b*)rb, (q120b*)x, (q120c*)y); break;
      case K_X2_2COLS: q120x2_vec_mat2cols_product_bbc_ref(bbc, ell, (q120b*)ra, (q120b*)x, (q120c*)y); q120x2_vec_mat2cols_product_bbc_avx2(bbc, ell, (q120b*)rb, (q120b*)x, (q120c*)y); break;
      case K_BBC_OLD: q120_vec_mat1col_product_bbc_ref_old(bbc, ell, (q120b*)ra, (q120b*)x, (q120c*)y); q120_vec_mat1col_product_bbc_ref(bbc, ell, (q120b*)rb, (q120b*)x, (q120c*)y); break;
      default: q120x2_vec_mat2cols_product_bbc_avx2_old(bbc, ell, (q120b*)ra, (q120b*)x, (q120c*)y); q120x2_vec_mat2cols_product_bbc_avx2(bbc, ell, (q120b*)rb, (q120b*)x, (q120c*)y); break;
    }
    for (size_t i = 0; i < 4 * nres; i++)
      if (ra[i] % Q120[i & 3] != rb[i] % Q120[i & 3] && bad++ < 2)
        viol("pair", "%s at ell=%" PRIu64 ": the two implementations are not congruent (output %zu, prime %zu: %" PRIu64 " vs %" PRIu64 "; x=%s y=%s)", q120_kernel_name[k0], ell, i / 4, i & 3, ra[i], rb[i], q120_fam_name[famx], q120_fam_name[famy]);
  }
  q120_delete_vec_mat1col_product_baa_precomp(baa);
  q120_delete_vec_mat1col_product_bbb_precomp(bbb);
  q120_delete_vec_mat1col_product_bbc_precomp(bbc);
  long wh;
  if (gb_check(&gx, &wh) || gb_check(&gy, &wh)) viol("canary", "%s wrote outside an operand (%ld)", q120_kernel_name[k0], wh);
  gb_free(&gx);
  gb_free(&gy);
  return n;
}
