// vp_harness <ID> --tier quick|thorough --seed S --part i/n --log FILE [--skip K] [--only K] [--mode M]
// exit 0 = ran to completion (violations are in the log); 2 = harness failure; anything else is a
// sanitizer / signal death that check.py attributes through the CRASH line.
#include "common.h"

void vp_install_handlers(void);
void vp_set_status_file(const char* path);

typedef void (*runfn)(void);
static const struct {
  const char* id;
  runfn fn;
} table[] = {{"C01", run_C01}, {"C02", run_C02}, {"C03", run_C03}, {"C04", run_C04}, {"C05", run_C05},
             {"C06", run_C06}, {"C07", run_C07}, {"C08", run_C08}, {"C09", run_C09}, {"C10", run_C10},
             {"C11", run_C11}, {"C12", run_C12}, {"C13", run_C13}, {"C14", run_C14}, {"C15", run_C15},
             {"C16", run_C16}, {"C17", run_C17}, {"C18", run_C18}};

int main(int argc, char** argv) {
  if (argc < 2) {
    fprintf(stderr, "usage: vp_harness <ID> [options]\n");
    return 2;
  }
  if (!strcmp(argv[1], "--list-ops")) {
    extern void vp_list_ops(void);
    vp_list_ops();
    return 0;
  }
  G.prop = argv[1];
  G.seed = 1;
  G.part = 0;
  G.nparts = 1;
  G.skip_upto = -1;
  G.only = -1;
  G.mode = "";
  const char* logpath = 0;
  for (int i = 2; i < argc; i++) {
    const char* a = argv[i];
    const char* v = (i + 1 < argc) ? argv[i + 1] : "";
    if (!strcmp(a, "--tier")) {
      G.thorough = !strcmp(v, "thorough");
      i++;
    } else if (!strcmp(a, "--seed")) {
      G.seed = strtoull(v, 0, 10);
      i++;
    } else if (!strcmp(a, "--part")) {
      if (sscanf(v, "%d/%d", &G.part, &G.nparts) != 2 || G.nparts < 1 || G.part < 0 || G.part >= G.nparts) {
        fprintf(stderr, "bad --part\n");
        return 2;
      }
      i++;
    } else if (!strcmp(a, "--log")) {
      logpath = v;
      i++;
    } else if (!strcmp(a, "--skip")) {
      G.skip_upto = strtoll(v, 0, 10);
      i++;
    } else if (!strcmp(a, "--only")) {
      G.only = strtoll(v, 0, 10);
      i++;
    } else if (!strcmp(a, "--mode")) {
      G.mode = v;
      i++;
    } else if (!strcmp(a, "--status")) {
      vp_set_status_file(v);
      i++;
    } else if (!strcmp(a, "--valgrind")) {
      G.valgrind = 1;
    } else {
      fprintf(stderr, "unknown option %s\n", a);
      return 2;
    }
  }
  G.log = logpath ? fopen(logpath, "a") : stdout;
  if (!G.log) {
    perror("log");
    return 2;
  }
  setvbuf(G.log, 0, _IOLBF, 0);
  vp_install_handlers();
  set_dispatch(1);
  for (size_t i = 0; i < ARRAY_LEN(table); i++) {
    if (!strcmp(table[i].id, G.prop)) {
      fprintf(G.log, "START\t%s\ttier=%s\tseed=%" PRIu64 "\tpart=%d/%d\tskip=%" PRId64 "\tmode=%s\n", G.prop,
              G.thorough ? "thorough" : "quick", G.seed, G.part, G.nparts, G.skip_upto, G.mode);
      table[i].fn();
      finish_summary();
      fprintf(G.log, "DONE\n");
      fflush(G.log);
      return 0;
    }
  }
  fprintf(stderr, "unknown property %s\n", G.prop);
  return 2;
}
