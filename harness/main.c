// vp_harness <ID> --tier quick|thorough --seed S --part i/n --log FILE [--skip K] [--only K] [--mode M]
// exit 0 = ran to completion (violations are in the log); 2 = harness failure; anything else is a
// sanitizer / signal death that check.py attributes through the CRASH line.
#include <malloc.h>

#include "common.h"
#include "lib.h"
#include "ops.h"

void vp_install_handlers(void);
void vp_set_status_file(const char* path);

typedef void (*runfn)(void);
static const struct {
  const char* id;
  runfn fn;
} table[] = {{"C01", run_C01}, {"C02", run_C02}, {"C03", run_C03}, {"C04", run_C04}, {"C05", run_C05},
             {"C06", run_C06}, {"C07", run_C07}, {"C08", run_C08}, {"C09", run_C09}, {"C10", run_C10},
             {"C11", run_C11}, {"C12", run_C12}, {"C13", run_C13}, {"C14", run_C14}, {"C15", run_C15},
             {"C16", run_C16}, {"C17", run_C17}, {"C18", run_C18}};

// Every partition of a check is a fresh process. In the odd-numbered ones a *prelude* runs before the property's own
// workload: a handful of legal calls of OTHER entry points, drawn from (seed, partition) - conversion tables with small
// and large bounds, *_simple functions at assorted sizes, product precomputations, an inverse NTT table, fft tables with
// built-in buffers, a module that is deleted again. What the first call of a process was, and which objects existed before,
// must not matter to anything that follows (function-level statics that remember a first decision, lazily filled shared
// tables). Even partitions start cold. A crash inside the prelude is reported like any harness-attributed death.
static void process_prelude(void) {
  if (!(G.part & 1) || !strcmp(G.prop, "C12")) return;  // C12 times its own cold start
  rng_t r;
  rng_seed(&r, G.seed * 0x9E3779B97F4A7C15ull + (uint64_t)G.part, 4242);
  const int steps = 3 + (int)(rng_u64(&r) % 6);
  double* x = calloc(2 * 65536, 8);
  double* y = calloc(2 * 65536, 8);
  int64_t* z = calloc(2 * 65536, 8);
  int32_t* w = calloc(2 * 65536, 4);
  for (int s = 0; s < steps; s++) {
    const uint32_t m = 1u << (rng_u64(&r) % 11);
    switch (rng_u64(&r) % 12) {
      case 0: { static const uint32_t B[] = {12, 30, 40, 50}; reim_to_znx64_simple(m < 8 ? 16 : m, 16.0, B[rng_u64(&r) & 3], z, x); break; }
      case 1: { REIM_TO_ZNX64_PRECOMP* t = new_reim_to_znx64_precomp(m < 8 ? 8 : m, 4.0, 20 + (uint32_t)(rng_u64(&r) % 30)); reim_to_znx64(t, z, x); free(t); break; }
      case 2: reim_from_znx64_simple(m, 10 + (uint32_t)(rng_u64(&r) % 20), x, z); break;
      case 3: { q120_ntt_precomp* t = q120_new_intt_bb_precomp(1ull << (1 + rng_u64(&r) % 8)); q120_del_intt_bb_precomp(t); break; }
      case 4: { void* a = q120_new_vec_mat1col_product_bbc_precomp(); void* b = q120_new_vec_mat1col_product_bbb_precomp(); q120_delete_vec_mat1col_product_bbc_precomp(a); q120_delete_vec_mat1col_product_bbb_precomp(b); break; }
      case 5: reim_ifft_simple(rng_u64(&r) & 1 ? 1 : m, x); break;
      case 6: cplx_ifft_simple(m, x); cplx_fft_simple(rng_u64(&r) & 1 ? 4 : 2 * m, y); cplx_ifft_simple(m, x); break;
      case 7: { CPLX_FFT_PRECOMP* t = new_cplx_fft_precomp(4u << (rng_u64(&r) % 3), 2); memset(cplx_fft_precomp_get_buffer(t, 0), 0x11, 64); free(t); break; }
      case 8: { MODULE* mo = new_module_info(1ull << (2 + rng_u64(&r) % 10), (rng_u64(&r) & 3) ? FFT64 : NTT120); delete_module_info(mo); break; }
      case 9: cplx_to_tnx32_simple(m < 8 ? 8 : m, 2.0, 18 + (uint32_t)(rng_u64(&r) % 10), w, x); break;
      case 10: { REIM_TO_TNX_PRECOMP* t = new_reim_to_tnx_precomp(m < 4 ? 4 : m, 8.0, (uint32_t)(rng_u64(&r) % 40)); reim_to_tnx(t, y, x); free(t); break; }
      default: reim_fftvec_mul_simple(m, y, x, x); reim_fft_simple(m, x); break;
    }
  }
  free(x); free(y); free(z); free(w);
  fprintf(G.log, "S\t-1\tprocess-prelude\tpart=%d\t%d calls of other entry points before the workload\n", G.part, steps);
}

int main(int argc, char** argv) {
  if (argc < 2) {
    fprintf(stderr, "usage: vp_harness <ID> [options]\n");
    return 2;
  }
  if (!strcmp(argv[1], "--list-ops")) {
    extern void vp_list_ops(void);
    vp_list_ops();
    return 0;
  }
  G.prop = argv[1];
  G.seed = 1;
  G.part = 0;
  G.nparts = 1;
  G.skip_upto = -1;
  G.only = -1;
  G.mode = "";
  const char* logpath = 0;
  for (int i = 2; i < argc; i++) {
    const char* a = argv[i];
    const char* v = (i + 1 < argc) ? argv[i + 1] : "";
    if (!strcmp(a, "--tier")) {
      G.thorough = !strcmp(v, "thorough");
      i++;
    } else if (!strcmp(a, "--seed")) {
      G.seed = strtoull(v, 0, 10);
      i++;
    } else if (!strcmp(a, "--part")) {
      if (sscanf(v, "%d/%d", &G.part, &G.nparts) != 2 || G.nparts < 1 || G.part < 0 || G.part >= G.nparts) {
        fprintf(stderr, "bad --part\n");
        return 2;
      }
      i++;
    } else if (!strcmp(a, "--log")) {
      logpath = v;
      i++;
    } else if (!strcmp(a, "--skip")) {
      G.skip_upto = strtoll(v, 0, 10);
      i++;
    } else if (!strcmp(a, "--only")) {
      G.only = strtoll(v, 0, 10);
      i++;
    } else if (!strcmp(a, "--mode")) {
      G.mode = v;
      i++;
    } else if (!strcmp(a, "--status")) {
      vp_set_status_file(v);
      i++;
    } else if (!strcmp(a, "--valgrind")) {
      G.valgrind = 1;
    } else {
      fprintf(stderr, "unknown option %s\n", a);
      return 2;
    }
  }
  G.log = logpath ? fopen(logpath, "a") : stdout;
  if (!G.log) {
    perror("log");
    return 2;
  }
  setvbuf(G.log, 0, _IOLBF, 0);
  vp_install_handlers();
  set_dispatch(1);
  for (size_t i = 0; i < ARRAY_LEN(table); i++) {
    if (!strcmp(table[i].id, G.prop)) {
      fprintf(G.log, "START\t%s\ttier=%s\tseed=%" PRIu64 "\tpart=%d/%d\tskip=%" PRId64 "\tmode=%s\n", G.prop,
              G.thorough ? "thorough" : "quick", G.seed, G.part, G.nparts, G.skip_upto, G.mode);
      if (!strcmp(G.prop, "C15") && !G.valgrind) pristine_start();
#if !VP_ASAN && !VP_TSAN
      // plain builds: glibc hands out recycled heap memory with whatever it held before, and M_PERTURB makes "whatever" a chosen byte
      // (complemented for fresh blocks): a table whose constructor leaves a field unwritten is then full of that byte here, and of
      // the kernel's zeros in the fresh-process reference of C15 (forked just above, before the perturbation is switched on)
      if (!G.valgrind) mallopt(M_PERTURB, 0xA5 ^ (G.part & 0x1F));
#endif
      process_prelude();
      table[i].fn();
      finish_summary();
      fprintf(G.log, "DONE\n");
      fflush(G.log);
      return 0;
    }
  }
  fprintf(stderr, "unknown property %s\n", G.prop);
  return 2;
}
