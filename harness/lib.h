// Access to the library under test: public + private headers, cached modules.
#ifndef VP_LIB_H
#define VP_LIB_H
#include "common.h"
#include "spqlios/arithmetic/vec_znx_arithmetic.h"
#include "spqlios/arithmetic/vec_znx_arithmetic_private.h"
#include "spqlios/coeffs/coeffs_arithmetic.h"
#include "spqlios/cplx/cplx_fft.h"
#include "spqlios/cplx/cplx_fft_internal.h"
#include "spqlios/cplx/cplx_fft_private.h"
#include "spqlios/q120/q120_arithmetic.h"
#include "spqlios/q120/q120_arithmetic_private.h"
#include "spqlios/q120/q120_ntt.h"
#include "spqlios/q120/q120_ntt_private.h"
#include "spqlios/reim/reim_fft.h"
#include "spqlios/reim/reim_fft_internal.h"
#include "spqlios/reim/reim_fft_private.h"
#include "spqlios/reim4/reim4_arithmetic.h"
#include "spqlios/reim4/reim4_fftvec_internal.h"
#include "spqlios/reim4/reim4_fftvec_private.h"
#include "spqlios/reim4/reim4_fftvec_public.h"

// cached module for (N, type, dispatch); created on first use with the requested dispatch
const MODULE* get_module(uint64_t N, MODULE_TYPE type, int native);
void drop_modules(void);

// all ring dimensions 2..65536
static const uint64_t ALL_N[] = {2, 4, 8, 16, 32, 64, 128, 256, 512, 1024, 2048, 4096, 8192, 16384, 32768, 65536};
#define N_ALL_N 16

// common stride choices for a ring dimension n (index 0..3): n, n+1, n+3, 4n
static inline uint64_t stride_choice(uint64_t n, unsigned which) {
  switch (which & 3) {
    case 0: return n;
    case 1: return n + 1;
    case 2: return n + 3;
    default: return 4 * n;
  }
}
#endif
