// C07 — accelerated kernels compute the same function as their reference kernels.
// Monitors: (1) every accelerated catalogue entry is executed on the same arguments as its reference
// twin and the two outputs are compared by the rule of the pair's class (bitwise; congruent modulo each
// prime; correctly rounded integers equal off exact ties; floating point within a norm-wise budget);
// (2) every FFT64 module-level and table-level entry point is executed under native and generic
// dispatch on identical arguments. (Both members of every pair are also compared with the exact
// oracles of C01/C02/C06/C10/C14/C17; those checks run the same kernels.)
#include <pthread.h>

#include "ops.h"
#include "q120h.h"
#include "oracle.h"

typedef enum { CL_BITWISE, CL_MODQ, CL_ROUND_ZNX64, CL_ROUND_TNX32, CL_TORUS, CL_FLOAT, CL_POINTWISE } pclass_t;
static const char* cl_name[] = {"bitwise", "modq", "rounded-int64", "rounded-torus32", "torus-double", "float-budget", "pointwise-product"};

static pclass_t classify(const char* name) {
  if (strstr(name, "q120") && strstr(name, "product")) return CL_MODQ;
  if (strstr(name, "reim_to_znx64")) return CL_ROUND_ZNX64;
  if (strstr(name, "cplx_to_tnx32")) return CL_ROUND_TNX32;
  if (strstr(name, "reim_to_tnx")) return CL_TORUS;
  if (strstr(name, "bitwiddle") || strstr(name, "cplx_fftvec_add_fma") || strstr(name, "cplx_fftvec_sub2_to_fma") || strstr(name, "cplx_fftvec_copy_fma")) return CL_BITWISE;  // same template / one IEEE operation per element
  if (strstr(name, "znx_small_single_product")) return CL_BITWISE;  // small operands: the FFT64 product is exact
  if (strstr(name, "znx_add") || strstr(name, "znx_sub") || strstr(name, "znx_negate") || strstr(name, "vec_znx_") || strstr(name, "extract") || strstr(name, "save") || strstr(name, "from_znx") ||
      strstr(name, "from_tnx32") || strstr(name, "from_cplx") || strstr(name, "to_cplx") || strstr(name, "rnx_divide"))
    return CL_BITWISE;
  // pointwise complex products: every output component is two products and a sum of the corresponding input components
  if ((strstr(name, "fftvec_mul") || strstr(name, "fftvec_addmul")) && !strstr(name, "(r==") && !strstr(name, "twiddle")) return CL_POINTWISE;
  return CL_FLOAT;
}
// component index of element j (part 0 real, 1 imaginary) in the three layouts: 0 reim (split), 1 cplx (interleaved), 2 reim4 (blocks of 4+4)
static size_t comp_idx(int layout, size_t m, size_t j, int part) { return layout == 0 ? j + (part ? m : 0) : (layout == 1 ? 2 * j + (size_t)part : 8 * (j / 4) + (j % 4) + (part ? 4 : 0)); }
static const char* cur_pair_name = "";

// compares captured outputs a (reference) and b (accelerated); returns 0 when equivalent for the class
static int compare(pclass_t cl, const opres_t* ra, const opres_t* rb, char* msg, size_t msglen, double* worst) {
  if (ra->cap_out_bytes != rb->cap_out_bytes) {
    snprintf(msg, msglen, "output sizes differ");
    return 1;
  }
  const size_t nb = ra->cap_out_bytes;
  *worst = 0;
  switch (cl) {
    case CL_BITWISE:
      if (memcmp(ra->cap_out, rb->cap_out, nb)) {
        size_t i = 0;
        while (ra->cap_out[i] == rb->cap_out[i]) i++;
        snprintf(msg, msglen, "outputs differ at byte %zu (8-byte word %zu: %016" PRIx64 " vs %016" PRIx64 ")", i, i / 8, ((uint64_t*)ra->cap_out)[i / 8], ((uint64_t*)rb->cap_out)[i / 8]);
        return 1;
      }
      return 0;
    case CL_MODQ: {
      const uint64_t* x = (const uint64_t*)ra->cap_out;
      const uint64_t* y = (const uint64_t*)rb->cap_out;
      for (size_t i = 0; i < nb / 8; i++)
        if (x[i] % Q120[i & 3] != y[i] % Q120[i & 3]) {
          snprintf(msg, msglen, "lane %zu: %" PRIu64 " and %" PRIu64 " are not congruent modulo prime %zu", i, x[i], y[i], i & 3);
          return 1;
        }
      return 0;
    }
    case CL_ROUND_ZNX64: {
      const int64_t* x = (const int64_t*)ra->cap_out;
      const int64_t* y = (const int64_t*)rb->cap_out;
      const double* in = (const double*)ra->cap_in;
      const double d = ra->d[0];
      for (size_t i = 0; i < nb / 8; i++)
        if (x[i] != y[i]) {
          double q = in[i] / d;  // exact (power-of-two divisor)
          int tie = (q - floor(q)) == 0.5;
          if (tie && llabs(x[i] - y[i]) == 1) continue;  // exact ties may round either way
          snprintf(msg, msglen, "x/d = %.17g: reference %" PRId64 " accelerated %" PRId64, q, x[i], y[i]);
          return 1;
        }
      return 0;
    }
    case CL_ROUND_TNX32: {
      const int32_t* x = (const int32_t*)ra->cap_out;
      const int32_t* y = (const int32_t*)rb->cap_out;
      const double* in = (const double*)ra->cap_in;
      const size_t n = nb / 4, m = n / 2;
      for (size_t i = 0; i < n; i++)
        if (x[i] != y[i]) {
          uint32_t du = (uint32_t)x[i] - (uint32_t)y[i];
          double v = in[i < m ? 2 * i : 2 * (i - m) + 1] / ra->d[0] * 4294967296.0;  // exact scalings
          int tie = (v - floor(v)) == 0.5;
          if (tie && (du == 1 || du == 0xFFFFFFFFu)) continue;  // exact ties may round either way
          snprintf(msg, msglen, "output %zu (x*2^32/d = %.17g): reference %d accelerated %d", i, v, x[i], y[i]);
          return 1;
        }
      return 0;
    }
    case CL_TORUS: {
      const double* x = (const double*)ra->cap_out;
      const double* y = (const double*)rb->cap_out;
      for (size_t i = 0; i < nb / 8; i++) {
        double df = x[i] - y[i];
        df -= rint(df);
        if (!(fabs(df) <= 0x1p-31)) {  // log2overhead 18: each within 2^-32 of the exact torus value
          snprintf(msg, msglen, "output %zu: reference %.17g accelerated %.17g", i, x[i], y[i]);
          return 1;
        }
      }
      return 0;
    }
    case CL_POINTWISE: {
      // component-wise: |reference - accelerated| <= 8u (|ar br| + |ai bi| (+ |r|)) for the real part, likewise for the imaginary part.
      // A norm-wise bound per complex number would accept regroupings of the product that lose the smaller component entirely.
      const double* x = (const double*)ra->cap_out;
      const double* y = (const double*)rb->cap_out;
      const size_t m = nb / 16;
      const int layout = strstr(cur_pair_name, "reim4_") ? 2 : (strstr(cur_pair_name, "cplx_") ? 1 : 0);
      const int acc = strstr(cur_pair_name, "addmul") != 0;
      const size_t nin = ra->cap_in_bytes / nb;  // number of 2m-double input vectors captured: [r] a [b]
      if (nin != (size_t)(acc ? 1 : 0) + 1 && nin != (size_t)(acc ? 1 : 0) + 2) {
        snprintf(msg, msglen, "unexpected capture layout (%zu input vectors)", nin);
        return 1;
      }
      const double* in = (const double*)ra->cap_in;
      const double* r0 = acc ? in : 0;
      const double* a = in + (acc ? 2 * m : 0);
      const double* b = nin == (size_t)(acc ? 1 : 0) + 2 ? a + 2 * m : a;
      for (size_t j = 0; j < m; j++) {
        const size_t ir = comp_idx(layout, m, j, 0), ii = comp_idx(layout, m, j, 1);
        const long double ar = a[ir], ai = a[ii], br = b[ir], bi = b[ii];
        const long double bre = fabsl(ar * br) + fabsl(ai * bi) + (r0 ? fabsl((long double)r0[ir]) : 0);
        const long double bim = fabsl(ar * bi) + fabsl(ai * br) + (r0 ? fabsl((long double)r0[ii]) : 0);
        const long double dre = fabsl((long double)x[ir] - y[ir]), dim = fabsl((long double)x[ii] - y[ii]);
        if (isnan(x[ir]) || isnan(y[ir]) || isnan(x[ii]) || isnan(y[ii]) || dre > 0x1p-50L * bre + 0x1p-1070L || dim > 0x1p-50L * bim + 0x1p-1070L) {
          snprintf(msg, msglen, "element %zu: reference (%.17g, %.17g) accelerated (%.17g, %.17g): difference beyond 8 units of rounding of the component's terms (a=(%.6g,%.6g) b=(%.6g,%.6g))", j, x[ir], x[ii], y[ir], y[ii],
                   (double)ar, (double)ai, (double)br, (double)bi);
          return 1;
        }
        if (bre > 0 && (double)(dre / bre) > *worst) *worst = (double)(dre / bre);
      }
      return 0;
    }
    default: {
      const double* x = (const double*)ra->cap_out;
      const double* y = (const double*)rb->cap_out;
      long double e2 = 0, n2 = 0;
      for (size_t i = 0; i < nb / 8; i++) {
        if (isnan(x[i]) != isnan(y[i])) {
          snprintf(msg, msglen, "output %zu: NaN in one variant only", i);
          return 1;
        }
        long double dd = (long double)x[i] - y[i];
        e2 += dd * dd;
        n2 += (long double)x[i] * x[i] + (long double)y[i] * y[i];
      }
      long double rel = n2 > 0 ? sqrtl(e2 / n2) : (e2 > 0 ? 1 : 0);
      *worst = (double)rel;
      if (rel > 0x1p-42L) {
        snprintf(msg, msglen, "relative 2-norm difference %.3Lg > 2^-42", rel);
        return 1;
      }
      return 0;
    }
  }
}

static env_t* EN[17][N_DISP];
static env_t* env_of(uint64_t N, int native) {
  unsigned k = ilog2(N);
  if (!EN[k][native]) EN[k][native] = env_create(N, native);
  return EN[k][native];
}

static void pair_case(int oi, uint64_t N, unsigned sd) {
  const opdef_t* acc = &OPS[oi];
  const opdef_t* ref = op_lookup(acc->twin);
  if (!ref) harness_fail("catalogue: twin %s of %s not found", acc->twin, acc->name);
  const pclass_t cl = classify(acc->name);
  cur_pair_name = acc->name;
  char key[160];
  snprintf(key, sizeof key, "%s~%s|%s", acc->name, acc->twin, cl_name[cl]);
  if (!case_begin(key, "N=%" PRIu64 " seed=%u", N, sd)) return;
  op_exec_no_relate = cl == CL_FLOAT;  // (norm-wise budgets assume independent operands: related ones cancel in sums and transforms)
  env_t* e = env_of(N, 1);
  opres_t ra, rb;
  const uint64_t seed = mix64(G.seed * 8191 + sd * 131 + N);
  op_exec(ref, e, seed, (int)(sd & 3), sd, MON_CANARY | MON_CAPTURE, &ra);
  op_exec(acc, e, seed, (int)((sd + 1) & 3), sd + 3, MON_CANARY | MON_CAPTURE, &rb);
  if (ra.skipped || rb.skipped) {
    cnt("not_applicable", 1);
    free(ra.cap_in); free(ra.cap_out); free(rb.cap_in); free(rb.cap_out);
    case_end(0);
    return;
  }
  char msg[240];
  double worst = 0;
  if (cl == CL_ROUND_TNX32) ra.d[0] = rb.d[0] = (double)(N / 2);  // the environment's table divides by m
  if (ra.cap_in_bytes != rb.cap_in_bytes || memcmp(ra.cap_in, rb.cap_in, ra.cap_in_bytes)) harness_fail("pair %s: twins did not receive identical arguments", acc->name);
  if (compare(cl, &ra, &rb, msg, sizeof msg, &worst)) viol("pair", "%s vs %s [N=%" PRIu64 " shape=%s]: %s", acc->name, acc->twin, N, ra.shape, msg);
  if (ra.canary_bad || rb.canary_bad) viol("canary", "%s: %s", ra.canary_bad ? acc->twin : acc->name, ra.canary_bad ? ra.msg : rb.msg);
  if (cl == CL_FLOAT) gauge_max("worst_pairwise_relative_difference", worst);
  cnt("pair_comparisons", 1);
  cntf("pair:%s", 1, acc->name);
  cntf("class:%s", 1, cl_name[cl]);
  sample("%zu output bytes equivalent (%s)", ra.cap_out_bytes, cl_name[cl]);
  const int nontrivial = ra.cap_out_bytes > 0;
  free(ra.cap_in); free(ra.cap_out); free(rb.cap_in); free(rb.cap_out);
  case_end(nontrivial);
}

// the accelerated member of a pair run by several threads at once (private data, shared tables): it must still
// compute the reference function — an accelerated kernel with hidden shared scratch is not "the same function"
typedef struct {
  const opdef_t* o;
  const env_t* e;
  uint64_t seed;
  unsigned mis;
  int iters;
  opres_t last;
  uint64_t first_hash;
  int unstable;
  pthread_barrier_t* bar;
} cthr_t;
static void* cworker(void* arg) {
  cthr_t* t = arg;
  pthread_barrier_wait(t->bar);
  for (int i = 0; i < t->iters; i++) {
    opres_t r;
    op_exec(t->o, t->e, t->seed, i & 3, t->mis, MON_CAPTURE, &r);
    if (i == 0) t->first_hash = r.out_hash;
    else if (r.out_hash != t->first_hash) t->unstable = 1;
    if (i == t->iters - 1) t->last = r;
    else {
      free(r.cap_in);
      free(r.cap_out);
    }
  }
  return 0;
}
static void concurrent_pair_case(int oi, uint64_t N, unsigned rep) {
  const opdef_t* acc = &OPS[oi];
  const opdef_t* ref = op_lookup(acc->twin);
  const pclass_t cl = classify(acc->name);
  cur_pair_name = acc->name;
  op_exec_no_relate = cl == CL_FLOAT;
  char key[160];
  snprintf(key, sizeof key, "%s~%s|%s,4 threads", acc->name, acc->twin, cl_name[cl]);
  if (!case_begin(key, "N=%" PRIu64 " rep=%u", N, rep)) return;
  env_t* e = env_of(N, 1);
  enum { T = 4 };
  cthr_t th[T];
  pthread_t tid[T];
  pthread_barrier_t bar;
  pthread_barrier_init(&bar, 0, T);
  for (int t = 0; t < T; t++) {
    memset(&th[t], 0, sizeof th[t]);
    th[t].o = acc;
    th[t].e = e;
    th[t].seed = mix64(G.seed * 31 + rep * 1013 + (uint64_t)t * 7 + N);
    th[t].mis = (unsigned)t;
    th[t].iters = N <= 1024 ? 40 : 6;
    th[t].bar = &bar;
    pthread_create(&tid[t], 0, cworker, &th[t]);
  }
  for (int t = 0; t < T; t++) pthread_join(tid[t], 0);
  pthread_barrier_destroy(&bar);
  int nontrivial = 0;
  for (int t = 0; t < T; t++) {
    if (th[t].last.skipped) continue;
    opres_t rr;
    op_exec(ref, e, th[t].seed, 1, th[t].mis + 1, MON_CAPTURE, &rr);
    char msg[240];
    double worst;
    if (cl == CL_ROUND_TNX32) rr.d[0] = th[t].last.d[0] = (double)(N / 2);
    if (th[t].unstable) viol("pair", "%s: repeated calls with equal arguments gave different results while 4 threads were running it (N=%" PRIu64 ")", acc->name, N);
    else if (!rr.skipped && compare(cl, &rr, &th[t].last, msg, sizeof msg, &worst)) viol("pair", "%s run by 4 threads vs %s run alone [N=%" PRIu64 "]: %s", acc->name, acc->twin, N, msg);
    nontrivial |= th[t].last.cap_out_bytes > 0;
    free(rr.cap_in); free(rr.cap_out); free(th[t].last.cap_in); free(th[t].last.cap_out);
    cnt("concurrent_pair_comparisons", 1);
  }
  sample("4 threads x %d calls of the accelerated kernel, each equal to the reference", th[0].iters);
  case_end(nontrivial);
}

// public API under both dispatch configurations on identical arguments
static int api_is_float(const char* name) {
  static const char* F[] = {"vec_znx_dft", "svp_prepare", "svp_apply_dft", "vmp_prepare_contiguous", "vmp_apply_dft", "vmp_apply_dft_to_dft", "reim_fft", "reim_ifft", "reim_fftvec_mul", "reim_fftvec_addmul",
                            "cplx_fft", "cplx_ifft", "cplx_fftvec_mul", "cplx_fftvec_addmul", "reim4_fftvec_mul", "reim4_fftvec_addmul"};
  for (size_t i = 0; i < ARRAY_LEN(F); i++)
    if (!strcmp(name, F[i])) return 1;
  return 0;
}
static void dispatch_case(int oi, uint64_t N, unsigned sd, int cfg) {
  const opdef_t* o = &OPS[oi];
  pclass_t cl = api_is_float(o->name) ? CL_FLOAT : classify(o->name);
  if (!strncmp(o->name, "vec_znx_idft", 12) && !strstr(o->name, "@ntt120")) cl = CL_ROUND_ZNX64;  // every FFT64 inverse DFT entry (in-place one included) ends with a rounding
  if (!strcmp(o->name, "reim_to_tnx")) cl = CL_TORUS;
  char key[160];
  cur_pair_name = o->name;
  snprintf(key, sizeof key, "%s@%s~generic|%s", o->name, disp_name[cfg], cl_name[cl]);
  if (!case_begin(key, "N=%" PRIu64 " seed=%u", N, sd)) return;
  op_exec_no_relate = cl == CL_FLOAT;
  opres_t ra, rb;
  const uint64_t seed = mix64(G.seed * 4099 + sd * 17 + N * 3);
  op_exec(o, env_of(N, 0), seed, (int)(sd & 3), sd, MON_CANARY | MON_CAPTURE, &ra);
  op_exec(o, env_of(N, cfg), seed, (int)((sd + 2) & 3), sd + 1, MON_CANARY | MON_CAPTURE, &rb);
  if (ra.skipped || rb.skipped) {
    free(ra.cap_in); free(ra.cap_out); free(rb.cap_in); free(rb.cap_out);
    case_end(0);
    return;
  }
  char msg[240];
  double worst = 0;
  int bad;
  if (cl == CL_ROUND_ZNX64 && strcmp(o->name, "reim_to_znx64")) {
    // inverse DFT: the integer outputs may differ by one unit only where the pre-rounding value is within the FFT error of a tie;
    // with the 40-bit integer spectra of the catalogue the outputs are far from exactness, so allow +-1 and count them
    const int64_t* x = (const int64_t*)ra.cap_out;
    const int64_t* y = (const int64_t*)rb.cap_out;
    bad = ra.cap_out_bytes != rb.cap_out_bytes;
    uint64_t off1 = 0;
    // (the rounding noise of an inverse FFT scales with the largest coefficient of the vector, not with the coefficient it lands on)
    int64_t maxabs = 0;
    for (size_t i = 0; !bad && i < ra.cap_out_bytes / 8; i++)
      if (x[i] != INT64_MIN && llabs(x[i]) > maxabs && llabs(x[i]) < ((int64_t)1 << 62)) maxabs = llabs(x[i]);  // (words beyond res_size hold whatever the buffer held)
    for (size_t i = 0; !bad && i < ra.cap_out_bytes / 8; i++) {
      if (x[i] == y[i]) continue;
      if (llabs(x[i] - y[i]) <= 1 + maxabs / ((int64_t)1 << 44)) off1++;
      else {
        bad = 1;
        snprintf(msg, sizeof msg, "coefficient %zu: generic %" PRId64 " native %" PRId64, i, x[i], y[i]);
      }
    }
    cnt("idft_results_differing_by_rounding", off1);
  } else if (cl == CL_ROUND_ZNX64) {
    // reim_to_znx64 table of the environment: divisor m
    ra.d[0] = rb.d[0] = (double)(N / 2 ? N / 2 : 1);
    bad = compare(cl, &ra, &rb, msg, sizeof msg, &worst);
  } else {
    if (cl == CL_ROUND_TNX32) ra.d[0] = rb.d[0] = (double)(N / 2);
    bad = compare(cl, &ra, &rb, msg, sizeof msg, &worst);
  }
  if (bad) viol("dispatch", "%s [N=%" PRIu64 " shape=%s]: generic-C and %s dispatch disagree: %s", o->name, N, ra.shape, disp_name[cfg], msg);
  if (cl == CL_FLOAT) gauge_max("worst_dispatch_relative_difference", worst);
  cnt("dispatch_comparisons", 1);
  cntf("dispatch_config:%s", 1, disp_name[cfg]);
  cntf("class:%s", 1, cl_name[cl]);
  sample("%zu output bytes equivalent under both dispatch configurations (%s)", ra.cap_out_bytes, cl_name[cl]);
  const int nontrivial = ra.cap_out_bytes > 0;
  free(ra.cap_in); free(ra.cap_out); free(rb.cap_in); free(rb.cap_out);
  case_end(nontrivial);
}

// FFT64 products on the operand families of C01 (incl. outputs close to 2^52) under both dispatch configurations:
// each result is within E + 1/2 of the exact product, so the two differ by at most 2E + 1 and are equal when E < 1/4
extern void c01_gen_pair(rng_t* r, int fam, uint64_t N, int64_t* a, int64_t* b);
extern long double c01_budget_E(uint64_t N, const int64_t* a, const int64_t* b);
static void product_dispatch_case(uint64_t N, int fam, unsigned rep, int cfg) {
  char key[96];
  snprintf(key, sizeof key, "fft64-product@%s~generic|budget", disp_name[cfg]);
  if (!case_begin(key, "N=%" PRIu64 " fam=%d rep=%u", N, fam, rep)) return;
  int64_t* a = malloc(N * 8);
  int64_t* b = malloc(N * 8);
  int64_t* r1 = malloc(N * 8);
  int64_t* r2 = malloc(N * 8);
  int64_t* r3 = malloc(N * 8);
  c01_gen_pair(crng(), fam, N, a, b);
  const MODULE* mg = env_of(N, 0)->fft64;
  const MODULE* mn = env_of(N, cfg)->fft64;
  uint8_t* tmp = malloc(znx_small_single_product_tmp_bytes(mn) + 64);
  znx_small_single_product(mg, r1, a, b, tmp);
  znx_small_single_product(mn, r2, a, b, tmp);
  // svp path natively
  SVP_PPOL* pp = malloc(bytes_of_svp_ppol(mn) + 64);
  VEC_ZNX_DFT* d = malloc(bytes_of_vec_znx_dft(mn, 1) + 64);
  svp_prepare(mn, pp, b);
  svp_apply_dft(mn, d, 1, pp, a, 1, N);
  vec_znx_idft_tmp_a(mn, (VEC_ZNX_BIG*)r3, 1, d, 1);
  long double E = c01_budget_E(N, a, b), tol = (2 * E + 1) * (1 + 0x1p-40L);
  for (uint64_t i = 0; i < N; i++) {
    long double d12 = fabsl((long double)r1[i] - (long double)r2[i]), d13 = fabsl((long double)r1[i] - (long double)r3[i]);
    if (d12 > tol || d13 > tol || (E < 0.25L && (r1[i] != r2[i] || r1[i] != r3[i]))) {
      viol("dispatch", "FFT64 product N=%" PRIu64 " coefficient %" PRIu64 ": generic %" PRId64 ", %s small product %" PRId64 ", %s svp+idft %" PRId64 " (2E+1 = %.3Lg)", N, i, r1[i], disp_name[cfg], r2[i], disp_name[cfg], r3[i], tol);
      break;
    }
  }
  cnt("product_dispatch_comparisons", 1);
  sample("E=%.3Lg", E);
  free(a); free(b); free(r1); free(r2); free(r3); free(tmp); free(pp); free(d);
  case_end(N >= 4);
}

// accelerated conversion entries vs their reference kernels on tables that are created, used, freed and re-created at the
// same address with other parameters (shared with C14)
extern uint64_t c14_recycled_tables_core(rng_t* r, unsigned seq);
static void recycled_tables_case(unsigned seq) {
  if (!case_begin("conversions@native~reference kernel|tables re-created at the same address", "sequence=%u", seq)) return;
  const uint64_t tables = c14_recycled_tables_core(crng(), seq);
  cnt("recycled_table_comparisons", tables);
  sample("%" PRIu64 " tables in a row: dispatch entry equal to the reference kernel on every one", tables);
  case_end(1);
}

// transforms of data scaled into the subnormal range: every operation then rounds to a multiple of 2^-1074, so the
// accelerated and the portable transform may differ by a few of those units per butterfly level, but not by more
// (a kernel that switches the CPU to flush-to-zero returns zeros instead)
static void subnormal_fft_case(uint64_t m, int layout, int inverse, unsigned rep) {
  char key[96];
  snprintf(key, sizeof key, "%s_%s avx2~ref|subnormal inputs,absolute tolerance", layout ? "cplx" : "reim", inverse ? "ifft" : "fft");
  if (!case_begin(key, "m=%" PRIu64 " rep=%u", m, rep)) return;
  rng_t* r = crng();
  const uint64_t n = 2 * m;
  double* x = malloc(n * 8);
  double* y = malloc(n * 8);
  // ordinary data in [-1, 1) scaled by 2^-1040 (about 34 significant bits left), or by 2^-1000 (still normal)
  const int sc = (rep & 1) ? -1000 : -1040;
  for (uint64_t i = 0; i < n; i++) x[i] = y[i] = ldexp(rng_unit(r) * 2 - 1, sc);
  void* t;
  if (!layout) t = inverse ? (void*)new_reim_ifft_precomp((uint32_t)m, 0) : (void*)new_reim_fft_precomp((uint32_t)m, 0);
  else t = inverse ? (void*)new_cplx_ifft_precomp((uint32_t)m, 0) : (void*)new_cplx_fft_precomp((uint32_t)m, 0);
  if (!layout) {
    if (inverse) { reim_ifft_ref(t, x); reim_ifft(t, y); } else { reim_fft_ref(t, x); reim_fft(t, y); }
  } else {
    if (inverse) { cplx_ifft_ref(t, x); cplx_ifft(t, y); } else { cplx_fft_ref(t, x); cplx_fft(t, y); }
  }
  // absolute budget: a rounding of at most half a unit of 2^-1074 per operation, amplified by at most 2 per level
  const double unit = sc == -1040 ? 0x1p-1074 : ldexp(1.0, sc - 52 + (int)ilog2(n));
  const double tol = 64.0 * (double)n * unit;
  double worst = 0, nrm = 0;
  for (uint64_t i = 0; i < n; i++) {
    const double df = fabs(x[i] - y[i]);
    if (df > worst) worst = df;
    if (fabs(x[i]) > nrm) nrm = fabs(x[i]);
  }
  if (!(worst <= tol)) viol("pair", "%s %s (m=%" PRIu64 ") on data scaled by 2^%d: accelerated and reference transforms differ by %.3g (largest output %.3g, budget %.3g)", layout ? "cplx" : "reim", inverse ? "ifft" : "fft", m, sc, worst, nrm, tol);
  gauge_max("worst_subnormal_pair_difference_over_budget", worst / tol);
  cnt("subnormal_transform_pairs", 1);
  sample("largest difference %.3g for outputs up to %.3g", worst, nrm);
  free(x); free(y); free(t);
  case_end(m >= 2);
}

// conversion tables whose constructor chooses between a fast kernel with a narrow window and a general one: the same table
// parameters under native and generic dispatch, inputs at and just inside the declared bound |x/d| <= 2^overhead (and near ties);
// the results must be equal except on exact ties. Which kernel is chosen is the library's business - the function is not.
static void conversion_threshold_case(uint64_t m, unsigned ovh, int dexp, unsigned rep) {
  if (!case_begin("cplx_to_tnx32@native~generic|table parameters around the fast kernel's window", "m=%" PRIu64 " log2overhead=%u divisor=2^%d rep=%u", m, ovh, dexp, rep)) return;
  rng_t* r = crng();
  const double d = ldexp(1.0, dexp), top = ldexp(1.0, (int)ovh);
  double* x = malloc(2 * m * 8);
  int32_t* o[2];
  for (uint64_t i = 0; i < 2 * m; i++) {
    double v;
    switch (rng_u64(r) % 8) {
      case 0: v = top; break;                                   // the bound itself
      case 1: v = nextafter(top, 0); break;                     // one ulp inside
      case 2: v = top - 0.5; break;
      case 3: v = nextafter(top - 0.5, 0); break;
      case 4: v = top - ldexp(rng_unit(r), -3); break;          // the last eighth below the bound
      case 5: v = top / 2 + rng_unit(r); break;
      case 6: v = (double)(rng_u64(r) % 1000) + 0.5 + ldexp(1.0, -20); break;
      default: v = ldexp(rng_unit(r), (int)rng_range(r, -4, (int)ovh)); break;
    }
    if (v > top) v = top;
    if (rng_u64(r) & 1) v = -v;
    x[i] = v * d;
  }
  for (int cfg = 0; cfg < 2; cfg++) {
    set_dispatch(cfg ? DISP_NATIVE : DISP_GENERIC);
    CPLX_TO_TNX32_PRECOMP* t = new_cplx_to_tnx32_precomp((uint32_t)m, d, ovh);
    set_dispatch(DISP_NATIVE);
    o[cfg] = malloc(2 * m * 4 + 4);
    cplx_to_tnx32(t, o[cfg], x);
    free(t);
  }
  uint64_t bad = 0;
  for (uint64_t i = 0; i < 2 * m; i++)
    if (o[0][i] != o[1][i]) {
      const uint64_t ci = i < m ? 2 * i : 2 * (i - m) + 1;
      const double v = x[ci] / d * 4294967296.0;  // exact scalings
      const uint32_t du = (uint32_t)o[0][i] - (uint32_t)o[1][i];
      if ((v - floor(v)) == 0.5 && (du == 1 || du == 0xFFFFFFFFu)) continue;
      if (bad++ < 2) viol("dispatch", "cplx_to_tnx32 (m=%" PRIu64 ", divisor 2^%d, log2overhead %u): x/d = %a converts to %d under generic-C dispatch and to %d under native dispatch", m, dexp, ovh, x[ci] / d, o[0][i], o[1][i]);
    }
  cnt("conversion_threshold_values", 2 * m);
  sample("%" PRIu64 " values at and just inside |x/d| = 2^%u: both dispatch configurations agree", 2 * m, ovh);
  free(x); free(o[0]); free(o[1]);
  case_end(1);
}

void run_C07(void) {
  const int th = G.thorough;
  for (unsigned ovh = 14; ovh <= 30; ovh++)
    for (size_t mi = 0; mi < 3; mi++) {
      static const uint64_t TM[] = {8, 64, 4};
      for (unsigned rep = 0; rep < (th ? 12u : 2u); rep++) conversion_threshold_case(TM[mi], ovh, (int)((ovh + rep) % 5) - 1, rep);
    }
  for (uint64_t m = 1; m <= 65536; m <<= 1)
    for (int v = 0; v < 4; v++)
      for (unsigned rep = 0; rep < (th ? 6u : 2u); rep++) subnormal_fft_case(m, v & 1, v >> 1, rep);
  for (unsigned seq = 0; seq < (th ? 1500u : 96u); seq++) recycled_tables_case(seq);
  // q120 product kernels: reference vs AVX2 at EVERY length 0..10000
  for (int k = 0; k < N_KERNELS; k++)
    for (uint64_t e0 = 0; e0 <= 10000; e0 += 500) {
      char key[128];
      snprintf(key, sizeof key, "%s|every-ell,ref~avx2|modq", q120_kernel_name[k]);
      const uint64_t e1 = e0 + 499 > 10000 ? 10000 : e0 + 499;
      if (!case_begin(key, "ell=%" PRIu64 "..%" PRIu64, e0, e1)) continue;
      cnt("pairwise_ell_values", q120_pairwise_ell_check((q120_kernel_t)k, e0, e1, (int)((e0 / 500 + (uint64_t)k) % QF_N), (int)((e0 / 500 + 5) % QF_N), crng()));
      case_end(1);
    }
  for (size_t ni = 0; ni < N_ALL_N; ni++) {
    const uint64_t N = ALL_N[ni];
    const unsigned seeds = th ? (N <= 1024 ? 300 : (N <= 8192 ? 60 : 16)) : (N <= 256 ? 16 : (N <= 4096 ? 6 : 2));
    for (int oi = 0; oi < N_CAT_OPS; oi++) {
      const opdef_t* o = &OPS[oi];
      if ((o->flags & OPF_AVX) && o->twin)
        for (unsigned sd = 0; sd < seeds; sd++) pair_case(oi, N, sd);
      if ((o->flags & (OPF_FFT64 | OPF_TABLE)) && !(o->flags & OPF_AVX) && !strstr(o->name, "q120") && !strstr(o->name, "fresh table"))
        for (int cfg = DISP_NATIVE; cfg < N_DISP; cfg++)  // all CPU features, avx2 without fma, fma without avx2
          for (unsigned sd = 0; sd < (cfg == DISP_NATIVE ? seeds : (seeds + 1) / 2); sd++) dispatch_case(oi, N, sd, cfg);
    }
  }
  // accelerated kernels under concurrency (hidden shared scratch would make them differ from the reference)
  {
    static const uint64_t CN[] = {8, 64, 1024, 8192};
    for (size_t ni = 0; ni < ARRAY_LEN(CN); ni++)
      for (int oi = 0; oi < N_CAT_OPS; oi++)
        if ((OPS[oi].flags & OPF_AVX) && OPS[oi].twin)
          for (unsigned rep = 0; rep < (th ? 6u : 1u); rep++) concurrent_pair_case(oi, CN[ni], rep);
  }
  for (size_t ni = 0; ni < N_ALL_N; ni++)
    for (int fam = 0; fam < 12; fam++)
      for (unsigned rep = 0; rep < (th ? (ALL_N[ni] <= 4096 ? 10u : 2u) : 1u); rep++)
        for (int cfg = DISP_NATIVE; cfg < N_DISP; cfg++) product_dispatch_case(ALL_N[ni], fam, rep, cfg);
  for (int k = 0; k < 17; k++)
    for (int n = 0; n < N_DISP; n++)
      if (EN[k][n]) env_destroy(EN[k][n]);
  op_exec_no_relate = 0;
}
