// C04 — q120 lazy modular arithmetic never wraps 64 bits on any in-range operand.
// Observable form: worst-case operands through the product kernels and the transforms, compared modulo
// each prime with the exact oracle. Localised form (hook H2): every stage of the real NTT/iNTT schedule
// is re-executed by a checked shadow in 128-bit arithmetic on the real data and the real metadata;
// operand-fit predicates (no 64-bit wrap, no negative lazy subtraction, 32-bit multiplier operands)
// are evaluated on the values the library actually produced.
#include "q120h.h"
#include "ops.h"
#include <pthread.h>

typedef struct {
  int active, inverse;
  uint64_t n;
  const uint64_t* base;
  uint64_t* shadow;
  uint64_t stage_events, lanes_checked;
  int reported;           // a violation was already reported for this transform
  int saw_input, saw_output;
  double max_bits_seen;   // largest log2 of any intermediate lane
  u128 env[4];            // interval envelope: upper bound per prime, valid for any 64-bit input
  int env_ok;
  double env_margin_bits; // 64 - log2(max envelope value)
} mon_t;
static mon_t M;

static void mon_fail(const char* kind, const char* fmt, ...) __attribute__((format(printf, 2, 3)));
static void mon_fail(const char* kind, const char* fmt, ...) {
  if (M.reported) return;
  M.reported = 1;
  char buf[512];
  va_list ap;
  va_start(ap, fmt);
  vsnprintf(buf, sizeof buf, fmt, ap);
  va_end(ap);
  viol(kind, "%s (n=%" PRIu64 " %s)", buf, M.n, M.inverse ? "inverse" : "forward");
}

// checked primitives on real values; `ctx` names the stage for the report
static uint64_t chk_add(uint64_t a, uint64_t b, const char* ctx) {
  u128 s = (u128)a + b;
  if (s >> 64) mon_fail("wrap", "%s: a+b exceeds 64 bits (a=%" PRIu64 " b=%" PRIu64 ")", ctx, a, b);
  return (uint64_t)s;
}
static uint64_t chk_lazysub(uint64_t a, uint64_t q2bs, uint64_t b, const char* ctx) {
  u128 s = (u128)a + q2bs;
  if (s >> 64) mon_fail("wrap", "%s: a+q2bs exceeds 64 bits (a=%" PRIu64 " q2bs=%" PRIu64 ")", ctx, a, q2bs);
  if (s < b) mon_fail("wrap", "%s: lazy subtraction a+q2bs-b is negative (a=%" PRIu64 " q2bs=%" PRIu64 " b=%" PRIu64 ")", ctx, a, q2bs, b);
  return (uint64_t)(s - b);
}
static uint64_t chk_splitmul(uint64_t x, uint64_t po, uint64_t h, uint64_t mask, uint64_t q, const char* ctx) {
  uint64_t lo = x & mask, hi = h < 64 ? x >> h : 0;
  uint64_t w0 = po & 0xFFFFFFFFu, w1 = po >> 32;
  if (lo >> 32) mon_fail("wrap", "%s: low part of the split multiplication does not fit 32 bits (half_bs=%" PRIu64 ")", ctx, h);
  if (hi >> 32) mon_fail("wrap", "%s: high part x>>h does not fit 32 bits (x=%" PRIu64 " h=%" PRIu64 ")", ctx, x, h);
  if (w1 % q != (uint64_t)(((u128)(w0 % q) << h) % q)) mon_fail("table", "%s: twiddle high word is not twiddle*2^h mod q", ctx);
  u128 r = (u128)lo * w0 + (u128)hi * w1;
  if (r >> 64) mon_fail("wrap", "%s: split product exceeds 64 bits", ctx);
  return (uint64_t)r;
}
static uint64_t chk_red(uint64_t x, const q120_ntt_reduc_step_precomp* rp, int k, const char* ctx) {
  uint64_t xh = x >> rp->h, xl = x & rp->mask;
  if (xh >> 32) mon_fail("wrap", "%s: reduction operand x>>h does not fit 32 bits", ctx);
  if (rp->modulo_red_cst[k] >> 32) mon_fail("wrap", "%s: reduction constant does not fit 32 bits", ctx);
  if (rp->modulo_red_cst[k] % Q120[k] != (uint64_t)(((u128)1 << rp->h) % Q120[k])) mon_fail("table", "%s: reduction constant is not 2^h mod q", ctx);
  u128 r = (u128)xl + (u128)xh * rp->modulo_red_cst[k];
  if (r >> 64) mon_fail("wrap", "%s: reduction result exceeds 64 bits", ctx);
  return (uint64_t)r;
}
static inline void note_bits(uint64_t v) {
  if (v) {
    double b = log2((double)v);
    if (b > M.max_bits_seen) M.max_bits_seen = b;
  }
}

// interval envelope helpers (information only: conservative bounds valid for any 64-bit input)
static u128 env_splitmul(u128 U, uint64_t h, uint64_t mask, uint64_t q) {
  u128 hi = h < 64 ? (U >> h) : 0;
  if ((mask >> 32) || (hi >> 32)) M.env_ok = 0;
  return (u128)mask * (q - 1) + hi * (q - 1);
}
static u128 env_red(u128 U, const q120_ntt_reduc_step_precomp* rp, int k) {
  u128 xh = U >> rp->h;
  if (xh >> 32) M.env_ok = 0;
  return (u128)rp->mask + xh * rp->modulo_red_cst[k];
}

static void trace_cb(int inverse, int kind, uint64_t nn, const void* begin, const void* end, const q120_ntt_step_precomp* it, const void* powomega, const q120_ntt_precomp* pre) {
  if (!M.active) return;
  const uint64_t* data = (const uint64_t*)begin;
  const uint64_t count = (uint64_t)((const uint64_t*)end - data) / 4;  // q120b elements in [begin,end)
  const uint64_t* po = (const uint64_t*)powomega;
  if (kind == 0) {
    M.inverse = inverse;
    M.n = nn;
    M.base = data;
    memcpy(M.shadow, data, nn * 32);
    M.saw_input = 1;
    for (int k = 0; k < 4; k++) M.env[k] = ~(uint64_t)0;
    M.env_ok = 1;
    return;
  }
  if (!M.saw_input || data < M.base || (uint64_t)(data - M.base) / 4 + count > M.n) {
    mon_fail("trace", "stage event outside the traced buffer");
    return;
  }
  const uint64_t off = (uint64_t)(data - M.base) / 4;
  uint64_t* sh = M.shadow + 4 * off;
  char ctx[96];
  if (kind == 3) {
    if (memcmp(M.shadow, data, M.n * 32)) mon_fail("shadow", "final data differ from the shadow execution");
    M.saw_output = 1;
    double worst = 0;
    for (int k = 0; k < 4; k++) {
      double b = log2((double)M.env[k]);
      if (b > worst) worst = b;
    }
    M.env_margin_bits = 64 - worst;
    return;
  }
  M.stage_events++;
  const int first_block = (data == M.base);
  if (kind == 1) {
    // twiddle-only pass: x <- splitmul(red?(x), po[i]); the forward driver never reduces here
    const int red = inverse && it->reduce;
    snprintf(ctx, sizeof ctx, "twiddle pass%s", red ? " (+reduce)" : "");
    for (uint64_t i = 0; i < count; i++)
      for (int k = 0; k < 4; k++) {
        uint64_t x = sh[4 * i + k];
        if (red) x = chk_red(x, &pre->reduc_metadata, k, ctx);
        uint64_t r = chk_splitmul(x, po[4 * i + k], it->half_bs, it->mask, Q120[k], ctx);
        sh[4 * i + k] = r;
        note_bits(r);
      }
    for (int k = 0; k < 4; k++) {
      u128 U = M.env[k];
      if (red) U = env_red(U, &pre->reduc_metadata, k);
      U = env_splitmul(U, it->half_bs, it->mask, Q120[k]);
      if (U >> 64) M.env_ok = 0;
      M.env[k] = U;
    }
  } else {
    const uint64_t half = nn / 2;
    snprintf(ctx, sizeof ctx, "%s butterfly level nn=%" PRIu64 "%s", inverse ? "inverse" : "forward", nn, it->reduce ? " (+reduce)" : "");
    for (uint64_t blk = 0; blk + nn <= count; blk += nn)
      for (uint64_t j = 0; j < half; j++)
        for (int k = 0; k < 4; k++) {
          uint64_t a = sh[4 * (blk + j) + k], b = sh[4 * (blk + j + half) + k];
          if (it->reduce) {
            a = chk_red(a, &pre->reduc_metadata, k, ctx);
            b = chk_red(b, &pre->reduc_metadata, k, ctx);
          }
          uint64_t ra, rb;
          if (it->q2bs[k] % Q120[k]) mon_fail("table", "%s: q2bs is not a multiple of q", ctx);
          if (!inverse) {
            ra = chk_add(a, b, ctx);
            uint64_t b1 = chk_lazysub(a, it->q2bs[k], b, ctx);
            rb = j ? chk_splitmul(b1, po[4 * (j - 1) + k], it->half_bs, it->mask, Q120[k], ctx) : b1;
          } else {
            uint64_t bo = j ? chk_splitmul(b, po[4 * (j - 1) + k], it->half_bs, it->mask, Q120[k], ctx) : b;
            ra = chk_add(a, bo, ctx);
            rb = chk_lazysub(a, it->q2bs[k], bo, ctx);
          }
          sh[4 * (blk + j) + k] = ra;
          sh[4 * (blk + j + half) + k] = rb;
          note_bits(ra);
          note_bits(rb);
        }
    if (first_block)
      for (int k = 0; k < 4; k++) {
        u128 U = M.env[k];
        if (it->reduce) U = env_red(U, &pre->reduc_metadata, k);
        u128 out;
        if (!inverse) {
          if (U > it->q2bs[k]) M.env_ok = 0;  // a + q2bs - b could go negative
          u128 b1 = U + it->q2bs[k];
          u128 bm = half > 1 ? env_splitmul(b1, it->half_bs, it->mask, Q120[k]) : 0;
          out = 2 * U;
          if (b1 > out) out = b1;
          if (bm > out) out = bm;
        } else {
          u128 bo = half > 1 ? env_splitmul(U, it->half_bs, it->mask, Q120[k]) : 0;
          if (U > bo) bo = U;
          if (bo > it->q2bs[k]) M.env_ok = 0;
          out = U + bo;
          if (U + it->q2bs[k] > out) out = U + it->q2bs[k];
        }
        if (out >> 64) M.env_ok = 0;
        M.env[k] = out;
      }
  }
  M.lanes_checked += count * 4;
  // the real data after the stage must equal the shadow execution bit for bit
  if (!M.reported && memcmp(sh, data, count * 32)) {
    uint64_t i = 0;
    while (i < count * 4 && sh[i] == data[i]) i++;
    mon_fail("shadow", "%s: real lane %" PRIu64 " = %" PRIu64 " differs from the checked shadow value %" PRIu64, ctx, off * 4 + i, data[i], sh[i]);
    memcpy(sh, data, count * 32);  // resynchronise
  }
}

static q120_ntt_precomp* T_NTT[17];
static q120_ntt_precomp* T_INTT[17];

static void traced_case(uint64_t n, int fam, unsigned rep) {
  char key[96];
  snprintf(key, sizeof key, "q120_ntt/intt_bb_avx2+H2|%s,%s", n <= 1024 ? "n<=1024" : "n>1024", q120_fam_name[fam]);
  if (!case_begin(key, "n=%" PRIu64 " fam=%s rep=%u", n, q120_fam_name[fam], rep)) return;
  rng_t* r = crng();
  const unsigned lg = ilog2(n);
  gbuf_t gx;
  uint64_t* x = gb_alloc(&gx, n * 32, 8, 8 * (rep % 8), 4096);
  uint64_t* x0 = malloc(n * 32);
  q120_gen_b(r, fam, n, x);
  if (fam == QF_ALTERNATE && (rep & 1))  // half max / half zero: drives a + q2bs to its extreme at the first butterfly
    for (uint64_t i = 0; i < n; i++)
      for (int k = 0; k < 4; k++) x[4 * i + k] = (i < n / 2) ? ~0ull : 0;
  memcpy(x0, x, n * 32);
  memset(&M, 0, sizeof M);
  M.shadow = malloc(n * 32 + 32);
  M.active = 1;
  spqlios_verif_ntt_trace = trace_cb;
  q120_ntt_bb_avx2(T_NTT[lg], (q120b*)x);
  uint64_t ev_f = M.stage_events;
  int out_f = M.saw_output, envok_f = M.env_ok;
  double margin_f = M.env_margin_bits, bits_f = M.max_bits_seen;
  // forward result must be the evaluation: checked through the inverse round trip below and by C03;
  // here: inverse on the (lazy, large) forward output, which is the realistic worst case for the iNTT
  uint64_t* y0 = malloc(n * 32);
  memcpy(y0, x, n * 32);
  uint64_t* sh = M.shadow;
  memset(&M, 0, sizeof M);
  M.shadow = sh;
  M.active = 1;
  q120_intt_bb_avx2(T_INTT[lg], (q120b*)x);
  spqlios_verif_ntt_trace = 0;
  M.active = 0;
  for (uint64_t i = 0; i < 4 * n; i++)
    if (x[i] % Q120[i & 3] != x0[i] % Q120[i & 3]) {
      viol("oracle", "round trip on extremal lanes: n=%" PRIu64 " lane %" PRIu64 " (prime %d): %" PRIu64 " not congruent to input %" PRIu64, n, i / 4, (int)(i & 3), x[i], x0[i]);
      break;
    }
  // second inverse run directly on worst-case lanes (any 64-bit lane is a legal iNTT input)
  memcpy(x, x0, n * 32);
  uint64_t ev_i = M.stage_events;
  int out_i = M.saw_output, envok_i = M.env_ok;
  double margin_i = M.env_margin_bits, bits_i = M.max_bits_seen;
  int rep2 = M.reported;
  memset(&M, 0, sizeof M);
  M.shadow = sh;
  M.reported = rep2;
  M.active = 1;
  spqlios_verif_ntt_trace = trace_cb;
  q120_intt_bb_avx2(T_INTT[lg], (q120b*)x);
  q120_ntt_bb_avx2(T_NTT[lg], (q120b*)x);
  spqlios_verif_ntt_trace = 0;
  M.active = 0;
  for (uint64_t i = 0; i < 4 * n; i++)
    if (x[i] % Q120[i & 3] != x0[i] % Q120[i & 3]) {
      viol("oracle", "ntt(intt(x)) on extremal lanes: n=%" PRIu64 " lane %" PRIu64 " not congruent", n, i / 4);
      break;
    }
  if (n >= 2) {
    if (!ev_f || !ev_i || !out_f || !out_i) viol("trace", "stage trace incomplete: forward events=%" PRIu64 " output=%d inverse events=%" PRIu64 " output=%d", ev_f, out_f, ev_i, out_i);
    cnt("h2_stage_events", ev_f + ev_i + M.stage_events);
    cnt("h2_traced_transforms", 4);
    if (envok_f && envok_i) cnt("envelope_certified_schedules", 1);
    else cnt("envelope_not_certified", 1);
    gauge_max("envelope_min_margin_bits_neg", -(margin_f < margin_i ? margin_f : margin_i));
    gauge_max("max_observed_bits", bits_f > bits_i ? bits_f : bits_i);
  }
  long wh;
  if (gb_check(&gx, &wh)) viol("canary", "transform wrote outside its buffer (%ld)", wh);
  sample("forward stage events=%" PRIu64 " inverse=%" PRIu64 " max observed bits=%.2f envelope margin=%.2f bits", ev_f, ev_i, bits_f > bits_i ? bits_f : bits_i, margin_f < margin_i ? margin_f : margin_i);
  int big = 0;
  for (uint64_t i = 0; i < 4 * n; i++) big |= (x0[i] >> 63) != 0;
  free(sh);
  free(x0);
  free(y0);
  gb_free(&gx);
  cntf("n:%" PRIu64, 1, n);
  case_end(n >= 2 && big);
}

// feedback-directed stress: mutate input lanes to maximise the largest intermediate lane reported through H2;
// every evaluation is a fully shadow-checked forward + inverse transform
static void climb_case(uint64_t n, unsigned rep, int iters) {
  if (!case_begin("q120_ntt/intt_bb_avx2+H2|hill-climb", "n=%" PRIu64 " rep=%u iters=%d", n, rep, iters)) return;
  rng_t* r = crng();
  const unsigned lg = ilog2(n);
  uint64_t* x = malloc(n * 32);
  uint64_t* best = malloc(n * 32);
  uint64_t* work = malloc(n * 32);
  q120_gen_b(r, rep & 1 ? QF_ALLMAX : QF_NONCANON, n, best);
  double best_bits = 0;
  uint64_t events = 0;
  for (int it = 0; it < iters; it++) {
    memcpy(x, best, n * 32);
    if (it) {
      int nm = 1 + (int)(rng_u64(r) % 4);
      for (int q = 0; q < nm; q++) {
        uint64_t i = rng_u64(r) % (4 * n);
        switch (rng_u64(r) % 5) {
          case 0: x[i] = ~0ull; break;
          case 1: x[i] = 0; break;
          case 2: x[i] = rng_u64(r); break;
          case 3: x[i] ^= 1ull << (rng_u64(r) % 64); break;
          default: x[i] = ~0ull - (rng_u64(r) % Q120[i & 3]); break;
        }
      }
    }
    memcpy(work, x, n * 32);
    memset(&M, 0, sizeof M);
    M.shadow = malloc(n * 32 + 32);
    M.active = 1;
    spqlios_verif_ntt_trace = trace_cb;
    q120_ntt_bb_avx2(T_NTT[lg], (q120b*)work);
    double bf = M.max_bits_seen;
    events += M.stage_events;
    int repd = M.reported;
    uint64_t* sh = M.shadow;
    memset(&M, 0, sizeof M);
    M.shadow = sh;
    M.reported = repd;
    M.active = 1;
    q120_intt_bb_avx2(T_INTT[lg], (q120b*)work);
    spqlios_verif_ntt_trace = 0;
    M.active = 0;
    events += M.stage_events;
    double b = bf > M.max_bits_seen ? bf : M.max_bits_seen;
    free(sh);
    for (uint64_t i = 0; i < 4 * n; i++)
      if (work[i] % Q120[i & 3] != x[i] % Q120[i & 3]) {
        viol("oracle", "hill-climb input: round trip not congruent at lane %" PRIu64 " (n=%" PRIu64 ")", i / 4, n);
        it = iters;
        break;
      }
    if (b >= best_bits) {
      best_bits = b;
      memcpy(best, x, n * 32);
    }
  }
  gauge_max("max_observed_bits", best_bits);
  gauge_max("hill_climb_max_bits", best_bits);
  cnt("h2_stage_events", events);
  cnt("h2_traced_transforms", 2 * (uint64_t)iters);
  cnt("hill_climb_evaluations", (uint64_t)iters);
  sample("best observed intermediate lane 2^%.4f after %d evaluations", best_bits, iters);
  free(x);
  free(best);
  free(work);
  case_end(n >= 2);
}

static void concurrent_build_case(int T, unsigned rep) {
  if (!case_begin("q120_ntt/intt_bb_avx2|tables-built-concurrently", "threads=%d rep=%u", T, rep)) return;
  uint64_t lanes = q120_concurrent_build_check(T, crng(), T_NTT, T_INTT);
  cnt("concurrently_built_tables", 2 * (uint64_t)T);
  cnt("concurrent_build_lanes_compared", lanes);
  sample("%d threads built ntt+intt tables together; %" PRIu64 " worst-case lanes congruent to sequentially built tables", T, lanes);
  case_end(1);
}

static const uint64_t ELLS4[] = {0, 1, 2, 3, 5, 7, 9, 31, 101, 4095, 4097, 8191, 9999, 10000};

void run_C04(void) {
  const int th = G.thorough;
  for (unsigned rep = 0; rep < (th ? 40u : 4u); rep++) {
    if (!case_begin("q120 product kernels|8 threads,private operands", "rep=%u", rep)) continue;
    uint64_t calls = 0;
    q120_concurrent_kernel_check(8, crng(), th ? 60000 : 12000, &calls);
    cnt("concurrent_kernel_calls", calls);
    sample("8 threads x %" PRIu64 " kernel calls, every result congruent to the exact sum", calls / 8);
    case_end(1);
  }
  // products on worst-case operands: every kernel, ref and avx2
  static const int FAMS[] = {QF_ALLMAX, QF_ALTERNATE, QF_SINGLEMAX, QF_NONCANON, QF_NEARMULT, QF_WORD32, QF_WORD32MAX, QF_MIXEDWIDTH, QF_HIGH32, QF_LANESPLIT, QF_POW2, QF_SPARSE};
  for (int k = 0; k < N_KERNELS; k++)
    for (int avx2 = 0; avx2 <= 1; avx2++) {
      if (!q120_kernel_has((q120_kernel_t)k, avx2)) continue;
      for (size_t e = 0; e < ARRAY_LEN(ELLS4); e++)
        for (size_t fx = 0; fx < ARRAY_LEN(FAMS); fx++)
          for (size_t fy = 0; fy < ARRAY_LEN(FAMS); fy++) {
            const uint64_t ell = ELLS4[e];
            char key[128];
            snprintf(key, sizeof key, "%s_%s|worstcase,ell%s", q120_kernel_name[k], avx2 ? "avx2" : "ref", ell == 0 ? "=0" : (ell < 9999 ? "<9999" : ">=9999"));
            if (!case_begin(key, "ell=%" PRIu64 " x=%s y=%s", ell, q120_fam_name[FAMS[fx]], q120_fam_name[FAMS[fy]])) continue;
            uint64_t lanes = q120_product_check((q120_kernel_t)k, avx2, ell, FAMS[fx], FAMS[fy], crng(), (unsigned)(e + fx + fy));
            cnt("product_lanes_checked", lanes);
            if (ell >= 9999) cnt("max_ell_products", 1);
            sample("%" PRIu64 " lanes congruent at ell=%" PRIu64, lanes, ell);
            case_end(ell >= 1);
          }
    }
  // every length 0..10000, both implementations of every kernel against each other (both tiers)
  for (int k = 0; k < N_KERNELS; k++)
    for (uint64_t e0 = 0; e0 <= 10000; e0 += 500) {
      char key[128];
      snprintf(key, sizeof key, "%s|every-ell,ref~avx2", q120_kernel_name[k]);
      const uint64_t e1 = e0 + 499 > 10000 ? 10000 : e0 + 499;
      if (!case_begin(key, "ell=%" PRIu64 "..%" PRIu64, e0, e1)) continue;
      const uint64_t n = q120_pairwise_ell_check((q120_kernel_t)k, e0, e1, FAMS[(e0 / 500 + (uint64_t)k) % ARRAY_LEN(FAMS)], FAMS[(e0 / 500 + 3) % ARRAY_LEN(FAMS)], crng());
      cnt("pairwise_ell_values", n);
      sample("%" PRIu64 " consecutive lengths: both implementations congruent", n);
      case_end(1);
    }
  // every length 0..10000 for every kernel flavour (blocks of 250 lengths per case; quick tier: see below)
  for (int k = 0; k < N_KERNELS; k++)
    for (int avx2 = 0; avx2 <= 1; avx2++) {
      if (!q120_kernel_has((q120_kernel_t)k, avx2)) continue;
      for (uint64_t e0 = 0; e0 <= 10000; e0 += 250) {
        char key[128];
        snprintf(key, sizeof key, "%s_%s|every-ell", q120_kernel_name[k], avx2 ? "avx2" : "ref");
        if (!case_begin(key, "ell=%" PRIu64 "..%" PRIu64, e0, e0 + 249 > 10000 ? (uint64_t)10000 : e0 + 249)) continue;
        uint64_t lanes = 0, n = 0;
        for (uint64_t ell = e0; ell < e0 + 250 && ell <= 10000; ell++) {
          // quick tier: the lengths next to every multiple of 64 (where a blocked / unrolled loop changes regime); thorough: all
          if (!th && ((ell + 1) & 63) > 2) continue;
          n++;
          lanes += q120_product_check((q120_kernel_t)k, avx2, ell, FAMS[(ell + k) % ARRAY_LEN(FAMS)], FAMS[(ell / 5 + avx2) % ARRAY_LEN(FAMS)], crng(), (unsigned)ell);
        }
        cnt("product_lanes_checked", lanes);
        cnt("exhaustive_ell_values", n);
        sample("%" PRIu64 " consecutive lengths, %" PRIu64 " lanes congruent", n, lanes);
        case_end(1);
      }
    }
  for (unsigned t = 0; t < (th ? 20000u : 600u); t++) {
    uint64_t h = mix64(t * 31337 + 11);
    uint64_t ell = h % 10001;
    int k = (int)((h >> 20) % N_KERNELS), avx2 = (int)((h >> 24) & 1);
    if (!q120_kernel_has((q120_kernel_t)k, avx2)) avx2 = !avx2;
    int fx = FAMS[(h >> 28) % ARRAY_LEN(FAMS)], fy = FAMS[(h >> 32) % ARRAY_LEN(FAMS)];
    char key[128];
    snprintf(key, sizeof key, "%s_%s|worstcase,sampled-ell", q120_kernel_name[k], avx2 ? "avx2" : "ref");
    if (!case_begin(key, "ell=%" PRIu64 " x=%s y=%s t=%u", ell, q120_fam_name[fx], q120_fam_name[fy], t)) continue;
    cnt("product_lanes_checked", q120_product_check((q120_kernel_t)k, avx2, ell, fx, fy, crng(), t));
    case_end(ell >= 1);
  }
  // traced transforms
  for (int j = 16; j >= 0; j--) {  // the first table a process builds: forward / inverse, large / small, by partition
    const int k = (G.part & 4) ? 16 - j : j;
    if (G.part & 2) T_INTT[k] = q120_new_intt_bb_precomp(1ull << k);
    T_NTT[k] = q120_new_ntt_bb_precomp(1ull << k);
    if (!(G.part & 2)) T_INTT[k] = q120_new_intt_bb_precomp(1ull << k);
  }
  for (unsigned k = 0; k <= 16; k++) {
    const uint64_t n = 1ull << k;
    const unsigned reps = th ? (n <= 1024 ? 150 : (n <= 8192 ? 30 : 10)) : (n <= 256 ? 8 : (n <= 4096 ? 4 : 2));
    for (size_t f = 0; f < ARRAY_LEN(FAMS); f++)
      for (unsigned rep = 0; rep < reps; rep++) traced_case(n, FAMS[f], rep);
  }
  for (unsigned rep = 0; rep < (th ? 400u : 32u); rep++) concurrent_build_case(rep & 1 ? 16 : 4, rep);
  for (unsigned k = 1; k <= (th ? 12u : 8u); k++)
    for (unsigned rep = 0; rep < (th ? 8u : 2u); rep++) climb_case(1ull << k, rep, th ? 400 : 60);
  for (int k = 0; k <= 16; k++) {
    q120_del_ntt_bb_precomp(T_NTT[k]);
    q120_del_intt_bb_precomp(T_INTT[k]);
  }
  // modules / tables created, used and destroyed in random order, several alive at once
  for (unsigned rep = 0; rep < (G.thorough ? 240u : 24u); rep++)
    ops_lifecycle_case("C04 objects", LKM_NTT | LKM_INTT | LKM_BBC | LKM_BAA | LKM_BBB, (rep % 4) == 3 ? DISP_GENERIC : DISP_NATIVE, 160, 0, rep, "lifecycle_uses");
  for (unsigned rep = 0; rep < (G.thorough ? 12u : 6u); rep++)
    ops_lifecycle_case("C04 objects", LKM_BBC | LKM_BAA | LKM_BBB, DISP_NATIVE, 0, (G.thorough && rep < 3) ? 66000 : 300 + 57 * (int)rep, rep, "lifecycle_uses");
  // several threads creating, using and destroying their own modules / tables at the same time
  for (unsigned rep = 0; rep < (G.thorough ? 60u : 8u); rep++)
    ops_concurrent_lifecycle_case("C04 objects", LKM_NTT | LKM_INTT | LKM_BBC | LKM_BAA | LKM_BBB, (rep % 4) == 3 ? DISP_GENERIC : DISP_NATIVE, rep & 1 ? 8 : 4, 120, rep, "concurrent_lifecycle_uses");
}
