// Exact oracles, independent of the library's algorithms.
#ifndef VP_ORACLE_H
#define VP_ORACLE_H
#include "common.h"

// ---------------------------------------------------------------- modular arithmetic (u128 based)
static inline uint64_t mulmod(uint64_t a, uint64_t b, uint64_t m) { return (uint64_t)((u128)a * b % m); }
uint64_t powmod(uint64_t a, uint64_t e, uint64_t m);
uint64_t invmod(uint64_t a, uint64_t m);  // m prime
int is_prime_u64(uint64_t n);
// reduce a signed value modulo m into [0,m)
static inline uint64_t smod(i128 x, uint64_t m) {
  i128 r = x % (i128)m;
  if (r < 0) r += m;
  return (uint64_t)r;
}

// ---------------------------------------------------------------- exact negacyclic product in Z[X]/(X^N+1)
// schoolbook with 128-bit accumulators (exact as long as the true coefficients fit in 127 bits)
void negacyclic_school(uint64_t N, const int64_t* a, const int64_t* b, i128* out);
// sparse-aware exact product: uses schoolbook over the non-zero coefficients of b
// exact product through an oracle-side NTT modulo a 62-bit prime; requires |true coeff| < 2^60.
void negacyclic_ntt(uint64_t N, const int64_t* a, const int64_t* b, i128* out);
// chooses: schoolbook for N<=1024 or sparse operands, NTT otherwise (requires |coeff|<2^60 then)
void negacyclic_exact(uint64_t N, const int64_t* a, const int64_t* b, i128* out);
// self-check of the NTT oracle against schoolbook; returns 0 when consistent
int negacyclic_selfcheck(uint64_t seed);
// generic negacyclic convolution modulo a prime q (inputs reduced), schoolbook or NTT (q ≡ 1 mod 2N needed for NTT)
void negacyclic_modq(uint64_t N, const uint64_t* a, const uint64_t* b, uint64_t* out, uint64_t q);

// ---------------------------------------------------------------- q120
extern const uint64_t Q120[4];
// centred CRT lift of residues r[k] (each < Q120[k]) into [-Q/2, Q/2)
i128 q120_crt_centered(const uint64_t r[4]);
u128 q120_bigQ(void);

// ---------------------------------------------------------------- fixed 1024-bit two's complement integers
#define BIG_W 16
typedef struct {
  uint64_t w[BIG_W];
} big_t;
void big_zero(big_t* x);
void big_add_shifted_i64(big_t* x, int64_t v, unsigned shift);  // x += v * 2^shift
void big_trunc(big_t* x, unsigned bits);                       // x mod 2^bits (as non-negative)
int64_t big_centered_digit(big_t* x, unsigned k);              // d = centred remainder mod 2^k; x = (x-d)>>k
int big_is_zero(const big_t* x);
void big_sext_from(big_t* x, unsigned bits);  // interpret low `bits` bits as signed and sign-extend

// ---------------------------------------------------------------- FFT oracle (long double / float128)
// Forward transform of the reim/cplx family: out[j] = P(omega^(1+4*bitrev_k(j))), omega = exp(i*pi/(2m)),
// P = sum_n (re[n] + i im[n]) X^n, k = log2(m). Computed with an O(m log m) long-double algorithm.
void oracle_fft(uint64_t m, const long double* re, const long double* im, long double* ore, long double* oim);
// Inverse (unnormalised, i.e. m * F^-1): coefficients n = 0..m-1 from evaluations in the order above.
void oracle_ifft(uint64_t m, const long double* re, const long double* im, long double* ore, long double* oim);
// direct evaluation of output j in __float128 (Horner); returns (re, im) as long double
void oracle_eval_q(uint64_t m, const double* re, const double* im, uint64_t j, long double* ore, long double* oim);
uint64_t bitrev(uint64_t x, unsigned bits);

#endif
