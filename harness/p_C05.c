// C05 — base-2^k normalisation yields the unique balanced digit expansion.
// Oracle: 1024-bit two's-complement integers; digits extracted from the definition
// (centred remainder, least significant first), sharing no code with the carry chain.
#include "lib.h"
#include "ops.h"
#include "oracle.h"

// expected digits for one coefficient: limbs a[0..a_size) (limb 0 most significant)
static void oracle_digits(unsigned k, const int64_t* a, uint64_t a_size, int64_t* digits) {
  big_t T;
  big_zero(&T);
  for (uint64_t i = 0; i < a_size; i++) big_add_shifted_i64(&T, a[i], (unsigned)(k * (a_size - 1 - i)));
  for (uint64_t i = a_size; i-- > 0;) digits[i] = big_centered_digit(&T, k);
}

enum { FAM_UNIFORM, FAM_CHAIN_POS, FAM_CHAIN_NEG, FAM_CHAIN_HI, FAM_EXTREME, FAM_SMALL, FAM_MIXED, N_FAM };
static const char* fam_name[] = {"uniform62", "chain+", "chain-", "chain+hi", "extreme", "small", "mixed"};

// value of limb i (of a_size) for coefficient c in the given family
static int64_t gen_limb(rng_t* r, int fam, unsigned k, uint64_t i, uint64_t a_size, uint64_t c) {
  const int64_t half = (int64_t)1 << (k - 1);
  const int64_t lim = (int64_t)1 << 62;
  switch (fam) {
    case FAM_UNIFORM: {
      int64_t v = rng_sbits(r, 62);
      if ((rng_u64(r) & 63) == 0) v = (rng_u64(r) & 1) ? lim : -lim;
      return v;
    }
    case FAM_CHAIN_POS:  // every digit at the upper boundary, a unit carry arrives from the last limb
      return (i == a_size - 1) ? half + (int64_t)(c & 1) : half - 1;
    case FAM_CHAIN_NEG:  // every digit at the lower boundary, a negative unit carry arrives
      return (i == a_size - 1) ? -half - 1 : -half;
    case FAM_CHAIN_HI: {  // boundary digit plus random high part, |value| <= 2^62
      int64_t d = (c & 1) ? half - 1 : -half;
      if (i == a_size - 1) d = (c & 2) ? half : -half - 1;
      if (k >= 62) return d;
      int64_t hi = rng_sbits(r, 62 - k - (k < 61 ? 1 : 0));
      i128 v = (i128)hi * ((i128)1 << k) + d;
      if (v > lim) v = lim;
      if (v < -lim) v = -lim;
      return (int64_t)v;
    }
    case FAM_EXTREME:
      switch ((c + i) % 4) {
        case 0: return lim;
        case 1: return -lim;
        case 2: return lim - 1;
        default: return -lim + 1;
      }
    case FAM_SMALL:
      return rng_range(r, -3, 3);
    default: {
      int f = (int)(rng_u64(r) % FAM_MIXED);
      return gen_limb(r, f, k, i, a_size, c + i);
    }
  }
}

typedef enum { V_SMALL, V_BIG, V_RANGE } variant_t;

// one call of a normalisation entry point, compared coefficient by coefficient with the oracle
static void one_vec_case(const char* entry, variant_t variant, uint64_t N, unsigned k, uint64_t res_size,
                         uint64_t a_size /* selected limbs */, unsigned res_slc, unsigned a_slc, int fam, int inplace,
                         uint64_t rb, uint64_t re, uint64_t rs, int native, unsigned rep) {
  char key[128];
  const int ntt = (native >> 4) & 1;  // bit 4 of `native`: through an NTT120 module (the only module type that exists for N = 1)
  native &= 15;
  snprintf(key, sizeof key, "%s|%s%s%s%s", entry, a_size == 0 ? "a_size=0" : (res_size == 0 ? "res_size=0" : (res_size < a_size ? "res<a" : (res_size == a_size ? "res=a" : "res>a"))),
           inplace ? ",inplace" : "", native ? "" : ",generic", ntt ? ",ntt120 module" : "");
  if (!case_begin(key, "N=%" PRIu64 " k=%u res_size=%" PRIu64 " a_size=%" PRIu64 " res_sl=%u a_sl=%u fam=%s inplace=%d range=%" PRIu64 ":%" PRIu64 ":%" PRIu64 " disp=%s rep=%u",
                  N, k, res_size, a_size, res_slc, a_slc, fam_name[fam], inplace, rb, re, rs, native ? "native" : "generic", rep))
    return;
  rng_t* r = crng();
  const MODULE* mod = get_module(N, ntt ? NTT120 : FFT64, native);
  // source: for the small variant a strided vector, for big variants a VEC_ZNX_BIG (stride N)
  uint64_t a_total = (variant == V_RANGE) ? re : a_size;  // limbs present in the object
  uint64_t a_sl = (variant == V_SMALL) ? stride_choice(N, a_slc) : N;
  uint64_t a_step = (variant == V_RANGE) ? rs : 1, a_first = (variant == V_RANGE) ? rb : 0;
  zvec_t A, R;
  zvec_alloc(&A, N, a_total, a_sl, 8 * (rep % 8));
  // fill every limb of the object (unselected limbs of a range get noise)
  for (uint64_t l = 0; l < a_total; l++)
    for (uint64_t c = 0; c < N; c++) zvec_limb(&A, l)[c] = rng_sbits(r, 62);
  int64_t* sel = malloc((a_size ? a_size : 1) * N * 8);  // sel[i*N+c] = selected limb i
  for (uint64_t i = 0; i < a_size; i++)
    for (uint64_t c = 0; c < N; c++) {
      int64_t v = gen_limb(r, fam, k, i, a_size, c);
      sel[i * N + c] = v;
      zvec_limb(&A, a_first + i * a_step)[c] = v;
    }
  uint64_t res_sl = stride_choice(N, res_slc);
  int64_t* resp;
  if (inplace) {
    // the very same buffer: same pointer and same stride as the (selected) source
    res_sl = A.sl * a_step;
    resp = zvec_limb(&A, a_first);
  } else {
    zvec_alloc(&R, N, res_size, res_sl, 8 * ((rep + 3) % 8));
    zvec_prefill(&R, (int)rep, case_index());
    resp = R.p;
  }
  uint64_t tmpb = (variant == V_SMALL)   ? vec_znx_normalize_base2k_tmp_bytes(mod)
                  : (variant == V_BIG)   ? vec_znx_big_normalize_base2k_tmp_bytes(mod)
                                         : vec_znx_big_range_normalize_base2k_tmp_bytes(mod);
  gbuf_t gt;
  uint8_t* tmp = gb_alloc(&gt, tmpb, 8, 8 * ((rep + 5) % 8), 4096);
  gb_prefill(&gt, (int)rep + 1, 99);
  snap_t sa;
  if (!inplace) zvec_snap(&sa, &A);
  if (variant == V_SMALL)
    vec_znx_normalize_base2k(mod, k, resp, res_size, res_sl, A.p, a_size, a_sl, tmp);
  else if (variant == V_BIG)
    vec_znx_big_normalize_base2k(mod, k, resp, res_size, res_sl, (VEC_ZNX_BIG*)A.p, a_size, tmp);
  else
    vec_znx_big_range_normalize_base2k(mod, k, resp, res_size, res_sl, (VEC_ZNX_BIG*)A.p, rb, re, rs, tmp);
  // compare with the oracle
  int64_t limbs[16], digits[16];
  int chain = 0;
  uint64_t nbad = 0;
  for (uint64_t c = 0; c < N; c++) {
    for (uint64_t i = 0; i < a_size; i++) limbs[i] = sel[i * N + c];
    oracle_digits(k, limbs, a_size, digits);
    // non-triviality: an inter-limb carry is non-zero <=> the digit differs from the isolated centred digit
    for (uint64_t i = 0; i + 1 < a_size; i++) {
      int64_t iso = (int64_t)((uint64_t)limbs[i] << (64 - k)) >> (64 - k);
      if (iso != digits[i]) chain = 1;
    }
    for (uint64_t i = 0; i < res_size; i++) {
      int64_t want = i < a_size ? digits[i] : 0;
      int64_t got = resp[i * res_sl + c];
      if (got != want && nbad++ < 2)
        viol("oracle", "%s: k=%u coeff %" PRIu64 " limb %" PRIu64 ": got %" PRId64 " want %" PRId64 " (res_size=%" PRIu64 " a_size=%" PRIu64 ")", entry, k, c, i, got, want, res_size, a_size);
      if (i < a_size && (got < -((int64_t)1 << (k - 1)) || got >= ((int64_t)1 << (k - 1))) && nbad++ < 2)
        viol("oracle", "%s: digit out of balanced range: k=%u limb %" PRIu64 " value %" PRId64, entry, k, i, got);
    }
  }
  char msg[200];
  if (!inplace) {
    long d = zvec_snap_cmp_free(&sa, &A);
    if (d >= 0) viol("snapshot", "%s modified its source at byte %ld", entry, d);
    if (zvec_check(&R, msg, sizeof msg)) viol("canary", "%s: res: %s", entry, msg);
  }
  if (zvec_check(&A, msg, sizeof msg)) viol("canary", "%s: a: %s", entry, msg);
  long wh;
  if (gb_check(&gt, &wh)) viol("canary", "%s: scratch guard modified at %ld (tmp_bytes=%" PRIu64 ")", entry, wh, tmpb);
  cnt("coefficients_checked", N * res_size);
  cntf("k:%u", 1, k);
  if (chain) cnt("cases_with_interlimb_carry", 1);
  sample("%" PRIu64 " coefficients x %" PRIu64 " output limbs compared with the big-integer digits; interlimb carry %s", N, res_size, chain ? "yes" : "no");
  gb_free(&gt);
  if (!inplace) zvec_free(&R);
  zvec_free(&A);
  free(sel);
  case_end(chain);
}

// ---------------------------------------------------------------- znx_normalize primitive
// shape bits: 1 = out present, 2 = carry_in present, 4 = carry_out present (out absent requires carry_out)
static void prim_check(uint64_t n, unsigned k, const int64_t* in, const int64_t* cin, unsigned shape, int alias,
                       const char* what) {
  gbuf_t gi, gc, go, gco;
  int64_t* bin = gb_alloc(&gi, n * 8, 8, 8, 4096);
  int64_t* bcin = gb_alloc(&gc, n * 8, 8, 16, 4096);
  int64_t* bout = gb_alloc(&go, n * 8, 8, 24, 4096);
  int64_t* bcout = gb_alloc(&gco, n * 8, 8, 32, 4096);
  memcpy(bin, in, n * 8);
  memcpy(bcin, cin, n * 8);
  memset(bout, 0x77, n * 8);
  memset(bcout, 0x77, n * 8);
  int64_t* pout = (shape & 1) ? bout : 0;
  const int64_t* pcin = (shape & 2) ? bcin : 0;
  int64_t* pcout = (shape & 4) ? bcout : 0;
  // supported aliasings (element i is read before element i is written)
  switch (alias) {
    case 1: if (pout) pout = bin; break;                               // out == in
    case 2: if (pcout && pcin) pcout = bcin; break;                    // carry_out == carry_in
    case 3: if (pout) pout = bin; if (pcout && pcin) pcout = bcin; break;
    case 4: if (pcout) pcout = bin; break;                             // carry_out == in
    case 5: if (pout && pcin) pout = bcin; break;                      // out == carry_in
    case 6: if (pout && pcin) pout = bcin; if (pcout) pcout = bin; break;
    default: break;
  }
  if (pout && pout == pcout) pcout = bcout;
  znx_normalize(n, k, pout, pcout, bin, pcin);
  const i128 B = (i128)1 << k;
  uint64_t nbad = 0;
  for (uint64_t i = 0; i < n; i++) {
    i128 s = (i128)in[i] + ((shape & 2) ? (i128)cin[i] : 0);
    i128 d = ((s % B) + B) % B;
    if (d >= B / 2) d -= B;
    i128 c = (s - d) / B;
    if (pout && (i128)pout[i] != d && nbad++ < 2)
      viol("oracle", "znx_normalize[%s shape=%u alias=%d] k=%u in=%" PRId64 " cin=%" PRId64 ": out=%" PRId64 " want %" PRId64, what, shape, alias, k, in[i], (shape & 2) ? cin[i] : 0, pout[i], (int64_t)d);
    if (pcout && (i128)pcout[i] != c && nbad++ < 2)
      viol("oracle", "znx_normalize[%s shape=%u alias=%d] k=%u in=%" PRId64 " cin=%" PRId64 ": carry_out=%" PRId64 " want %" PRId64, what, shape, alias, k, in[i], (shape & 2) ? cin[i] : 0, pcout[i], (int64_t)c);
  }
  long wh;
  if (gb_check(&gi, &wh) || gb_check(&gc, &wh) || gb_check(&go, &wh) || gb_check(&gco, &wh)) viol("canary", "znx_normalize wrote outside its buffers (%ld)", wh);
  cnt("primitive_values_checked", n);
  gb_free(&gi);
  gb_free(&gc);
  gb_free(&go);
  gb_free(&gco);
}
static const unsigned PRIM_SHAPES[] = {1, 3, 5, 7, 4, 6};  // out/cin/cout presence combinations

static void primitive_cases(int th) {
  // exhaustive window for k = 1,2,3 (4 and 5 in thorough): all (in, carry_in) pairs, all shapes, all aliasings
  for (unsigned k = 1; k <= (th ? 5u : 3u); k++) {
    if (!case_begin("znx_normalize|exhaustive-window", "k=%u window=[-2^(k+1),2^(k+1)]^2 shapes=6 alias=0..6", k)) continue;
    int64_t w = (int64_t)1 << (k + 1);
    uint64_t n = (uint64_t)(2 * w + 1) * (uint64_t)(2 * w + 1);
    int64_t* in = malloc(n * 8);
    int64_t* ci = malloc(n * 8);
    uint64_t t = 0;
    for (int64_t x = -w; x <= w; x++)
      for (int64_t c = -w; c <= w; c++) {
        in[t] = x;
        ci[t++] = c;
      }
    for (size_t s = 0; s < ARRAY_LEN(PRIM_SHAPES); s++)
      for (int al = 0; al <= 6; al++) prim_check(n, k, in, ci, PRIM_SHAPES[s], al, "window");
    cntf("exhaustive_pairs:k=%u", n, k);
    sample("all %" PRIu64 " (in,carry_in) pairs x 6 shapes x 7 aliasings", n);
    free(in);
    free(ci);
    case_end(1);
  }
  // every k: boundary and random values
  for (unsigned k = 1; k <= 62; k++) {
    for (unsigned rep = 0; rep < (th ? 40u : 3u); rep++) {
      if (!case_begin("znx_normalize|boundary+random", "k=%u rep=%u", k, rep)) continue;
      rng_t* r = crng();
      uint64_t n = 257;
      int64_t in[257], ci[257];
      const int64_t half = (int64_t)1 << (k - 1), lim = (int64_t)1 << 62;
      // documented carry range: "at most 64+1-k bits"; capped at 2^62 like the limbs (k = 1, 2)
      const unsigned cbits = (64 - k) > 62 ? 62 : (64 - k);
      for (uint64_t i = 0; i < n; i++) {
        switch (i % 8) {
          case 0: in[i] = half - 1; break;
          case 1: in[i] = half; break;
          case 2: in[i] = -half; break;
          case 3: in[i] = -half - 1; break;
          case 4: in[i] = (i & 8) ? lim : -lim; break;
          default: in[i] = rng_sbits(r, 62);
        }
        if (i % 8 <= 3 && k < 61 && (i & 16)) {
          i128 v = (i128)in[i] + (i128)rng_sbits(r, 61 - k) * ((i128)1 << k);
          in[i] = (int64_t)v;
        }
        int64_t c = cbits ? rng_sbits(r, cbits) : 0;
        if (i % 3 == 0) c = rng_range(r, -1, 1);
        if (i % 5 == 0 && cbits) c = (c < 0 ? -1 : 1) * (((int64_t)1 << cbits) - ((k <= 2 && (i % 10 == 0)) ? 0 : 1));  // +-2^62 itself for k <= 2
        ci[i] = c;
      }
      for (size_t s = 0; s < ARRAY_LEN(PRIM_SHAPES); s++)
        for (int al = 0; al <= 6; al += (th ? 1 : 3)) prim_check(n, k, in, ci, PRIM_SHAPES[s], al, "boundary");
      sample("257 values (digit boundaries +-1, +-2^62, random) x 6 shapes");
      case_end(1);
    }
  }
}

// exhaustive vec-level enumeration for small k and a_size <= 3: every limb-value combination of a
// window, packed as coefficients of one call
static void vec_exhaustive(int th) {
  for (unsigned k = 1; k <= 3; k++)
    for (uint64_t a_size = 1; a_size <= 3; a_size++)
      for (uint64_t res_size = 1; res_size <= a_size + 1; res_size++) {
        int64_t w = (int64_t)1 << (k + 1);
        if (!th && k == 3 && a_size == 3) w = 1 << k;  // quick: smaller window for the largest box
        uint64_t side = (uint64_t)(2 * w + 1);
        uint64_t total = 1;
        for (uint64_t i = 0; i < a_size; i++) total *= side;
        uint64_t N = 1;
        while (N < total) N <<= 1;
        if (N < 2) N = 2;
        if (!case_begin("vec_znx_normalize_base2k|exhaustive-window", "k=%u a_size=%" PRIu64 " res_size=%" PRIu64 " window=+-%" PRId64 " combos=%" PRIu64 " N=%" PRIu64, k, a_size, res_size, w, total, N)) continue;
        const MODULE* mod = get_module(N, FFT64, 1);
        zvec_t A, R;
        zvec_alloc(&A, N, a_size, N + 1, 8);
        zvec_alloc(&R, N, res_size, N, 16);
        zvec_prefill(&R, 3, k);
        for (uint64_t c = 0; c < N; c++) {
          uint64_t t = c % total;
          for (uint64_t i = 0; i < a_size; i++) {
            zvec_limb(&A, i)[c] = (int64_t)(t % side) - w;
            t /= side;
          }
        }
        gbuf_t gt;
        uint8_t* tmp = gb_alloc(&gt, vec_znx_normalize_base2k_tmp_bytes(mod), 8, 8, 4096);
        vec_znx_normalize_base2k(mod, k, R.p, res_size, R.sl, A.p, a_size, A.sl, tmp);
        int64_t limbs[4], digits[4];
        uint64_t nbad = 0;
        for (uint64_t c = 0; c < total; c++) {
          for (uint64_t i = 0; i < a_size; i++) limbs[i] = zvec_limb(&A, i)[c];
          oracle_digits(k, limbs, a_size, digits);
          for (uint64_t i = 0; i < res_size; i++) {
            int64_t want = i < a_size ? digits[i] : 0;
            if (zvec_limb(&R, i)[c] != want && nbad++ < 2) viol("oracle", "vec_znx_normalize_base2k exhaustive: k=%u limbs=(%" PRId64 ",%" PRId64 ",%" PRId64 ") limb %" PRIu64 ": got %" PRId64 " want %" PRId64, k, limbs[0], a_size > 1 ? limbs[1] : 0, a_size > 2 ? limbs[2] : 0, i, zvec_limb(&R, i)[c], want);
          }
        }
        char msg[200];
        if (zvec_check(&A, msg, sizeof msg) || zvec_check(&R, msg, sizeof msg)) viol("canary", "%s", msg);
        cnt("exhaustive_limb_combinations", total);
        cnt("coefficients_checked", total * res_size);
        sample("every one of %" PRIu64 " limb-value combinations checked", total);
        gb_free(&gt);
        zvec_free(&A);
        zvec_free(&R);
        case_end(a_size >= 2);
      }
}

// the 1024-bit digit oracle cross-checked against plain 128-bit arithmetic where the latter suffices
static void oracle_selfcheck(void) {
  rng_t r;
  rng_seed(&r, G.seed, 4242);
  for (int t = 0; t < 20000; t++) {
    unsigned k = 1 + (unsigned)(rng_u64(&r) % 30);
    uint64_t as = 1 + rng_u64(&r) % 3;  // k*as <= 90 bits, limbs < 2^30: T fits in 128 bits
    int64_t a[3], dg[3];
    i128 T = 0;
    for (uint64_t i = 0; i < as; i++) {
      a[i] = rng_sbits(&r, 30);
      T = T * ((i128)1 << k) + a[i];
    }
    oracle_digits(k, a, as, dg);
    // reconstruct: sum dg_i 2^(k(as-1-i)) == T modulo 2^(k*as), digits balanced
    i128 R = 0;
    for (uint64_t i = 0; i < as; i++) {
      if (dg[i] < -((int64_t)1 << (k - 1)) || dg[i] >= ((int64_t)1 << (k - 1))) harness_fail("digit oracle self-check: digit out of range");
      R = R * ((i128)1 << k) + dg[i];
    }
    i128 mod = (i128)1 << (k * as);
    if (((T - R) % mod) != 0) harness_fail("digit oracle self-check: reconstruction mismatch (k=%u a_size=%" PRIu64 ")", k, as);
  }
  cnt("oracle_selfcheck_ok", 1);
}

void run_C05(void) {
  const int th = G.thorough;
  {
    static const char* const CNAMES[] = {"vec_znx_normalize_base2k", "vec_znx_normalize_base2k(res==a)", "vec_znx_big_normalize_base2k", "vec_znx_big_range_normalize_base2k", "znx_normalize"};
    static const uint64_t CNS[] = {2, 8, 256, 4096, 65536};
    for (size_t i = 0; i < ARRAY_LEN(CNS); i++)
      for (int cfg = DISP_NATIVE; cfg >= DISP_GENERIC; cfg--)
        for (unsigned rep = 0; rep < (th ? 5u : 1u); rep++) {
          if (!th && CNS[i] > 4096 && cfg == DISP_GENERIC) continue;
          ops_concurrent_case("C05 entry points", CNAMES, (int)ARRAY_LEN(CNAMES), CNS[i], cfg, CNS[i] <= 256 ? 8 : 4, rep, "concurrent_entry_calls");
        }
  }
  oracle_selfcheck();
  static const uint64_t smallN[] = {2, 4, 8, 16, 32, 64};
  primitive_cases(th);
  vec_exhaustive(th);
  const uint64_t SMAX = 8;
  unsigned ctr = 0;
  // small variant: every k, every (res_size, a_size) in {0..8}^2
  for (unsigned k = 1; k <= 62; k++)
    for (uint64_t rs = 0; rs <= SMAX; rs++)
      for (uint64_t as = 0; as <= SMAX; as++) {
        unsigned reps = th ? 40 : 3;
        for (unsigned rep = 0; rep < reps; rep++, ctr++) {
          // the carry-chain families matter most when limbs are dropped: rotate through all families
          int fam = (int)((ctr + rep) % N_FAM);
          uint64_t N = smallN[(ctr / 7) % ARRAY_LEN(smallN)];
          one_vec_case("vec_znx_normalize_base2k", V_SMALL, N, k, rs, as, ctr % 4, (ctr / 4) % 4, fam, 0, 0, 0, 0, 1, rep);
        }
      }
  // carry chains through many dropped limbs, all k (the chain families on a_size - res_size up to 8)
  for (unsigned k = 1; k <= 62; k++)
    for (uint64_t rs = 1; rs <= 2; rs++)
      for (uint64_t as = rs + 1; as <= SMAX; as++)
        for (int fam = FAM_CHAIN_POS; fam <= FAM_CHAIN_HI; fam++)
          one_vec_case("vec_znx_normalize_base2k", V_SMALL, 8, k, rs, as, 0, 1, fam, 0, 0, 0, 0, 1, 100);
  // many limbs (9..15): loops over limbs that are unrolled or blocked change regime above the small box
  {
    static const uint64_t BIGS[][2] = {{9, 15}, {15, 9}, {12, 12}, {1, 15}, {15, 15}, {10, 11}, {13, 7}, {7, 13}, {16, 16}, {2, 16}};
    for (unsigned k = 1; k <= 62; k += (th ? 1 : 2))
      for (size_t q = 0; q < ARRAY_LEN(BIGS); q++) {
        ctr++;
        if (BIGS[q][1] * k > 900) continue;  // the digit oracle holds 1024 bits
        one_vec_case("vec_znx_normalize_base2k", V_SMALL, smallN[ctr % 6], k, BIGS[q][0], BIGS[q][1], ctr % 4, (ctr / 4) % 4, (int)(ctr % N_FAM), 0, 0, 0, 0, (int)(ctr & 1), 200);
        if (BIGS[q][0] <= BIGS[q][1] && (ctr % 3) == 0) one_vec_case("vec_znx_normalize_base2k", V_SMALL, 8, k, BIGS[q][0], BIGS[q][1], 0, 0, (int)(ctr % N_FAM), 1, 0, 0, 0, 1, 200);
      }
  }
  // in place (res == a, same stride), equal and unequal sizes; generic dispatch; large N
  for (unsigned k = 1; k <= 62; k += (th ? 1 : 3))
    for (uint64_t rs = 0; rs <= 4; rs++)
      for (uint64_t as = 0; as <= 4; as++) {
        ctr++;
        if (rs <= as) one_vec_case("vec_znx_normalize_base2k", V_SMALL, 16, k, rs, as, 0, ctr % 4, (int)(ctr % N_FAM), 1, 0, 0, 0, 1, 0);
        one_vec_case("vec_znx_normalize_base2k", V_SMALL, 8, k, rs, as, ctr % 4, (ctr / 4) % 4, (int)(ctr % N_FAM), 0, 0, 0, 0, 0, 0);
      }
  for (unsigned k = 1; k <= 62; k += (th ? 4 : 15)) {
    one_vec_case("vec_znx_normalize_base2k", V_SMALL, 1024, k, 3, 4, 1, 2, FAM_MIXED, 0, 0, 0, 0, 1, 0);
    one_vec_case("vec_znx_normalize_base2k", V_SMALL, 65536, k, 2, 3, 0, 1, FAM_MIXED, 0, 0, 0, 0, 1, 0);
  }
  // through NTT120 modules, N = 1 included (no FFT64 module exists there): every k, the size box, contiguous and strided
  {
    static const uint64_t NN[] = {1, 2, 4, 16};
    for (size_t ni = 0; ni < ARRAY_LEN(NN); ni++)
      for (unsigned k = 1; k <= 62; k += (th || NN[ni] == 1 ? 1 : 5))
        for (uint64_t rs = 0; rs <= 4; rs++)
          for (uint64_t as = 0; as <= 4; as++) {
            ctr++;
            if (NN[ni] != 1 && !th && (ctr % 3)) continue;
            one_vec_case("vec_znx_normalize_base2k", V_SMALL, NN[ni], k, rs, as, ctr % 4, (ctr / 4) % 4, (int)(ctr % N_FAM), 0, 0, 0, 0, 1 | 16, 300);
            if (rs <= as && (ctr % 4) == 0) one_vec_case("vec_znx_normalize_base2k", V_SMALL, NN[ni], k, rs, as, 0, ctr % 4, (int)(ctr % N_FAM), 1, 0, 0, 0, 1 | 16, 300);
          }
  }
  // big variant
  for (unsigned k = 1; k <= 62; k += (th ? 1 : 2))
    for (uint64_t rs = 0; rs <= 5; rs++)
      for (uint64_t as = 0; as <= 5; as++) {
        ctr++;
        one_vec_case("vec_znx_big_normalize_base2k", V_BIG, smallN[ctr % 6], k, rs, as, ctr % 4, 0, (int)(ctr % N_FAM), 0, 0, 0, 0, 1, 0);
        if (rs <= as && (ctr % 3) == 0) one_vec_case("vec_znx_big_normalize_base2k", V_BIG, 8, k, rs, as, 0, 0, (int)(ctr % N_FAM), 1, 0, 0, 0, 1, 0);
      }
  // range variant: all (begin, end, step) with begin <= end <= 6, step 1..3
  for (uint64_t b = 0; b <= 6; b++)
    for (uint64_t e = b; e <= 6; e++)
      for (uint64_t s = 1; s <= 3; s++) {
        uint64_t nsel = (e + s - 1 - b) / s;
        for (uint64_t rs = 0; rs <= 4; rs++) {
          unsigned nk = th ? 62 : 6;
          for (unsigned t = 0; t < nk; t++) {
            ctr++;
            unsigned k = 1 + (unsigned)((ctr * 7 + t * 13) % 62);
            one_vec_case("vec_znx_big_range_normalize_base2k", V_RANGE, smallN[ctr % 6], k, rs, nsel, ctr % 4, 0, (int)(ctr % N_FAM), 0, b, e, s, 1, t);
          }
        }
        // in place on the selected limbs (same pointer, same stride) when the output fits in the selection
        if (nsel >= 1) one_vec_case("vec_znx_big_range_normalize_base2k", V_RANGE, 8, 1 + (unsigned)(ctr % 62), nsel, nsel, 0, 0, FAM_MIXED, 1, b, e, s, 1, 0);
      }
  // the entry points of this property called a second time on the SAME buffers holding other data (new values, two limbs exchanged,
  // one word moved between limbs): must equal a fresh call on that data (results or operands remembered by address)
  {
    static const char* const RNAMES[] = {"vec_znx_normalize_base2k", "vec_znx_normalize_base2k(res==a)", "vec_znx_big_normalize_base2k", "vec_znx_big_range_normalize_base2k", "znx_normalize"};
    static const uint64_t RN[] = {2, 16, 64, 1024};
    for (size_t i = 0; i < ARRAY_LEN(RN); i++)
      for (int cfg = DISP_NATIVE; cfg >= DISP_GENERIC; cfg--) {
        if (cfg == DISP_GENERIC && (i & 1)) continue;
        ops_recontent_case("C05 entry points", RNAMES, (int)ARRAY_LEN(RNAMES), RN[i], cfg, G.thorough ? 40 : 6, (unsigned)i, "same_buffers_other_data_calls");
      }
    // and from a thread with a small stack, at the largest dimensions
    for (int cfg = DISP_NATIVE; cfg >= DISP_GENERIC; cfg--) {
      ops_small_stack_case("C05 entry points", RNAMES, (int)ARRAY_LEN(RNAMES), 65536, cfg, 256, G.thorough ? 4 : 1, 0, "small_stack_calls");
      ops_small_stack_case("C05 entry points", RNAMES, (int)ARRAY_LEN(RNAMES), 16384, cfg, 256, G.thorough ? 4 : 2, 1, "small_stack_calls");
    }
  }
}
