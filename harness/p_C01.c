// C01 — FFT64 negacyclic product exact within the documented 52-bit budget.
// Oracle: exact product in Z[X]/(X^N+1) (schoolbook / oracle NTT modulo a 62-bit prime), and the
// error budget E computed in long double from the actual operands.
#include "lib.h"
#include "ops.h"
#include "oracle.h"

enum { F_UNIFORM, F_ALLMAX, F_ALTERNATING, F_RESONANT, F_SPARSE, F_ONEHUGE, F_BOUNDARY, F_FRONTIER, F_SMALL, F_GEOMETRIC, F_TWOLEVEL, F_BLOCKSIGN, NFAM };
static const char* famn[] = {"uniform", "allmax", "alternating", "resonant", "sparse", "onehuge", "boundary", "frontier", "small", "geometric", "twolevel", "blocksign"};
#define LIM50 (((int64_t)1 << 50) - 1)

typedef struct {
  long double n1, n2, ninf;
} norms_t;
static norms_t norms(uint64_t N, const int64_t* a) {
  norms_t r = {0, 0, 0};
  long double s2 = 0;
  for (uint64_t i = 0; i < N; i++) {
    long double v = fabsl((long double)a[i]);
    r.n1 += v;
    s2 += v * v;
    if (v > r.ninf) r.ninf = v;
  }
  r.n2 = sqrtl(s2);
  return r;
}
static int in_domain(uint64_t N, const int64_t* a, const int64_t* b) {
  norms_t na = norms(N, a), nb = norms(N, b);
  if (na.ninf >= 0x1p50L || nb.ninf >= 0x1p50L) return 0;
  long double x = na.n1 * nb.ninf, y = na.ninf * nb.n1;
  return (x < y ? x : y) < 0x1p52L * (1 - 0x1p-40L);
}
long double c01_budget_E(uint64_t N, const int64_t* a, const int64_t* b) {
  norms_t na = norms(N, a), nb = norms(N, b);
  return 8.0L * (long double)ilog2(N) * 0x1p-53L * (na.n1 * nb.n2 + na.n2 * nb.n1);
}

// generate an operand pair inside the documented domain
void c01_gen_pair(rng_t* r, int fam, uint64_t N, int64_t* a, int64_t* b) {
  const unsigned lg = ilog2(N);
  memset(a, 0, N * 8);
  memset(b, 0, N * 8);
  switch (fam) {
    case F_UNIFORM: {
      int tot = 51 - (int)lg;  // ba + bb <= 51 - log2 N  =>  N * 2^ba * 2^bb < 2^52
      int ba = (int)rng_range(r, 1, tot - 1 > 49 ? 49 : tot - 1);
      int bb = tot - ba;
      if (bb > 49) bb = 49;
      if (bb < 1) bb = 1;
      for (uint64_t i = 0; i < N; i++) {
        a[i] = rng_sbits(r, (unsigned)ba);
        b[i] = rng_sbits(r, (unsigned)bb);
      }
      break;
    }
    case F_ALLMAX:
    case F_ALTERNATING:
    case F_RESONANT: {
      int tot = 51 - (int)lg;
      int ba = (int)rng_range(r, 1, tot - 1 > 49 ? 49 : tot - 1);
      int bb = tot - ba;
      if (bb > 49) bb = 49;
      int64_t A = ((int64_t)1 << ba) - 1, B = ((int64_t)1 << bb) - 1;
      uint64_t t = (uint64_t)rng_range(r, 0, (int64_t)N - 1), u = (uint64_t)rng_range(r, 0, (int64_t)N - 1);
      for (uint64_t i = 0; i < N; i++) {
        int sa = 1, sb = 1;
        if (fam == F_ALTERNATING) {
          sa = (i & 1) ? -1 : 1;
          sb = ((i >> (t % (lg ? lg : 1))) & 1) ? -1 : 1;
        } else if (fam == F_RESONANT) {
          // sign pattern aligned with the root omega^(2t+1): all the energy of the operand lands on one evaluation
          sa = cosl(3.14159265358979323846L * (long double)((2 * t + 1) * i % (2 * N)) / (long double)N) >= 0 ? 1 : -1;
          sb = cosl(3.14159265358979323846L * (long double)((2 * u + 1) * i % (2 * N)) / (long double)N) >= 0 ? 1 : -1;
          if (rng_u64(r) & 1) u = t;
        }
        a[i] = sa * A;
        b[i] = sb * B;
      }
      break;
    }
    case F_SPARSE: {
      int spikes = (int)rng_range(r, 1, 3);
      for (int s = 0; s < spikes; s++) a[rng_range(r, 0, (int64_t)N - 1)] = (rng_u64(r) & 1) ? LIM50 : -LIM50;
      int64_t bm = spikes == 1 ? 3 : 1;  // |a|_1 * |b|_inf < 2^52
      for (uint64_t i = 0; i < N; i++) b[i] = rng_range(r, -bm, bm);
      break;
    }
    case F_ONEHUGE: {
      // one coefficient near 2^50, all others small; b dense small
      for (uint64_t i = 0; i < N; i++) a[i] = rng_range(r, -7, 7);
      a[rng_range(r, 0, (int64_t)N - 1)] = (rng_u64(r) & 1) ? LIM50 : -LIM50;
      for (uint64_t i = 0; i < N; i++) b[i] = rng_range(r, -1, 1);
      b[rng_range(r, 0, (int64_t)N - 1)] = (rng_u64(r) & 1) ? 1 : -1;
      break;
    }
    case F_BOUNDARY: {
      // |a|_1 * |b|_inf just below 2^52 with |b|_inf = B
      int bb = (int)rng_range(r, 1, 49 - (lg > 2 ? 2 : 0));
      int64_t B = ((int64_t)1 << bb) - (int64_t)rng_range(r, 0, 1);
      if (B < 1) B = 1;
      i128 target = ((((i128)1 << 52) - 1) / B);  // sum |a_i| <= target
      i128 per = target / (i128)N;
      if (per > LIM50) per = LIM50;
      i128 used = 0;
      for (uint64_t i = 0; i < N; i++) {
        i128 v = per;
        if (v > 0 && (rng_u64(r) & 3) == 0) v = (i128)(rng_u64(r) % (uint64_t)(per + 1));
        used += v;
        a[i] = (int64_t)((rng_u64(r) & 1) ? v : -v);
      }
      // give the remainder to coefficients that still have room
      for (uint64_t i = 0; i < N && used < target; i++) {
        i128 cur = a[i] < 0 ? -(i128)a[i] : a[i];
        i128 room = LIM50 - cur;
        i128 add = target - used < room ? target - used : room;
        cur += add;
        used += add;
        a[i] = (int64_t)(a[i] < 0 ? -cur : cur);
      }
      for (uint64_t i = 0; i < N; i++) b[i] = (rng_u64(r) & 1) ? B : -B;
      if (rng_u64(r) & 1)
        for (uint64_t i = 0; i < N; i++)
          if (rng_u64(r) & 1) b[i] = rng_range(r, -B, B);
      b[0] = B;
      break;
    }
    case F_FRONTIER: {
      // largest operands for which the property demands exact equality: E in [0.3, 0.5)
      long double want = 0.45L * 0x1p53L / (16.0L * (long double)(lg ? lg : 1) * powl((long double)N, 1.5L));
      long double sa = sqrtl(want) * powl(2.0L, (long double)rng_range(r, -8, 8));
      long double sb = want / sa;
      if (sa > 0x1p49L) sa = 0x1p49L;
      if (sb > 0x1p49L) sb = 0x1p49L;
      int64_t A = (int64_t)sa, B = (int64_t)sb;
      if (A < 1) A = 1;
      if (B < 1) B = 1;
      for (uint64_t i = 0; i < N; i++) {
        a[i] = (rng_u64(r) & 1) ? A : -A;
        b[i] = (rng_u64(r) & 1) ? B : -B;
      }
      // shrink until E < 1/2 and the domain holds
      for (int it = 0; it < 200 && (!in_domain(N, a, b) || c01_budget_E(N, a, b) >= 0.4995L); it++)
        for (uint64_t i = 0; i < N; i++) b[i] -= b[i] / 16 + (b[i] > 0 ? 1 : (b[i] < 0 ? -1 : 0)) * (llabs(b[i]) > 1);
      break;
    }
    case F_GEOMETRIC: {
      // magnitudes decaying geometrically from 2^48 to 1 (mixed magnitudes inside one operand); b small dense
      for (uint64_t i = 0; i < N; i++) {
        double e = 48.0 * (1.0 - (double)i / (double)N);
        int64_t v = (int64_t)ldexp(1.0, (int)e);
        a[(rng_u64(r) & 1) ? i : N - 1 - i] = (rng_u64(r) & 1) ? v : -v;
        b[i] = rng_range(r, -1, 1);
      }
      break;
    }
    case F_TWOLEVEL: {
      // half of the coefficients large, half tiny, in both operands (the safety net scales b into the domain)
      int ba = (int)rng_range(r, 20, 44), bb = (int)rng_range(r, 4, 20);
      for (uint64_t i = 0; i < N; i++) {
        a[i] = (rng_u64(r) & 1) ? rng_sbits(r, (unsigned)ba) : rng_range(r, -2, 2);
        b[i] = (rng_u64(r) & 1) ? rng_sbits(r, (unsigned)bb) : rng_range(r, -2, 2);
      }
      break;
    }
    case F_BLOCKSIGN: {
      // sign pattern constant on blocks of length 2^j (energy concentrated on few evaluation points)
      int tot = 51 - (int)lg;
      int ba = tot / 2, bb = tot - ba;
      if (ba < 1) ba = 1;
      if (bb < 1) bb = 1;
      int64_t A = ((int64_t)1 << ba) - 1, B = ((int64_t)1 << bb) - 1;
      unsigned j = (unsigned)rng_range(r, 0, lg ? lg - 1 : 0), j2 = (unsigned)rng_range(r, 0, lg ? lg - 1 : 0);
      for (uint64_t i = 0; i < N; i++) {
        a[i] = ((i >> j) & 1) ? -A : A;
        b[i] = ((i >> j2) & 1) ? -B : B;
      }
      break;
    }
    default:
      for (uint64_t i = 0; i < N; i++) {
        a[i] = rng_range(r, -3, 3);
        b[i] = rng_range(r, -3, 3);
      }
  }
  // safety net: never leave the documented domain (shrink b)
  for (int it = 0; it < 64 && !in_domain(N, a, b); it++)
    for (uint64_t i = 0; i < N; i++) b[i] /= 2;
}

static void check_product(const char* what, uint64_t N, const int64_t* a, const int64_t* b, const int64_t* got, i128* exact) {
  long double E = c01_budget_E(N, a, b);
  long double tol = (E + 0.5L) * (1 + 0x1p-40L);
  negacyclic_exact(N, a, b, exact);
  long double worst = 0;
  uint64_t nbad = 0;
  for (uint64_t i = 0; i < N; i++) {
    i128 d = (i128)got[i] - exact[i];
    long double ad = fabsl((long double)d);
    if (ad > worst) worst = ad;
    if (ad > tol && nbad++ < 2)
      viol("oracle", "%s: N=%" PRIu64 " coeff %" PRIu64 ": got %" PRId64 " exact %" PRId64 " |err|=%.3Lg budget E+1/2=%.3Lg", what, N, i, got[i], (int64_t)exact[i], ad, tol);
  }
  gauge_max("worst_abs_error", (double)worst);
  gauge_max("worst_err_over_budget", (double)(worst / (E + 0.5L)));
  if (E < 0.5L) cnt("exact_regime_products", 1);
  else cnt("budget_regime_products", 1);
  if (E >= 0.3L && E < 0.5L) cnt("frontier_products", 1);
  cnt("products_checked", 1);
}

// dispatch configuration in case keys: "" native, else ",generic" / ",avx2-only" / ",fma-only" (hook H1 masks the two CPU features separately)
static const char* dsfx(int cfg) { return cfg == DISP_NATIVE ? "" : (cfg == DISP_GENERIC ? ",generic" : (cfg == DISP_AVX2_ONLY ? ",avx2-only" : ",fma-only")); }
static void small_product_case(uint64_t N, int fam, int native, unsigned rep) {
  char key[96];
  snprintf(key, sizeof key, "znx_small_single_product|%s%s", famn[fam], dsfx(native));
  if (!case_begin(key, "N=%" PRIu64 " fam=%s disp=%s rep=%u", N, famn[fam], disp_name[native & 3], rep)) return;
  const MODULE* mod = get_module(N, FFT64, native);
  gbuf_t ga, gb, gr, gt;
  int64_t* a = gb_alloc(&ga, N * 8, 8, 8 * (rep % 8), 4096);
  int64_t* b = gb_alloc(&gb, N * 8, 8, 8 * ((rep + 1) % 8), 4096);
  int64_t* res = gb_alloc(&gr, N * 8, 8, 8 * ((rep + 2) % 8), 4096);
  uint64_t tb = znx_small_single_product_tmp_bytes(mod);
  uint8_t* tmp = gb_alloc(&gt, tb, 8, 8 * ((rep + 3) % 8), 4096);
  gb_prefill(&gt, 2, 0);
  gb_prefill(&gr, (int)rep, 5);
  c01_gen_pair(crng(), fam, N, a, b);
  snap_t sa, sb;
  snap_take(&sa, a, N * 8);
  snap_take(&sb, b, N * 8);
  znx_small_single_product(mod, res, a, b, tmp);
  i128* exact = malloc(N * 16);
  check_product("znx_small_single_product", N, a, b, res, exact);
  if (snap_cmp_free(&sa) >= 0 || snap_cmp_free(&sb) >= 0) viol("snapshot", "znx_small_single_product modified an input");
  long wh;
  if (gb_check(&ga, &wh) || gb_check(&gb, &wh) || gb_check(&gr, &wh) || gb_check(&gt, &wh)) viol("canary", "znx_small_single_product wrote outside a buffer (%ld)", wh);
  int nz = 0;
  for (uint64_t i = 0; i < N; i++) nz |= (a[i] != 0) << 0 | (b[i] != 0) << 1;
  sample("E=%.3Lg", c01_budget_E(N, a, b));
  cntf("N:%" PRIu64, 1, N);
  free(exact);
  gb_free(&ga);
  gb_free(&gb);
  gb_free(&gr);
  gb_free(&gt);
  case_end(nz == 3 && N >= 4);
}

static void svp_case(uint64_t N, int fam, int native, int tmp_a, uint64_t res_size, uint64_t a_size, unsigned aslc, unsigned rep) {
  char key[128];
  // tmp_a: 0 idft, 1 idft_tmp_a, 2 idft writing over its own input (res == a_dft);
  // +4: the DFT vector has only min(a_size, res_size) rows, so the zero rows come from the inverse DFT, not from svp_apply_dft
  // +8: the DFT vector has two rows more than the output (the inverse DFT truncates)
  const int short_dft = (tmp_a & 4) != 0, long_dft = (tmp_a & 8) != 0;
  tmp_a &= 3;
  static const char* const idn[] = {"idft", "idft_tmp_a", "idft(res==a_dft)"};
  snprintf(key, sizeof key, "svp_apply_dft+%s%s|%s,%s%s", idn[tmp_a], short_dft ? ",short-dft" : (long_dft ? ",long-dft" : ""), famn[fam], res_size > a_size ? "res>a" : (res_size == a_size ? "res=a" : "res<a"), dsfx(native));
  if (!case_begin(key, "N=%" PRIu64 " fam=%s disp=%s res=%" PRIu64 " a=%" PRIu64 " asl=%u rep=%u", N, famn[fam], disp_name[native & 3], res_size, a_size, aslc, rep)) return;
  rng_t* r = crng();
  const MODULE* mod = get_module(N, FFT64, native);
  const uint64_t dsize = short_dft ? (a_size < res_size ? a_size : res_size) : (long_dft ? res_size + 2 : res_size);
  zvec_t A;
  zvec_alloc(&A, N, a_size, stride_choice(N, aslc), 8 * (rep % 8));
  gbuf_t gb, gp, gd, gbig, gt;
  int64_t* b = gb_alloc(&gb, N * 8, 8, 8 * ((rep + 1) % 8), 4096);
  SVP_PPOL* ppol = gb_alloc(&gp, bytes_of_svp_ppol(mod), 8, 8 * ((rep + 2) % 8), 4096);
  // allocation order of the two objects alternates (with the adjacent placements: which one lies just below the other)
  VEC_ZNX_DFT* dft = 0;
  VEC_ZNX_BIG* big = 0;
  for (int o = 0; o < 2; o++) {
    if ((o ^ (int)(rep & 1)) == 0) dft = gb_alloc(&gd, bytes_of_vec_znx_dft(mod, dsize > res_size ? dsize : res_size), 8, 8 * ((rep + 3) % 8), 4096);
    else big = gb_alloc(&gbig, bytes_of_vec_znx_big(mod, res_size), 8, 8 * ((rep + 4) % 8), 4096);
  }
  uint8_t* tmp = gb_alloc(&gt, vec_znx_idft_tmp_bytes(mod), 8, 8, 4096);
  gb_prefill(&gp, 2, 0);
  gb_prefill(&gd, (int)rep, 1);
  gb_prefill(&gbig, (int)rep + 1, 2);
  // all limbs of a share the operand b: generate b with the first limb, other limbs re-drawn against the same b
  int64_t* a0 = malloc(N * 8);
  c01_gen_pair(r, fam, N, a0, b);
  for (uint64_t l = 0; l < a_size; l++) {
    int64_t* al = zvec_limb(&A, l);
    if (l == 0)
      memcpy(al, a0, N * 8);
    else {
      // permuted / negated copies of a0 keep every norm, hence stay in the domain
      uint64_t sh = (uint64_t)rng_range(r, 0, (int64_t)N - 1);
      for (uint64_t i = 0; i < N; i++) al[i] = ((l & 1) ? -1 : 1) * a0[(i + sh) % N];
    }
  }
  snap_t sa, sb;
  zvec_snap(&sa, &A);
  snap_take(&sb, b, N * 8);
  svp_prepare(mod, ppol, b);
  if (snap_cmp_free(&sb) >= 0) viol("snapshot", "svp_prepare modified its input");
  // the prepared polynomial is a value of its own: the integer polynomial is overwritten before the product is made
  int64_t* const b0 = malloc(N * 8 + 8);
  memcpy(b0, b, N * 8);
  fill_pattern((uint8_t*)b, N * 8, 3, case_index() * 7 + 3);
  cnt("prepare_arguments_overwritten_before_use", 1);
  snap_t sp;
  snap_take(&sp, ppol, bytes_of_svp_ppol(mod));
  svp_apply_dft(mod, dft, dsize, ppol, A.p, a_size, A.sl);
  if (snap_cmp_free(&sp) >= 0) viol("snapshot", "svp_apply_dft modified the prepared polynomial");
  if (tmp_a == 1)
    vec_znx_idft_tmp_a(mod, big, res_size, dft, dsize);
  else if (tmp_a == 2)
    vec_znx_idft(mod, (VEC_ZNX_BIG*)dft, res_size, dft, dsize, tmp);  // rows >= dsize of the buffer still hold the pre-fill
  else
    vec_znx_idft(mod, big, res_size, dft, dsize, tmp);
  i128* exact = malloc(N * 16);
  const int64_t* out = tmp_a == 2 ? (const int64_t*)dft : (const int64_t*)big;
  cntf("idft_variant:%s%s", 1, idn[tmp_a], short_dft ? ",short-dft" : (long_dft ? ",long-dft" : ""));
  for (uint64_t l = 0; l < res_size; l++) {
    if (l < a_size)
      check_product(tmp_a ? "svp+idft_tmp_a" : "svp+idft", N, zvec_limb(&A, l), b0, out + l * N, exact);
    else {
      for (uint64_t i = 0; i < N; i++)
        if (out[l * N + i] != 0) {
          viol("oracle", "svp path: output row %" PRIu64 " >= a_size=%" PRIu64 " is not zero (coeff %" PRIu64 " = %" PRId64 ")", l, a_size, i, out[l * N + i]);
          break;
        }
      cnt("zero_rows_checked", 1);
    }
  }
  long d;
  if ((d = zvec_snap_cmp_free(&sa, &A)) >= 0) viol("snapshot", "svp path modified input a at byte %ld", d);
  free(b0);
  char msg[200];
  long wh;
  if (zvec_check(&A, msg, sizeof msg)) viol("canary", "a: %s", msg);
  if (gb_check(&gb, &wh) || gb_check(&gp, &wh) || gb_check(&gd, &wh) || gb_check(&gbig, &wh) || gb_check(&gt, &wh)) viol("canary", "svp path wrote outside an object sized by bytes_of_*() (%ld)", wh);
  sample("E=%.3Lg rows=%" PRIu64, a_size ? c01_budget_E(N, a0, b) : 0.0L, res_size);
  cntf("N:%" PRIu64, 1, N);
  int nz = 0;
  for (uint64_t i = 0; i < N; i++) nz |= (a0[i] != 0) << 0 | (b[i] != 0) << 1;
  free(exact);
  free(a0);
  zvec_free(&A);
  gb_free(&gb);
  gb_free(&gp);
  gb_free(&gd);
  gb_free(&gbig);
  gb_free(&gt);
  case_end(nz == 3 && N >= 4 && a_size >= 1 && res_size >= 1);
}

// feedback-directed stress (thorough): greedy sign flips that maximise the observed error
static void greedy_case(uint64_t N, int native, unsigned rep) {
  if (!case_begin("znx_small_single_product|greedy-signflip", "N=%" PRIu64 " disp=%d rep=%u", N, native, rep)) return;
  rng_t* r = crng();
  const MODULE* mod = get_module(N, FFT64, native);
  int64_t* a = malloc(N * 8);
  int64_t* b = malloc(N * 8);
  int64_t* res = malloc(N * 8);
  i128* exact = malloc(N * 16);
  uint8_t* tmp = malloc(znx_small_single_product_tmp_bytes(mod) + 64);
  c01_gen_pair(r, F_ALLMAX, N, a, b);
  long double best = -1;
  for (int it = 0; it < 200; it++) {
    uint64_t i = (uint64_t)rng_range(r, 0, (int64_t)N - 1);
    int which = (int)(rng_u64(r) & 1);
    int64_t* v = which ? b : a;
    v[i] = -v[i];
    znx_small_single_product(mod, res, a, b, tmp);
    long double E = c01_budget_E(N, a, b), worst = 0;
    negacyclic_exact(N, a, b, exact);
    for (uint64_t j = 0; j < N; j++) {
      long double ad = fabsl((long double)((i128)res[j] - exact[j]));
      if (ad > worst) worst = ad;
    }
    if (worst > (E + 0.5L) * (1 + 0x1p-40L)) {
      viol("oracle", "greedy search found |err|=%.3Lg > E+1/2=%.3Lg at N=%" PRIu64, worst, E + 0.5L, N);
      break;
    }
    gauge_max("worst_err_over_budget", (double)(worst / (E + 0.5L)));
    if (worst >= best)
      best = worst;
    else
      v[i] = -v[i];  // revert
    cnt("products_checked", 1);
  }
  sample("greedy maximum |err|=%.3Lg", best);
  free(a);
  free(b);
  free(res);
  free(exact);
  free(tmp);
  case_end(1);
}

// limb strides of 4 GiB and more (every stride >= N is legal): the rows live in a sparse mapping that only reserves
// address space; the product through svp_apply_dft + idft and vec_znx_dft must not care
#include <sys/mman.h>
static void huge_stride_case(uint64_t N, int native, unsigned rep) {
  if (!case_begin(native ? "svp_apply_dft+vec_znx_dft|limb stride >= 2^29 words" : "svp_apply_dft+vec_znx_dft|limb stride >= 2^29 words,generic", "N=%" PRIu64 " rep=%u", N, rep)) return;
  rng_t* r = crng();
  const MODULE* mod = get_module(N, FFT64, native);
  static const uint64_t SL[] = {(1ull << 29), (1ull << 29) + 1, (1ull << 29) - 1 + 8, (1ull << 30) + 24, 3ull << 28, (1ull << 31) + 8, 3ull << 30, (1ull << 32) + 16};  // (index of the last limb in words: up to 2^33, beyond 32 bits)
  const uint64_t sl = SL[rep % ARRAY_LEN(SL)], rows = 3;
  const size_t len = ((rows - 1) * sl + N) * 8 + 8192;
  uint8_t* map = mmap(0, len, PROT_READ | PROT_WRITE, MAP_PRIVATE | MAP_ANONYMOUS | MAP_NORESERVE, -1, 0);
  if (map == MAP_FAILED) { cnt("huge_stride_mapping_refused", 1); case_end(0); return; }
  int64_t* a = (int64_t*)(map + 4096);
  int64_t* b = malloc(N * 8);
  for (uint64_t i = 0; i < N; i++) b[i] = rng_range(r, -3, 3);
  for (uint64_t l = 0; l < rows; l++)
    for (uint64_t i = 0; i < N; i++) a[l * sl + i] = rng_range(r, -100000, 100000) + (int64_t)l;
  SVP_PPOL* pp = malloc(bytes_of_svp_ppol(mod) + 64);
  VEC_ZNX_DFT* d = malloc(bytes_of_vec_znx_dft(mod, rows) + 64);
  VEC_ZNX_DFT* d2 = malloc(bytes_of_vec_znx_dft(mod, rows) + 64);
  svp_prepare(mod, pp, b);
  svp_apply_dft(mod, d, rows, pp, a, rows, sl);
  vec_znx_idft_tmp_a(mod, (VEC_ZNX_BIG*)d, rows, d, rows);
  i128* exact = malloc(N * 16);
  for (uint64_t l = 0; l < rows; l++) {
    negacyclic_exact(N, a + l * sl, b, exact);
    for (uint64_t i = 0; i < N; i++)
      if ((i128)((int64_t*)d)[l * N + i] != exact[i]) {
        viol("oracle", "svp_apply_dft with a limb stride of %" PRIu64 " words: row %" PRIu64 " coeff %" PRIu64 " got %" PRId64 " exact %" PRId64 " (N=%" PRIu64 ")", sl, l, i, ((int64_t*)d)[l * N + i], (int64_t)exact[i], N);
        l = rows;
        break;
      }
  }
  // vec_znx_dft + idft round trip from the same strided rows
  vec_znx_dft(mod, d2, rows, a, rows, sl);
  vec_znx_idft_tmp_a(mod, (VEC_ZNX_BIG*)d2, rows, d2, rows);
  for (uint64_t l = 0; l < rows; l++)
    if (memcmp((int64_t*)d2 + l * N, a + l * sl, N * 8)) { viol("oracle", "vec_znx_dft with a limb stride of %" PRIu64 " words: row %" PRIu64 " does not survive dft + idft (N=%" PRIu64 ")", sl, l, N); break; }
  cnt("huge_stride_products", rows);
  sample("3 rows %" PRIu64 " words apart: exact products and round trips", sl);
  free(exact); free(b); free(pp); free(d); free(d2);
  munmap(map, len);
  case_end(1);
}

// hundreds of FFT64 modules of one dimension alive together, some deleted, the survivors still multiply exactly
static void many_live_case(uint64_t N, unsigned count, int native, unsigned rep) {
  if (!case_begin(native ? "fft64 modules|hundreds alive at once, some deleted" : "fft64 modules|hundreds alive at once, some deleted,generic", "N=%" PRIu64 " count=%u rep=%u", N, count, rep)) return;
  rng_t* r = crng();
  int saved = g_dispatch_native;
  set_dispatch(native);
  MODULE** mods = calloc(count, sizeof *mods);
  for (unsigned i = 0; i < count; i++) mods[i] = new_module_info((i % 7 == 3) ? 2 * N : N, FFT64);
  const unsigned ndel = count % 256 + 1 + (unsigned)(rng_u64(r) % 3);
  for (unsigned k = 0; k < ndel; k++) {
    const unsigned i = (unsigned)(rng_u64(r) % count);
    if (mods[i]) { delete_module_info(mods[i]); mods[i] = 0; }
  }
  void* junk[32];
  for (int j = 0; j < 32; j++) junk[j] = calloc(1, 64 + (size_t)(rng_u64(r) % (N * 24 + 64)));
  uint64_t checked = 0, nbad = 0;
  for (unsigned i = 0; i < count; i++) {
    if (!mods[i]) continue;
    const uint64_t n = (i % 7 == 3) ? 2 * N : N;
    int64_t* a = malloc(n * 8);
    int64_t* b = malloc(n * 8);
    int64_t* res = malloc(n * 8);
    i128* exact = malloc(n * 16);
    uint8_t* tmp = malloc(znx_small_single_product_tmp_bytes(mods[i]) + 64);
    for (uint64_t c = 0; c < n; c++) { a[c] = rng_range(r, -100000, 100000); b[c] = rng_range(r, -3, 3); }
    znx_small_single_product(mods[i], res, a, b, tmp);
    negacyclic_exact(n, a, b, exact);
    for (uint64_t c = 0; c < n; c++)
      if ((i128)res[c] != exact[c]) { nbad++; break; }
    checked++;
    free(a); free(b); free(res); free(exact); free(tmp);
  }
  if (nbad) viol("oracle", "%" PRIu64 " of %" PRIu64 " FFT64 modules that were alive together with %u others no longer multiply exactly after %u of them were deleted (N=%" PRIu64 ")", nbad, checked, count, ndel, N);
  for (unsigned i = 0; i < count; i++) if (mods[i]) delete_module_info(mods[i]);
  for (int j = 0; j < 32; j++) free(junk[j]);
  free(mods);
  set_dispatch(saved);
  cnt("modules_alive_together", count);
  sample("%u modules alive at once, %u deleted, %" PRIu64 " survivors multiply exactly", count, ndel, checked);
  case_end(checked > 0);
}

// module lifecycles: several modules of equal and different dimensions are created and deleted in a random order
// (not stack-like); every product through a module that is still alive must stay correct whatever happened to the others
static void lifecycle_case(int native, unsigned rep) {
  if (!case_begin(native ? "module-lifecycle|create/delete interleaved" : "module-lifecycle|create/delete interleaved,generic", "rep=%u", rep)) return;
  rng_t* r = crng();
  enum { SLOTS = 6 };
  MODULE* m[SLOTS] = {0};
  uint64_t dim[SLOTS] = {0};
  static const uint64_t DN[] = {4, 8, 16, 64, 128, 1024, 4096, 8192};
  // two dimensions dominate so that equal-dimension modules coexist
  const uint64_t d1 = DN[rng_u64(r) % ARRAY_LEN(DN)], d2 = DN[rng_u64(r) % ARRAY_LEN(DN)];
  int saved = g_dispatch_native;
  set_dispatch(native);
  uint64_t products = 0, events = 0;
  for (int step = 0; step < 40; step++) {
    const int s = (int)(rng_u64(r) % SLOTS);
    const unsigned act = (unsigned)(rng_u64(r) % 8);
    if (!m[s]) {
      dim[s] = act < 4 ? d1 : (act < 7 ? d2 : DN[rng_u64(r) % ARRAY_LEN(DN)]);
      m[s] = new_module_info(dim[s], FFT64);
      events++;
    } else if (act < 3) {
      delete_module_info(m[s]);
      m[s] = 0;
      events++;
    }
    // a product through every module that is alive (small operands: the result is exact)
    for (int k = 0; k < SLOTS; k++) {
      if (!m[k] || (rng_u64(r) & 1)) continue;
      const uint64_t N = dim[k];
      int64_t* a = malloc(N * 8);
      int64_t* b = malloc(N * 8);
      int64_t* res = malloc(N * 8);
      i128* exact = malloc(N * 16);
      uint8_t* tmp = malloc(znx_small_single_product_tmp_bytes(m[k]) + 64);
      for (uint64_t i = 0; i < N; i++) {
        a[i] = rng_range(r, -100000, 100000);
        b[i] = rng_range(r, -3, 3);
      }
      znx_small_single_product(m[k], res, a, b, tmp);
      negacyclic_exact(N, a, b, exact);
      for (uint64_t i = 0; i < N; i++)
        if ((i128)res[i] != exact[i]) {
          viol("oracle", "product through a live module (N=%" PRIu64 ", slot %d) wrong after %" PRIu64 " create/delete events of other modules: coeff %" PRIu64 " got %" PRId64 " exact %" PRId64, N, k, events, i, res[i], (int64_t)exact[i]);
          break;
        }
      products++;
      free(a); free(b); free(res); free(exact); free(tmp);
    }
  }
  for (int k = 0; k < SLOTS; k++)
    if (m[k]) delete_module_info(m[k]);
  set_dispatch(saved);
  cnt("lifecycle_products", products);
  cnt("lifecycle_events", events);
  sample("%" PRIu64 " create/delete events on 6 slots (dimensions %" PRIu64 ", %" PRIu64 ", others), %" PRIu64 " exact products through the live modules", events, d1, d2, products);
  case_end(products > 0);
}

void run_C01(void) {
  const int th = G.thorough;
  {
    static const char* const CNAMES[] = {"znx_small_single_product", "svp_prepare", "svp_apply_dft", "vec_znx_dft", "vec_znx_idft", "vec_znx_idft_tmp_a", "vec_znx_idft(res==a_dft)"};
    static const uint64_t CNS[] = {4, 64, 1024, 8192, 65536};
    for (size_t i = 0; i < ARRAY_LEN(CNS); i++)
      for (int cfg = DISP_NATIVE; cfg >= DISP_GENERIC; cfg--)
        for (unsigned rep = 0; rep < (th ? 5u : 1u); rep++) {
          if (!th && CNS[i] > 4096 && cfg == DISP_GENERIC) continue;
          ops_concurrent_case("C01 entry points", CNAMES, (int)ARRAY_LEN(CNAMES), CNS[i], cfg, CNS[i] <= 256 ? 8 : 4, rep, "concurrent_entry_calls");
        }
  }
  if (negacyclic_selfcheck(G.seed)) harness_fail("oracle self-check failed (NTT oracle vs schoolbook)");
  cnt("oracle_selfcheck_ok", 1);
  unsigned ctr = 0;
  for (size_t ni = 0; ni < N_ALL_N; ni++) {
    const uint64_t N = ALL_N[ni];
    const unsigned reps = th ? (N <= 1024 ? 200 : (N <= 8192 ? 40 : 10)) : (N <= 1024 ? 10 : (N <= 8192 ? 4 : 2));
    for (int fam = 0; fam < NFAM; fam++)
      for (int native = 1; native >= 0; native--)
        for (unsigned rep = 0; rep < reps; rep++) {
          ctr++;
          small_product_case(N, fam, native, rep);
          // svp path: both inverse DFT variants; shapes rotate through {0..4}^2 and the stride choices
          uint64_t rs = (ctr * 7) % 5, as = (ctr * 3 + rep) % 5;
          if (N >= 16384 && !th) {
            rs = 1 + (ctr & 1);
            as = 1;
          }
          svp_case(N, fam, native, (int)(ctr & 1), rs, as, ctr % 4, rep);
          if (rep == 0 && N <= 4096) svp_case(N, fam, native, (int)((ctr + 1) & 1), as, rs, (ctr + 1) % 4, rep);
          // the in-place inverse DFT and DFT vectors shorter than the output (zero rows produced by the inverse DFT)
          if (rep <= 1) svp_case(N, fam, native, (int)((ctr + rep) % 3) | 8, N >= 16384 && !th ? 1 : 1 + (ctr % 3), N >= 16384 && !th ? 3 : 1 + (ctr / 3) % 5, (ctr + 1) % 4, rep + 70);
          if (rep <= 1) svp_case(N, fam, native, (rep ? 2 : (int)(ctr % 3)) | 4, N >= 16384 && !th ? 2 : 1 + (ctr % 4), N >= 16384 && !th ? 1 : (ctr / 4) % 4, ctr % 4, rep + 50);
        }
    // the two mixed CPU-feature configurations (avx2 without fma, fma without avx2): the library gates its kernels on both separately
    for (int fam = 0; fam < NFAM; fam++)
      for (int cfg = DISP_AVX2_ONLY; cfg <= DISP_FMA_ONLY; cfg++)
        for (unsigned rep = 0; rep < (th ? 6u : (N <= 4096 ? 2u : 1u)); rep++) {
          ctr++;
          small_product_case(N, fam, cfg, rep);
          svp_case(N, fam, cfg, (int)(ctr % 3), N >= 16384 && !th ? 1 : 1 + (ctr % 3), N >= 16384 && !th ? 1 : 1 + (ctr / 3) % 3, ctr % 4, rep);
        }
    if (N <= (th ? 4096u : 256u))
      for (int native = 1; native >= 0; native--)
        for (unsigned rep = 0; rep < (th ? 8u : 1u); rep++) greedy_case(N, native, rep);
  }
  for (int native = 1; native >= 0; native--)
    for (unsigned rep = 0; rep < (th ? 400u : 24u); rep++) lifecycle_case(native, rep);
  for (int native = 1; native >= 0; native--) {
    many_live_case(16, 257, native, 0);
    many_live_case(8, 520, native, 1);
    if (th) many_live_case(4, 66000, native, 2);
  }
  for (int native = 1; native >= 0; native--)
    for (unsigned rep = 0; rep < 8; rep++) {
      huge_stride_case(8, native, rep);
      huge_stride_case(64, native, rep);
      if (th) huge_stride_case(4096, native, rep);
    }
  // full (res, a) box on small N for the svp path, both idft variants and both dispatches
  static const uint64_t bN[] = {2, 4, 8, 16, 64};
  for (size_t ni = 0; ni < ARRAY_LEN(bN); ni++)
    for (uint64_t rs = 0; rs <= 4; rs++)
      for (uint64_t as = 0; as <= 4; as++)
        for (int v = 0; v < 12; v++) svp_case(bN[ni], (int)((rs + as + ni) % NFAM), v & 1, (v >> 1) % 3 | (v >= 6 ? 4 : 0), rs, as, (unsigned)(rs + as) % 4, 100);
  // many limbs
  for (size_t ni = 0; ni < ARRAY_LEN(bN); ni++) {
    static const uint64_t BIGS[][2] = {{9, 13}, {16, 8}, {12, 12}, {17, 17}, {33, 32}};
    for (size_t q = 0; q < ARRAY_LEN(BIGS); q++)
      for (int v = 0; v < 12; v++) svp_case(bN[ni], (int)((q + ni + (size_t)v) % NFAM), v & 1, (v >> 1) % 3 | (v >= 6 ? 4 : 0), BIGS[q][0], BIGS[q][1], (unsigned)q % 4, 101);
  }
  // modules / tables created, used and destroyed in random order, several alive at once
  for (unsigned rep = 0; rep < (G.thorough ? 240u : 24u); rep++)
    ops_lifecycle_case("C01 objects", LKM_MOD_FFT64 | LKM_REIM_FFT | LKM_REIM_IFFT | LKM_REIM_MUL, (rep % 4) == 3 ? DISP_GENERIC : DISP_NATIVE, 160, 0, rep, "lifecycle_uses");
  // the entry points of this property called a second time on the SAME buffers holding other data (new values, two limbs exchanged,
  // one word moved between limbs): must equal a fresh call on that data (results or operands remembered by address)
  {
    static const char* const RNAMES[] = {"znx_small_single_product", "svp_prepare", "svp_apply_dft", "vec_znx_dft", "vec_znx_idft", "vec_znx_idft_tmp_a", "vec_znx_idft(res==a_dft)"};
    static const uint64_t RN[] = {2, 16, 64, 1024};
    for (size_t i = 0; i < ARRAY_LEN(RN); i++)
      for (int cfg = DISP_NATIVE; cfg >= DISP_GENERIC; cfg--) {
        if (cfg == DISP_GENERIC && (i & 1)) continue;
        ops_recontent_case("C01 entry points", RNAMES, (int)ARRAY_LEN(RNAMES), RN[i], cfg, G.thorough ? 40 : 6, (unsigned)i, "same_buffers_other_data_calls");
      }
    // and from a thread with a small stack, at the largest dimensions
    for (int cfg = DISP_NATIVE; cfg >= DISP_GENERIC; cfg--) {
      ops_small_stack_case("C01 entry points", RNAMES, (int)ARRAY_LEN(RNAMES), 65536, cfg, 256, G.thorough ? 4 : 1, 0, "small_stack_calls");
      ops_small_stack_case("C01 entry points", RNAMES, (int)ARRAY_LEN(RNAMES), 16384, cfg, 256, G.thorough ? 4 : 2, 1, "small_stack_calls");
    }
  }
  // several threads creating, using and destroying their own modules / tables at the same time
  for (unsigned rep = 0; rep < (G.thorough ? 60u : 8u); rep++)
    ops_concurrent_lifecycle_case("C01 objects", LKM_MOD_FFT64 | LKM_REIM_FFT | LKM_REIM_IFFT | LKM_REIM_MUL, (rep % 4) == 3 ? DISP_GENERIC : DISP_NATIVE, rep & 1 ? 8 : 4, 120, rep, "concurrent_lifecycle_uses");
}
