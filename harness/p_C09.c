// C09 — rotation, automorphism and (X^p - 1) are the ring maps for every p.
// Oracle: index arithmetic with true Euclidean remainders in 128-bit integers (no masks).
#include <quadmath.h>
#include "lib.h"
#include "ops.h"

static inline uint64_t emod(i128 x, uint64_t m) {
  i128 r = x % (i128)m;
  if (r < 0) r += m;
  return (uint64_t)r;
}
// expected[idx] for rotation by p of probe a
static void oracle_rotate(uint64_t N, int64_t p, const int64_t* a, int64_t* out) {
  for (uint64_t i = 0; i < N; i++) {
    uint64_t t = emod((i128)i + (i128)p, 2 * N);
    if (t < N)
      out[t] = a[i];
    else
      out[t - N] = -a[i];
  }
}
static void oracle_auto(uint64_t N, int64_t p, const int64_t* a, int64_t* out) {
  for (uint64_t i = 0; i < N; i++) {
    uint64_t t = emod((i128)i * (i128)p, 2 * N);
    if (t < N)
      out[t] = a[i];
    else
      out[t - N] = -a[i];
  }
}

typedef struct {
  uint64_t N;
  gbuf_t gi, go, gdi, gdo;
  int64_t *in, *out;
  double *din, *dout;
  int64_t *probe, *expect, *expect2;
} ws_t;
static void ws_init(ws_t* w, uint64_t N, unsigned mis) {
  w->N = N;
  w->in = gb_alloc(&w->gi, N * 8, 8, mis, 4096);
  w->out = gb_alloc(&w->go, N * 8, 8, (mis * 3) % 64, 4096);
  w->din = gb_alloc(&w->gdi, N * 8, 8, (mis * 5) % 64, 4096);
  w->dout = gb_alloc(&w->gdo, N * 8, 8, (mis * 7) % 64, 4096);
  w->probe = malloc(N * 8);
  w->expect = malloc(N * 8);
  w->expect2 = malloc(N * 8);
}
static void ws_free(ws_t* w) {
  long wh;
  if (gb_check(&w->gi, &wh) || gb_check(&w->go, &wh) || gb_check(&w->gdi, &wh) || gb_check(&w->gdo, &wh))
    viol("canary", "guard band around a kernel buffer modified (offset %ld)", wh);
  gb_free(&w->gi);
  gb_free(&w->go);
  gb_free(&w->gdi);
  gb_free(&w->gdo);
  free(w->probe);
  free(w->expect);
  free(w->expect2);
}
static int cmp_i(const int64_t* got, const int64_t* exp, uint64_t N, uint64_t* at) {
  for (uint64_t i = 0; i < N; i++)
    if (got[i] != exp[i]) {
      *at = i;
      return 1;
    }
  return 0;
}
static int cmp_d(const double* got, const int64_t* exp, uint64_t N, uint64_t* at) {
  for (uint64_t i = 0; i < N; i++)
    if (got[i] != (double)exp[i]) {
      *at = i;
      return 1;
    }
  return 0;
}

// classify the branches the in-place automorphism's 2-adic loop would reach for (N,p) — computed
// from the definition of the five cases, to report which special classes the workload covered
static void classify_auto(uint64_t N, int64_t p) {
  if (N < 2) return;
  uint64_t twoN = 2 * N;
  uint64_t pr = emod(p, twoN);
  for (uint64_t b = 1; b < N; b <<= 1) {
    uint64_t vp = emod((i128)pr * b, twoN);
    if (vp == b) {
      cnt("auto_branch:identity", 1);
      return;
    }
    if ((vp + b) % twoN == 0) {
      cnt("auto_branch:negamirror", 1);
      return;
    }
    if (vp == (b + N) % twoN) {
      cnt("auto_branch:negate", 1);
      return;
    }
    if ((vp + b) % N == 0) {
      cnt("auto_branch:mirror", 1);
      continue;
    }
    cnt("auto_branch:cycles", 1);
  }
}

// runs every kernel for one (N,p); reports violations with the function name in the message
static void check_all(ws_t* w, int64_t p, int probe_kind) {
  const uint64_t N = w->N;
  uint64_t at = 0;
  const int64_t* a = w->probe;
  // --- rotation
  oracle_rotate(N, p, a, w->expect);
  memcpy(w->in, a, N * 8);
  memset(w->out, 0x5A, N * 8);
  znx_rotate_i64(N, p, w->out, w->in);
  if (cmp_i(w->out, w->expect, N, &at)) viol("oracle", "znx_rotate_i64 N=%" PRIu64 " p=%" PRId64 " coeff %" PRIu64 ": got %" PRId64 " want %" PRId64, N, p, at, w->out[at], w->expect[at]);
  if (memcmp(w->in, a, N * 8)) viol("snapshot", "znx_rotate_i64 modified its input N=%" PRIu64 " p=%" PRId64, N, p);
  memcpy(w->out, a, N * 8);
  znx_rotate_inplace_i64(N, p, w->out);
  if (cmp_i(w->out, w->expect, N, &at)) viol("oracle", "znx_rotate_inplace_i64 N=%" PRIu64 " p=%" PRId64 " coeff %" PRIu64 ": got %" PRId64 " want %" PRId64, N, p, at, w->out[at], w->expect[at]);
  for (uint64_t i = 0; i < N; i++) w->din[i] = (double)a[i];
  memset(w->dout, 0x5A, N * 8);
  rnx_rotate_f64(N, p, w->dout, w->din);
  if (cmp_d(w->dout, w->expect, N, &at)) viol("oracle", "rnx_rotate_f64 N=%" PRIu64 " p=%" PRId64 " coeff %" PRIu64, N, p, at);
  for (uint64_t i = 0; i < N; i++) w->dout[i] = (double)a[i];
  rnx_rotate_inplace_f64(N, p, w->dout);
  if (cmp_d(w->dout, w->expect, N, &at)) viol("oracle", "rnx_rotate_inplace_f64 N=%" PRIu64 " p=%" PRId64 " coeff %" PRIu64, N, p, at);
  // --- (X^p - 1)
  for (uint64_t i = 0; i < N; i++) w->expect2[i] = w->expect[i] - a[i];
  memset(w->out, 0x5A, N * 8);
  znx_mul_xp_minus_one(N, p, w->out, w->in);
  if (cmp_i(w->out, w->expect2, N, &at)) viol("oracle", "znx_mul_xp_minus_one N=%" PRIu64 " p=%" PRId64 " coeff %" PRIu64 ": got %" PRId64 " want %" PRId64, N, p, at, w->out[at], w->expect2[at]);
  memset(w->dout, 0x5A, N * 8);
  rnx_mul_xp_minus_one(N, p, w->dout, w->din);
  if (cmp_d(w->dout, w->expect2, N, &at)) viol("oracle", "rnx_mul_xp_minus_one N=%" PRIu64 " p=%" PRId64 " coeff %" PRIu64, N, p, at);
  for (uint64_t i = 0; i < N; i++) w->dout[i] = (double)a[i];
  rnx_mul_xp_minus_one_inplace(N, p, w->dout);
  if (cmp_d(w->dout, w->expect2, N, &at)) viol("oracle", "rnx_mul_xp_minus_one_inplace N=%" PRIu64 " p=%" PRId64 " coeff %" PRIu64, N, p, at);
  cnt("kernel_calls", 7);
  // --- automorphism (odd p only)
  if (p & 1) {
    oracle_auto(N, p, a, w->expect);
    memset(w->out, 0x5A, N * 8);
    znx_automorphism_i64(N, p, w->out, w->in);
    if (cmp_i(w->out, w->expect, N, &at)) viol("oracle", "znx_automorphism_i64 N=%" PRIu64 " p=%" PRId64 " coeff %" PRIu64 ": got %" PRId64 " want %" PRId64, N, p, at, w->out[at], w->expect[at]);
    memcpy(w->out, a, N * 8);
    znx_automorphism_inplace_i64(N, p, w->out);
    if (cmp_i(w->out, w->expect, N, &at)) viol("oracle", "znx_automorphism_inplace_i64 N=%" PRIu64 " p=%" PRId64 " coeff %" PRIu64 ": got %" PRId64 " want %" PRId64, N, p, at, w->out[at], w->expect[at]);
    memset(w->dout, 0x5A, N * 8);
    rnx_automorphism_f64(N, p, w->dout, w->din);
    if (cmp_d(w->dout, w->expect, N, &at)) viol("oracle", "rnx_automorphism_f64 N=%" PRIu64 " p=%" PRId64 " coeff %" PRIu64, N, p, at);
    for (uint64_t i = 0; i < N; i++) w->dout[i] = (double)a[i];
    rnx_automorphism_inplace_f64(N, p, w->dout);
    if (cmp_d(w->dout, w->expect, N, &at)) viol("oracle", "rnx_automorphism_inplace_f64 N=%" PRIu64 " p=%" PRId64 " coeff %" PRIu64, N, p, at);
    if (memcmp(w->in, a, N * 8)) viol("snapshot", "an out-of-place kernel modified its input N=%" PRIu64 " p=%" PRId64, N, p);
    classify_auto(N, p);
    cnt("kernel_calls", 4);
    cnt("auto_p_checked", 1);
  }
  cnt("rot_p_checked", 1);
  (void)probe_kind;
}

static void fill_probe(ws_t* w, int kind, rng_t* r) {
  for (uint64_t i = 0; i < w->N; i++) {
    if (kind == 0)
      w->probe[i] = (int64_t)i + 1;  // injective and non-zero: determines the signed permutation
    else if (kind == 2)
      w->probe[i] = ((int64_t)i + 1) << 32;  // injective, every coefficient a multiple of 2^32 (still exact in a double up to N = 65536)
    else
      w->probe[i] = rng_sbits(r, 48);  // doubles hold it exactly; differences stay < 2^50
  }
  if (kind == 3) structure_words(r, (uint64_t*)w->probe, w->N, 48);  // random with structure: scaled / run / periodic / zero
}

// far-away representative of residue r modulo 2N
static int64_t far_rep(rng_t* r, uint64_t N, uint64_t res, int which) {
  const i128 twoN = 2 * (i128)N;
  i128 lim = ((i128)1 << 63) - 1;
  i128 tmax = (lim - (i128)res) / twoN;
  i128 t;
  switch (which) {
    case 0: t = (i128)(rng_u64(r) >> 2) % (tmax + 1); break;          // random positive multiple
    case 1: t = -((i128)(rng_u64(r) >> 2) % (tmax + 1)) - 1; break;     // negative
    case 2: t = tmax; break;                                            // largest representative < 2^63
    default: t = -tmax; break;                                          // most negative (> -2^63)
  }
  i128 p = (i128)res + twoN * t;
  if (p > lim) p -= twoN;
  if (p < -lim) p += twoN;
  return (int64_t)p;
}

static void exhaustive_kernels(uint64_t N, int with_far) {
  const uint64_t twoN = 2 * N;
  const uint64_t B = twoN < 128 ? twoN : 128;
  for (uint64_t blk = 0; blk < twoN / B; blk++) {
    if (!case_begin("kernels|exhaustive", "N=%" PRIu64 " residues=%" PRIu64 "..%" PRIu64 " far=%d", N, blk * B, blk * B + B - 1, with_far)) continue;
    ws_t w;
    ws_init(&w, N, (unsigned)(8 * (blk % 8)));
    fill_probe(&w, 0, crng());
    for (uint64_t r = blk * B; r < blk * B + B; r++) {
      check_all(&w, (int64_t)r, 0);
      if (with_far) {
        check_all(&w, far_rep(crng(), N, r, (int)(r & 3)), 0);
        cnt("far_p_checked", 1);
      }
    }
    // a second, random probe on a few residues of the block (values up to 2^48)
    fill_probe(&w, 1, crng());
    for (int t = 0; t < 4; t++) check_all(&w, (int64_t)(blk * B + (uint64_t)rng_range(crng(), 0, (int64_t)B - 1)), 1);
    // the scaled injective probe and structured random probes (odd and even residues)
    for (int kind = 2; kind <= 3; kind++)
      for (int t = 0; t < 4; t++) {
        fill_probe(&w, kind, crng());
        check_all(&w, (int64_t)(blk * B + (uint64_t)rng_range(crng(), 0, (int64_t)B - 1)) | (t & 1), kind);
      }
    sample("all %" PRIu64 " residues p of the block checked on 11 kernels (7 for even p) with probe a_i=i+1", B);
    ws_free(&w);
    cntf("exhaustive_residues:N=%" PRIu64, B, N);
    case_end(N >= 2);
  }
}

static void special_classes(uint64_t N) {
  // structurally enumerated p: 0, N, 2N-1, +-1 and N+-1 modulo 2^j for every j, extremes
  if (!case_begin("kernels|special", "N=%" PRIu64 " classes=pm1,Npm1 mod 2^j; 0,N,2N-1; +-(2^63-1)", N)) return;
  ws_t w;
  ws_init(&w, N, 24);
  fill_probe(&w, 0, crng());
  int64_t base[] = {0, 1, -1, (int64_t)N, (int64_t)N + 1, (int64_t)N - 1, 2 * (int64_t)N - 1, 2 * (int64_t)N, 2 * (int64_t)N + 1, INT64_MAX, -INT64_MAX, INT64_MAX - 1, 3, 5, -3, -5};
  for (size_t i = 0; i < ARRAY_LEN(base); i++) check_all(&w, base[i], 0);
  for (unsigned j = 1; j <= 62; j++) {
    int64_t pw = (int64_t)1 << j;
    int64_t c[] = {pw + 1, pw - 1, -pw + 1, -pw - 1};
    for (int t = 0; t < 4; t++) check_all(&w, c[t], 0);
    // p = +-1 + 2^j and N+-1 + 2^j are the classes where the 2-adic loop stops at level 2N/2^j
    if (pw < (int64_t)1 << 61) {
      check_all(&w, (int64_t)N + 1 + pw, 0);
      check_all(&w, (int64_t)N - 1 + pw, 0);
      check_all(&w, (int64_t)N - 1 - pw, 0);
    }
  }
  sample("special p classes: 16 base values + 7 per j in 1..62");
  ws_free(&w);
  case_end(1);
}

static void sampled_kernels(uint64_t N, unsigned nsamples, int odd_only_inplace_auto) {
  // large N: sampled residues (thorough runs the in-place automorphism exhaustively over odd p)
  const unsigned per = 64;
  for (unsigned blk = 0; blk < nsamples / per; blk++) {
    if (!case_begin("kernels|sampled", "N=%" PRIu64 " sampleblock=%u", N, blk)) continue;
    ws_t w;
    ws_init(&w, N, 8 * (blk % 8));
    fill_probe(&w, 0, crng());
    for (unsigned t = 0; t < per; t++) {
      uint64_t r = (uint64_t)rng_range(crng(), 0, 2 * (int64_t)N - 1);
      check_all(&w, (t & 1) ? far_rep(crng(), N, r, (int)(t & 3)) : (int64_t)r, 0);
    }
    sample("%u sampled residues (half of them as far representatives)", per);
    ws_free(&w);
    case_end(1);
  }
  (void)odd_only_inplace_auto;
}

static void exhaustive_inplace_auto(uint64_t N) {
  const uint64_t B = 256;  // odd residues per case
  for (uint64_t blk = 0; blk < N / B; blk++) {
    if (!case_begin("znx_automorphism_inplace_i64|exhaustive-odd", "N=%" PRIu64 " oddblock=%" PRIu64, N, blk)) continue;
    ws_t w;
    ws_init(&w, N, 8 * (blk % 8));
    fill_probe(&w, 0, crng());
    uint64_t at;
    for (uint64_t q = blk * B; q < blk * B + B; q++) {
      int64_t p = (int64_t)(2 * q + 1);
      oracle_auto(N, p, w.probe, w.expect);
      memcpy(w.out, w.probe, N * 8);
      znx_automorphism_inplace_i64(N, p, w.out);
      if (cmp_i(w.out, w.expect, N, &at)) viol("oracle", "znx_automorphism_inplace_i64 N=%" PRIu64 " p=%" PRId64 " coeff %" PRIu64, N, p, at);
      for (uint64_t i = 0; i < N; i++) w.dout[i] = (double)w.probe[i];
      rnx_automorphism_inplace_f64(N, p, w.dout);
      if (cmp_d(w.dout, w.expect, N, &at)) viol("oracle", "rnx_automorphism_inplace_f64 N=%" PRIu64 " p=%" PRId64 " coeff %" PRIu64, N, p, at);
      classify_auto(N, p);
      cnt("auto_p_checked", 1);
      cnt("kernel_calls", 2);
    }
    cntf("exhaustive_odd_residues:N=%" PRIu64, B, N);
    ws_free(&w);
    case_end(1);
  }
}

// vector and big wrappers: sampled p, limb vectors, both module types; coupled with composition checks
static void wrappers(uint64_t N, unsigned reps) {
  for (unsigned rep = 0; rep < reps; rep++) {
    for (int mt = 0; mt < 3; mt++) {
      // mt 0: FFT64 module created with all CPU features, 1: NTT120 module (exists behind the avx2 gate only),
      // 2: FFT64 module created under the generic-C dispatch (its function table is filled by other code)
      const int generic = mt == 2;
      if (generic) mt = 0;
      if (!case_begin(generic ? "vec_wrappers|rot+auto+compose,generic" : "vec_wrappers|rot+auto+compose", "N=%" PRIu64 " module=%s rep=%u", N, mt ? "NTT120" : "FFT64", rep)) {
        if (generic) mt = 2;
        continue;
      }
      rng_t* r = crng();
      const MODULE* mod = get_module(N, mt ? NTT120 : FFT64, generic ? DISP_GENERIC : DISP_NATIVE);
      cntf("wrapper_dispatch:%s", 1, generic ? "generic" : "native");
      uint64_t size = (uint64_t)rng_range(r, 1, 3);
      uint64_t sl = stride_choice(N, (unsigned)rng_range(r, 0, 3));
      zvec_t a, b, c;
      zvec_alloc(&a, N, size, sl, 8 * (rep % 8));
      zvec_alloc(&b, N, size, N + (rep & 1), 16);
      zvec_alloc(&c, N, size, sl, 0);
      for (uint64_t l = 0; l < size; l++)
        for (uint64_t i = 0; i < N; i++) zvec_limb(&a, l)[i] = (int64_t)(l * N + i + 1);
      // every fifth repetition: p a multiple of 2N (identity map; 0 and far representatives)
      int64_t p = far_rep(r, N, rep % 5 == 4 ? 0 : (uint64_t)rng_range(r, 0, 2 * (int64_t)N - 1), (int)(rep & 3));
      int64_t q = far_rep(r, N, (uint64_t)rng_range(r, 0, 2 * (int64_t)N - 1), (int)((rep >> 2) & 3));
      int64_t* exp = malloc(N * 8);
      int64_t* exp2 = malloc(N * 8);
      uint64_t at;
      char msg[200];
      // rotate p
      zvec_prefill(&b, rep, 1);
      vec_znx_rotate(mod, p, b.p, size, b.sl, a.p, size, a.sl);
      for (uint64_t l = 0; l < size; l++) {
        oracle_rotate(N, p, zvec_limb(&a, l), exp);
        if (cmp_i(zvec_limb(&b, l), exp, N, &at)) viol("oracle", "vec_znx_rotate limb %" PRIu64 " p=%" PRId64 " coeff %" PRIu64, l, p, at);
      }
      // compose: rotate q after p == rotate (p+q) (as residues)
      zvec_prefill(&c, rep + 1, 2);
      vec_znx_rotate(mod, q, c.p, size, c.sl, b.p, size, b.sl);
      for (uint64_t l = 0; l < size; l++) {
        oracle_rotate(N, (int64_t)(((i128)p + (i128)q) % (2 * (i128)N)), zvec_limb(&a, l), exp);
        if (cmp_i(zvec_limb(&c, l), exp, N, &at)) viol("oracle", "rotate p then q != rotate p+q: limb %" PRIu64 " p=%" PRId64 " q=%" PRId64, l, p, q);
      }
      // in place through the wrapper (same pointer, same stride)
      vec_znx_rotate(mod, q, b.p, size, b.sl, b.p, size, b.sl);
      for (uint64_t l = 0; l < size; l++)
        if (cmp_i(zvec_limb(&b, l), zvec_limb(&c, l), N, &at)) viol("oracle", "vec_znx_rotate in place != out of place: limb %" PRIu64 " q=%" PRId64, l, q);
      // automorphisms (odd)
      int64_t po = p | 1, qo = q | 1;
      zvec_prefill(&b, rep, 3);
      vec_znx_automorphism(mod, po, b.p, size, b.sl, a.p, size, a.sl);
      for (uint64_t l = 0; l < size; l++) {
        oracle_auto(N, po, zvec_limb(&a, l), exp);
        if (cmp_i(zvec_limb(&b, l), exp, N, &at)) viol("oracle", "vec_znx_automorphism limb %" PRIu64 " p=%" PRId64 " coeff %" PRIu64, l, po, at);
      }
      vec_znx_automorphism(mod, qo, c.p, size, c.sl, b.p, size, b.sl);
      for (uint64_t l = 0; l < size; l++) {
        // a(X^po)(X^qo) = a(X^(po*qo))
        i128 pq = ((i128)(po % (int64_t)(2 * N)) * (i128)(qo % (int64_t)(2 * N))) % (2 * (i128)N);
        oracle_auto(N, (int64_t)pq, zvec_limb(&a, l), exp2);
        if (cmp_i(zvec_limb(&c, l), exp2, N, &at)) viol("oracle", "auto p then q != auto pq: limb %" PRIu64 " p=%" PRId64 " q=%" PRId64, l, po, qo);
      }
      vec_znx_automorphism(mod, qo, b.p, size, b.sl, b.p, size, b.sl);
      for (uint64_t l = 0; l < size; l++)
        if (cmp_i(zvec_limb(&b, l), zvec_limb(&c, l), N, &at)) viol("oracle", "vec_znx_automorphism in place != out of place: limb %" PRIu64, l);
      // in place with different limb counts: the buffer holds max(res_size, a_size) live limbs; the result must be
      // the map applied to the first a_size limbs, zero-extended / truncated to res_size (same as out of place)
      for (int variant = 0; variant < 2; variant++) {
        const uint64_t as2 = 1 + (uint64_t)rng_range(r, 0, 2), rs2 = (uint64_t)rng_range(r, 0, 3);
        if (as2 == rs2) continue;
        const uint64_t lim = as2 > rs2 ? as2 : rs2;
        zvec_t x, y;
        zvec_alloc(&x, N, lim, sl, 8);
        zvec_alloc(&y, N, rs2, N + 1, 24);
        for (uint64_t l = 0; l < lim; l++)
          for (uint64_t i = 0; i < N; i++) zvec_limb(&x, l)[i] = (int64_t)(l * N + i + 1) * (variant ? -1 : 1);
        zvec_prefill(&y, 3, rep);
        const int64_t pp = variant ? po : p;
        if (variant) {
          vec_znx_automorphism(mod, pp, y.p, rs2, y.sl, x.p, as2, x.sl);
          vec_znx_automorphism(mod, pp, x.p, rs2, x.sl, x.p, as2, x.sl);
        } else {
          vec_znx_rotate(mod, pp, y.p, rs2, y.sl, x.p, as2, x.sl);
          vec_znx_rotate(mod, pp, x.p, rs2, x.sl, x.p, as2, x.sl);
        }
        for (uint64_t l = 0; l < rs2; l++) {
          if (cmp_i(zvec_limb(&x, l), zvec_limb(&y, l), N, &at)) viol("oracle", "%s in place (res_size=%" PRIu64 " a_size=%" PRIu64 ") != out of place: limb %" PRIu64 " p=%" PRId64, variant ? "vec_znx_automorphism" : "vec_znx_rotate", rs2, as2, l, pp);
          // and the out-of-place result is the definition
          if (l < as2) {
            int64_t* src = malloc(N * 8);
            for (uint64_t i = 0; i < N; i++) src[i] = (int64_t)(l * N + i + 1) * (variant ? -1 : 1);
            if (variant) oracle_auto(N, pp, src, exp); else oracle_rotate(N, pp, src, exp);
            free(src);
          } else
            memset(exp, 0, N * 8);
          if (cmp_i(zvec_limb(&y, l), exp, N, &at)) viol("oracle", "%s (res_size=%" PRIu64 " a_size=%" PRIu64 "): limb %" PRIu64 " is not the zero-extended map", variant ? "vec_znx_automorphism" : "vec_znx_rotate", rs2, as2, l);
        }
        if (zvec_check(&x, msg, sizeof msg) || zvec_check(&y, msg, sizeof msg)) viol("canary", "%s", msg);
        zvec_free(&x);
        zvec_free(&y);
        cnt("wrapper_calls", 2);
        cnt("inplace_unequal_size_calls", 1);
      }
      if (zvec_check(&a, msg, sizeof msg) || zvec_check(&b, msg, sizeof msg) || zvec_check(&c, msg, sizeof msg)) viol("canary", "%s", msg);
      cnt("wrapper_calls", 6);
      // big variants (FFT64 only: big ops do not exist on NTT120 modules)
      if (!mt) {
        gbuf_t ga, gb;
        int64_t* ba = gb_alloc(&ga, bytes_of_vec_znx_big(mod, size), 8, 8, 4096);
        int64_t* bb = gb_alloc(&gb, bytes_of_vec_znx_big(mod, size), 8, 24, 4096);
        for (uint64_t i = 0; i < size * N; i++) ba[i] = (int64_t)i + 1;
        memset(bb, 0x33, size * N * 8);
        vec_znx_big_rotate(mod, p, (VEC_ZNX_BIG*)bb, size, (VEC_ZNX_BIG*)ba, size);
        for (uint64_t l = 0; l < size; l++) {
          oracle_rotate(N, p, ba + l * N, exp);
          if (cmp_i(bb + l * N, exp, N, &at)) viol("oracle", "vec_znx_big_rotate limb %" PRIu64 " p=%" PRId64, l, p);
        }
        vec_znx_big_automorphism(mod, po, (VEC_ZNX_BIG*)bb, size, (VEC_ZNX_BIG*)ba, size);
        for (uint64_t l = 0; l < size; l++) {
          oracle_auto(N, po, ba + l * N, exp);
          if (cmp_i(bb + l * N, exp, N, &at)) viol("oracle", "vec_znx_big_automorphism limb %" PRIu64 " p=%" PRId64, l, po);
        }
        // in place big
        vec_znx_big_automorphism(mod, po, (VEC_ZNX_BIG*)ba, size, (VEC_ZNX_BIG*)ba, size);
        if (memcmp(ba, bb, size * N * 8)) viol("oracle", "vec_znx_big_automorphism in place != out of place p=%" PRId64, po);
        long wh;
        if (gb_check(&ga, &wh) || gb_check(&gb, &wh)) viol("canary", "big vector guard modified (%ld)", wh);
        gb_free(&ga);
        gb_free(&gb);
        cnt("wrapper_calls", 3);
        // big rotation / automorphism in place for every pair of limb counts 0..3 (one-limb and empty vectors included), against
        // the out-of-place call on a copy
        for (uint64_t rs2 = 0; rs2 <= 3; rs2++)
          for (uint64_t as2 = 0; as2 <= 3; as2++)
            for (int variant = 0; variant < 2; variant++) {
              const uint64_t lim = (rs2 > as2 ? rs2 : as2) ? (rs2 > as2 ? rs2 : as2) : 1;
              gbuf_t gx, gy, gz;
              int64_t* x = gb_alloc(&gx, bytes_of_vec_znx_big(mod, lim), 8, 8, 4096);
              int64_t* y = gb_alloc(&gy, bytes_of_vec_znx_big(mod, lim), 8, 16, 4096);
              int64_t* z2 = gb_alloc(&gz, bytes_of_vec_znx_big(mod, rs2 ? rs2 : 1), 8, 24, 4096);
              for (uint64_t i = 0; i < lim * N; i++) x[i] = y[i] = (int64_t)(i + 1) * (variant ? -3 : 5);
              memset(z2, 0x44, (rs2 ? rs2 : 1) * N * 8);
              const int64_t pp = variant ? po : p;
              if (variant) {
                vec_znx_big_automorphism(mod, pp, (VEC_ZNX_BIG*)z2, rs2, (VEC_ZNX_BIG*)y, as2);
                vec_znx_big_automorphism(mod, pp, (VEC_ZNX_BIG*)x, rs2, (VEC_ZNX_BIG*)x, as2);
              } else {
                vec_znx_big_rotate(mod, pp, (VEC_ZNX_BIG*)z2, rs2, (VEC_ZNX_BIG*)y, as2);
                vec_znx_big_rotate(mod, pp, (VEC_ZNX_BIG*)x, rs2, (VEC_ZNX_BIG*)x, as2);
              }
              if (rs2 && memcmp(x, z2, rs2 * N * 8)) viol("oracle", "%s in place (res_size=%" PRIu64 ", a_size=%" PRIu64 ", p=%" PRId64 ") != out of place", variant ? "vec_znx_big_automorphism" : "vec_znx_big_rotate", rs2, as2, pp);
              for (uint64_t l = 0; l < rs2; l++) {
                if (l < as2) {
                  if (variant) oracle_auto(N, pp, y + l * N, exp); else oracle_rotate(N, pp, y + l * N, exp);
                } else
                  memset(exp, 0, N * 8);
                if (cmp_i(z2 + l * N, exp, N, &at)) viol("oracle", "%s (res_size=%" PRIu64 ", a_size=%" PRIu64 "): limb %" PRIu64 " is not the zero-extended map", variant ? "vec_znx_big_automorphism" : "vec_znx_big_rotate", rs2, as2, l);
              }
              long wh2;
              if (gb_check(&gx, &wh2) || gb_check(&gy, &wh2) || gb_check(&gz, &wh2)) viol("canary", "big rotate/automorphism (sizes %" PRIu64 ",%" PRIu64 ") wrote outside its vectors", rs2, as2);
              gb_free(&gx); gb_free(&gy); gb_free(&gz);
              cnt("wrapper_calls", 2);
              cnt("inplace_unequal_size_calls", 1);
            }
      }
      sample("p=%" PRId64 " q=%" PRId64 " size=%" PRIu64 " sl=%" PRIu64, p, q, size, sl);
      free(exp);
      free(exp2);
      zvec_free(&a);
      zvec_free(&b);
      zvec_free(&c);
      case_end(1);
      if (generic) mt = 2;
    }
  }
}

// the same exponent p applied back to back in different dimensions (and different p in the same dimension):
// the maps must not depend on what was computed before
static void cross_dimension_case(unsigned rep) {
  if (!case_begin("kernels|same-p-across-dimensions", "rep=%u", rep)) return;
  rng_t* r = crng();
  static const uint64_t DN[] = {16, 64, 256, 1024, 4, 4096, 8, 2, 512, 32};
  for (int round = 0; round < 6; round++) {
    int64_t p = (round & 1) ? far_rep(r, 4096, (uint64_t)rng_range(r, 0, 8191), round & 3) : (int64_t)rng_range(r, -9000, 9000);
    const unsigned start = (unsigned)(rng_u64(r) % ARRAY_LEN(DN));
    for (unsigned k = 0; k < ARRAY_LEN(DN); k++) {
      const uint64_t N = DN[(start + (round & 2 ? ARRAY_LEN(DN) - k : k)) % ARRAY_LEN(DN)];  // ascending and descending orders
      ws_t w;
      ws_init(&w, N, 8 * (k % 8));
      fill_probe(&w, 0, r);
      check_all(&w, p, 0);
      check_all(&w, p | 1, 0);
      ws_free(&w);
    }
  }
  cnt("cross_dimension_sequences", 6);
  sample("6 exponents, each applied consecutively in 10 dimensions (both orders)");
  case_end(1);
}

// the in-place and out-of-place maps run by several threads at once on private vectors (shared module): each call
// must still return what it returns alone (a hidden shared scratch buffer would break the ring map under load)
static void concurrent_maps_case(uint64_t N, int T, unsigned rep) {
  if (!case_begin("rotate/automorphism|concurrent threads", "N=%" PRIu64 " threads=%d rep=%u", N, T, rep)) return;
  static const char* const NAMES[] = {"vec_znx_rotate(res==a)", "vec_znx_automorphism(res==a)", "vec_znx_big_rotate(res==a)", "vec_znx_big_automorphism(res==a)", "vec_znx_rotate", "vec_znx_automorphism",
                                      "vec_znx_big_rotate", "vec_znx_big_automorphism", "znx_rotate_inplace_i64", "znx_automorphism_inplace_i64", "rnx_rotate_inplace_f64", "rnx_automorphism_inplace_f64", "rnx_mul_xp_minus_one_inplace"};
  env_t* e = env_create(N, 1);
  char msg[240] = "";
  uint64_t calls = 0;
  uint64_t bad = ops_concurrent_check(NAMES, (int)ARRAY_LEN(NAMES), e, T, N <= 1024 ? 60 : 10, G.seed * 131 + rep, msg, sizeof msg, &calls);
  if (bad) viol("differential", "%s (%" PRIu64 " differing calls)", msg, bad);
  env_destroy(e);
  cnt("concurrent_map_calls", calls);
  sample("%d threads, %" PRIu64 " calls compared with their sequential re-run", T, calls);
  case_end(1);
}

// the double-precision variants on genuinely non-integer data: a*X^p - a is one IEEE subtraction per coefficient, i.e. the exact
// difference rounded ONCE. Neighbouring coefficients get exponents 52..54 binades apart (random 53-bit mantissas, random signs), so
// that the exact difference has up to 108 significant bits and sits at every distance from a rounding midpoint: evaluating it in a
// wider format and rounding again (double rounding) is off by one ulp on some of them. The expectation is computed in binary128,
// where these differences are exact. Rotation and automorphism only move and negate: compared bit for bit.
static void rnx_real_case(uint64_t N, int64_t p, unsigned rep) {
  if (!case_begin("rnx kernels|non-integer data, exponent gaps of 52..54 binades", "N=%" PRIu64 " p=%" PRId64 " rep=%u", N, p, rep)) return;
  rng_t* r = crng();
  double* in = malloc(N * 8);
  double* out = malloc(N * 8);
  double* ip = malloc(N * 8);
  const int e0 = (int)rng_range(r, -200, 200);
  for (uint64_t i = 0; i < N; i++) {
    const double mant = (double)((rng_u64(r) >> 11) | (1ull << 52));  // 53 significant bits
    const int e = e0 + ((i ^ (i >> 1)) & 1 ? 52 + (int)(rng_u64(r) % 3) : 0) + (int)(rng_u64(r) % 2);
    in[i] = ldexp(mant, e - 52) * ((rng_u64(r) & 1) ? 1 : -1);
  }
  const uint64_t m2 = 2 * N - 1;
  uint64_t bad = 0;
  memset(out, 0x5A, N * 8);
  rnx_mul_xp_minus_one(N, p, out, in);
  memcpy(ip, in, N * 8);
  rnx_mul_xp_minus_one_inplace(N, p, ip);
  for (uint64_t i = 0; i < N; i++) {
    // coefficient j of a*X^p: +-in[i] with j = (i + p) mod 2N
    const uint64_t j2 = ((uint64_t)i + (uint64_t)p) & m2, j = j2 < N ? j2 : j2 - N;
    const __float128 rot = j2 < N ? (__float128)in[i] : -(__float128)in[i];
    const double want = (double)(rot - (__float128)in[j]);
    if ((memcmp(&out[j], &want, 8) && !(out[j] == 0 && want == 0)) && bad++ < 2)
      viol("oracle", "rnx_mul_xp_minus_one N=%" PRIu64 " p=%" PRId64 " coefficient %" PRIu64 ": got %a, the correctly rounded difference of %a and %a is %a", N, p, j, out[j], (double)rot, in[j], want);
    if ((memcmp(&ip[j], &want, 8) && !(ip[j] == 0 && want == 0)) && bad++ < 2)
      viol("oracle", "rnx_mul_xp_minus_one_inplace N=%" PRIu64 " p=%" PRId64 " coefficient %" PRIu64 ": got %a want %a", N, p, j, ip[j], want);
  }
  memset(out, 0x5A, N * 8);
  rnx_rotate_f64(N, p, out, in);
  memcpy(ip, in, N * 8);
  rnx_rotate_inplace_f64(N, p, ip);
  for (uint64_t i = 0; i < N; i++) {
    const uint64_t j2 = ((uint64_t)i + (uint64_t)p) & m2, j = j2 < N ? j2 : j2 - N;
    const double want = j2 < N ? in[i] : -in[i];
    if ((memcmp(&out[j], &want, 8) || memcmp(&ip[j], &want, 8)) && bad++ < 2) viol("oracle", "rnx_rotate(_inplace)_f64 N=%" PRIu64 " p=%" PRId64 " coefficient %" PRIu64 " is not +-(the source coefficient), bit for bit", N, p, j);
  }
  if (p & 1) {
    memset(out, 0x5A, N * 8);
    rnx_automorphism_f64(N, p, out, in);
    memcpy(ip, in, N * 8);
    rnx_automorphism_inplace_f64(N, p, ip);
    for (uint64_t i = 0; i < N; i++) {
      const uint64_t j2 = ((uint64_t)i * (uint64_t)p) & m2, j = j2 < N ? j2 : j2 - N;
      const double want = j2 < N ? in[i] : -in[i];
      if ((memcmp(&out[j], &want, 8) || memcmp(&ip[j], &want, 8)) && bad++ < 2) viol("oracle", "rnx_automorphism(_inplace)_f64 N=%" PRIu64 " p=%" PRId64 " coefficient %" PRIu64 " is not +-(the source coefficient), bit for bit", N, p, j);
    }
  }
  cnt("rnx_real_coefficients", 4 * N);
  sample("%" PRIu64 " non-integer coefficients with 52..54-binade gaps: differences correctly rounded, moves bit-exact", N);
  free(in); free(out); free(ip);
  case_end(1);
}

void run_C09(void) {
  const int th = G.thorough;
  const uint64_t exh_max = th ? 65536 : 8192;
  for (unsigned rep = 0; rep < (th ? 400u : 32u); rep++) cross_dimension_case(rep);
  {
    static const uint64_t CN[] = {8, 64, 256, 2048, 8192};
    for (size_t i = 0; i < ARRAY_LEN(CN); i++)
      for (unsigned rep = 0; rep < (th ? 10u : 2u); rep++) concurrent_maps_case(CN[i], rep & 1 ? 16 : 4, rep);
  }
  for (uint64_t N = 1; N <= 65536; N <<= 1) {
    if (N <= exh_max)
      exhaustive_kernels(N, N <= (th ? 4096 : 1024));
    else {
      sampled_kernels(N, th ? 4096 : 256, 0);
      if (th) exhaustive_inplace_auto(N);
    }
    special_classes(N);
    if (N >= 2) wrappers(N, th ? (N <= 4096 ? 400 : 40) : (N <= 4096 ? 24 : 4));
  }
  // the entry points of this property called a second time on the SAME buffers holding other data (new values, two limbs exchanged,
  // one word moved between limbs): must equal a fresh call on that data (results or operands remembered by address)
  {
    static const char* const RNAMES[] = {"vec_znx_rotate", "vec_znx_automorphism", "vec_znx_big_rotate", "vec_znx_big_automorphism", "znx_rotate_i64", "rnx_rotate_f64", "znx_rotate_inplace_i64", "rnx_rotate_inplace_f64", "znx_automorphism_i64", "rnx_automorphism_f64", "znx_automorphism_inplace_i64", "rnx_automorphism_inplace_f64", "znx_mul_xp_minus_one", "rnx_mul_xp_minus_one", "rnx_mul_xp_minus_one_inplace"};
    static const uint64_t RN[] = {2, 16, 64, 1024};
    for (size_t i = 0; i < ARRAY_LEN(RN); i++)
      for (int cfg = DISP_NATIVE; cfg >= DISP_GENERIC; cfg--) {
        if (cfg == DISP_GENERIC && (i & 1)) continue;
        ops_recontent_case("C09 entry points", RNAMES, (int)ARRAY_LEN(RNAMES), RN[i], cfg, G.thorough ? 40 : 6, (unsigned)i, "same_buffers_other_data_calls");
      }
    // and with every allocation request made inside the call refused (build tag "oom"; a no-op in the other builds)
    for (int cfg = DISP_NATIVE; cfg >= DISP_GENERIC; cfg--) {
      ops_oom_case("C09 entry points", RNAMES, (int)ARRAY_LEN(RNAMES), 64, cfg, G.thorough ? 12 : 3, 0, "calls_repeated_under_allocation_failure");
      ops_oom_case("C09 entry points", RNAMES, (int)ARRAY_LEN(RNAMES), 1024, cfg, G.thorough ? 6 : 2, 1, "calls_repeated_under_allocation_failure");
    }
    // and from a thread with a small stack, at the largest dimensions
    for (int cfg = DISP_NATIVE; cfg >= DISP_GENERIC; cfg--) {
      ops_small_stack_case("C09 entry points", RNAMES, (int)ARRAY_LEN(RNAMES), 65536, cfg, 256, G.thorough ? 4 : 1, 0, "small_stack_calls");
      ops_small_stack_case("C09 entry points", RNAMES, (int)ARRAY_LEN(RNAMES), 16384, cfg, 256, G.thorough ? 4 : 2, 1, "small_stack_calls");
    }
  }
  // several threads creating, using and destroying their own modules / tables at the same time
  for (unsigned rep = 0; rep < (G.thorough ? 60u : 8u); rep++)
    ops_concurrent_lifecycle_case("C09 objects", LKM_MOD_NTT120 | LKM_MOD_FFT64, (rep % 4) == 3 ? DISP_GENERIC : DISP_NATIVE, rep & 1 ? 8 : 4, 120, rep, "concurrent_lifecycle_uses");
  {
    static const uint64_t RN[] = {8, 64, 1024, 4096, 2, 65536};
    static const int64_t RP[] = {1, 3, -1, 5, 7, 1025, -4097, 2, 6};
    for (size_t ni = 0; ni < ARRAY_LEN(RN); ni++)
      for (unsigned rep = 0; rep < (G.thorough ? 60u : (RN[ni] <= 4096 ? 9u : 2u)); rep++) rnx_real_case(RN[ni], RP[rep % ARRAY_LEN(RP)] + (int64_t)(rep / 9) * 2 * (int64_t)RN[ni], rep);
  }
}
