#include "lib.h"
static MODULE* mods[20][2][N_DISP];
const MODULE* get_module(uint64_t N, MODULE_TYPE type, int native) {
  unsigned k = ilog2(N);
  int t = (type == NTT120);
  native &= 3;
  if (!mods[k][t][native]) {
    int saved = g_dispatch_native;
    set_dispatch(native);
    mods[k][t][native] = new_module_info(N, type);
    set_dispatch(saved);
  }
  return mods[k][t][native];
}
void drop_modules(void) {
  for (int k = 0; k < 20; k++)
    for (int t = 0; t < 2; t++)
      for (int n = 0; n < N_DISP; n++)
        if (mods[k][t][n]) {
          // delete_module_info consults CPU_SUPPORTS: restore the creation-time configuration
          int saved = g_dispatch_native;
          set_dispatch(n);
          delete_module_info(mods[k][t][n]);
          set_dispatch(saved);
          mods[k][t][n] = 0;
        }
}
