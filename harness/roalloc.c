// Read-only tables (plain build only): while capture is on, every allocation made by the library
// (malloc / calloc / aligned_alloc / posix_memalign / memalign) is served from its own page-aligned
// mapping and recorded; ro_protect() then makes all recorded mappings PROT_READ, so that any later
// write to a module or precomputed table faults — even a transient write that restores the old value.
// Only compiled in with -DVP_ROALLOC (build tag "ro"); otherwise, and under ASan/TSan (those runtimes own the
// allocator; memcheck must keep its own malloc replacement), this file compiles to stubs.
#include "roalloc.h"

#include <errno.h>
#include <pthread.h>
#include <sys/mman.h>
#include <unistd.h>

#if VP_ASAN || VP_TSAN || !defined(VP_ROALLOC)
int ro_available(void) { return 0; }
void ro_capture(int on) { (void)on; }
size_t ro_protect(void) { return 0; }
void ro_unprotect(void) {}
uint64_t ro_hash(void) { return 0; }
size_t ro_regions(void) { return 0; }
#else
extern void* __libc_malloc(size_t);
extern void __libc_free(void*);
extern void* __libc_calloc(size_t, size_t);
extern void* __libc_realloc(void*, size_t);
extern void* __libc_memalign(size_t, size_t);

#define RO_MAX 4096
static struct {
  void* user;   // pointer handed to the library
  void* map;    // mapping base
  size_t maplen, size;
} reg[RO_MAX];
static int nreg = 0;
static volatile int capturing = 0;
static pthread_t capture_thread;
static pthread_mutex_t lk = PTHREAD_MUTEX_INITIALIZER;

int ro_available(void) { return 1; }
void ro_capture(int on) {
  capture_thread = pthread_self();
  capturing = on;
}
static void* ro_alloc(size_t align, size_t size) {
  const size_t pg = 4096;
  if (align < 64) align = 64;
  size_t maplen = ((size + align + pg - 1) / pg + 1) * pg;
  void* m = mmap(0, maplen, PROT_READ | PROT_WRITE, MAP_PRIVATE | MAP_ANONYMOUS, -1, 0);
  if (m == MAP_FAILED) return 0;
  // place the object at the END of the mapping (rounded down to the alignment) so that an overrun leaves the mapping
  uintptr_t u = ((uintptr_t)m + maplen - size) & ~(uintptr_t)(align - 1);
  pthread_mutex_lock(&lk);
  if (nreg >= RO_MAX) {
    pthread_mutex_unlock(&lk);
    munmap(m, maplen);
    return 0;
  }
  reg[nreg].user = (void*)u;
  reg[nreg].map = m;
  reg[nreg].maplen = maplen;
  reg[nreg].size = size;
  nreg++;
  pthread_mutex_unlock(&lk);
  return (void*)u;
}
static int ro_find(void* p) {
  for (int i = 0; i < nreg; i++)
    if (reg[i].user == p) return i;
  return -1;
}
static int mine(void) { return capturing && pthread_equal(pthread_self(), capture_thread); }

void* malloc(size_t n) { return mine() ? ro_alloc(16, n) : __libc_malloc(n); }
void* calloc(size_t a, size_t b) {
  if (mine()) return ro_alloc(16, a * b);  // fresh anonymous mappings are zero-filled
  return __libc_calloc(a, b);
}
void* aligned_alloc(size_t al, size_t n) { return mine() ? ro_alloc(al, n) : __libc_memalign(al, n); }
void* memalign(size_t al, size_t n) { return mine() ? ro_alloc(al, n) : __libc_memalign(al, n); }
int posix_memalign(void** out, size_t al, size_t n) {
  void* p = mine() ? ro_alloc(al, n) : __libc_memalign(al, n);
  if (!p) return ENOMEM;
  *out = p;
  return 0;
}
void* realloc(void* p, size_t n) {
  if (p) {
    pthread_mutex_lock(&lk);
    int i = ro_find(p);
    pthread_mutex_unlock(&lk);
    if (i >= 0) {  // not used by the library for its tables; keep it simple and correct
      void* q = malloc(n);
      if (q) memcpy(q, p, reg[i].size < n ? reg[i].size : n);
      free(p);
      return q;
    }
  }
  return __libc_realloc(p, n);
}
void free(void* p) {
  if (!p) return;
  pthread_mutex_lock(&lk);
  int i = ro_find(p);
  if (i >= 0) {
    void* m = reg[i].map;
    size_t l = reg[i].maplen;
    reg[i] = reg[--nreg];
    pthread_mutex_unlock(&lk);
    munmap(m, l);
    return;
  }
  pthread_mutex_unlock(&lk);
  __libc_free(p);
}
size_t ro_protect(void) {
  size_t bytes = 0;
  pthread_mutex_lock(&lk);
  for (int i = 0; i < nreg; i++) {
    mprotect(reg[i].map, reg[i].maplen, PROT_READ);
    bytes += reg[i].size;
  }
  pthread_mutex_unlock(&lk);
  return bytes;
}
void ro_unprotect(void) {
  pthread_mutex_lock(&lk);
  for (int i = 0; i < nreg; i++) mprotect(reg[i].map, reg[i].maplen, PROT_READ | PROT_WRITE);
  pthread_mutex_unlock(&lk);
}
uint64_t ro_hash(void) {
  uint64_t h = 17;
  pthread_mutex_lock(&lk);
  for (int i = 0; i < nreg; i++) h += hash_bytes(reg[i].user, reg[i].size, (uint64_t)reg[i].size);  // order independent
  pthread_mutex_unlock(&lk);
  return h;
}
size_t ro_regions(void) { return (size_t)nreg; }
#endif
