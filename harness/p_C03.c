// C03 — the NTT120 transform is an exact, invertible negacyclic transform on all 64-bit data.
// Oracle: modular arithmetic on the residues of the 64-bit lanes; negacyclic convolution modulo
// each prime; Horner evaluation at the roots read off the transform of X.
#include "q120h.h"
#include "ops.h"

// tables for every n = 2^k, k = 0..16; created in a deliberate order (large sizes first, then small
// ones, then a second set in the opposite order) so that tables of different sizes are alive together
static q120_ntt_precomp* NTT[17][2];
static q120_ntt_precomp* INTT[17][2];
static void make_tables(void) {
  // which table is the first one the process builds depends on the partition (every partition is a fresh process):
  // forward or inverse first, largest or smallest first - all of them are used by the cases below
  const int inv_first = (G.part >> 1) & 1, asc = (G.part >> 2) & 1;
  for (int j = 0; j <= 16; j++) {
    const int k = asc ? j : 16 - j;
    if (inv_first) INTT[k][0] = q120_new_intt_bb_precomp(1ull << k);
    NTT[k][0] = q120_new_ntt_bb_precomp(1ull << k);
    if (!inv_first) INTT[k][0] = q120_new_intt_bb_precomp(1ull << k);
  }
  for (int j = 0; j <= 16; j++) {
    const int k = asc ? 16 - j : j;
    INTT[k][1] = q120_new_intt_bb_precomp(1ull << k);
    NTT[k][1] = q120_new_ntt_bb_precomp(1ull << k);
  }
  cntf("first_table_of_process:%s,%s", 1, inv_first ? "inverse" : "forward", asc ? "n=1" : "n=65536");
}
static void free_tables(void) {
  for (int k = 0; k <= 16; k++)
    for (int s = 0; s < 2; s++) {
      q120_del_ntt_bb_precomp(NTT[k][s]);
      q120_del_intt_bb_precomp(INTT[k][s]);
    }
}

static void reduce_lanes(uint64_t n, const uint64_t* x, uint64_t* out) {
  for (uint64_t i = 0; i < n; i++)
    for (int k = 0; k < 4; k++) out[4 * i + k] = x[4 * i + k] % Q120[k];
}
static int congruent(uint64_t n, const uint64_t* a, const uint64_t* b, uint64_t* at, int* prime) {
  for (uint64_t i = 0; i < n; i++)
    for (int k = 0; k < 4; k++)
      if (a[4 * i + k] % Q120[k] != b[4 * i + k] % Q120[k]) {
        *at = i;
        *prime = k;
        return 0;
      }
  return 1;
}

// volume: a relation between the two operands of ONE butterfly (equal high words, a difference that just fails to wrap ...) has a
// probability of 2^-20 .. 2^-30 per transform under random lanes - out of reach of a few thousand cases, within reach of millions
// of tiny transforms: 2^22 round trips per case at n = 8 (fewer at 16 and 64) on uniformly random 64-bit lanes (and on lanes whose high
// words are drawn from a set of four values, which makes equal high words common)
static void volume_roundtrip_case(uint64_t n, int mode, unsigned rep) {
  char key[96];
  snprintf(key, sizeof key, "q120_ntt/intt_bb_avx2|volume of small round trips,%s", mode ? "int64 coefficients through the module" : "uniform lanes");
  if (!case_begin(key, "n=%" PRIu64 " rep=%u", n, rep)) return;
  rng_t* r = crng();
  const unsigned lg = ilog2(n);
  uint64_t* x = aligned_alloc(64, (n * 32 + 63) / 64 * 64);
  uint64_t* x0 = malloc(n * 32);
  const uint64_t iters = ((uint64_t)1 << 22) * 8 / (n < 8 ? 8 : n);
  uint64_t bad = 0, at = 0;
  int pk = 0;
  if (mode) {
    // through the module API: random int64 coefficients -> vec_znx_dft -> vec_znx_idft_tmp_a must return them (the lanes the
    // transforms see are then the images of 64-bit integers, another distribution than uniform lanes)
    const MODULE* M = get_module(n, NTT120, 1);
    int64_t* a = malloc(n * 8);
    __int128* bg = aligned_alloc(64, (n * 16 + 63) / 64 * 64);
    for (uint64_t it = 0; it < iters / 2 && !bad; it++) {
      for (uint64_t i = 0; i < n; i++) a[i] = (int64_t)rng_u64(r);
      vec_znx_dft(M, (VEC_ZNX_DFT*)x, 1, a, 1, n);
      vec_znx_idft_tmp_a(M, (VEC_ZNX_BIG*)bg, 1, (VEC_ZNX_DFT*)x, 1);
      for (uint64_t i = 0; i < n; i++)
        if (bg[i] != (__int128)a[i]) {
          bad++;
          viol("oracle", "round trip number %" PRIu64 " of a volume run through the NTT120 module: N=%" PRIu64 " coefficient %" PRIu64 ": idft(dft(a)) != a = %" PRId64, it, n, i, a[i]);
          break;
        }
    }
    free(a);
    free(bg);
  }
  for (uint64_t it = 0; it < iters && !bad && !mode; it++) {
    for (uint64_t i = 0; i < 4 * n; i++) {
      const uint64_t w = rng_u64(r);
      x0[i] = x[i] = w;
    }
    q120_ntt_bb_avx2(NTT[lg][it & 1], (q120b*)x);
    q120_intt_bb_avx2(INTT[lg][it & 1], (q120b*)x);
    if (!congruent(n, x, x0, &at, &pk)) {
      bad++;
      viol("oracle", "round trip number %" PRIu64 " of a volume run: n=%" PRIu64 " coefficient %" PRIu64 " prime %d: intt(ntt(x)) = %" PRIu64 " not congruent to x = %" PRIu64, it, n, at, pk, x[4 * at + pk], x0[4 * at + pk]);
    }
  }
  cnt("volume_roundtrips", iters);
  sample("%" PRIu64 " round trips at n=%" PRIu64 ", all congruent", iters, n);
  free(x);
  free(x0);
  case_end(1);
}

static void transform_case(uint64_t n, int fam, int set, unsigned rep) {
  char key[96];
  snprintf(key, sizeof key, "q120_ntt/intt_bb_avx2|%s,%s", n <= 1024 ? "n<=1024(levels)" : "n>1024(levels+blocks)", q120_fam_name[fam]);
  if (!case_begin(key, "n=%" PRIu64 " fam=%s tableset=%d rep=%u", n, q120_fam_name[fam], set, rep)) return;
  rng_t* r = crng();
  const unsigned lg = ilog2(n);
  gbuf_t gx, gy, gz;
  uint64_t* x = gb_alloc(&gx, n * 32, 8, 8 * (rep % 8), 4096);
  uint64_t* y = gb_alloc(&gy, n * 32, 8, 8 * ((rep + 3) % 8), 4096);
  uint64_t* z = gb_alloc(&gz, n * 32, 8, 8 * ((rep + 5) % 8), 4096);
  uint64_t* x0 = malloc(n * 32);
  uint64_t* y0 = malloc(n * 32);
  uint64_t at;
  int pk;
  q120_gen_b(r, fam, n, x);
  memcpy(x0, x, n * 32);
  // tables of another size are created (and later deleted) between the creation and the use of ours:
  // a table must not depend on which other tables exist or were created after it
  const unsigned ok = (unsigned)rng_range(r, 0, 16);
  q120_ntt_precomp* other_f = q120_new_ntt_bb_precomp(1ull << ok);
  q120_ntt_precomp* other_i = q120_new_intt_bb_precomp(1ull << ok);
  cnt("interleaved_table_creations", 2);
  // --- round trip: intt(ntt(x)) == x modulo each prime, on any 64-bit lane content
  q120_ntt_bb_avx2(NTT[lg][set], (q120b*)x);
  memcpy(z, x, n * 32);  // z = ntt(x)
  q120_intt_bb_avx2(INTT[lg][set], (q120b*)x);
  if (!congruent(n, x, x0, &at, &pk)) viol("oracle", "round trip: n=%" PRIu64 " coefficient %" PRIu64 " prime %d: intt(ntt(x)) = %" PRIu64 " not congruent to x = %" PRIu64, n, at, pk, x[4 * at + pk], x0[4 * at + pk]);
  cnt("roundtrips_checked", 1);
  // --- linearity: ntt(x') + ntt(y) == ntt(x' + y) with the sum taken on reduced lanes
  q120_gen_b(r, (fam + 1) % QF_N, n, y);
  memcpy(y0, y, n * 32);
  q120_ntt_bb_avx2(NTT[lg][set], (q120b*)y);
  uint64_t* s = malloc(n * 32);
  for (uint64_t i = 0; i < 4 * n; i++) s[i] = x0[i] % Q120[i & 3] + y0[i] % Q120[i & 3];
  memcpy(x, s, n * 32);
  q120_ntt_bb_avx2(NTT[lg][set], (q120b*)x);
  for (uint64_t i = 0; i < 4 * n; i++) s[i] = (z[i] % Q120[i & 3] + y[i] % Q120[i & 3]) % Q120[i & 3];
  if (!congruent(n, x, s, &at, &pk)) viol("oracle", "linearity: n=%" PRIu64 " output %" PRIu64 " prime %d: ntt(x+y) != ntt(x)+ntt(y)", n, at, pk);
  cnt("linearity_checked", 1);
  // the same with the sum formed by the library's own lazy adder on the original (unreduced) lanes, half of the lanes of both
  // operands pushed to the top of the 64-bit range first: ntt(x (+) y) == ntt(x) + ntt(y)
  {
    uint64_t* xa = malloc(n * 32);
    uint64_t* ya = malloc(n * 32);
    uint64_t* sa = aligned_alloc(64, (n * 32 + 63) / 64 * 64);
    for (uint64_t i = 0; i < 4 * n; i++) {
      xa[i] = x0[i];
      ya[i] = y0[i];
      if (rng_u64(r) & 1) {  // same residue class, largest representative region: x + t*q just below 2^64
        const uint64_t q = Q120[i & 3];
        xa[i] = x0[i] % q + ((~0ull - q) / q - rng_u64(r) % 4096) * q;
        ya[i] = y0[i] % q + ((~0ull - q) / q - rng_u64(r) % 4096) * q;
      }
    }
    q120_add_bbb_simple(n, (q120b*)sa, (q120b*)xa, (q120b*)ya);
    q120_ntt_bb_avx2(NTT[lg][set], (q120b*)sa);
    if (!congruent(n, sa, s, &at, &pk)) viol("oracle", "linearity through q120_add_bbb_simple: n=%" PRIu64 " output %" PRIu64 " prime %d: ntt(x (+) y) != ntt(x) + ntt(y) (operand lanes up to 2^64 - 1)", n, at, pk);
    cnt("linearity_checked", 1);
    free(xa); free(ya); free(sa);
  }
  // --- convolution theorem: intt(ntt(a) . ntt(b)) == a * b in Z_q[X]/(X^n+1)
  if (n <= 4096 || rep == 0) {
    uint64_t* prod = malloc(n * 32);
    for (uint64_t i = 0; i < 4 * n; i++) prod[i] = mulmod(z[i] % Q120[i & 3], y[i] % Q120[i & 3], Q120[i & 3]);
    // lazily unreduced representatives of the pointwise products (any 64-bit lane is allowed as input)
    for (uint64_t i = 0; i < 4 * n; i++) {
      uint64_t q = Q120[i & 3];
      prod[i] += q * (rng_u64(r) % ((~0ull - prod[i]) / q + 1));
    }
    memcpy(x, prod, n * 32);
    q120_intt_bb_avx2(INTT[lg][set], (q120b*)x);
    uint64_t* la = malloc(n * 8);
    uint64_t* lb = malloc(n * 8);
    uint64_t* lc = malloc(n * 8);
    for (int k = 0; k < 4; k++) {
      for (uint64_t i = 0; i < n; i++) {
        la[i] = x0[4 * i + k] % Q120[k];
        lb[i] = y0[4 * i + k] % Q120[k];
      }
      negacyclic_modq(n, la, lb, lc, Q120[k]);
      for (uint64_t i = 0; i < n; i++)
        if (x[4 * i + k] % Q120[k] != lc[i]) {
          viol("oracle", "convolution: n=%" PRIu64 " coefficient %" PRIu64 " prime %d: intt(ntt(a).ntt(b)) = %" PRIu64 " want %" PRIu64, n, i, k, x[4 * i + k] % Q120[k], lc[i]);
          break;
        }
    }
    free(la);
    free(lb);
    free(lc);
    free(prod);
    cnt("convolutions_checked", 1);
  }
  long wh;
  if (gb_check(&gx, &wh) || gb_check(&gy, &wh) || gb_check(&gz, &wh)) viol("canary", "transform wrote outside its n*32-byte buffer (%ld)", wh);
  sample("round trip, linearity%s on %s lanes", (n <= 4096 || rep == 0) ? ", convolution" : "", q120_fam_name[fam]);
  int nonzero = 0;
  for (uint64_t i = 0; i < 4 * n; i++) nonzero |= (x0[i] != 0);
  q120_del_ntt_bb_precomp(other_f);
  q120_del_intt_bb_precomp(other_i);
  free(s);
  free(x0);
  free(y0);
  gb_free(&gx);
  gb_free(&gy);
  gb_free(&gz);
  cntf("n:%" PRIu64, 1, n);
  case_end(n >= 2 && nonzero);
}

// evaluation map: the transform of X gives the roots; each must be a primitive 2n-th root, all distinct,
// and the transform of a random x must equal Horner evaluation of x at those roots
static void evalmap_case(uint64_t n, int set, unsigned rep) {
  if (!case_begin("q120_ntt_bb_avx2|evaluation-map", "n=%" PRIu64 " tableset=%d rep=%u", n, set, rep)) return;
  rng_t* r = crng();
  const unsigned lg = ilog2(n);
  uint64_t* X = calloc(n * 4 + 4, 8);
  uint64_t* x = malloc(n * 32);
  uint64_t* x0 = malloc(n * 32);
  if (n >= 2) {
    for (int k = 0; k < 4; k++) X[4 + k] = 1;  // the polynomial X
  }
  q120_ntt_bb_avx2(NTT[lg][set], (q120b*)X);
  q120_gen_b(r, (int)(rep % QF_N), n, x);
  memcpy(x0, x, n * 32);
  q120_ntt_bb_avx2(NTT[lg][set], (q120b*)x);
  const uint64_t nj = (n <= 2048) ? n : 64;
  for (int k = 0; k < 4 && n >= 2; k++) {
    const uint64_t q = Q120[k];
    // roots: primitive 2n-th (root^n == -1) and pairwise distinct
    uint64_t* roots = malloc(n * 8);
    for (uint64_t j = 0; j < n; j++) {
      roots[j] = X[4 * j + k] % q;
      if (powmod(roots[j], n, q) != q - 1) {
        viol("oracle", "evaluation map: n=%" PRIu64 " prime %d output %" PRIu64 ": %" PRIu64 " is not a primitive 2n-th root of unity", n, k, j, roots[j]);
        break;
      }
    }
    // distinctness through sorting a copy
    uint64_t* srt = malloc(n * 8);
    memcpy(srt, roots, n * 8);
    for (uint64_t gap = n / 2; gap > 0; gap /= 2)  // shell sort (n <= 65536)
      for (uint64_t i = gap; i < n; i++) {
        uint64_t t = srt[i], j = i;
        for (; j >= gap && srt[j - gap] > t; j -= gap) srt[j] = srt[j - gap];
        srt[j] = t;
      }
    for (uint64_t j = 1; j < n; j++)
      if (srt[j] == srt[j - 1]) {
        viol("oracle", "evaluation map: n=%" PRIu64 " prime %d: two outputs evaluate at the same root", n, k);
        break;
      }
    free(srt);
    for (uint64_t t = 0; t < nj; t++) {
      uint64_t j = (nj == n) ? t : (uint64_t)rng_range(r, 0, (int64_t)n - 1);
      uint64_t acc = 0;
      for (uint64_t i = n; i-- > 0;) acc = (mulmod(acc, roots[j], q) + x0[4 * i + k] % q) % q;
      if (x[4 * j + k] % q != acc) {
        viol("oracle", "evaluation map: n=%" PRIu64 " prime %d output %" PRIu64 " = %" PRIu64 " but x(root) = %" PRIu64, n, k, j, x[4 * j + k] % q, acc);
        break;
      }
      cnt("horner_evaluations", 1);
    }
    free(roots);
  }
  if (n == 1) {
    // n = 1: the transform is the identity on the residues
    for (int k = 0; k < 4; k++)
      if (x[k] % Q120[k] != x0[k] % Q120[k]) viol("oracle", "n=1 transform changed residue %d", k);
    cnt("horner_evaluations", 1);
  }
  sample("roots primitive and distinct; %" PRIu64 " outputs per prime equal Horner evaluation", nj);
  free(X);
  free(x);
  free(x0);
  case_end(n >= 2);
}

// module level: vec_znx_dft followed by vec_znx_idft / vec_znx_idft_tmp_a returns the int64 coefficients exactly
static void module_case(uint64_t N, uint64_t a_size, uint64_t dft_size, uint64_t res_size, unsigned aslc, int tmp_a, int inplace, unsigned rep) {
  char key[128];
  snprintf(key, sizeof key, "ntt120:vec_znx_dft+%s|%s%s", tmp_a ? "idft_tmp_a" : (inplace ? "idft(res==a_dft)" : "idft"), a_size == 0 ? "a=0" : (dft_size < a_size ? "trunc" : (dft_size > a_size ? "zext" : "same")), res_size == 0 ? ",res=0" : "");
  if (!case_begin(key, "N=%" PRIu64 " a=%" PRIu64 " dft=%" PRIu64 " res=%" PRIu64 " asl=%u rep=%u", N, a_size, dft_size, res_size, aslc, rep)) return;
  rng_t* r = crng();
  const MODULE* mod = get_module(N, NTT120, 1);
  zvec_t A;
  zvec_alloc(&A, N, a_size, stride_choice(N, aslc), 8 * (rep % 8));
  for (uint64_t l = 0; l < a_size; l++)
    for (uint64_t i = 0; i < N; i++) {
      int64_t v;
      switch ((i + l + rep) % 7) {
        case 0: v = INT64_MIN; break;
        case 1: v = INT64_MAX; break;
        case 2: v = (int64_t)1 << 62; break;
        case 3: v = -((int64_t)1 << 62); break;
        case 4: v = INT64_MIN + (int64_t)(rng_u64(r) >> 12); break;
        default: v = (int64_t)rng_u64(r);
      }
      zvec_limb(&A, l)[i] = v;
    }
  // NTT120 objects: 4 lanes of 8 bytes per coefficient (DFT), 16 bytes per coefficient (big)
  gbuf_t gd, gb, gt;
  const uint64_t dft_limbs = inplace ? (dft_size > res_size ? dft_size : res_size) : dft_size;
  uint64_t* dft = gb_alloc(&gd, dft_limbs * N * 32, 32, 0, 4096);
  __int128* big = inplace ? (__int128*)dft : gb_alloc(&gb, res_size * N * 16, 16, 16 * (rep % 4), 4096);
  uint8_t* tmp = gb_alloc(&gt, vec_znx_idft_tmp_bytes(mod), 8, 8 * ((rep + 2) % 8), 4096);
  gb_prefill(&gd, 1 + (int)((rep + a_size + res_size) % 3), 1);  // never all-zero: stale content must be visible
  if (!inplace) gb_prefill(&gb, 1 + (int)((rep + dft_size) % 3), 2);
  gb_prefill(&gt, 2, 0);
  snap_t sa;
  zvec_snap(&sa, &A);
  // another NTT120 module of a different size is created after ours and destroyed before we finish
  MODULE* other = new_module_info(ALL_N[(rep + N + a_size + dft_size * 3 + res_size * 5) % N_ALL_N], NTT120);
  vec_znx_dft(mod, (VEC_ZNX_DFT*)dft, dft_size, A.p, a_size, A.sl);
  snap_t sd;
  snap_take(&sd, dft, dft_size * N * 32);
  if (tmp_a)
    vec_znx_idft_tmp_a(mod, (VEC_ZNX_BIG*)big, res_size, (VEC_ZNX_DFT*)dft, dft_size);
  else
    vec_znx_idft(mod, (VEC_ZNX_BIG*)big, res_size, (VEC_ZNX_DFT*)dft, dft_size, tmp);
  delete_module_info(other);
  long d;
  if (!tmp_a && !inplace) {
    if ((d = snap_cmp_free(&sd)) >= 0) viol("snapshot", "vec_znx_idft (non-overwriting variant) modified its DFT input at byte %ld", d);
  } else {
    free(sd.copy);
  }
  if ((d = zvec_snap_cmp_free(&sa, &A)) >= 0) viol("snapshot", "vec_znx_dft modified its input at byte %ld", d);
  uint64_t nbad = 0;
  for (uint64_t l = 0; l < res_size; l++)
    for (uint64_t i = 0; i < N; i++) {
      __int128 want = (l < a_size && l < dft_size) ? (__int128)zvec_limb(&A, l)[i] : 0;
      if (big[l * N + i] != want && nbad++ < 2) viol("oracle", "NTT120 dft->idft: limb %" PRIu64 " coeff %" PRIu64 ": got (low64) %" PRId64 " want %" PRId64, l, i, (int64_t)big[l * N + i], (int64_t)want);
    }
  long wh;
  char msg[200];
  if (zvec_check(&A, msg, sizeof msg)) viol("canary", "a: %s", msg);
  if (gb_check(&gd, &wh) || (!inplace && gb_check(&gb, &wh)) || gb_check(&gt, &wh)) viol("canary", "NTT120 dft/idft wrote outside an object (%ld)", wh);
  cnt("module_roundtrip_limbs", res_size);
  sample("%" PRIu64 " limbs of int128 output equal the int64 input (INT64_MIN/MAX included)", res_size);
  zvec_free(&A);
  gb_free(&gd);
  if (!inplace) gb_free(&gb);
  gb_free(&gt);
  case_end(res_size >= 1 && a_size >= 1 && dft_size >= 1);
}

// the inverse DFT of the NTT120 module fed directly with structured spectra (every 64-bit lane content is a legal
// input): the int128 result, reduced modulo each prime and transformed forward again (forward transform: checked against
// the evaluation map above), must be congruent to the spectrum lane by lane. Spectra with zero runs are what pointwise
// products with a polynomial vanishing on part of the roots look like.
static void spectrum_case(uint64_t N, int pat, int variant /*0 idft, 1 idft_tmp_a, 2 idft in place*/, uint64_t limbs, unsigned rep) {
  static const char* const pn[] = {"random", "first-quarter-zero", "only-first-quarter", "alternating-zero", "single-point", "allmax", "second-half-zero", "zero-lanes-of-one-prime"};
  static const char* const vn[] = {"idft", "idft_tmp_a", "idft(res==a_dft)"};
  char key[128];
  snprintf(key, sizeof key, "ntt120:%s|spectrum:%s", vn[variant], pn[pat]);
  if (!case_begin(key, "N=%" PRIu64 " limbs=%" PRIu64 " rep=%u", N, limbs, rep)) return;
  rng_t* r = crng();
  const MODULE* mod = get_module(N, NTT120, 1);
  const unsigned lg = ilog2(N);
  gbuf_t gd, gb, gt;
  uint64_t* dft = gb_alloc(&gd, limbs * N * 32, 32, 0, 4096);
  __int128* big = variant == 2 ? (__int128*)dft : gb_alloc(&gb, limbs * N * 16, 16, 16 * (rep % 4), 4096);
  uint8_t* tmp = gb_alloc(&gt, vec_znx_idft_tmp_bytes(mod), 8, 8 * ((rep + 2) % 8), 4096);
  if (variant != 2) gb_prefill(&gb, 1 + (int)(rep % 3), 2);
  gb_prefill(&gt, 2, 0);
  for (uint64_t l = 0; l < limbs; l++)
    for (uint64_t i = 0; i < N; i++)
      for (int k = 0; k < 4; k++) {
        uint64_t v = rng_u64(r);
        int zero = 0;
        switch (pat) {
          case 1: zero = i < (N + 3) / 4; break;
          case 2: zero = i >= (N + 3) / 4; break;
          case 3: zero = (i & 1) == ((l + rep) & 1); break;
          case 4: zero = i != (rep * 7 + l) % N; break;
          case 5: v = ~0ull; break;
          case 6: zero = i >= N / 2 && N >= 2; break;
          case 7: zero = k == (int)((rep + l) & 3); break;
          default: break;
        }
        dft[(l * N + i) * 4 + k] = zero ? 0 : v;
      }
  uint64_t* spec = malloc(limbs * N * 32 + 32);
  memcpy(spec, dft, limbs * N * 32);
  if (variant == 1) vec_znx_idft_tmp_a(mod, (VEC_ZNX_BIG*)big, limbs, (VEC_ZNX_DFT*)dft, limbs);
  else vec_znx_idft(mod, (VEC_ZNX_BIG*)big, limbs, (VEC_ZNX_DFT*)dft, limbs, tmp);
  if (variant == 0 && memcmp(spec, dft, limbs * N * 32)) viol("snapshot", "vec_znx_idft (non-overwriting variant) modified its DFT input");
  uint64_t* x = malloc(N * 32 + 32);
  uint64_t nbad = 0;
  for (uint64_t l = 0; l < limbs; l++) {
    for (uint64_t i = 0; i < N; i++) {
      const __int128 v = big[l * N + i];
      for (int k = 0; k < 4; k++) {
        __int128 m = v % (__int128)Q120[k];
        if (m < 0) m += Q120[k];
        x[4 * i + k] = (uint64_t)m;
      }
    }
    q120_ntt_bb_avx2(NTT[lg][rep & 1], (q120b*)x);
    uint64_t at;
    int prime;
    if (!congruent(N, x, spec + l * N * 4, &at, &prime) && nbad++ < 2)
      viol("oracle", "NTT120 %s on a spectrum with pattern %s: N=%" PRIu64 " limb %" PRIu64 ": forward transform of the result differs from the spectrum at point %" PRIu64 " prime %d", vn[variant], pn[pat], N, l, at, prime);
  }
  long wh;
  if (gb_check(&gd, &wh) || (variant != 2 && gb_check(&gb, &wh)) || gb_check(&gt, &wh)) viol("canary", "NTT120 idft wrote outside an object (%ld)", wh);
  cnt("spectrum_limbs_checked", limbs);
  sample("%" PRIu64 " limbs: forward(result) congruent to the %s spectrum", limbs, pn[pat]);
  free(x);
  free(spec);
  gb_free(&gd);
  if (variant != 2) gb_free(&gb);
  gb_free(&gt);
  case_end(N >= 2);
}

// hundreds of modules / tables of one size alive at the same time (a counter of users kept in a narrow type wraps), some
// of them deleted, unrelated allocations made, and the survivors still transform exactly
static void many_live_case(uint64_t N, unsigned count, unsigned rep) {
  if (!case_begin("ntt120 modules|hundreds alive at once, some deleted", "N=%" PRIu64 " count=%u rep=%u", N, count, rep)) return;
  rng_t* r = crng();
  MODULE** mods = calloc(count, sizeof *mods);
  q120_ntt_precomp** tf = calloc(count, sizeof *tf);
  q120_ntt_precomp** ti = calloc(count, sizeof *ti);
  for (unsigned i = 0; i < count; i++) {
    mods[i] = new_module_info(N, NTT120);
    if ((i & 3) == 0) {
      tf[i] = q120_new_ntt_bb_precomp(N);
      ti[i] = q120_new_intt_bb_precomp(N);
    }
  }
  // delete (count mod 256) + 1 of them, spread out, then let the allocator reuse whatever was released
  const unsigned ndel = count % 256 + 1 + (unsigned)(rng_u64(r) % 3);
  for (unsigned k = 0; k < ndel; k++) {
    const unsigned i = (unsigned)(rng_u64(r) % count);
    if (mods[i]) { delete_module_info(mods[i]); mods[i] = 0; }
    if (tf[i]) { q120_del_ntt_bb_precomp(tf[i]); q120_del_intt_bb_precomp(ti[i]); tf[i] = ti[i] = 0; }
  }
  void* junk[64];
  for (int j = 0; j < 64; j++) {
    junk[j] = malloc(16 + (size_t)(rng_u64(r) % (N * 40 + 64)));
    memset(junk[j], 0xA7, 16);
  }
  int64_t* a = malloc(N * 8);
  uint64_t* dft = malloc(N * 32 + 64);
  __int128* big = malloc(N * 16 + 64);
  uint64_t checked = 0, nbad = 0;
  for (unsigned i = 0; i < count; i++) {
    if (!mods[i]) continue;
    for (uint64_t c = 0; c < N; c++) a[c] = (int64_t)rng_u64(r);
    vec_znx_dft(mods[i], (VEC_ZNX_DFT*)dft, 1, a, 1, N);
    vec_znx_idft_tmp_a(mods[i], (VEC_ZNX_BIG*)big, 1, (VEC_ZNX_DFT*)dft, 1);
    for (uint64_t c = 0; c < N; c++)
      if (big[c] != (__int128)a[c]) { nbad++; break; }
    if (tf[i]) {
      uint64_t x[4 * 64], y[4 * 64];
      const uint64_t n = N > 64 ? 64 : N;  // the raw tables are checked through the round trip of a short prefix only when N <= 64
      if (N <= 64) {
        for (uint64_t c = 0; c < 4 * n; c++) x[c] = y[c] = rng_u64(r);
        q120_ntt_bb_avx2(tf[i], (q120b*)x);
        q120_intt_bb_avx2(ti[i], (q120b*)x);
        for (uint64_t c = 0; c < 4 * n; c++)
          if (x[c] % Q120[c & 3] != y[c] % Q120[c & 3]) { nbad++; break; }
      }
    }
    checked++;
  }
  if (nbad) viol("oracle", "%" PRIu64 " of %" PRIu64 " NTT120 modules / tables that were alive together with %u others no longer invert their transform after %u of them were deleted (N=%" PRIu64 ")", nbad, checked, count, ndel, N);
  for (unsigned i = 0; i < count; i++) {
    if (mods[i]) delete_module_info(mods[i]);
    if (tf[i]) { q120_del_ntt_bb_precomp(tf[i]); q120_del_intt_bb_precomp(ti[i]); }
  }
  for (int j = 0; j < 64; j++) free(junk[j]);
  free(a); free(dft); free(big); free(mods); free(tf); free(ti);
  cnt("modules_alive_together", count);
  sample("%u modules alive at once, %u deleted, %" PRIu64 " survivors round-trip exactly", count, ndel, checked);
  case_end(checked > 0);
}

// a DFT vector of more than 4 GiB (2050 limbs of 2 MiB at N = 65536; limb counts are not bounded by the API): the input mapping is
// lazily backed and only four of its limbs are written (transforms of known polynomials, computed separately), so reading it
// costs nothing; the inverse transform of limb 0, 1, 2048 and 2049 must return those polynomials (a limb offset computed in
// 32 bits wraps exactly at limb 2048)
#include <sys/mman.h>
static void huge_dft_vector_case(unsigned rep) {
  if (!case_begin("vec_znx_idft@ntt120|DFT vector of more than 4 GiB", "N=65536 limbs=2050 rep=%u", rep)) return;
  const uint64_t N = 65536, L = 2050;
  const MODULE* M = get_module(N, NTT120, 1);
  const size_t dbytes = L * N * 32 + 8192, bbytes = L * N * 16 + 8192;
  uint8_t* ad = mmap(0, dbytes, PROT_READ | PROT_WRITE, MAP_PRIVATE | MAP_ANONYMOUS | MAP_NORESERVE, -1, 0);
  uint8_t* bg = mmap(0, bbytes, PROT_READ | PROT_WRITE, MAP_PRIVATE | MAP_ANONYMOUS | MAP_NORESERVE, -1, 0);
  if (ad == MAP_FAILED || bg == MAP_FAILED) {
    cnt("huge_mapping_refused", 1);
    case_end(0);
    return;
  }
  rng_t* r = crng();
  static const uint64_t LI[] = {0, 1, 2047, 2048, 2049};
  int64_t* pol[ARRAY_LEN(LI)];
  void* one = aligned_alloc(64, N * 32);
  for (size_t q = 0; q < ARRAY_LEN(LI); q++) {
    pol[q] = malloc(N * 8);
    for (uint64_t i = 0; i < N; i++) pol[q][i] = rng_sbits(r, 62) + (int64_t)LI[q];
    vec_znx_dft(M, one, 1, pol[q], 1, N);
    memcpy(ad + LI[q] * N * 32, one, N * 32);
  }
  uint8_t* tmp = malloc(vec_znx_idft_tmp_bytes(M) + 64);
  vec_znx_idft(M, (VEC_ZNX_BIG*)bg, L, (const VEC_ZNX_DFT*)ad, L, tmp);
  uint64_t bad = 0;
  for (size_t q = 0; q < ARRAY_LEN(LI); q++) {
    const __int128* w = (const __int128*)(bg + LI[q] * N * 16);
    for (uint64_t i = 0; i < N; i++)
      if (w[i] != (__int128)pol[q][i] && bad++ < 2) viol("oracle", "vec_znx_idft on an NTT120 DFT vector of 2050 limbs (4.1 GiB): output limb %" PRIu64 " coefficient %" PRIu64 " is not the polynomial whose transform was stored in input limb %" PRIu64, LI[q], i, LI[q]);
    free(pol[q]);
  }
  // (the limbs in between were transforms of zero: spot-check a few)
  for (uint64_t l = 2; l < L; l += 389) {
    const __int128* w = (const __int128*)(bg + l * N * 16);
    for (uint64_t i = 0; i < N; i += 997)
      if (w[i] != 0 && bad++ < 2) viol("oracle", "vec_znx_idft on a 2050-limb NTT120 vector: output limb %" PRIu64 " should be zero", l);
  }
  cnt("limbs_checked_in_vectors_over_4GiB", ARRAY_LEN(LI));
  sample("2050 limbs (4.1 GiB of transforms, lazily backed): limbs 0, 1, 2047, 2048, 2049 invert to the stored polynomials");
  free(tmp);
  free(one);
  munmap(ad, dbytes);
  munmap(bg, bbytes);
  case_end(1);
}

void run_C03(void) {
  const int th = G.thorough;
  make_tables();
  for (unsigned k = 0; k <= 16; k++) {
    const uint64_t n = 1ull << k;
    const unsigned reps = th ? (n <= 1024 ? 150 : (n <= 8192 ? 30 : 10)) : (n <= 1024 ? 6 : 2);
    for (int fam = 0; fam < QF_N; fam++)
      for (unsigned rep = 0; rep < reps; rep++) transform_case(n, fam, (int)((rep + fam) & 1), rep);
    for (unsigned rep = 0; rep < (th ? 12u : 2u); rep++) evalmap_case(n, (int)(rep & 1), rep);
  }
  // module level, all N (N = 1 included: the NTT120 module exists there), size/stride box on small N
  unsigned ctr = 0;
  for (size_t ni = 0; ni <= N_ALL_N; ni++) {
    const uint64_t N = ni < N_ALL_N ? ALL_N[ni] : 1;
    const uint64_t smax = N <= 64 ? 4 : (N <= 4096 ? 2 : 1);
    for (uint64_t as = 0; as <= smax; as++)
      for (uint64_t ds = 0; ds <= smax; ds++)
        for (uint64_t rs = 0; rs <= smax; rs++) {
          ctr++;
          if (!th && N > 64 && (ctr % 3)) continue;
          module_case(N, as, ds, rs, ctr % 4, 0, 0, 0);
          module_case(N, as, ds, rs, (ctr + 1) % 4, 1, 0, 0);
          if ((ctr % 4) == 0) module_case(N, as, ds, rs, (ctr + 2) % 4, 0, 1, 0);
        }
  }
  {
    static const unsigned CNT[] = {257, 300, 513, 70000};
    for (size_t i = 0; i < (th ? 4u : 3u); i++) many_live_case(i == 3 ? 2 : (i & 1 ? 64 : 16), CNT[i], (unsigned)i);
  }
  // many limbs
  for (size_t ni = 0; ni < 6; ni++) {
    static const uint64_t BIGS[][3] = {{9, 13, 16}, {16, 8, 12}, {12, 12, 12}, {17, 17, 3}, {5, 33, 32}};
    for (size_t q = 0; q < ARRAY_LEN(BIGS); q++) {
      module_case(ALL_N[ni], BIGS[q][0], BIGS[q][1], BIGS[q][2], (unsigned)q % 4, 0, 0, 1);
      module_case(ALL_N[ni], BIGS[q][0], BIGS[q][1], BIGS[q][2], (unsigned)(q + 1) % 4, 1, 0, 1);
      module_case(ALL_N[ni], BIGS[q][0], BIGS[q][1], BIGS[q][2], (unsigned)(q + 2) % 4, 0, 1, 1);
    }
  }
  for (size_t ni = 0; ni <= N_ALL_N; ni++) {
    const uint64_t N = ni < N_ALL_N ? ALL_N[ni] : 1;
    for (int pat = 0; pat < 8; pat++)
      for (int v = 0; v < 3; v++)
        for (unsigned rep = 0; rep < (th ? (N <= 4096 ? 12u : 3u) : 1u); rep++) spectrum_case(N, pat, v, 1 + (uint64_t)((pat + v + rep) % 2), rep);
  }
  {
    q120_ntt_precomp *sn[17], *si[17];
    for (int k = 0; k <= 16; k++) {
      sn[k] = NTT[k][0];
      si[k] = INTT[k][1];
    }
    for (unsigned rep = 0; rep < (th ? 300u : 24u); rep++) {
      if (!case_begin("q120_ntt/intt_bb_avx2|tables-built-concurrently", "threads=%d rep=%u", rep & 1 ? 16 : 4, rep)) continue;
      uint64_t lanes = q120_concurrent_build_check(rep & 1 ? 16 : 4, crng(), sn, si);
      cnt("concurrently_built_tables", 2 * (uint64_t)(rep & 1 ? 16 : 4));
      sample("tables built by concurrent threads: %" PRIu64 " lanes congruent to the sequentially built ones", lanes);
      case_end(1);
    }
  }
  {
    static const uint64_t VN[] = {8, 8, 16, 8, 64, 4};
    for (unsigned rep = 0; rep < (G.thorough ? 96u : 12u); rep++) volume_roundtrip_case(VN[rep % ARRAY_LEN(VN)], (int)(rep & 1), rep);
  }
  free_tables();
  // modules / tables created, used and destroyed in random order, several alive at once
  for (unsigned rep = 0; rep < (G.thorough ? 240u : 24u); rep++)
    ops_lifecycle_case("C03 objects", LKM_MOD_NTT120 | LKM_MOD_FFT64 | LKM_NTT | LKM_INTT, (rep % 4) == 3 ? DISP_GENERIC : DISP_NATIVE, 160, 0, rep, "lifecycle_uses");
  // the NTT120 entry points run by several threads at once on private data (shared module / tables), every dimension regime
  {
    static const char* const CNAMES[] = {"q120_ntt_bb_avx2", "q120_intt_bb_avx2", "vec_znx_dft@ntt120", "vec_znx_idft@ntt120", "vec_znx_idft_tmp_a@ntt120"};
    static const uint64_t CNS[] = {4, 64, 1024, 2048, 8192, 65536};
    for (size_t i = 0; i < ARRAY_LEN(CNS); i++)
      for (unsigned rep = 0; rep < (G.thorough ? 5u : 1u); rep++) ops_concurrent_case("C03 entry points", CNAMES, (int)ARRAY_LEN(CNAMES), CNS[i], DISP_NATIVE, CNS[i] <= 256 ? 8 : 4, rep, "concurrent_entry_calls");
    static const char* const RNAMES[] = {"q120_ntt_bb_avx2", "q120_intt_bb_avx2", "vec_znx_dft@ntt120", "vec_znx_idft@ntt120", "vec_znx_idft_tmp_a@ntt120"};
    for (size_t i = 0; i < 4; i++) ops_recontent_case("C03 entry points", RNAMES, (int)ARRAY_LEN(RNAMES), CNS[i], DISP_NATIVE, 6, (unsigned)i, "same_buffers_other_data_calls");
  }
  // several threads creating, using and destroying their own modules / tables at the same time
  for (unsigned rep = 0; rep < (G.thorough ? 60u : 8u); rep++)
    ops_concurrent_lifecycle_case("C03 objects", LKM_MOD_NTT120 | LKM_MOD_FFT64 | LKM_NTT | LKM_INTT, (rep % 4) == 3 ? DISP_GENERIC : DISP_NATIVE, rep & 1 ? 8 : 4, 120, rep, "concurrent_lifecycle_uses");
  for (unsigned rep = 0; rep < (G.thorough ? 2u : 1u); rep++) huge_dft_vector_case(rep);
}
