"""Per-property run plans, non-triviality rules and assumptions used by check.py."""

ASAN_NOTE = ("gcc 12 ASan+UBSan (shift-base off, see DESIGN 2.5) watch every case; the four hand-written .s "
             "kernels are not instrumented by the compiler sanitizers")


def plan(quick, thorough):
    return {"quick": quick, "thorough": thorough}


def std(quick_parts=16, thorough_extra=None):
    q = [dict(cfg="asan", parts=quick_parts)]
    t = [dict(cfg="asan", parts=16, tier="quick"), dict(cfg="plain", parts=16)]
    if thorough_extra:
        t += thorough_extra
    return plan(q, t)


PROPS = {
    "C09": dict(
        runs=std(),
        rule=("case = (kernel group, N, block of residues p mod 2N | special class list | sampled block | wrapper "
              "call sequence); distinct by descriptor hash; non-trivial when N >= 2 (maps differ from identity "
              "for some p in the block)"),
        require={"all": ["rot_p_checked", "auto_p_checked", "wrapper_calls", "auto_branch:cycles",
                         "auto_branch:mirror", "auto_branch:negate", "auto_branch:negamirror",
                         "auto_branch:identity"]},
        assumptions=["index-map oracle uses 128-bit Euclidean remainders; probe a_i=i+1 is injective so one probe "
                     "determines the signed permutation", ASAN_NOTE],
    ),
}
