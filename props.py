"""Per-property run plans, non-triviality rules and assumptions used by check.py."""

ASAN_NOTE = ("gcc 12 ASan+UBSan (shift-base off, see DESIGN 2.5) watch every case; the four hand-written .s "
             "kernels are not instrumented by the compiler sanitizers")


def plan(quick, thorough):
    return {"quick": quick, "thorough": thorough}


def std(quick_parts=16, thorough_extra=None):
    q = [dict(cfg="asan", parts=quick_parts)]
    t = [dict(cfg="asan", parts=16, tier="quick"), dict(cfg="plain", parts=16)]
    if thorough_extra:
        t += thorough_extra
    return plan(q, t)


PROPS = {
    "C09": dict(
        runs=std(),
        rule=("case = (kernel group, N, block of residues p mod 2N | special class list | sampled block | wrapper "
              "call sequence); distinct by descriptor hash; non-trivial when N >= 2 (maps differ from identity "
              "for some p in the block)"),
        require={"all": ["rot_p_checked", "auto_p_checked", "wrapper_calls", "auto_branch:cycles",
                         "auto_branch:mirror", "auto_branch:negate", "auto_branch:negamirror",
                         "auto_branch:identity"]},
        assumptions=["index-map oracle uses 128-bit Euclidean remainders; probe a_i=i+1 is injective so one probe "
                     "determines the signed permutation", ASAN_NOTE],
    ),
    "C05": dict(
        runs=std(),
        rule=("case = one call of a normalisation entry point (entry, N, k, res_size, a_size, strides, operand family, "
              "in-place flag, range triple, dispatch) or one exhaustive window / primitive batch; distinct by descriptor "
              "hash; non-trivial when at least one inter-limb carry is non-zero (digit differs from the isolated digit)"),
        require={"all": ["coefficients_checked", "primitive_values_checked", "exhaustive_limb_combinations",
                         "cases_with_interlimb_carry"]},
        assumptions=["digit oracle: 1024-bit two's-complement integers, centred remainders from the least significant end",
                     "carry_in of the primitive restricted to |c| < 2^(63-k) (digit + carry cannot overflow int64)", ASAN_NOTE],
    ),
    "C08": dict(
        runs=std(),
        rule=("case = one call (operation, level module/kernel, module type, dispatch, N, res/a/b limb counts, stride "
              "choices, extra-limb flag); distinct by descriptor hash; non-trivial when res_size >= 1 and at least one "
              "source limb is used"),
        require={"all": ["limbs_compared", "dispatch:native", "dispatch:generic", "dispatch:kernel-avx", "dispatch:kernel-ref"]},
        assumptions=["per-limb definition evaluated by the harness (missing limb = 0)",
                     "stride padding and guard bands are ASan-poisoned and carry canaries; inputs are byte-snapshotted", ASAN_NOTE],
    ),
}
