"""Per-property run plans, non-triviality rules and assumptions used by check.py."""

ASAN_NOTE = ("gcc 12 ASan+UBSan (shift-base off, see DESIGN 2.5) watch every case; the four hand-written .s "
             "kernels are not instrumented by the compiler sanitizers")


def plan(quick, thorough):
    return {"quick": quick, "thorough": thorough}


# every property's multi-threaded cases are additionally run in the ThreadSanitizer build (mode "conc": only the cases whose
# key names threads / concurrency execute): a data race is then reported whether or not the threads happened to collide
CONC = dict(cfg="tsan", parts=4, mode="conc", timeout=1800)


# allocation-failure injection: a plain build whose malloc family (the harness' own, -DVP_OOM) refuses every request made inside a
# call under test; mode "oom" runs only those cases
OOM = dict(cfg="plain", tag="oom", defs="-DVP_OOM", parts=2, mode="oom", timeout=1800)


def std(quick_parts=16, thorough_extra=None, conc=True, oom=False):
    q = [dict(cfg="asan", parts=quick_parts)] + ([dict(CONC)] if conc else []) + ([dict(OOM)] if oom else [])
    t = [dict(cfg="asan", parts=16, tier="quick"), dict(cfg="plain", parts=16)] + ([dict(CONC, parts=8)] if conc else []) + ([dict(OOM, parts=4)] if oom else [])
    if thorough_extra:
        t += thorough_extra
    return plan(q, t)


PROPS = {
    "C09": dict(
        technique='runtime monitoring: 128-bit index-map oracle, exhaustive enumeration of residues p mod 2N at run time, ASan+UBSan + ThreadSanitizer pass over the multi-threaded cases; buffer placement modes (aligned, adjacent, guard pages, far apart incl. exact multiples of 64 GiB, packed, nearby page offsets) and a per-process prelude of unrelated calls',
        exhaustive_subspaces=dict(
            quick=["every residue p mod 2N for every N = 1..8192 on all 11 coefficient kernels (7 for even p) with the injective probe a_i = i+1 "
                   "(the maps are data-independent signed permutations, so one injective probe determines them); counts per N in monitors.exhaustive_residues:*"],
            thorough=["every residue p mod 2N for every N = 1..65536 on all 11 coefficient kernels; far representatives r + 2N t for N <= 4096"]),
        runs=std(oom=True),
        rule=("case = (kernel group, N, block of residues p mod 2N | special class list | sampled block | wrapper "
              "call sequence); distinct by descriptor hash; non-trivial when N >= 2 (maps differ from identity "
              "for some p in the block)"
             " Later additions have their own keys in by_case_class (DESIGN.md 5.1): call sequences and object life cycles, multi-threaded cases (also run under ThreadSanitizer), sweeps over every value of a size parameter, placement / alignment / data-structure modes drawn from the case hash."),
        require={"all": ["rnx_real_coefficients", "calls_with_write_protected_inputs", "calls_repeated_under_allocation_failure", "small_stack_calls", "concurrent_lifecycle_uses", "rot_p_checked", "auto_p_checked", "wrapper_calls", "wrapper_dispatch:generic", "inplace_unequal_size_calls", "cross_dimension_sequences", "concurrent_map_calls", "auto_branch:cycles",
                         "auto_branch:mirror", "auto_branch:negate", "auto_branch:negamirror",
                         "auto_branch:identity"]},
        assumptions=["index-map oracle uses 128-bit Euclidean remainders; probe a_i=i+1 is injective so one probe "
                     "determines the signed permutation", ASAN_NOTE],
    ),
    "C05": dict(
        technique='runtime monitoring: 1024-bit big-integer digit oracle on every normalisation call, exhaustive small-k windows, canaries, ASan+UBSan + ThreadSanitizer pass over the multi-threaded cases; buffer placement modes (aligned, adjacent, guard pages, far apart incl. exact multiples of 64 GiB, packed, nearby page offsets) and a per-process prelude of unrelated calls',
        exhaustive_subspaces=dict(
            quick=["znx_normalize: all (in, carry_in) pairs of the window [-2^(k+1), 2^(k+1)]^2 for k = 1,2,3 x 6 presence shapes x 7 aliasings",
                   "vec_znx_normalize_base2k: all limb-value combinations of the window for k = 1,2,3, a_size <= 3, res_size <= a_size+1"],
            thorough=["same windows, k up to 5 for the primitive"]),
        runs=std(),
        rule=("case = one call of a normalisation entry point (entry, N, k, res_size, a_size, strides, operand family, "
              "in-place flag, range triple, dispatch) or one exhaustive window / primitive batch; distinct by descriptor "
              "hash; non-trivial when at least one inter-limb carry is non-zero (digit differs from the isolated digit)"
             " Later additions have their own keys in by_case_class (DESIGN.md 5.1): call sequences and object life cycles, multi-threaded cases (also run under ThreadSanitizer), sweeps over every value of a size parameter, placement / alignment / data-structure modes drawn from the case hash."),
        require={"all": ["calls_with_write_protected_inputs", "small_stack_calls", "concurrent_entry_calls", "coefficients_checked", "primitive_values_checked", "exhaustive_limb_combinations",
                         "cases_with_interlimb_carry"]},
        assumptions=["digit oracle: 1024-bit two's-complement integers, centred remainders from the least significant end",
                     "carry_in of the primitive restricted to |c| < 2^(63-k) (digit + carry cannot overflow int64)", ASAN_NOTE],
    ),
    "C08": dict(
        technique='runtime monitoring: per-limb definition oracle, ASan-poisoned stride padding and guard bands with canaries, input snapshots + ThreadSanitizer pass over the multi-threaded cases; buffer placement modes (aligned, adjacent, guard pages, far apart incl. exact multiples of 64 GiB, packed, nearby page offsets) and a per-process prelude of unrelated calls',
        runs=std(),
        rule=("case = one call (operation, level module/kernel, module type, dispatch, N, res/a/b limb counts, stride "
              "choices, extra-limb flag); distinct by descriptor hash; non-trivial when res_size >= 1 and at least one "
              "source limb is used"
             " Later additions have their own keys in by_case_class (DESIGN.md 5.1): call sequences and object life cycles, multi-threaded cases (also run under ThreadSanitizer), sweeps over every value of a size parameter, placement / alignment / data-structure modes drawn from the case hash."),
        require={"all": ["calls_with_write_protected_inputs", "small_stack_calls", "limbs_compared", "dispatch:native", "dispatch:generic", "dispatch:kernel-avx", "dispatch:kernel-ref", "aliased_calls", "interleaved_view_calls", "concurrent_vector_calls", "same_input_calls", "long_history_calls", "one_limb_arbitrary_stride_calls", "same_buffers_other_data_calls"]},
        assumptions=["per-limb definition evaluated by the harness (missing limb = 0)",
                     "stride padding and guard bands are ASan-poisoned and carry canaries; inputs are byte-snapshotted", ASAN_NOTE],
    ),
    "C01": dict(
        technique='runtime monitoring: exact negacyclic-product oracle on every FFT64 product executed under ASan+UBSan, both dispatch configurations (hook H1), feedback-directed sign-flip search + ThreadSanitizer pass over the multi-threaded cases; buffer placement modes (aligned, adjacent, guard pages, far apart incl. exact multiples of 64 GiB, packed, nearby page offsets) and a per-process prelude of unrelated calls',
        runs=std(),
        rule=("case = one product through one FFT64 path (small single product | svp_prepare+svp_apply_dft+idft | "
              "...+idft_tmp_a) for (N, operand family, dispatch, res/a limb counts, stride, repetition); distinct by "
              "descriptor hash; non-trivial when both operands are non-zero, N >= 4 and at least one row is produced"
             " Later additions have their own keys in by_case_class (DESIGN.md 5.1): call sequences and object life cycles, multi-threaded cases (also run under ThreadSanitizer), sweeps over every value of a size parameter, placement / alignment / data-structure modes drawn from the case hash."),
        require={"all": ["calls_with_write_protected_inputs", "small_stack_calls", "concurrent_lifecycle_uses", "concurrent_entry_calls", "products_checked", "exact_regime_products", "budget_regime_products", "frontier_products", "lifecycle_products", "lifecycle_uses", "same_buffers_other_data_calls", "prepare_arguments_overwritten_before_use", "idft_variant:idft(res==a_dft),short-dft",
                         "zero_rows_checked", "oracle_selfcheck_ok"]},
        assumptions=["exact oracle: schoolbook with 128-bit accumulators, or an oracle-side NTT modulo a 62-bit prime "
                     "(cross-checked against schoolbook at start-up)",
                     "budget E evaluated in long double from the actual operands and inflated by 2^-40", ASAN_NOTE],
    ),
    "C02": dict(
        technique='runtime monitoring: exact per-column oracle over the full shape box, NaN-prefilled exact-size scratch, canaries, ASan+UBSan + ThreadSanitizer pass over the multi-threaded cases; buffer placement modes (aligned, adjacent, guard pages, far apart incl. exact multiples of 64 GiB, packed, nearby page offsets) and a per-process prelude of unrelated calls',
        runs=std(),
        rule=("case = one (N, nrows, ncols, a_size, res_size, a stride, dispatch, operand magnitude class) shape: "
              "prepare + both apply entry points + inverse DFT; distinct by descriptor hash; non-trivial when "
              "min(nrows,a_size) >= 1 and min(ncols,res_size) >= 1 (zero-size classes are counted separately)"
             " Later additions have their own keys in by_case_class (DESIGN.md 5.1): call sequences and object life cycles, multi-threaded cases (also run under ThreadSanitizer), sweeps over every value of a size parameter, placement / alignment / data-structure modes drawn from the case hash."),
        require={"all": ["spectral_symmetry_cases", "lopsided_column_magnitude_cases", "calls_with_write_protected_inputs", "small_stack_calls", "shapes_checked", "columns_checked", "zero_columns_checked", "exact_regime_columns", "zero_polynomial_matrix_entries", "concurrent_prepare_apply_calls", "scaled_input_limbs_cases", "same_buffers_other_data_calls", "prepare_arguments_overwritten_before_use",
                         "layout:column-major(N<8)", "layout:blocked", "layout:blocked(one block)"]},
        assumptions=["exact oracle per (row, column) product summed in 128-bit integers; budget = sum of the C01 "
                     "budgets of the rows + 1/2", "scratch buffers are exactly *_tmp_bytes and NaN-prefilled", ASAN_NOTE],
    ),
    "C10": dict(
        technique='runtime monitoring: 128-bit modular / CRT oracle over ref and AVX2 kernels, non-canonical and extremal operands, ASan+UBSan + ThreadSanitizer pass over the multi-threaded cases; buffer placement modes (aligned, adjacent, guard pages, far apart incl. exact multiples of 64 GiB, packed, nearby page offsets) and a per-process prelude of unrelated calls',
        exhaustive_subspaces=dict(
            quick=["every product kernel flavour at every length ell with ell mod 64 in {63, 0, 1} in 0..10000 (regime changes of blocked / unrolled loops)"],
            thorough=["every product kernel flavour at every length ell = 0..10000 (monitors.exhaustive_ell_values)"]),
        runs=std(),
        rule=("case = one product-kernel call (kernel, ref/avx2, ell, operand families of x and y) or one batch of "
              "conversions / block copies (nn, repetition); distinct by descriptor hash; non-trivial when ell >= 1 or "
              "the conversion input is non-empty"
             " Later additions have their own keys in by_case_class (DESIGN.md 5.1): call sequences and object life cycles, multi-threaded cases (also run under ThreadSanitizer), sweeps over every value of a size parameter, placement / alignment / data-structure modes drawn from the case hash."),
        require={"all": ["sum_boundary_products", "calls_with_write_protected_inputs", "power_of_two_products", "small_stack_calls", "concurrent_lifecycle_uses", "product_lanes_checked", "conversion_values_checked", "blocks_checked", "concurrent_kernel_calls", "exhaustive_ell_values", "lifecycle_uses", "lifecycle_mass_objects_alive", "same_buffers_other_data_calls"]},
        assumptions=["oracle: operands reduced modulo each prime, products accumulated with 128-bit arithmetic; CRT "
                     "constants recomputed by the oracle", ASAN_NOTE],
    ),
    "C03": dict(
        technique='runtime monitoring: modular-arithmetic oracle (round trip, linearity, convolution, Horner at the observed roots) on real NTT executions with tables created in interleaved orders, ASan+UBSan + ThreadSanitizer pass over the multi-threaded cases; buffer placement modes (aligned, adjacent, guard pages, far apart incl. exact multiples of 64 GiB, packed, nearby page offsets) and a per-process prelude of unrelated calls',
        runs=std(),
        rule=("case = (n, lane family, table set, repetition) transform batch (round trip + linearity + convolution), "
              "an evaluation-map check, or one module-level dft/idft call (N, a/dft/res limb counts, stride, variant); "
              "distinct by descriptor hash; non-trivial when n >= 2 and the input is not constant zero"
             " Later additions have their own keys in by_case_class (DESIGN.md 5.1): call sequences and object life cycles, multi-threaded cases (also run under ThreadSanitizer), sweeps over every value of a size parameter, placement / alignment / data-structure modes drawn from the case hash."),
        require={"all": ["volume_roundtrips", "limbs_checked_in_vectors_over_4GiB", "concurrent_lifecycle_uses", "roundtrips_checked", "linearity_checked", "convolutions_checked", "horner_evaluations", "spectrum_limbs_checked", "concurrently_built_tables", "lifecycle_uses", "concurrent_entry_calls", "same_buffers_other_data_calls",
                         "module_roundtrip_limbs"]},
        assumptions=["oracle works on the residues of the 64-bit lanes modulo each prime; convolution by schoolbook "
                     "(n<=256) or an oracle-side NTT with its own root search",
                     "tables of all 17 sizes are alive together, created large-to-small and small-to-large", ASAN_NOTE],
    ),
    "C04": dict(
        technique='runtime monitoring: hook H2 stage trace checked online by a 128-bit shadow execution with operand-fit predicates, worst-case operand workloads, hill-climbing on observed maxima, ASan+UBSan + ThreadSanitizer pass over the multi-threaded cases; buffer placement modes (aligned, adjacent, guard pages, far apart incl. exact multiples of 64 GiB, packed, nearby page offsets) and a per-process prelude of unrelated calls',
        exhaustive_subspaces=dict(
            quick=["every product kernel flavour at every length ell with ell mod 64 in {63, 0, 1} in 0..10000 (regime changes of blocked / unrolled loops)"],
            thorough=["every product kernel flavour at every length ell = 0..10000 (monitors.exhaustive_ell_values)"]),
        runs=std(thorough_extra=[
            dict(cfg="plain", tag="q31", defs="-DSPQLIOS_Q120_USE_31_BIT_PRIMES", parts=16, tier="quick", info=True),
            dict(cfg="plain", tag="q29", defs="-DSPQLIOS_Q120_USE_29_BIT_PRIMES", parts=16, tier="quick", info=True)]),
        rule=("case = one product-kernel call on worst-case operands (kernel, ref/avx2, ell, x/y family) or one traced "
              "transform batch (n, lane family, repetition: ntt, intt of its output, intt and ntt on the raw lanes); "
              "distinct by descriptor hash; non-trivial when ell >= 1 / n >= 2 with at least one lane >= 2^63"
             " Later additions have their own keys in by_case_class (DESIGN.md 5.1): call sequences and object life cycles, multi-threaded cases (also run under ThreadSanitizer), sweeps over every value of a size parameter, placement / alignment / data-structure modes drawn from the case hash."),
        require={"all": ["concurrent_lifecycle_uses", "product_lanes_checked", "max_ell_products", "h2_stage_events", "h2_traced_transforms", "concurrently_built_tables", "concurrent_kernel_calls", "exhaustive_ell_values", "lifecycle_uses", "lifecycle_mass_objects_alive"]},
        assumptions=["hook H2 reports every stage of the real schedule; the shadow re-executes it in 128-bit arithmetic "
                     "from the library's own metadata and must reproduce the real lanes bit for bit",
                     "the interval envelope is reported as information (conservative bounds), never as a violation",
                     "default 30-bit prime set", ASAN_NOTE],
    ),
    "C06": dict(
        technique='runtime monitoring: long-double FFT oracle validated by float128 Horner evaluation, every m and implementation incl. assembly leaves, bitwise repeat + table hash, ASan+UBSan (+memcheck in thorough) + ThreadSanitizer pass over the multi-threaded cases; buffer placement modes (aligned, adjacent, guard pages, far apart incl. exact multiples of 64 GiB, packed, nearby page offsets) and a per-process prelude of unrelated calls',
        runs=plan([dict(cfg="asan", parts=16), dict(CONC)],
                  [dict(cfg="asan", parts=16, tier="quick"), dict(cfg="plain", parts=16), dict(CONC, parts=8),
                   dict(cfg="plain", parts=8, tier="quick", mode="memcheck",
                        wrapper=["valgrind", "-q", "--error-exitcode=97", "--errors-for-leak-kinds=none"], timeout=3600)]),
        rule=("case = (layout reim|cplx, fft|ifft, implementation, m, input family, repetition); each case runs the "
              "transform twice on a guarded exact-size buffer; distinct by descriptor hash; non-trivial when m >= 2 "
              "and the input is non-zero"
             " Later additions have their own keys in by_case_class (DESIGN.md 5.1): call sequences and object life cycles, multi-threaded cases (also run under ThreadSanitizer), sweeps over every value of a size parameter, placement / alignment / data-structure modes drawn from the case hash."),
        require={"all": ["small_stack_calls", "concurrent_lifecycle_uses", "concurrent_entry_calls", "transforms_checked", "horner_validations", "lifecycle_uses", "impl:dispatch-native", "impl:dispatch-generic", "impl:dispatch-avx2-only", "impl:dispatch-fma-only", "same_buffers_other_data_calls",
                         "impl:ref-direct", "impl:avx2-direct", "impl:leaf-avx", "impl:leaf-ref", "impl:bfs16-ref", "impl:builtin-buffers", "impl:naive", "tables_built_concurrently", "cold_process_constructions", "table_lifecycle_checks", "simple_sequence_calls",
                         "impl:rec16-ref"]},
        assumptions=["long-double FFT oracle (own twiddles by cosl/sinl), its rounding (about log2(m) 2^-64 relative) "
                     "added to the tolerance; validated per case against __float128 Horner evaluation at sampled outputs",
                     "the hand-written 16-point assembly kernels are exercised (leaf-avx, avx2 drivers) but only "
                     "memcheck (thorough tier) instruments their memory accesses", ASAN_NOTE],
    ),
    "C14": dict(
        technique='runtime monitoring: exact float128 rounding oracle, boundary and dense near-tie sweeps over every divisor / bound / overhead and variant, ASan+UBSan + ThreadSanitizer pass over the multi-threaded cases; buffer placement modes (aligned, adjacent, guard pages, far apart incl. exact multiples of 64 GiB, packed, nearby page offsets) and a per-process prelude of unrelated calls',
        exhaustive_subspaces=dict(
            quick=["int32 -> complex (cplx_from_znx32 and cplx_from_tnx32, reference and AVX2/FMA kernels): every one of the 2^32 int32 values, "
                   "each compared with the exact double (counts in monitors.exhaustive_int32:*)"],
            thorough=["same, in the ASan+UBSan and in the plain build"]),
        runs=std(),
        rule=("case = one conversion call (conversion, variant table-native|table-generic|ref|accelerated kernel, m, "
              "divisor 2^j, log2overhead, repetition) on 2m generated values (exponent sweep, domain boundary, near-ties, "
              "quarter points, integers, tiny, random); distinct by descriptor hash; every case is non-trivial (each "
              "batch contains non-integers and boundary values)"
             " Later additions have their own keys in by_case_class (DESIGN.md 5.1): call sequences and object life cycles, multi-threaded cases (also run under ThreadSanitizer), sweeps over every value of a size parameter, placement / alignment / data-structure modes drawn from the case hash."),
        require={"all": ["input_class:1", "input_class:9", "small_stack_calls", "values_checked", "rounding_exercised", "conv:reim_from_znx64", "conv:reim_to_znx64",
                         "conv:reim_to_tnx", "conv:cplx_from_znx32", "conv:cplx_from_tnx32", "conv:cplx_to_tnx32",
                         "exhaustive_int32:cplx_from_znx32_ref", "exhaustive_int32:cplx_from_znx32_avx2_fma", "exhaustive_int32:cplx_from_tnx32_ref", "exhaustive_int32:cplx_from_tnx32_avx2_fma", "page_offset_sweep_calls", "concurrent_simple_conversion_calls", "same_buffers_other_data_calls"]},
        assumptions=["exact comparison in __float128: r*d, x and 2^32 scalings fit in 113 bits",
                     "exact .5 ties accept both neighbours; accelerated kernels are called directly only at sizes that "
                     "fill their vector step (the library itself selects them for m >= 8)", ASAN_NOTE],
    ),
    "C17": dict(
        technique='runtime monitoring: layout-definition and long-double complex-arithmetic oracles with analytic rounding budgets, ASan+UBSan + ThreadSanitizer pass over the multi-threaded cases; buffer placement modes (aligned, adjacent, guard pages, far apart incl. exact multiples of 64 GiB, packed, nearby page offsets) and a per-process prelude of unrelated calls',
        runs=std(),
        rule=("case = one kernel batch: extract/save (m, ref|avx, nrows, row stride, contiguous|strided) over all or "
              "sampled block indices; layout round trip (m, variant); dot product (1|2 columns, ref|avx2, nrows, value "
              "family); pointwise mul/addmul (layout, variant, m, family, aliasing); convolution (sizea, sizeb) over all "
              "windows; distinct by descriptor hash; non-trivial when at least one row / term / operand is non-empty"
             " Later additions have their own keys in by_case_class (DESIGN.md 5.1): call sequences and object life cycles, multi-threaded cases (also run under ThreadSanitizer), sweeps over every value of a size parameter, placement / alignment / data-structure modes drawn from the case hash."),
        require={"all": ["related_operand_vectors", "rows_checked_in_vectors_over_4GiB", "calls_with_write_protected_inputs", "small_stack_calls", "concurrent_entry_calls", "blocks_checked", "bitwise_block_copies_checked", "same_buffers_other_data_calls", "layout_roundtrips", "dot_products", "pointwise_vectors",
                         "convolution_windows", "fftvec:cplx:avx512", "fftvec:cplx:sse", "fftvec:reim4:fma", "simple_api_calls"]},
        assumptions=["complex-arithmetic oracle in long double with the rounding budgets of DESIGN Appendix A",
                     "the inner order of the four numbers of a reim4 block produced by reim4_from_cplx is not "
                     "constrained (the library uses 0,2,1,3); the round trip and the re/im pairing are", ASAN_NOTE],
    ),
    "C13": dict(
        technique='runtime monitoring: aliased-vs-separate differential (bitwise) for every supported aliasing pattern, ASan+UBSan + ThreadSanitizer pass over the multi-threaded cases; buffer placement modes (aligned, adjacent, guard pages, far apart incl. exact multiples of 64 GiB, packed, nearby page offsets) and a per-process prelude of unrelated calls',
        runs=std(oom=True),
        rule=("case = one aliasing pattern exercised once (operation+pattern, N, module type, dispatch, res/aliased/other "
              "limb counts, strides, p class, repetition): the out-of-place call on a copy and the aliased call; "
              "distinct by descriptor hash; non-trivial when the aliased operand and the output have >= 1 limb"
             " Later additions have their own keys in by_case_class (DESIGN.md 5.1): call sequences and object life cycles, multi-threaded cases (also run under ThreadSanitizer), sweeps over every value of a size parameter, placement / alignment / data-structure modes drawn from the case hash."),
        require={"all": ["alias:vec_znx_idft_tmp_a(res==a_dft)", "calls_with_write_protected_inputs", "calls_repeated_under_allocation_failure", "small_stack_calls", "aliased_pairs", "alias:vec_znx_idft(res==a_dft)", "alias:vec_znx_add(res==b)",
                         "alias:vec_znx_big_sub_small_a(res==b)", "alias:reim_fftvec(r==a==b)", "alias:cplx_fftvec(r==b)", "concurrent_aliased_calls", "long_history_calls"]},
        assumptions=["the aliased buffer is the very same pointer with the same stride; it holds live (stale) data beyond "
                     "the aliased operand's limb count", "bitwise equality with the out-of-place call (same kernel runs)", ASAN_NOTE],
    ),
    "C11": dict(
        technique='sanitizers: ASan+UBSan on exact-size guard-banded poisoned buffers, canaries, differential pre-fill, valgrind memcheck definedness, LeakSanitizer + ThreadSanitizer pass over the multi-threaded cases; buffer placement modes (aligned, adjacent, guard pages, far apart incl. exact multiples of 64 GiB, packed, nearby page offsets) and a per-process prelude of unrelated calls',
        runs=plan([dict(cfg="asan", parts=16), dict(CONC),
                   dict(cfg="asan", parts=4, mode="leaks", env={"ASAN_OPTIONS": "abort_on_error=1:detect_leaks=1:leak_check_at_exit=0:allocator_may_return_null=1:handle_abort=0"}),
                   dict(cfg="plain", parts=8, mode="memcheck", wrapper=["valgrind", "-q", "--error-exitcode=97", "--errors-for-leak-kinds=none"], timeout=1800)],
                  [dict(cfg="asan", parts=16), dict(CONC, parts=8),
                   dict(cfg="asan", parts=4, mode="leaks", env={"ASAN_OPTIONS": "abort_on_error=1:detect_leaks=1:leak_check_at_exit=0:allocator_may_return_null=1:handle_abort=0"}),
                   dict(cfg="plain", parts=16, mode="memcheck", wrapper=["valgrind", "-q", "--error-exitcode=97", "--errors-for-leak-kinds=none"], timeout=7200)]),
        rule=("case = one catalogue entry point executed twice with the same arguments and two different pre-fills of "
              "its output and scratch buffers (entry point, N, dispatch, seed -> shape, strides, operands), or one "
              "new/delete cycle batch; distinct by descriptor hash; non-trivial when at least one buffer is non-empty "
              "(zero-size classes are counted separately in shape:*)"
             " Later additions have their own keys in by_case_class (DESIGN.md 5.1): call sequences and object life cycles, multi-threaded cases (also run under ThreadSanitizer), sweeps over every value of a size parameter, placement / alignment / data-structure modes drawn from the case hash."),
        require={"all": ["lopsided_small_products", "concurrent_lifecycle_uses", "instrumented_calls", "scratch_bytes_exact", "object_cycles", "leak_check_rounds", "builtin_buffer_bytes_checked", "lifecycle_uses", "lifecycle_mass_objects_alive", "cases_with_buffers_exact_multiples_of_64GiB_apart", "cases_with_buffers_at_nearby_page_offsets",
                         "memcheck_definedness_checks"]},
        assumptions=["every buffer is allocated at exactly the documented size (bytes_of_*, *_tmp_bytes) between "
                     "ASan-poisoned, canary-filled guard bands; misalignments are multiples of 8 bytes (16 for __int128)",
                     "red-zone tools do not see intra-object overflows; memcheck cannot run AVX-512 code", ASAN_NOTE],
    ),
    "C12": dict(
        runs=plan([dict(cfg="tsan", parts=20, timeout=1800), dict(cfg="plain", tag="ro", defs="-DVP_ROALLOC", parts=16)],
                  [dict(cfg="tsan", parts=300, timeout=7200), dict(cfg="plain", tag="ro", defs="-DVP_ROALLOC", parts=200),
                   dict(cfg="plain", parts=48, tier="quick", mode="helgrind", timeout=7200,
                        wrapper=["valgrind", "--tool=helgrind", "-q", "--error-exitcode=97"])]),
        rule=("case = one concurrent workload in a short process (phase cold module+table API | warmed-up *_simple API, "
              "two dimensions, T threads, rounds, repetition): every thread runs a random permutation of all entry "
              "points of the phase on private data against the shared modules/tables; distinct by descriptor hash; "
              "non-trivial when at least one pair of calls from different threads overlapped in time"
             " Later additions have their own keys in by_case_class (DESIGN.md 5.1): call sequences and object life cycles, multi-threaded cases (also run under ThreadSanitizer), sweeps over every value of a size parameter, placement / alignment / data-structure modes drawn from the case hash."),
        require={"all": ["concurrent_calls", "overlapping_call_pairs", "tsan_instrumented_calls", "ro_protected_bytes", "steady_concurrent_calls",
                         "schedule:free", "schedule:pinned-2cpu", "schedule:yield", "concurrent_constructions", "first_use_cases", "concurrently_allocated_objects", "simple_vs_table_twin_checks", "adjacent_slot_updates", "shared_objects_dispatch:generic", "shared_objects_dispatch:native",
                         "entry_points_observed_concurrently", "overlap_pairs"]},
        assumptions=["gcc ThreadSanitizer happens-before detection (does not see accesses made inside the four .s kernels, "
                     "which only touch caller data)", "in the 'ro' build every allocation made while creating modules and "
                     "tables is served from private mappings that are PROT_READ during the concurrent phase",
                     "executions decide only the interleavings that were observed (overlap counts are in the evidence)"],
        technique="runtime monitoring: ThreadSanitizer + read-only (mprotect) tables + concurrent-vs-sequential differential + cold first use, concurrent construction / allocation, thread churn, oversubscription, constant-argument jobs side by side, warm-up by a thread that exits; helgrind in the thorough tier",
    ),
    "C15": dict(
        # (the plain run: no sanitizer allocator, glibc's heap perturbed with a byte chosen per process - M_PERTURB - so that memory
        # a constructor leaves unwritten differs between the workload and the fresh-process reference)
        runs=plan([dict(cfg="asan", parts=16), dict(CONC), dict(cfg="plain", parts=8, mode="plainheap"), dict(OOM)],
                  [dict(cfg="asan", parts=16, tier="quick"), dict(cfg="plain", parts=16, mode="plainheap"), dict(CONC, parts=8), dict(OOM, parts=4)]),
        rule=("case = one random program of 300 catalogue calls over a working set of 48 (environment, function, argument "
              "seed) triples drawn from 12 dimensions, both dispatch configurations and every entry point, one third of "
              "them on the functions with hidden caches; distinct by descriptor hash (program number); non-trivial when "
              "the program contains at least one equal-argument repeat separated by other calls"
             " Later additions have their own keys in by_case_class (DESIGN.md 5.1): call sequences and object life cycles, multi-threaded cases (also run under ThreadSanitizer), sweeps over every value of a size parameter, placement / alignment / data-structure modes drawn from the case hash."),
        require={"all": ["calls_repeated_under_allocation_failure", "calls", "repeated_argument_pairs_checked", "simple_vs_table_twin_checks", "fresh_process_comparisons", "concurrent_repetitions", "table_buffer_histories", "long_history_calls", "placement:7", "placement:8", "same_buffers_other_data_calls",
                         "cache_parameter_transitions", "function_parameter_states"]},
        assumptions=["output hashes (64-bit) stand for the output bytes", "arguments derive from the seed only; the "
                     "pre-fill pattern of outputs/scratch and the byte offset (0..56) of every buffer change between "
                     "repeats", ASAN_NOTE],
        technique="runtime monitoring: online call-history checker over random programs (equal-argument repeats under other pre-fills, alignments and buffer placements) and over 65794-call histories of every entry point (equal arguments exactly 2^8 and 2^16 calls apart), comparison of sampled calls with the same call made as the only call of a fresh process (forked pristine server), *_simple vs table twins, repetition by concurrent threads, FP-environment monitor, ASan+UBSan + ThreadSanitizer pass",
    ),
    "C18": dict(
        runs=plan([dict(cfg="asan", parts=16), dict(cfg="plain", tag="ro", defs="-DVP_ROALLOC", parts=16)],
                  [dict(cfg="asan", parts=16), dict(cfg="plain", tag="ro", defs="-DVP_ROALLOC", parts=16)]),
        rule=("case = one batch: a fresh environment (modules + every table kind) for (N, dispatch) and every catalogue "
              "entry point called with several argument seeds, each call with byte snapshots of all its source buffers "
              "(padding included) and a table hash after each entry point; distinct by descriptor hash; non-trivial when "
              "at least one call with a non-empty source ran"
             " Later additions have their own keys in by_case_class (DESIGN.md 5.1): call sequences and object life cycles, multi-threaded cases (also run under ThreadSanitizer), sweeps over every value of a size parameter, placement / alignment / data-structure modes drawn from the case hash."),
        require={"all": ["calls_snapshotted", "source_bytes_compared", "table_bytes_compared", "ro_protected_bytes", "inplace_tail_checks", "role_rotation_calls", "long_history_calls", "batches_called_from_another_thread"]},
        assumptions=["sources deliberately overwritten by contract are declared INOUT in the catalogue (vec_znx_idft_tmp_a, "
                     "in-place transforms, accumulating products) and are not snapshotted",
                     "table hashes cover every allocation whose layout is known; in the 'ro' build all allocations made "
                     "during creation are covered and write-protected", ASAN_NOTE],
        technique="runtime monitoring: source snapshots + table hashing under ASan, and write-protected (mprotect) tables + in-place tails, role-rotation chains; buffer placement modes and a per-process prelude of unrelated calls",
    ),
    "C07": dict(
        technique='runtime monitoring: pairwise differential of every accelerated kernel vs its reference twin and of the public API under both dispatch configurations (hook H1), also under 4 concurrent threads, ASan+UBSan + ThreadSanitizer pass over the multi-threaded cases; buffer placement modes (aligned, adjacent, guard pages, far apart incl. exact multiples of 64 GiB, packed, nearby page offsets) and a per-process prelude of unrelated calls',
        runs=std(),
        rule=("case = one pair comparison (accelerated catalogue entry ~ its reference twin, N, argument seed) or one "
              "dispatch comparison (public entry point under generic-C and accelerated dispatch, N, seed); both members "
              "receive identical arguments; distinct by descriptor hash; non-trivial when the compared output is non-empty"
             " Later additions have their own keys in by_case_class (DESIGN.md 5.1): call sequences and object life cycles, multi-threaded cases (also run under ThreadSanitizer), sweeps over every value of a size parameter, placement / alignment / data-structure modes drawn from the case hash."),
        require={"all": ["conversion_threshold_values", "pair_comparisons", "dispatch_comparisons", "dispatch_config:native", "dispatch_config:avx2-only", "dispatch_config:fma-only", "concurrent_pair_comparisons", "class:bitwise", "class:modq", "class:float-budget", "class:pointwise-product",
                         "class:rounded-int64", "pair:cplx_fftvec_addmul_avx512", "pair:cplx_fftvec_addmul_sse",
                         "pair:reim_fft16_avx_fma", "pair:fft64_vmp_apply_dft_to_dft_avx"]},
        assumptions=["pairwise floating-point budget: relative 2-norm difference <= 2^-42 on the catalogue's random operands "
                     "(each member is separately held to the tight per-kernel budgets against exact oracles by C01, C02, "
                     "C06, C10, C14 and C17)", "exact rounding ties may go either way between variants",
                     "the symbol table of the built library is cross-checked against the catalogue (evidence: "
                     "uncovered_accelerated_symbols)", ASAN_NOTE],
    ),
    "C16": dict(
        runs=std(),
        rule=("case = one random well-typed straight-line program (module type, dispatch, N, program number, length 5..40) "
              "over typed values ZNX / DFT / BIG / PPOL / PMAT; every integer-valued result is compared with the exact "
              "interpreter as soon as it is produced; distinct by descriptor hash; non-trivial when the program contains "
              "a DFT-space product and a coefficient-space operation on an inverse-DFT result (FFT64) or a dft/idft round "
              "trip (NTT120)"
             " Later additions have their own keys in by_case_class (DESIGN.md 5.1): call sequences and object life cycles, multi-threaded cases (also run under ThreadSanitizer), sweeps over every value of a size parameter, placement / alignment / data-structure modes drawn from the case hash."),
        require={"all": ["calls_with_write_protected_inputs", "small_stack_calls", "concurrent_lifecycle_uses", "concurrent_entry_calls", "programs", "operations_executed", "lifecycle_uses", "op:vmp_apply_dft_to_dft", "op:svp_apply_dft",
                         "op:vec_znx_idft_tmp_a", "op:vec_znx_big_range_normalize_base2k",
                         "edge:svp_apply_dft->vmp_apply_dft_to_dft", "edge:vmp_apply_dft_to_dft->vec_znx_idft",
                         "edge:vec_znx_idft->vec_znx_big_normalize_base2k"]},
        assumptions=["the interpreter keeps 128-bit exact polynomials and a rigorous error bound eps per DFT-space value "
                     "(C01 budget per product, propagated through chained products); an operation is only emitted when "
                     "eps < 1/4 and all magnitudes are inside the documented ranges, so exact equality is the oracle",
                     ASAN_NOTE],
        technique="runtime monitoring: random API programs checked online against an exact interpreter, under ASan+UBSan + ThreadSanitizer pass over the multi-threaded cases; buffer placement modes (aligned, adjacent, guard pages, far apart incl. exact multiples of 64 GiB, packed, nearby page offsets) and a per-process prelude of unrelated calls",
    ),
}
