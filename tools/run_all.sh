#!/bin/bash
# usage: tools/run_all.sh [quick|thorough] [seed]   -- runs every check on the current /repo tree
tier="${1:-quick}"; seed="${2:-1}"
cd "$(dirname "$0")/.." || exit 2
fail=0
for p in C01 C02 C03 C04 C05 C06 C07 C08 C09 C10 C11 C12 C13 C14 C15 C16 C17 C18; do
  out=$(VERIF_SEED=$seed python3 check.py $p --tier $tier 2>&1); rc=$?
  echo "$out" | grep -E "^(OK|VIOLATION|KNOWN-FINDING|INCONCLUSIVE|  key=)" | cut -c1-300 | head -6
  [ $rc -ne 0 ] && { echo "   -> $p rc=$rc"; fail=1; }
done
exit $fail
