#!/usr/bin/env python3
"""Reach of the workloads: builds the library from /repo's working tree with gcov instrumentation (scratch
directory outside /repo and /verif, removed afterwards), drives it with the quick (or thorough) harness
workloads of every property, and writes /verif/coverage/summary.json + uncovered.txt:
per source file the executed / executable line counts and every library function that no workload entered.

This is not a check (it decides no property); it is the evidence for "which code do the monitors observe"
and the work list for extending the catalogue.

usage: tools/coverage.py [quick|thorough] [prop ...]
"""
import glob, gzip, json, os, shutil, subprocess, sys, concurrent.futures as cf

ROOT = os.path.dirname(os.path.dirname(os.path.abspath(__file__)))
SCR = "/tmp/vp_cov"
os.environ["VERIF_BUILD"] = SCR + "/build"
sys.path.insert(0, ROOT)
import check  # noqa: E402

check.CFGS["cov"] = ("--coverage -fno-omit-frame-pointer -fprofile-update=atomic", "--coverage")


def main():
    tier = sys.argv[1] if len(sys.argv) > 1 else "quick"
    props = sys.argv[2:] or sorted(check.PROPS)
    shutil.rmtree(SCR, ignore_errors=True)
    os.makedirs(SCR + "/logs")
    exe = check.build("cov")
    nparts = 16

    def one(job):
        p, part = job
        env = dict(os.environ)
        env.update(check.RUNTIME_ENV)
        r = subprocess.run([exe, p, "--tier", tier, "--seed", "1", "--part", f"{part}/{nparts}", "--log",
                            f"{SCR}/logs/{p}.{part}.log"], stdout=subprocess.DEVNULL, stderr=subprocess.DEVNULL, env=env)
        return p, part, r.returncode
    libdir = SCR + "/build/cov/lib"
    out = SCR + "/gcov"
    os.makedirs(out)
    bad = []
    files = {}
    per_prop = {}

    def collect():
        got = {}
        for g in glob.glob(libdir + "/**/*.gcda", recursive=True):
            r = subprocess.run(["gcov", "--json-format", "--stdout", g], cwd=out, stdout=subprocess.PIPE, stderr=subprocess.DEVNULL)
            if r.returncode:
                continue
            for doc in r.stdout.decode(errors="replace").splitlines():
                try:
                    j = json.loads(doc)
                except Exception:
                    continue
                for f in j.get("files", []):
                    name = f["file"]
                    if "spqlios/" not in name or "/harness/" in name:
                        continue
                    rel = name[name.index("spqlios/"):]
                    e = got.setdefault(rel, dict(lines={}, funcs={}))
                    for ln in f.get("lines", []):
                        e["lines"][ln["line_number"]] = e["lines"].get(ln["line_number"], 0) + ln["count"]
                    for fn in f.get("functions", []):
                        e["funcs"][fn["name"]] = e["funcs"].get(fn["name"], 0) + fn["execution_count"]
        return got
    for p in props:
        for g in glob.glob(libdir + "/**/*.gcda", recursive=True):
            os.remove(g)
        with cf.ThreadPoolExecutor(16) as ex:
            for pp, part, rc in ex.map(one, [(p, i) for i in range(nparts)]):
                if rc != 0:
                    bad.append((pp, part, rc))
        got = collect()
        tl_ = sum(len(e["lines"]) for e in got.values())
        te_ = sum(1 for e in got.values() for c in e["lines"].values() if c > 0)
        per_prop[p] = dict(executed_lines=te_, functions_entered=sum(1 for e in got.values() for c in e["funcs"].values() if c > 0))
        for rel, e in got.items():
            t = files.setdefault(rel, dict(lines={}, funcs={}))
            for k, c in e["lines"].items():
                t["lines"][k] = t["lines"].get(k, 0) + c
            for k, c in e["funcs"].items():
                t["funcs"][k] = t["funcs"].get(k, 0) + c
        print(p, per_prop[p], flush=True)
    summ = {}
    unc = []
    ulines = []
    tl = te = 0
    for rel in sorted(files):
        e = files[rel]
        n = len(e["lines"])
        x = sum(1 for c in e["lines"].values() if c > 0)
        nf = [k for k, c in e["funcs"].items() if c == 0]
        summ[rel] = dict(executable_lines=n, executed_lines=x, functions=len(e["funcs"]), functions_never_entered=sorted(nf))
        tl += n
        te += x
        for k in sorted(nf):
            unc.append(f"{rel}\t{k}")
        # line ranges never executed
        miss = sorted(l for l, c in e["lines"].items() if c == 0)
        rng = []
        for l in miss:
            if rng and l <= rng[-1][1] + 2:
                rng[-1][1] = l
            else:
                rng.append([l, l])
        if rng:
            ulines.append(rel + "\t" + " ".join(f"{a}-{b}" if a != b else str(a) for a, b in rng))
    os.makedirs(ROOT + "/coverage", exist_ok=True)
    head = subprocess.run(["git", "-C", check.REPO, "rev-parse", "HEAD"], stdout=subprocess.PIPE, text=True).stdout.strip()
    json.dump(dict(tier=tier, properties=props, repo_head=head, executable_lines=tl, executed_lines=te,
                   harness_failures=bad, per_property=per_prop, files=summ), open(ROOT + "/coverage/summary.json", "w"), indent=1)
    open(ROOT + "/coverage/uncovered.txt", "w").write("\n".join(unc) + "\n")
    open(ROOT + "/coverage/uncovered_lines.txt", "w").write("\n".join(ulines) + "\n")
    print(f"library lines executed by the {tier} workloads: {te}/{tl} ({100.0 * te / max(tl, 1):.1f}%); "
          f"functions never entered: {len(unc)}; harness failures: {bad}")
    shutil.rmtree(SCR, ignore_errors=True)


if __name__ == "__main__":
    main()
