#!/usr/bin/env python3
"""Runs checks against every seeded change in a scratch worktree of /repo (never /repo itself):
   tools/matrix.py [--all-checks] [name ...]
For each /verif/seeded/<name>/patch.diff: apply in the scratch worktree, run the quick check of the property
the change breaks (and, with --all-checks, every check), record which checks report a violation in
seeded/<name>/meta.json (detected_by) and print a table."""
import json, os, re, subprocess, sys, shutil
ROOT = os.path.dirname(os.path.dirname(os.path.abspath(__file__)))
MX = os.environ.get("MX_DIR", "/tmp/mx")  # scratch root (worktree, build, output, snapshot of /verif); MX_DIR lets two runs coexist
WT = MX + "/repo"
def sh(cmd, **kw):
    return subprocess.run(cmd, shell=True, stdout=subprocess.PIPE, stderr=subprocess.STDOUT, text=True, **kw)
def main():
    args = sys.argv[1:]
    allc = "--all-checks" in args
    names = [a for a in args if not a.startswith("--")] or sorted(n for n in os.listdir(os.path.join(ROOT, "seeded")) if os.path.isdir(os.path.join(ROOT, "seeded", n)) and not n.startswith("_"))
    os.makedirs(MX, exist_ok=True)
    sh(f"git -C /repo worktree remove --force {WT}")
    shutil.rmtree(WT, ignore_errors=True)
    r = sh(f"git -C /repo worktree add -q --detach {WT} HEAD")
    if r.returncode: print(r.stdout); return 2
    env = dict(os.environ, VERIF_REPO=WT, VERIF_BUILD=MX + "/build", VERIF_OUT=MX + "/out")
    # the checks run from a snapshot of /verif taken now, so that work in /verif during the (long) run cannot disturb it
    SNAP = MX + "/verif"
    shutil.rmtree(SNAP, ignore_errors=True)
    sh(f"rsync -a --exclude build --exclude replays --exclude .git {ROOT}/ {SNAP}/")
    props = sorted(json.loads(l)["id"] for l in open(os.path.join(ROOT, "properties.jsonl")))
    try:
        for name in names:
            d = os.path.join(ROOT, "seeded", name)
            meta = json.load(open(os.path.join(d, "meta.json")))
            target = meta["breaks_property"]
            r = sh(f"git -C {WT} apply {d}/patch.diff")
            if r.returncode:
                print(name, "PATCH DOES NOT APPLY", r.stdout[:200]); continue
            det = {}
            for p in (props if allc else [target] + [x for x in meta.get("also_check", []) if x != target]):
                r = subprocess.run(["python3", os.path.join(SNAP, "check.py"), p, "--tier", "quick"], env=env, stdout=subprocess.PIPE, stderr=subprocess.STDOUT, text=True, cwd=SNAP)
                keys = re.findall(r"^  key=(.*)$", r.stdout, re.M)
                det[p] = dict(rc=r.returncode, violations=len(keys), first_keys=keys[:3])
            sh(f"git -C {WT} checkout -- . && git -C {WT} clean -fdq")
            meta["detected_by"] = {p: v for p, v in det.items() if v["rc"] == 1}
            meta["not_detected_by"] = sorted(p for p, v in det.items() if v["rc"] == 0)
            meta["inconclusive"] = sorted(p for p, v in det.items() if v["rc"] not in (0, 1))
            meta["ran"] = "tools/matrix.py: quick checks with VERIF_REPO=<scratch worktree of /repo HEAD + patch> (removed afterwards)"
            json.dump(meta, open(os.path.join(d, "meta.json"), "w"), indent=1)
            print(f"{name:10s} breaks {target}: detected by {sorted(meta['detected_by'])}" + (f" | NOT by own check!" if target not in meta["detected_by"] else "") + (f" | inconclusive {meta['inconclusive']}" if meta["inconclusive"] else ""), flush=True)
    finally:
        sh(f"git -C /repo worktree remove --force {WT}")
        shutil.rmtree(MX, ignore_errors=True)
    return 0
if __name__ == "__main__":
    sys.exit(main())
