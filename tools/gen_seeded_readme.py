#!/usr/bin/env python3
"""Regenerates seeded/README.md and the table of DESIGN.md section 5.1 from seeded/*/meta.json."""
import json, os, re
ROOT = os.path.dirname(os.path.dirname(os.path.abspath(__file__)))
HDR = "| seeded change | breaks | what it is (short) | quick checks that report it | also ran, silent |\n|---|---|---|---|---|\n"


def short(meta):
    if meta.get("what"):
        return meta["what"]
    t = meta.get("needs_to_manifest", "")
    for line in t.splitlines():
        line = line.strip().lstrip("#").strip()
        if line:
            return line.replace("|", "/")[:160]
    return ""


def main():
    rows = []
    sd = os.path.join(ROOT, "seeded")
    for n in sorted(os.listdir(sd)):
        mp = os.path.join(sd, n, "meta.json")
        if not os.path.exists(mp):
            continue
        m = json.load(open(mp))
        det = sorted(m.get("detected_by", {}))
        own = m["breaks_property"]
        mark = "" if own in det else " **(own check silent)**"
        rows.append(f"| {n} | {own} | {short(m)} | {', '.join(det)}{mark} | {', '.join(m.get('not_detected_by', []))} |")
    table = HDR + "\n".join(rows) + "\n"
    open(os.path.join(sd, "README.md"), "w").write(
        "# Seeded changes and the checks that catch them\n\nGenerated from seeded/*/meta.json (tools/matrix.py, tools/gen_seeded_readme.py). Every change compiles, "
        "passes the 238 existing tests and was confirmed in a scratch worktree (tools/confirm_mutant.py); the `*-revert` entries are the reverses of the "
        "`fix:` commits, i.e. the pinned tree's own defects. Names `<P>-A/B` are round 1, `<P>-C/D` round 2.\n\n" + table)
    dp = os.path.join(ROOT, "DESIGN.md")
    s = open(dp).read()
    i = s.index(HDR.splitlines()[0])
    j = s.index("\n\n", i)
    s = s[:i] + table.rstrip("\n") + s[j:]
    open(dp, "w").write(s)
    print(len(rows), "rows")


if __name__ == "__main__":
    main()
