#!/usr/bin/env python3
"""Regenerates MANIFEST.json from props.py (run after adding/changing a property plan)."""
import json, os, subprocess, sys
ROOT = os.path.dirname(os.path.dirname(os.path.abspath(__file__)))
sys.path.insert(0, ROOT)
from props import PROPS
props = [json.loads(l) for l in open(os.path.join(ROOT, "properties.jsonl"))]
hooks_commits = subprocess.run(["git", "-C", "/repo", "log", "--format=%H %s", "--grep=^verif:"],
                               stdout=subprocess.PIPE, text=True).stdout.strip().splitlines()
checks, na = [], []
for p in props:
    pid = p["id"]
    if pid in PROPS:
        P = PROPS[pid]
        checks.append(dict(
            property_id=pid,
            quick_cmd=f"python3 check.py {pid} --tier quick",
            thorough_cmd=f"python3 check.py {pid} --tier thorough",
            evidence_file=f"evidence/{pid}.json",
            replay_cmd_template=f"python3 check.py {pid} --replay {{path}}",
            engine="vp_harness",
            level_claimed=dict(category="exploration", text=P.get("level_text", "held on the executions listed in the evidence: real library code run under sanitizers with an independent oracle on every case"), design_ref=f"DESIGN.md section 3, {pid}"),
            level_note=P.get("level_note", "trusts gcc sanitizers' shadow state, the harness oracles (cross-checked at start-up) and that the RelWithDebInfo build equals the shipped configuration"),
            technique=P.get("technique", "runtime monitoring: differential oracle on real executions under ASan+UBSan"),
        ))
    else:
        na.append(dict(property_id=pid, reason="check not yet built in this snapshot (work in progress, see DESIGN.md)"))
m = dict(
    version=1,
    setup_cmd="python3 check.py --setup",
    hooks=dict(guard="SPQLIOS_VERIF",
               enable="check.py configures /repo's CMake with -DCMAKE_C_FLAGS='<sanitizer flags> -DSPQLIOS_VERIF' into /verif/build/<cfg>/lib",
               baseline_off_cmd="cmake --build /repo/_build && ctest --test-dir /repo/_build -j8 --timeout 900",
               source_commits=[c.split()[0] for c in hooks_commits],
               add_only=True),
    engines=[dict(name="vp_harness", path="harness/", serves_properties=sorted(PROPS), kind_free_text="C harness linked against the sanitizer-instrumented libspqlios.a; sub-command per property; driven by check.py")],
    checks=checks,
    notes="Technique family: runtime monitoring and sanitizers. See DESIGN.md.",
)
m["not_applicable"] = na  # empty: every property is claimed (DESIGN.md section 8 lists the sub-claims out of reach)
json.dump(m, open(os.path.join(ROOT, "MANIFEST.json"), "w"), indent=1)
print("checks:", [c["property_id"] for c in checks], "pending:", [n["property_id"] for n in na])
