#!/usr/bin/env python3
"""Confirms a seeded change in a scratch worktree of /repo (outside /repo and /verif) and, when it
holds up, installs it as /verif/seeded/<name>/ (patch.diff, demo.c, meta.json).

usage: confirm_mutant.py <dir with patch.diff + demo.c [+ NOTES.md]> <name> <property id>

Confirmed means: (a) clean tree: suite passes, demo passes; (b) patch applied: library builds, the
existing suite still passes (238 tests), the demo fails.
"""
import json, os, re, shutil, subprocess, sys, time

def sh(cmd, cwd=None, timeout=1800):
    p = subprocess.run(cmd, shell=True, cwd=cwd, stdout=subprocess.PIPE, stderr=subprocess.STDOUT, text=True, timeout=timeout)
    return p.returncode, p.stdout

def main():
    src, name, prop = sys.argv[1], sys.argv[2], sys.argv[3]
    wt = f"/tmp/cm/{name}"
    os.makedirs("/tmp/cm", exist_ok=True)
    sh(f"git -C /repo worktree remove --force {wt}")
    shutil.rmtree(wt, ignore_errors=True)
    rc, out = sh(f"git -C /repo worktree add -q --detach {wt} HEAD")
    if rc: print(out); return 2
    res = dict(name=name, property=prop, repo_head=sh("git -C /repo rev-parse HEAD")[1].strip())
    try:
        def build():
            rc, out = sh("cmake -S . -B _build -G Ninja -DCMAKE_BUILD_TYPE=RelWithDebInfo -DCMAKE_C_FLAGS=-Wno-error -DCMAKE_CXX_FLAGS=-Wno-error >/dev/null && cmake --build _build 2>&1 | tail -5", cwd=wt)
            return rc == 0 and os.path.exists(f"{wt}/_build/test/spqlios-test"), out
        def suite():
            rc, out = sh("./_build/test/spqlios-test 2>&1 | tail -3", cwd=wt)
            m = re.search(r"\[  PASSED  \] (\d+) tests", out)
            return bool(m) and "FAILED" not in out, out.strip()[-200:]
        def demo():
            rc, out = sh(f"gcc -O1 -g -I{wt} {src}/demo.c {wt}/_build/spqlios/libspqlios.a -lm -lpthread -o {wt}/demo_bin 2>&1 | tail -5", cwd=wt)
            if not os.path.exists(f"{wt}/demo_bin"): return None, "demo build failed: " + out
            try:
                rc, out = sh("./demo_bin 2>&1 | tail -8", cwd=wt, timeout=600)
                rc2 = subprocess.run("./demo_bin >/dev/null 2>&1", shell=True, cwd=wt, timeout=600).returncode
            except subprocess.TimeoutExpired:
                return False, "demo timed out"
            os.remove(f"{wt}/demo_bin")
            return rc2 == 0 and "FAIL" not in out, out.strip()[-400:]
        ok, out = build(); res["clean_build"] = ok
        if not ok: res["error"] = out; raise SystemExit
        res["clean_suite_pass"], res["clean_suite_out"] = suite()
        res["clean_demo_pass"], res["clean_demo_out"] = demo()
        rc, out = sh(f"git apply {src}/patch.diff", cwd=wt)
        res["patch_applies"] = rc == 0
        if rc: res["error"] = out; raise SystemExit
        ok, out = build(); res["mutant_build"] = ok
        if not ok: res["error"] = out; raise SystemExit
        res["mutant_suite_pass"], res["mutant_suite_out"] = suite()
        res["mutant_demo_pass"], res["mutant_demo_out"] = demo()
    except SystemExit:
        pass
    finally:
        sh(f"git -C /repo worktree remove --force {wt}")
        shutil.rmtree(wt, ignore_errors=True)
    confirmed = bool(res.get("clean_suite_pass") and res.get("clean_demo_pass") and res.get("patch_applies")
                     and res.get("mutant_build") and res.get("mutant_suite_pass") and res.get("mutant_demo_pass") is False)
    res["confirmed"] = confirmed
    if confirmed:
        dst = f"/verif/seeded/{name}"
        os.makedirs(dst, exist_ok=True)
        shutil.copy(f"{src}/patch.diff", f"{dst}/patch.diff")
        shutil.copy(f"{src}/demo.c", f"{dst}/demo.c")
        notes = open(f"{src}/NOTES.md").read() if os.path.exists(f"{src}/NOTES.md") else ""
        meta = dict(name=name, breaks_property=prop, origin="independent sub-agent given only the property text and a scratch worktree",
                    needs_to_manifest=notes, confirmed_by="tools/confirm_mutant.py in scratch worktree /tmp/cm (removed afterwards)",
                    confirmation=res, detected_by={})
        json.dump(meta, open(f"{dst}/meta.json", "w"), indent=1)
    print(json.dumps({k: v for k, v in res.items() if not k.endswith("_out")}, indent=0).replace("\n", " "))
    return 0 if confirmed else 1

if __name__ == "__main__":
    sys.exit(main())
