#!/bin/bash
# usage: tools/try_patch.sh <patch.diff> <ID> [tier]  -- applies a patch to /repo, runs a check, reverts
set -u
patch="$1"; id="$2"; tier="${3:-quick}"
cd /repo || exit 2
if [ -n "$(git status --porcelain --untracked-files=no)" ]; then echo "repo dirty"; exit 2; fi
git apply "$patch" || { echo "patch does not apply"; exit 2; }
cd /verif
python3 check.py "$id" --tier "$tier" 2>&1 | grep -E "^(VIOLATION|KNOWN-FINDING|OK|INCONCLUSIVE|  key=)" | head -20
rc=${PIPESTATUS[0]}
git -C /repo checkout -- .
echo "rc=$rc"
